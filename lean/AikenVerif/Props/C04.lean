import AikenVerif.Props.C10
import AikenVerif.Lemmas.ExpMod
import AikenVerif.Lemmas.Bits
import AikenVerif.Lemmas.BytesLex
import AikenVerif.Lemmas.Utf8
/-!
# C04 — builtins compute their specified function on their whole domain: property theorems

`callBuiltin` is the impl model of `DefaultFunction::call` (tied to the Rust by the correspondences
`c04-builtin`, `c03-cek`, `c10-eval`).  The theorems below state, for ALL arguments, that it is the
function of the Plutus builtin specification: the mathematical characterisation of each result
(sign conventions, rounding, padding/truncation, index origin, variant-dependent range checks), its
exact failure conditions, and the inverse laws between constructors and destructors.
-/
namespace AikenVerif.C04
open AikenVerif Gen

abbrev I (n : Int) : Value := .con (.integer n)
abbrev BS (b : Bytes) : Value := .con (.bytestring b)
abbrev D (d : Data) : Value := .con (.data d)

-- ------------------------------------------------------------------ integer arithmetic
theorem add_sub_mul_spec (sem : Sem) (a b : Int) :
    callBuiltin sem .addInteger [I a, I b] = .ok (I (a + b)) ∧
    callBuiltin sem .subtractInteger [I a, I b] = .ok (I (a - b)) ∧
    callBuiltin sem .multiplyInteger [I a, I b] = .ok (I (a * b)) := by
  refine ⟨rfl, rfl, rfl⟩

/-- the four division builtins fail exactly on a zero divisor -/
theorem division_fails_iff_zero (sem : Sem) (a b : Int) :
    (callBuiltin sem .divideInteger [I a, I b] = .err ↔ b = 0) ∧
    (callBuiltin sem .modInteger [I a, I b] = .err ↔ b = 0) ∧
    (callBuiltin sem .quotientInteger [I a, I b] = .err ↔ b = 0) ∧
    (callBuiltin sem .remainderInteger [I a, I b] = .err ↔ b = 0) := by
  refine ⟨?_, ?_, ?_, ?_⟩ <;>
    (simp only [callBuiltin, callBuiltinCore, getArgB, List.getElem?_cons_zero, List.getElem?_cons_succ,
      Value.unwrapInteger, bind, Res.bind, pure]
     by_cases h : b = 0 <;> simp [h])

theorem fmod_neg_bounds (a b : Int) (h : b < 0) : b < a.fmod b ∧ a.fmod b ≤ 0 := by
  rw [Int.fmod_eq_emod]
  have h1 : 0 ≤ a % b := Int.emod_nonneg a (by omega)
  have h2 : a % b < -b := by
    have := Int.emod_lt_of_pos a (b := -b) (by omega)
    rwa [Int.emod_neg] at this
  by_cases hd : b ∣ a
  · have : a % b = 0 := Int.emod_eq_zero_of_dvd hd
    simp [hd, this]; omega
  · have hne : a % b ≠ 0 := fun h0 => hd (Int.dvd_of_emod_eq_zero h0)
    have : ¬ (0 ≤ b ∨ b ∣ a) := by intro h'; rcases h' with h' | h'; omega; exact hd h'
    simp only [this, if_false]
    omega

/-- `divideInteger`/`modInteger` are floor division: `a = b·q + r` with `r` between 0 and `b`
(sign of the DIVISOR) -/
theorem divide_mod_law (sem : Sem) (a b : Int) (hb : b ≠ 0) :
    ∃ q r, callBuiltin sem .divideInteger [I a, I b] = .ok (I q) ∧
           callBuiltin sem .modInteger [I a, I b] = .ok (I r) ∧
           a = b * q + r ∧ (0 < b → 0 ≤ r ∧ r < b) ∧ (b < 0 → b < r ∧ r ≤ 0) := by
  refine ⟨a.fdiv b, a.fmod b, ?_, ?_, ?_, ?_, ?_⟩
  · simp [callBuiltin, callBuiltinCore, getArgB, Value.unwrapInteger, bind, Res.bind, pure, hb]
  · simp [callBuiltin, callBuiltinCore, getArgB, Value.unwrapInteger, bind, Res.bind, pure, hb]
  · rw [Int.fmod_def]; omega
  · intro h; exact ⟨Int.fmod_nonneg_of_pos a h, Int.fmod_lt_of_pos a h⟩
  · intro h; exact fmod_neg_bounds a b h

/-- `quotientInteger`/`remainderInteger` truncate towards zero: `a = b·q + r`, `|r| < |b|`, and `r`
has the sign of the DIVIDEND -/
theorem quot_rem_law (sem : Sem) (a b : Int) (hb : b ≠ 0) :
    ∃ q r, callBuiltin sem .quotientInteger [I a, I b] = .ok (I q) ∧
           callBuiltin sem .remainderInteger [I a, I b] = .ok (I r) ∧
           a = b * q + r ∧ r.natAbs < b.natAbs ∧ (0 ≤ a → 0 ≤ r) ∧ (a ≤ 0 → r ≤ 0) := by
  refine ⟨a.tdiv b, a.tmod b, ?_, ?_, ?_, ?_, ?_, ?_⟩
  · simp [callBuiltin, callBuiltinCore, getArgB, Value.unwrapInteger, bind, Res.bind, pure, hb]
  · simp [callBuiltin, callBuiltinCore, getArgB, Value.unwrapInteger, bind, Res.bind, pure, hb]
  · rw [Int.tmod_def]; omega
  · rw [Int.natAbs_tmod]; exact Nat.mod_lt _ (by omega)
  · intro h; exact Int.tmod_nonneg b h
  · intro h
    have := Int.tmod_nonneg (a := -a) b (by omega)
    rw [Int.neg_tmod] at this
    omega

theorem comparison_spec (sem : Sem) (a b : Int) :
    callBuiltin sem .equalsInteger [I a, I b] = .ok (.con (.bool (a == b))) ∧
    callBuiltin sem .lessThanInteger [I a, I b] = .ok (.con (.bool (decide (a < b)))) ∧
    callBuiltin sem .lessThanEqualsInteger [I a, I b] = .ok (.con (.bool (decide (a ≤ b)))) := by
  refine ⟨rfl, rfl, rfl⟩

/-- a wrong argument type is an evaluation failure, never a value, never a crash -/
theorem wrong_type_fails (sem : Sem) (x : Bytes) (b : Int) :
    callBuiltin sem .addInteger [BS x, I b] = .err ∧ callBuiltin sem .addInteger [I b, BS x] = .err ∧
    callBuiltin sem .lengthOfByteString [I b] = .err := by
  refine ⟨rfl, rfl, rfl⟩

-- ------------------------------------------------------------------ byte strings
/-- `consByteString`: semantics C/E reject integers outside 0..255, the others wrap modulo 256 -/
theorem cons_variant (sem : Sem) (n : Int) (bs : Bytes) :
    callBuiltin sem .consByteString [I n, BS bs] =
      (if sem = .C ∨ sem = .E then
        (if 0 ≤ n ∧ n ≤ 255 then .ok (BS (UInt8.ofNat n.toNat :: bs)) else .err)
       else .ok (BS (UInt8.ofNat (n.fmod 256).toNat :: bs))) := by
  cases sem <;>
    simp only [callBuiltin, callBuiltinCore, getArgB, List.getElem?_cons_zero, List.getElem?_cons_succ,
      Value.unwrapInteger, Value.unwrapByteString, bind, Res.bind, pure, consRangeChecks] <;>
    (try simp) <;>
    (by_cases h : 0 ≤ n ∧ n ≤ 255
     · have : ¬ (n > 255 ∨ n < 0) := by omega
       simp [h, this]
     · have : (n > 255 ∨ n < 0) := by omega
       simp [h, this])

/-- `sliceByteString s k bs` = the bytes at positions `max s 0 ≤ i < max s 0 + max k 0`, for ANY
integers (no size limit on `s`, `k`) -/
theorem slice_spec (sem : Sem) (s k : Int) (bs : Bytes) :
    callBuiltin sem .sliceByteString [I s, I k, BS bs] = .ok (BS ((bs.drop s.toNat).take k.toNat)) := rfl

theorem slice_length (s k : Int) (bs : Bytes) :
    ((bs.drop s.toNat).take k.toNat).length = min k.toNat (bs.length - s.toNat) := by
  simp [List.length_take, List.length_drop]

/-- `indexByteString` succeeds exactly inside the bounds and returns that byte -/
theorem index_spec (sem : Sem) (bs : Bytes) (i : Int) :
    callBuiltin sem .indexByteString [BS bs, I i] =
      (if h : 0 ≤ i ∧ i < bs.length then .ok (I (bs[i.toNat]'(by omega)).toNat) else .err) := by
  simp only [callBuiltin, callBuiltinCore, getArgB, List.getElem?_cons_zero, List.getElem?_cons_succ,
    Value.unwrapInteger, Value.unwrapByteString, bind, Res.bind, pure]
  by_cases h : 0 ≤ i ∧ i < bs.length
  · have hlt : i.toNat < bs.length := by omega
    simp [h, List.getElem?_eq_getElem hlt]
  · simp [h]

theorem length_append_spec (sem : Sem) (x y : Bytes) :
    callBuiltin sem .appendByteString [BS x, BS y] = .ok (BS (x ++ y)) ∧
    callBuiltin sem .lengthOfByteString [BS x] = .ok (I x.length) := ⟨rfl, rfl⟩

/-- bitwise and/or/xor: padding semantics keeps the longer length, truncation the shorter -/
theorem zipBytes_length (f : UInt8 → UInt8 → UInt8) (pad : Bool) (x y : Bytes) :
    (zipBytes f pad x y).length = if pad then max x.length y.length else min x.length y.length := by
  induction x generalizing y with
  | nil => cases y <;> cases pad <;> simp [zipBytes]
  | cons a as ih =>
    cases y with
    | nil => cases pad <;> simp [zipBytes]
    | cons b bs =>
      simp only [zipBytes, List.length_cons, ih]
      cases pad <;> simp <;> omega

theorem complement_involutive (sem : Sem) (x : Bytes) :
    ∃ y, callBuiltin sem .complementByteString [BS x] = .ok (BS y) ∧
         callBuiltin sem .complementByteString [BS y] = .ok (BS x) := by
  refine ⟨x.map (· ^^^ 255), rfl, ?_⟩
  simp only [callBuiltin, callBuiltinCore, getArgB, List.getElem?_cons_zero, Value.unwrapByteString, bind,
    Res.bind, pure, List.map_map]
  congr 2
  have : ((fun (b : UInt8) => b ^^^ 255) ∘ fun b => b ^^^ 255) = id := by
    funext b
    simp only [Function.comp, id]
    rw [UInt8.xor_assoc]
    simp
  rw [this, List.map_id]

-- ------------------------------------------------------------------ integer <-> bytes
theorem toNatBE_append (xs : Bytes) (b : UInt8) : Bytes'.toNatBE (xs ++ [b]) = 256 * Bytes'.toNatBE xs + b.toNat := by
  simp [Bytes'.toNatBE, List.foldl_append]

theorem toNatBE_ofNatLE_reverse : ∀ n : Nat, Bytes'.toNatBE (Bytes'.ofNatLE n).reverse = n := by
  intro n
  induction n using Nat.strongRecOn with
  | _ n ih =>
    rw [Bytes'.ofNatLE]
    by_cases h : n = 0
    · simp [h, Bytes'.toNatBE]
    · simp only [h, dite_false, List.reverse_cons]
      rw [toNatBE_append, ih (n / 256) (by omega)]
      have : (UInt8.ofNat (n % 256)).toNat = n % 256 := by
        simp [UInt8.toNat_ofNat']
      rw [this]; omega

theorem toNatBE_zeros (k : Nat) (xs : Bytes) : Bytes'.toNatBE (List.replicate k (0 : UInt8) ++ xs) = Bytes'.toNatBE xs := by
  induction k with
  | zero => rfl
  | succ k ih =>
    simp only [List.replicate_succ, List.cons_append]
    unfold Bytes'.toNatBE at *
    simp only [List.foldl_cons]
    simpa using ih

theorem callBuiltin_of_core_con {sem : Sem} {b : Builtin} {args : List Value} {c : Const}
    (h : callBuiltinCore sem b args = .ok (.con c)) : callBuiltin sem b args = .ok (.con c) := by
  simp [callBuiltin, h, Res.bind]

/-- `byteStringToInteger` inverts `integerToByteString` (core level): for every endianness, width and
input, if the conversion succeeds then converting back gives the original integer -/
theorem i2bs_bs2i_core (sem : Sem) (be : Bool) (w n : Int) (bs : Bytes)
    (h : callBuiltinCore sem .integerToByteString [.con (.bool be), I w, I n] = .ok (.con (.bytestring bs))) :
    callBuiltinCore sem .byteStringToInteger [.con (.bool be), BS bs] = .ok (.con (.integer n)) := by
  have hgoal : ∀ bs', Bytes'.toNatBE (if be = true then bs' else bs'.reverse) = n.toNat → 0 ≤ n →
      callBuiltinCore sem .byteStringToInteger [.con (.bool be), BS bs'] = .ok (.con (.integer n)) := by
    intro bs' hb hn
    simp only [callBuiltinCore, getArgB, List.getElem?_cons_zero, List.getElem?_cons_succ,
      Value.unwrapBool, Value.unwrapByteString, bind, Res.bind, pure, hb]
    congr 3; omega
  simp only [callBuiltinCore, getArgB, List.getElem?_cons_zero, List.getElem?_cons_succ,
    Value.unwrapBool, Value.unwrapInteger, bind, Res.bind, pure] at h
  split at h
  · cases h
  · split at h
    · cases h
    · rename_i hneg
      split at h
      · cases h
      · split at h
        · rename_i hz
          injection h with h; injection h with h; injection h with h
          subst h; subst hz
          apply hgoal _ _ (by omega)
          have hz0 : Bytes'.toNatBE (List.replicate w.toNat (0 : UInt8)) = 0 := by
            have := toNatBE_zeros w.toNat []
            simp only [List.append_nil] at this
            rw [this]; rfl
          cases be <;> simp [List.reverse_replicate, hz0]
        · split at h
          · cases h
          · split at h
            · injection h with h; injection h with h; injection h with h
              subst h
              apply hgoal _ _ (by omega)
              cases be
              · simp only [Bool.false_eq_true, if_false, List.reverse_append, List.reverse_replicate]
                rw [toNatBE_zeros, toNatBE_ofNatLE_reverse]
              · simp only [if_true]
                rw [toNatBE_zeros, toNatBE_ofNatLE_reverse]
            · injection h with h; injection h with h; injection h with h
              subst h
              apply hgoal _ _ (by omega)
              cases be
              · simp only [Bool.false_eq_true, if_false]
                rw [toNatBE_ofNatLE_reverse]
              · simp only [if_true]
                rw [toNatBE_ofNatLE_reverse]

/-- **`byteStringToInteger` inverts `integerToByteString`**: for every endianness, requested width and
integer, whenever the conversion succeeds, converting the bytes back gives the original integer -/
theorem i2bs_bs2i (sem : Sem) (be : Bool) (w n : Int) (bs : Bytes)
    (h : callBuiltin sem .integerToByteString [.con (.bool be), I w, I n] = .ok (BS bs)) :
    callBuiltin sem .byteStringToInteger [.con (.bool be), BS bs] = .ok (I n) := by
  apply callBuiltin_of_core_con
  apply i2bs_bs2i_core sem be w n bs
  unfold callBuiltin at h
  cases hc : callBuiltinCore sem .integerToByteString [.con (.bool be), I w, I n] with
  | ok o =>
    rw [hc] at h
    cases o with
    | con c => simp only [Res.bind] at h; injection h with h; injection h with h; rw [h]
    | arg i =>
      exfalso
      simp only [Res.bind, getArgB] at h
      match i with
      | 0 => simp at h
      | 1 => simp at h
      | 2 => simp at h
      | (k + 3) => simp at h
  | err => rw [hc] at h; cases h
  | panic => rw [hc] at h; cases h
  | unmodelled => rw [hc] at h; cases h

-- ------------------------------------------------------------------ data
/-- constructors and destructors of `data` are mutually inverse -/
theorem data_constructors_destructors (sem : Sem) (n : Int) (b : Bytes) (ds : List Data) (es : List (Data × Data)) :
    callBuiltin sem .unIData [D (.int n)] = .ok (I n) ∧
    callBuiltin sem .iData [I n] = .ok (D (.int n)) ∧
    callBuiltin sem .unBData [D (.bytes b)] = .ok (BS b) ∧
    callBuiltin sem .bData [BS b] = .ok (D (.bytes b)) ∧
    callBuiltin sem .unListData [D (.list ds)] = .ok (.con (.list .data (ds.map .data))) ∧
    callBuiltin sem .unMapData [D (.map es)] =
      .ok (.con (.list (.pair .data .data) (es.map fun (k, v) => .pair .data .data (.data k) (.data v)))) := by
  refine ⟨rfl, rfl, rfl, rfl, rfl, rfl⟩

theorem dataItems_map (ds : List Data) : dataItems (ds.map Const.data) = .ok ds := by
  induction ds with
  | nil => rfl
  | cons d ds ih => simp [dataItems, ih, bind, Res.bind, pure]

theorem pairItems_map (es : List (Data × Data)) :
    pairItems (es.map fun (k, v) => Const.pair .data .data (.data k) (.data v)) = .ok es := by
  induction es with
  | nil => rfl
  | cons e es ih => obtain ⟨k, v⟩ := e; simp [pairItems, ih, bind, Res.bind, pure]

theorem listData_unListData (sem : Sem) (ds : List Data) :
    callBuiltin sem .listData [.con (.list .data (ds.map .data))] = .ok (D (.list ds)) := by
  simp [callBuiltin, callBuiltinCore, getArgB, Value.unwrapDataList, bind, Res.bind, pure, dataItems_map]

theorem mapData_unMapData (sem : Sem) (es : List (Data × Data)) :
    callBuiltin sem .mapData
      [.con (.list (.pair .data .data) (es.map fun (k, v) => .pair .data .data (.data k) (.data v)))] =
      .ok (D (.map es)) := by
  simp [callBuiltin, callBuiltinCore, getArgB, Value.unwrapList, bind, Res.bind, pure, pairItems_map]

/-- `constrData` / `unConstrData` round trip for every representable constructor index -/
theorem constrData_unConstrData (sem : Sem) (tag : Nat) (ds : List Data) (h : tag < 2 ^ 64) :
    callBuiltin sem .constrData [I tag, .con (.list .data (ds.map .data))] = .ok (D (.constr tag ds)) ∧
    callBuiltin sem .unConstrData [D (.constr tag ds)] =
      .ok (.con (.pair .integer (.list .data) (.integer tag) (.list .data (ds.map .data)))) := by
  constructor
  · have hf : fitsU64 (tag : Int) = true := by simp [fitsU64]; omega
    simp [callBuiltin, callBuiltinCore, getArgB, Value.unwrapInteger, Value.unwrapDataList, bind, Res.bind, pure,
      dataItems_map, hf]
  · rfl

mutual
  theorem beq_refl (d : Data) : Data.beq d d = true := by
    cases d with
    | constr t fs => simp [Data.beq, beqList_refl fs]
    | map es => simp [Data.beq, beqPairs_refl es]
    | list xs => simp [Data.beq, beqList_refl xs]
    | int n => simp [Data.beq]
    | bytes b => simp [Data.beq]
  theorem beqList_refl (ds : List Data) : Data.beqList ds ds = true := by
    cases ds with
    | nil => rfl
    | cons d ds => simp [Data.beqList, beq_refl d, beqList_refl ds]
  theorem beqPairs_refl (es : List (Data × Data)) : Data.beqPairs es es = true := by
    cases es with
    | nil => rfl
    | cons e es => obtain ⟨k, v⟩ := e; simp [Data.beqPairs, beq_refl k, beq_refl v, beqPairs_refl es]
end

mutual
  theorem eq_of_beq (a b : Data) (h : Data.beq a b = true) : a = b := by
    cases a with
    | constr t fs =>
      cases b with
      | constr t' fs' =>
        simp only [Data.beq, Bool.and_eq_true, beq_iff_eq] at h
        rw [h.1, eqList_of_beq fs fs' h.2]
      | map _ => simp [Data.beq] at h
      | list _ => simp [Data.beq] at h
      | int _ => simp [Data.beq] at h
      | bytes _ => simp [Data.beq] at h
    | map es =>
      cases b with
      | map es' => simp only [Data.beq] at h; rw [eqPairs_of_beq es es' h]
      | constr _ _ => simp [Data.beq] at h
      | list _ => simp [Data.beq] at h
      | int _ => simp [Data.beq] at h
      | bytes _ => simp [Data.beq] at h
    | list xs =>
      cases b with
      | list ys => simp only [Data.beq] at h; rw [eqList_of_beq xs ys h]
      | constr _ _ => simp [Data.beq] at h
      | map _ => simp [Data.beq] at h
      | int _ => simp [Data.beq] at h
      | bytes _ => simp [Data.beq] at h
    | int n =>
      cases b with
      | int m => simp only [Data.beq, beq_iff_eq] at h; rw [h]
      | constr _ _ => simp [Data.beq] at h
      | map _ => simp [Data.beq] at h
      | list _ => simp [Data.beq] at h
      | bytes _ => simp [Data.beq] at h
    | bytes x =>
      cases b with
      | bytes y => simp only [Data.beq, beq_iff_eq] at h; rw [h]
      | constr _ _ => simp [Data.beq] at h
      | map _ => simp [Data.beq] at h
      | list _ => simp [Data.beq] at h
      | int _ => simp [Data.beq] at h
  theorem eqList_of_beq (xs ys : List Data) (h : Data.beqList xs ys = true) : xs = ys := by
    cases xs with
    | nil =>
      cases ys with
      | nil => rfl
      | cons _ _ => simp [Data.beqList] at h
    | cons x xs =>
      cases ys with
      | nil => simp [Data.beqList] at h
      | cons y ys =>
        simp only [Data.beqList, Bool.and_eq_true] at h
        rw [eq_of_beq x y h.1, eqList_of_beq xs ys h.2]
  theorem eqPairs_of_beq (xs ys : List (Data × Data)) (h : Data.beqPairs xs ys = true) : xs = ys := by
    cases xs with
    | nil =>
      cases ys with
      | nil => rfl
      | cons _ _ => simp [Data.beqPairs] at h
    | cons x xs =>
      obtain ⟨k, v⟩ := x
      cases ys with
      | nil => simp [Data.beqPairs] at h
      | cons y ys =>
        obtain ⟨k', v'⟩ := y
        simp only [Data.beqPairs, Bool.and_eq_true] at h
        rw [eq_of_beq k k' h.1.1, eq_of_beq v v' h.1.2, eqPairs_of_beq xs ys h.2]
end

/-- `equalsData` is structural equality of the abstract data values (no encoding is visible):
it answers `true` exactly for equal values -/
theorem equalsData_is_structural (sem : Sem) (a b : Data) :
    ∃ r, callBuiltin sem .equalsData [D a, D b] = .ok (.con (.bool r)) ∧ (r = true ↔ a = b) := by
  refine ⟨Data.beq a b, rfl, ?_⟩
  constructor
  · exact eq_of_beq a b
  · intro h; subst h; exact beq_refl a

-- ------------------------------------------------------------------ lists
theorem list_builtins_spec (sem : Sem) (t : Ty) (x : Const) (xs : List Const) :
    callBuiltin sem .headList [.con (.list t (x :: xs))] = .ok (.con x) ∧
    callBuiltin sem .tailList [.con (.list t (x :: xs))] = .ok (.con (.list t xs)) ∧
    callBuiltin sem .headList [.con (.list t [])] = .err ∧
    callBuiltin sem .tailList [.con (.list t [])] = .err ∧
    callBuiltin sem .nullList [.con (.list t [])] = .ok (.con (.bool true)) ∧
    callBuiltin sem .nullList [.con (.list t (x :: xs))] = .ok (.con (.bool false)) := by
  refine ⟨rfl, rfl, rfl, rfl, rfl, rfl⟩

/-- `mkCons` accepts exactly an element of the list's element type -/
theorem mkCons_spec (sem : Sem) (t : Ty) (x : Const) (xs : List Const) :
    callBuiltin sem .mkCons [.con x, .con (.list t xs)] =
      (if x.ty = t then .ok (.con (.list t (x :: xs))) else .err) := by
  simp only [callBuiltin, callBuiltinCore, getArgB, List.getElem?_cons_zero, List.getElem?_cons_succ,
    Value.unwrapConstant, Value.unwrapList, bind, Res.bind, pure]
  by_cases h : x.ty = t
  · have : ¬ t ≠ x.ty := by simp [h]
    simp [h]
  · have : t ≠ x.ty := fun h' => h h'.symm
    simp [h, this]

/-- `dropList n xs`: non-positive `n` leaves the list, otherwise the first `n` elements go (all of
them when `n` exceeds the length, whatever the size of `n`) -/
theorem dropList_spec (sem : Sem) (n : Int) (t : Ty) (xs : List Const) :
    callBuiltin sem .dropList [I n, .con (.list t xs)] = .ok (.con (.list t (xs.drop n.toNat))) := by
  simp only [callBuiltin, callBuiltinCore, getArgB, List.getElem?_cons_zero, List.getElem?_cons_succ,
    Value.unwrapInteger, Value.unwrapList, bind, Res.bind, pure]
  by_cases h : n ≤ 0
  · have : n.toNat = 0 := by omega
    simp [h, this]
  · simp [h]

/-- polymorphic selectors return one of their arguments unchanged, whatever it is -/
theorem selectors_spec (sem : Sem) (a b : Value) :
    callBuiltin sem .ifThenElse [.con (.bool true), a, b] = .ok a ∧
    callBuiltin sem .ifThenElse [.con (.bool false), a, b] = .ok b ∧
    callBuiltin sem .chooseUnit [.con .unit, a] = .ok a ∧
    callBuiltin sem .trace [.con (.string []), a] = .ok a := by
  refine ⟨rfl, rfl, rfl, rfl⟩

-- ------------------------------------------------------------------ expModInteger
/-- `expModInteger b e m` with `e ≥ 0` IS `b ^ e mod m` (mathematical, non-negative remainder) for
every base, exponent and modulus `> 1` inside the implementation's 8192-bit operand limits -/
theorem expMod_is_modular_exponentiation (sem : Sem) (b e m : Int) (hm : 1 < m) (hmb : m ≤ expModBound - 1)
    (he : 0 ≤ e) (heb : e ≤ expModBound - 1) (hb1 : -expModBound ≤ b) (hb2 : b ≤ expModBound - 1) :
    callBuiltin sem .expModInteger [I b, I e, I m] = .ok (I (b ^ e.toNat % m)) := by
  simp only [callBuiltin, callBuiltinCore, getArgB, List.getElem?_cons_zero, List.getElem?_cons_succ,
    Value.unwrapInteger, bind, Res.bind, pure, expMod_nonneg b e m hm hmb he heb hb1 hb2]

/-- with a negative exponent it fails iff the base has no inverse modulo `m`, and otherwise returns the
`-e`-th power of a number `inv` with `inv · b ≡ 1 (mod m)` -/
theorem expMod_negative_exponent (sem : Sem) (b e m : Int) (hm : 1 < m) (hmb : m ≤ expModBound - 1) (he : e < 0)
    (heb : -expModBound ≤ e) (hb1 : -expModBound ≤ b) (hb2 : b ≤ expModBound - 1) (hb0 : b ≠ 0) :
    (modularInverse b m = none ∧ callBuiltin sem .expModInteger [I b, I e, I m] = .err) ∨
    (∃ inv, m ∣ inv * b - 1 ∧
      callBuiltin sem .expModInteger [I b, I e, I m] = .ok (I ((inv.toNat : Int) ^ (-e).toNat % m))) := by
  have h := expMod_neg b e m hm hmb he heb hb1 hb2 hb0
  cases hi : modularInverse b m with
  | none =>
    left
    rw [hi] at h
    refine ⟨rfl, ?_⟩
    simp only [callBuiltin, callBuiltinCore, getArgB, List.getElem?_cons_zero, List.getElem?_cons_succ,
      Value.unwrapInteger, bind, Res.bind, pure, h]
  | some inv =>
    right
    rw [hi] at h
    refine ⟨inv, modularInverse_sound b m inv hi, ?_⟩
    simp only [callBuiltin, callBuiltinCore, getArgB, List.getElem?_cons_zero, List.getElem?_cons_succ,
      Value.unwrapInteger, bind, Res.bind, pure, h]

/-- non-vacuity: the hypotheses hold for `3 ^ 5 mod 7` (so the theorem gives `243 % 7 = 5`), and the
inverse of 3 modulo 7 found by the loop is 5 while 2 has none modulo 4 -/
example : callBuiltin .E .expModInteger [I 3, I 5, I 7] = .ok (I (3 ^ (5 : Int).toNat % 7)) :=
  expMod_is_modular_exponentiation .E 3 5 7 (by decide) (by unfold expModBound; decide +kernel) (by decide)
    (by unfold expModBound; decide +kernel) (by unfold expModBound; decide +kernel) (by unfold expModBound; decide +kernel)
example : modularInverse 3 7 = some 5 ∧ modularInverse 2 4 = none := by
  constructor <;> rfl

-- ------------------------------------------------------------------ bit-level builtins
theorem rotate_core (sem : Sem) (bs : Bytes) (k : Int) (hk : sem = .E → fitsI64 k = true) :
    callBuiltinCore sem .rotateByteString [BS bs, I k] = .ok (.con (.bytestring (rotl bs k))) := by
  simp only [callBuiltinCore, getArgB, List.getElem?_cons_zero, List.getElem?_cons_succ,
    Value.unwrapInteger, Value.unwrapByteString, bind, Res.bind, pure]
  have : ¬ ((sem == .E) = true ∧ (!fitsI64 k) = true) := by
    intro ⟨h1, h2⟩
    have := hk (by simpa using h1)
    simp [this] at h2
  simp only [Bool.and_eq_true, this, if_false, rotl, rotBits]
  by_cases he : bs.isEmpty <;> simp [he]

/-- `rotateByteString` is the bit rotation `rotl` (any amount, reduced modulo the bit length) -/
theorem rotate_spec (sem : Sem) (bs : Bytes) (k : Int) (hk : sem = .E → fitsI64 k = true) :
    callBuiltin sem .rotateByteString [BS bs, I k] = .ok (BS (rotl bs k)) :=
  callBuiltin_of_core_con (rotate_core sem bs k hk)

/-- under variant E an amount outside the 64-bit range is an evaluation failure -/
theorem rotate_rejects_beyond_i64 (bs : Bytes) (k : Int) (hk : fitsI64 k = false) :
    callBuiltin .E .rotateByteString [BS bs, I k] = .err := by
  simp [callBuiltin, callBuiltinCore, getArgB, Value.unwrapInteger, Value.unwrapByteString, bind, Res.bind, hk]

/-- rotating by `k` and then by `-k` restores the byte string — for every byte string and EVERY amount
the variant accepts; the result always has the length of the input -/
theorem rotate_inverse (sem : Sem) (bs : Bytes) (k : Int)
    (hk : sem = .E → fitsI64 k = true ∧ fitsI64 (-k) = true) :
    ∃ r, callBuiltin sem .rotateByteString [BS bs, I k] = .ok (BS r) ∧ r.length = bs.length ∧
      callBuiltin sem .rotateByteString [BS r, I (-k)] = .ok (BS bs) := by
  refine ⟨rotl bs k, rotate_spec sem bs k (fun h => (hk h).1), rotl_length bs k, ?_⟩
  rw [rotate_spec sem (rotl bs k) (-k) (fun h => (hk h).2), rotl_inverse]

/-- a bit written by `writeBits` is the bit `readBit` returns at that index (index 0 = least
significant bit of the LAST byte), for every in-range index -/
theorem writeBits_readBit (sem : Sem) (v : Bool) (bs : Bytes) (i : Int) (h0 : 0 ≤ i)
    (h1 : i < (bs.length * 8 : Nat)) :
    ∃ bs', callBuiltin sem .writeBits [BS bs, .con (.list .integer [.integer i]), .con (.bool v)] = .ok (BS bs') ∧
      bs'.length = bs.length ∧
      callBuiltin sem .readBit [BS bs', I i] = .ok (.con (.bool v)) := by
  obtain ⟨bs', hw, hl, byte, hb, hv⟩ := writeBit_then_readBit v bs i h0 h1
  refine ⟨bs', ?_, hl, ?_⟩
  · apply callBuiltin_of_core_con
    simp [callBuiltinCore, getArgB, Value.unwrapByteString, Value.unwrapIntList, Value.unwrapBool, bind, Res.bind, hw, pure]
  · apply callBuiltin_of_core_con
    have hne : bs'.isEmpty = false := by
      cases bs' with
      | nil => simp at hl; omega
      | cons _ _ => rfl
    have hc : 0 ≤ i ∧ i < (bs'.length : Int) * 8 := by rw [hl]; omega
    simp [callBuiltinCore, getArgB, Value.unwrapByteString, Value.unwrapInteger, bind, Res.bind, pure, hne, hc, hb, hv]

/-- and indices outside `0 ≤ i < 8·length` are failures of both builtins, never a crash -/
theorem bit_index_out_of_range (sem : Sem) (v : Bool) (bs : Bytes) (i : Int)
    (h : i < 0 ∨ i ≥ (bs.length * 8 : Nat)) :
    callBuiltin sem .writeBits [BS bs, .con (.list .integer [.integer i]), .con (.bool v)] = .err ∧
    callBuiltin sem .readBit [BS bs, I i] = .err := by
  have h : i < 0 ∨ (bs.length : Int) * 8 ≤ i := by omega
  constructor
  · simp [callBuiltin, callBuiltinCore, getArgB, Value.unwrapByteString, Value.unwrapIntList, Value.unwrapBool, bind, Res.bind,
      writeBitsLoop, h]
  · by_cases he : bs.isEmpty
    · simp [callBuiltin, callBuiltinCore, getArgB, Value.unwrapByteString, Value.unwrapInteger, bind, Res.bind, he]
    · simp [callBuiltin, callBuiltinCore, getArgB, Value.unwrapByteString, Value.unwrapInteger, bind, Res.bind, he, h]

/-- `shiftByteString`: by 0 it is the identity; by the bit length or more (either direction, any
size the variant accepts) every bit is shifted out; the length never changes -/
theorem shift_zero_and_out_of_range (sem : Sem) (bs : Bytes) :
    callBuiltin sem .shiftByteString [BS bs, I 0] = .ok (BS bs) ∧
    (∀ k : Int, (sem = .E → fitsI64 k = true) → (bs.length * 8 : Nat) ≤ k.natAbs →
      callBuiltin sem .shiftByteString [BS bs, I k] = .ok (BS (List.replicate bs.length 0))) := by
  constructor
  · apply callBuiltin_of_core_con
    by_cases he : bs.length = 0
    · have : bs = [] := List.length_eq_zero_iff.mp he
      subst this
      cases sem <;> rfl
    · have h1 : ¬ ((sem == .E) = true ∧ (!fitsI64 0) = true) := by simp [fitsI64]
      have h2 : ¬ (bs.length * 8 ≤ (0 : Int).natAbs) := by simp; omega
      simp only [callBuiltinCore, getArgB, List.getElem?_cons_zero, List.getElem?_cons_succ,
        Value.unwrapInteger, Value.unwrapByteString, bind, Res.bind, pure, Bool.and_eq_true, h1, h2, if_false]
      simp [Bytes'.ofBits_toBits]
  · intro k hk hle
    apply callBuiltin_of_core_con
    have h1 : ¬ ((sem == .E) = true ∧ (!fitsI64 k) = true) := by
      intro ⟨a, b⟩
      have := hk (by simpa using a)
      simp [this] at b
    simp only [callBuiltinCore, getArgB, List.getElem?_cons_zero, List.getElem?_cons_succ,
      Value.unwrapInteger, Value.unwrapByteString, bind, Res.bind, pure, Bool.and_eq_true, h1, hle, if_false, if_true]

-- ------------------------------------------------------------------ byte-string comparison
/-- `lessThanByteString` / `lessThanEqualsByteString` / `equalsByteString` decide the LEXICOGRAPHIC
order of the byte lists (the standard order `<` of `List UInt8`: first differing byte decides, a
proper prefix is smaller) and equality, for all inputs -/
theorem byte_comparison_is_lexicographic (sem : Sem) (a b : Bytes) :
    callBuiltin sem .lessThanByteString [BS a, BS b] = .ok (.con (.bool (decide (a < b)))) ∧
    callBuiltin sem .lessThanEqualsByteString [BS a, BS b] = .ok (.con (.bool (decide (a ≤ b)))) ∧
    callBuiltin sem .equalsByteString [BS a, BS b] = .ok (.con (.bool (decide (a = b)))) := by
  have h1 : Bytes'.lt a b = decide (a < b) := by
    rw [Bool.eq_iff_iff, decide_eq_true_iff]; exact bytes_lt_iff_lex a b
  have h2 : Bytes'.le a b = decide (a ≤ b) := by
    rw [Bool.eq_iff_iff, decide_eq_true_iff]; exact bytes_le_iff_lex a b
  have h3 : (a == b) = decide (a = b) := by
    rw [Bool.eq_iff_iff, decide_eq_true_iff, beq_iff_eq]
  refine ⟨?_, ?_, ?_⟩
  · simp only [callBuiltin, callBuiltinCore, getArgB, List.getElem?_cons_zero, List.getElem?_cons_succ,
      Value.unwrapByteString, bind, Res.bind, pure, h1]
  · simp only [callBuiltin, callBuiltinCore, getArgB, List.getElem?_cons_zero, List.getElem?_cons_succ,
      Value.unwrapByteString, bind, Res.bind, pure, h2]
  · simp only [callBuiltin, callBuiltinCore, getArgB, List.getElem?_cons_zero, List.getElem?_cons_succ,
      Value.unwrapByteString, bind, Res.bind, pure, h3]

-- ------------------------------------------------------------------ byteStringToInteger then integerToByteString
def toNatLE : Bytes → Nat
  | [] => 0
  | b :: r => b.toNat + 256 * toNatLE r

theorem toNatBE_reverse_eq : ∀ l : Bytes, Bytes'.toNatBE l.reverse = toNatLE l
  | [] => rfl
  | b :: r => by
    rw [List.reverse_cons, toNatBE_append, toNatBE_reverse_eq r, toNatLE]; omega

/-- drop the zero bytes at the END (the most significant ones of a little-endian list) -/
def stripT : Bytes → Bytes
  | [] => []
  | b :: r => if stripT r = [] ∧ b = 0 then [] else b :: stripT r

theorem toNatLE_zero_iff : ∀ l : Bytes, toNatLE l = 0 ↔ stripT l = []
  | [] => by simp [toNatLE, stripT]
  | b :: r => by
    have ih := toNatLE_zero_iff r
    simp only [toNatLE, stripT]
    constructor
    · intro h
      have h1 : b.toNat = 0 := by omega
      have h2 : toNatLE r = 0 := by omega
      have hb : b = 0 := by
        apply UInt8.toNat_inj.mp; simpa using h1
      simp [ih.mp h2, hb]
    · intro h
      by_cases hc : stripT r = [] ∧ b = 0
      · obtain ⟨h1, h2⟩ := hc
        rw [ih.mpr h1, h2]; rfl
      · simp [hc] at h

theorem ofNatLE_toNatLE : ∀ l : Bytes, Bytes'.ofNatLE (toNatLE l) = stripT l
  | [] => by simp [toNatLE, stripT, Bytes'.ofNatLE]
  | b :: r => by
    have ih := ofNatLE_toNatLE r
    have hz := toNatLE_zero_iff (b :: r)
    rw [Bytes'.ofNatLE]
    by_cases h0 : toNatLE (b :: r) = 0
    · simp only [h0, dite_true]
      exact (hz.mp h0).symm
    · simp only [h0, dite_false]
      have hne : ¬ (stripT r = [] ∧ b = 0) := by
        intro hc
        apply h0
        apply hz.mpr
        simp [stripT, hc]
      have hb := UInt8.toNat_lt b
      have h1 : toNatLE (b :: r) % 256 = b.toNat := by simp only [toNatLE]; omega
      have h2 : toNatLE (b :: r) / 256 = toNatLE r := by simp only [toNatLE]; omega
      rw [h1, h2, ih]
      simp only [stripT, hne, if_false]
      congr 1
      apply UInt8.toNat_inj.mp
      simp

theorem stripT_length_le : ∀ l : Bytes, (stripT l).length ≤ l.length
  | [] => by simp [stripT]
  | b :: r => by
    have := stripT_length_le r
    simp only [stripT]; split <;> simp <;> omega

theorem stripT_pad : ∀ l : Bytes, stripT l ++ List.replicate (l.length - (stripT l).length) (0 : UInt8) = l
  | [] => by simp [stripT]
  | b :: r => by
    have ih := stripT_pad r
    have hle := stripT_length_le r
    simp only [stripT]
    by_cases hc : stripT r = [] ∧ b = 0
    · obtain ⟨h1, h2⟩ := hc
      simp only [h1, h2, and_self, if_true, List.nil_append, List.length_nil, List.length_cons, Nat.sub_zero]
      rw [h1] at ih
      simp only [List.nil_append, List.length_nil, Nat.sub_zero] at ih
      rw [List.replicate_succ, ih]
    · simp only [hc, if_false, List.cons_append, List.length_cons]
      have : r.length + 1 - ((stripT r).length + 1) = r.length - (stripT r).length := by omega
      rw [this, ih]


/-- little-endian core of the inverse law: the digits of `toNatLE le`, padded to the length of `le` -/
theorem i2bs_of_toNatLE (sem : Sem) (be : Bool) (le : Bytes) (hlen : le.length < 18446744073709551616) :
    callBuiltinCore sem .integerToByteString [.con (.bool be), I le.length, I (toNatLE le : Nat)]
      = .ok (.con (.bytestring (if be then le.reverse else le))) := by
  have hpad := stripT_pad le
  have hle := stripT_length_le le
  have hof := ofNatLE_toNatLE le
  have hz := toNatLE_zero_iff le
  have hfit : fitsU64 (le.length : Int) = true := by
    simp only [fitsU64, Bool.and_eq_true, decide_eq_true_eq]; omega
  simp only [callBuiltinCore, getArgB, List.getElem?_cons_zero, List.getElem?_cons_succ,
    Value.unwrapBool, Value.unwrapInteger, bind, Res.bind, pure, hfit, Bool.not_true, Bool.false_eq_true, if_false]
  have hnn : ¬ ((toNatLE le : Nat) : Int) < 0 := by omega
  by_cases h0 : toNatLE le = 0
  · -- the number is 0: `le` is all zeros
    have hs := hz.mp h0
    rw [hs] at hpad
    simp only [List.nil_append, List.length_nil, Nat.sub_zero] at hpad
    have hc1 : ¬ (((le.length : Int) = 0 ∧ 8 * 8192 ≤ (((toNatLE le : Nat) : Int)).natAbs.log2) ∧ ((toNatLE le : Nat) : Int) ≠ 0) := by
      intro h; exact h.2 (by simp [h0])
    simp only [Bool.and_eq_true, decide_eq_true_eq, ge_iff_le, hc1, hnn, if_false, h0, Int.natCast_zero, if_true,
      Int.toNat_natCast]
    rw [if_neg (by intro h; exact h.2 rfl), if_neg (by omega)]
    have : List.replicate le.length (0 : UInt8) = (if be = true then le.reverse else le) := by
      cases be
      · simpa using hpad
      · simp only [if_true]
        rw [← hpad, List.reverse_replicate]
        simp
    rw [this]
  · have hne : ((toNatLE le : Nat) : Int) ≠ 0 := by omega
    have hlpos : le ≠ [] := by intro h; subst h; simp [toNatLE] at h0
    have hl0 : le.length ≠ 0 := by intro h; exact hlpos (List.length_eq_zero_iff.mp h)
    have hc1 : ¬ (((le.length : Int) = 0 ∧ 8 * 8192 ≤ (((toNatLE le : Nat) : Int)).natAbs.log2) ∧ ((toNatLE le : Nat) : Int) ≠ 0) := by
      intro h; exact hl0 (by omega)
    have hc2 : ¬ ((le.length : Int) ≠ 0 ∧ (Bytes'.ofNatLE (toNatLE le)).length > le.length) := by
      rw [hof]; intro h; omega
    have hpos : le.length > 0 := by omega
    simp only [Bool.and_eq_true, decide_eq_true_eq, ge_iff_le, hc1, hnn, if_false, hne, Int.toNat_natCast, hc2, hpos, if_true, hof,
      bne_iff_ne, ne_eq]
    rw [if_neg (by intro h; exact hl0 (by omega)), if_neg (by intro h; omega)]
    have : (if be = true then List.replicate (le.length - (stripT le).length) (0 : UInt8) ++ (stripT le).reverse
        else stripT le ++ List.replicate (le.length - (stripT le).length) 0) = (if be = true then le.reverse else le) := by
      cases be
      · simpa using hpad
      · simp only [if_true]
        rw [← List.reverse_replicate, ← List.reverse_append, hpad]
    rw [this]

/-- `integerToByteString` inverts `byteStringToInteger` when asked for the original width: for every
byte string (of a length a `Vec` can have) and either endianness, converting to an integer and back to
`bs.length` bytes gives `bs` again, leading / trailing zero bytes included -/
theorem bs2i_i2bs (sem : Sem) (be : Bool) (bs : Bytes) (hlen : bs.length < 18446744073709551616) :
    ∃ n : Int, callBuiltin sem .byteStringToInteger [.con (.bool be), BS bs] = .ok (I n) ∧
      callBuiltin sem .integerToByteString [.con (.bool be), I bs.length, I n] = .ok (BS bs) := by
  cases be
  · -- little endian: the digit list is `bs`
    refine ⟨(toNatLE bs : Nat), ?_, ?_⟩
    · apply callBuiltin_of_core_con
      simp only [callBuiltinCore, getArgB, List.getElem?_cons_zero, List.getElem?_cons_succ,
        Value.unwrapBool, Value.unwrapByteString, bind, Res.bind, pure, Bool.false_eq_true, if_false, toNatBE_reverse_eq]
    · apply callBuiltin_of_core_con
      have := i2bs_of_toNatLE sem false bs hlen
      simpa using this
  · -- big endian: the digit list is `bs.reverse`
    refine ⟨(toNatLE bs.reverse : Nat), ?_, ?_⟩
    · apply callBuiltin_of_core_con
      have h := toNatBE_reverse_eq bs.reverse
      rw [List.reverse_reverse] at h
      simp only [callBuiltinCore, getArgB, List.getElem?_cons_zero, List.getElem?_cons_succ,
        Value.unwrapBool, Value.unwrapByteString, bind, Res.bind, pure, if_true, h]
    · apply callBuiltin_of_core_con
      have := i2bs_of_toNatLE sem true bs.reverse (by simpa using hlen)
      simpa using this
-- ------------------------------------------------------------------ strings
/-- `decodeUtf8` inverts `encodeUtf8` for EVERY string (all four encoding lengths, the surrogate gap,
U+10FFFF), and `appendString` / `encodeUtf8` commute with concatenation -/
theorem decodeUtf8_encodeUtf8 (sem : Sem) (s t : List Char) :
    (∃ bs, callBuiltin sem .encodeUtf8 [.con (.string s)] = .ok (BS bs) ∧
      callBuiltin sem .decodeUtf8 [BS bs] = .ok (.con (.string s))) ∧
    callBuiltin sem .appendString [.con (.string s), .con (.string t)] = .ok (.con (.string (s ++ t))) ∧
    utf8Encode (s ++ t) = utf8Encode s ++ utf8Encode t := by
  refine ⟨⟨utf8Encode s, rfl, ?_⟩, rfl, by simp [utf8Encode]⟩
  apply callBuiltin_of_core_con
  simp only [callBuiltinCore, getArgB, List.getElem?_cons_zero, Value.unwrapByteString, bind, Res.bind, pure,
    utf8Decode_utf8Encode]

/-- non-vacuity / rejection side: an overlong encoding, a lone continuation byte and an encoded
surrogate are evaluation failures -/
example : callBuiltin .E .decodeUtf8 [BS [0xC0, 0x80]] = .err ∧ callBuiltin .E .decodeUtf8 [BS [0x80]] = .err ∧
    callBuiltin .E .decodeUtf8 [BS [0xED, 0xA0, 0x80]] = .err ∧
    callBuiltin .E .decodeUtf8 [BS [0xF4, 0x8F, 0xBF, 0xBF]] = .ok (.con (.string [Char.ofNat 0x10FFFF])) := by
  refine ⟨rfl, rfl, rfl, rfl⟩

-- ------------------------------------------------------------------ and / or / xor
theorem zipBytes_comm (f : UInt8 → UInt8 → UInt8) (hf : ∀ a b, f a b = f b a) (pad : Bool) :
    ∀ x y : Bytes, zipBytes f pad x y = zipBytes f pad y x
  | [], [] => rfl
  | [], _ :: _ => by simp [zipBytes]
  | _ :: _, [] => by simp [zipBytes]
  | a :: as, b :: bs => by simp only [zipBytes, hf a b, zipBytes_comm f hf pad as bs]

theorem zipBytes_self (f : UInt8 → UInt8 → UInt8) (pad : Bool) : ∀ x : Bytes, zipBytes f pad x x = x.map (fun a => f a a)
  | [] => by cases pad <;> simp [zipBytes]
  | a :: as => by simp only [zipBytes, List.map_cons, zipBytes_self f pad as]

/-- the three bitwise operations are commutative (padding or truncating), idempotent resp. nilpotent,
and satisfy De Morgan on operands of equal length -/
theorem bitwise_laws (sem : Sem) (pad : Bool) (x y : Bytes) :
    callBuiltin sem .andByteString [.con (.bool pad), BS x, BS y] = callBuiltin sem .andByteString [.con (.bool pad), BS y, BS x] ∧
    callBuiltin sem .orByteString [.con (.bool pad), BS x, BS y] = callBuiltin sem .orByteString [.con (.bool pad), BS y, BS x] ∧
    callBuiltin sem .xorByteString [.con (.bool pad), BS x, BS y] = callBuiltin sem .xorByteString [.con (.bool pad), BS y, BS x] ∧
    callBuiltin sem .andByteString [.con (.bool pad), BS x, BS x] = .ok (BS x) ∧
    callBuiltin sem .orByteString [.con (.bool pad), BS x, BS x] = .ok (BS x) ∧
    callBuiltin sem .xorByteString [.con (.bool pad), BS x, BS x] = .ok (BS (List.replicate x.length 0)) := by
  have e : ∀ (b : Builtin) (f : UInt8 → UInt8 → UInt8) (u v : Bytes),
      (b = .andByteString ∧ f = (· &&& ·)) ∨ (b = .orByteString ∧ f = (· ||| ·)) ∨ (b = .xorByteString ∧ f = (· ^^^ ·)) →
      callBuiltin sem b [.con (.bool pad), BS u, BS v] = .ok (BS (zipBytes f pad u v)) := by
    intro b f u v h
    rcases h with ⟨rfl, rfl⟩ | ⟨rfl, rfl⟩ | ⟨rfl, rfl⟩ <;> rfl
  refine ⟨?_, ?_, ?_, ?_, ?_, ?_⟩
  · rw [e _ _ x y (Or.inl ⟨rfl, rfl⟩), e _ _ y x (Or.inl ⟨rfl, rfl⟩), zipBytes_comm _ (fun a b => UInt8.and_comm a b)]
  · rw [e _ _ x y (Or.inr (Or.inl ⟨rfl, rfl⟩)), e _ _ y x (Or.inr (Or.inl ⟨rfl, rfl⟩)), zipBytes_comm _ (fun a b => UInt8.or_comm a b)]
  · rw [e _ _ x y (Or.inr (Or.inr ⟨rfl, rfl⟩)), e _ _ y x (Or.inr (Or.inr ⟨rfl, rfl⟩)), zipBytes_comm _ (fun a b => UInt8.xor_comm a b)]
  · rw [e _ _ x x (Or.inl ⟨rfl, rfl⟩), zipBytes_self]; simp
  · rw [e _ _ x x (Or.inr (Or.inl ⟨rfl, rfl⟩)), zipBytes_self]; simp
  · rw [e _ _ x x (Or.inr (Or.inr ⟨rfl, rfl⟩)), zipBytes_self]
    congr 2
    induction x with
    | nil => rfl
    | cons a as ih =>
      simp only [List.map_cons, List.length_cons, List.replicate_succ, ih]
      simp

-- ------------------------------------------------------------------ findFirstSetBit / countSetBits


theorem lowestSetBit_none_all : ∀ n, n < 256 → (lowestSetBit (UInt8.ofNat n) = none ↔ n = 0) := by
  decide +kernel

theorem lowestSetBit_none_iff (b : UInt8) : lowestSetBit b = none ↔ b = 0 := by
  have h := lowestSetBit_none_all b.toNat (UInt8.toNat_lt b)
  have e : UInt8.ofNat b.toNat = b := by simp
  rw [e] at h
  rw [h]
  constructor
  · intro h0; apply UInt8.toNat_inj.mp; simpa using h0
  · intro h0; subst h0; rfl

theorem lowestSetBit_lt_all : ∀ n, n < 256 → ∀ k, lowestSetBit (UInt8.ofNat n) = some k → k < 8 := by
  decide +kernel

theorem findFirstSet_spec : ∀ (l : List UInt8) (i : Nat),
    (findFirstSet l i = -1 ↔ ∀ b ∈ l, b = 0) ∧
    (findFirstSet l i ≠ -1 → (8 * i : Int) ≤ findFirstSet l i ∧ findFirstSet l i < (8 * (i + l.length) : Nat))
  | [], i => by simp [findFirstSet]
  | b :: rest, i => by
    have ih := findFirstSet_spec rest (i + 1)
    simp only [findFirstSet]
    cases hb : lowestSetBit b with
    | none =>
      have hz := (lowestSetBit_none_iff b).mp hb
      simp only
      constructor
      · rw [ih.1]; simp [hz]
      · intro hne
        have := ih.2 hne
        simp only [List.length_cons]
        constructor <;> omega
    | some k =>
      have hk : k < 8 := by
        have e : UInt8.ofNat b.toNat = b := by simp
        have := lowestSetBit_lt_all b.toNat (UInt8.toNat_lt b) k (by rw [e]; exact hb)
        exact this
      have hnz : b ≠ 0 := by
        intro h0
        have := (lowestSetBit_none_iff b).mpr h0
        rw [this] at hb; cases hb
      simp only
      constructor
      · constructor
        · intro h; omega
        · intro h; exact absurd (h b (by simp)) hnz
      · intro _
        simp only [List.length_cons]
        constructor <;> omega

/-- `findFirstSetBit` answers -1 exactly for an all-zero (or empty) byte string; otherwise an index
inside the string (`0 ≤ r < 8·length`) -/
theorem findFirstSetBit_spec (sem : Sem) (bs : Bytes) :
    ∃ r : Int, callBuiltin sem .findFirstSetBit [BS bs] = .ok (I r) ∧
      (r = -1 ↔ ∀ b ∈ bs, b = 0) ∧ (r ≠ -1 → 0 ≤ r ∧ r < (8 * bs.length : Nat)) := by
  refine ⟨findFirstSet bs.reverse 0, rfl, ?_, ?_⟩
  · rw [(findFirstSet_spec bs.reverse 0).1]
    simp
  · intro h
    have := (findFirstSet_spec bs.reverse 0).2 h
    simp only [List.length_reverse] at this
    constructor <;> omega



theorem popCount_byte_compl_all : ∀ n, n < 256 →
    (Bytes'.byteBits (UInt8.ofNat n ^^^ 255)).countP id + (Bytes'.byteBits (UInt8.ofNat n)).countP id = 8 := by
  decide +kernel

theorem popCount_compl : ∀ bs : Bytes, Bytes'.popCount (bs.map (· ^^^ 255)) + Bytes'.popCount bs = 8 * bs.length
  | [] => rfl
  | b :: rest => by
    have ih := popCount_compl rest
    have hb := popCount_byte_compl_all b.toNat (UInt8.toNat_lt b)
    have e : UInt8.ofNat b.toNat = b := by simp
    rw [e] at hb
    simp only [Bytes'.popCount, Bytes'.toBits, List.map_cons, List.flatMap_cons, List.countP_append, List.length_cons] at *
    omega

/-- `countSetBits`: the bits set in `x` and in its complement add up to the bit length; the count of the
empty string is 0 -/
theorem countSetBits_complement (sem : Sem) (x : Bytes) :
    ∃ c d : Int, callBuiltin sem .countSetBits [BS x] = .ok (I c) ∧
      callBuiltin sem .countSetBits [BS (x.map (· ^^^ 255))] = .ok (I d) ∧
      c + d = (8 * x.length : Nat) ∧ 0 ≤ c ∧ 0 ≤ d := by
  refine ⟨Bytes'.popCount x, Bytes'.popCount (x.map (· ^^^ 255)), rfl, rfl, ?_, by omega, by omega⟩
  have := popCount_compl x
  omega

end AikenVerif.C04
