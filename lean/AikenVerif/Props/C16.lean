import AikenVerif.Lemmas.ShrinkPrng
import AikenVerif.Lemmas.ShrinkFuel
/-!
# C16 — Property tests are reproducible and their counterexamples are real

Theorems about M-SHRINK (`Model/Shrink.lean`), the transliteration of
`Counterexample::{simplify, consider, replace, binary_search_replace}`, `Cache::get`,
the PRNG replay protocol, `run_once`/`run_n_times` and `TestResult::is_success`.
All statements quantify over every `run : List UInt8 → Status α`, every initial counterexample and
every fuel `F`: `simplify_terminates` shows the result exists for `F ≥ fuelBound c₀`,
`simplify_fuel_independent` that it is the same for all such `F`, and the other theorems speak
about any `ok` result, whatever the fuel.
The tie to the Rust code is the correspondence `c16-shrink` (real `simplify` and real `Cache` vs
this model on the same interpreted `run` functions) and the end-to-end check `c16-e2e`.
-/
namespace AikenVerif.C16
open AikenVerif.Shrink

variable {α : Type}

/-- the hypothesis the cache relies on: a choice sequence on which the fuzzer neither ran out of
choices nor rejected one gives the same outcome however it is extended -/
abbrev PrefixStable (run : Choices → Status α) : Prop := Shrink.PrefixStable run

/-- every stored cache answer is `run`'s answer on the stored key -/
abbrev DbSound (run : Choices → Status α) (c : Cache α) : Prop := Shrink.DbSound run c

/-! ## Termination: no seed-dependent hang, no index panic -/

/-- `simplify` terminates — with `ok`, neither `outOfFuel` nor `panic` (out-of-bounds index /
slice, `len - 1` on an empty vector) — for EVERY `run`, every starting point and every fuel
at least `fuelBound c₀ = shortlexRank c₀ + 2·|c₀| + 300`. -/
theorem simplify_terminates (run : Choices → Status α) (s : CE α) (F : Nat)
    (hF : fuelBound s.choices ≤ F) : ∃ s', simplify run F s = .ok s' :=
  let ⟨s', h, _⟩ := simplify_ok run F s hF
  ⟨s', h⟩

/-- the bound is explicit in the choice sequence: `< 256^(n+1) + 2n + 300` for `n` choices -/
theorem fuelBound_le (c : Choices) : fuelBound c < 256 ^ (c.length + 1) + 2 * c.length + 300 := by
  unfold fuelBound
  rw [shortlexRank_eq]
  have h1 := lexVal_lt c
  have h2 : geo c.length + 256 ^ c.length ≤ 256 ^ (c.length + 1) := by
    induction c.length with
    | zero => simp [geo]
    | succ n ih => simp only [geo, Nat.pow_succ] at *; omega
  omega

/-- the result does not depend on the fuel once there is enough of it: "the" result of `simplify` -/
theorem simplify_fuel_independent (run : Choices → Status α) (s : CE α) (F₁ F₂ : Nat)
    (h₁ : fuelBound s.choices ≤ F₁) (h₂ : fuelBound s.choices ≤ F₂) :
    simplify run F₁ s = simplify run F₂ s := by
  have ⟨s', h, _⟩ := simplify_ok run (fuelBound s.choices) s (Nat.le_refl _)
  rw [simplify_mono run _ F₁ h₁ s s' h, simplify_mono run _ F₂ h₂ s s' h]

/-- any `ok` result, whatever the fuel, is reached by `Steps` -/
theorem steps_of_ok (run : Choices → Status α) (s s' : CE α) (F : Nat)
    (h : simplify run F s = .ok s') : Steps run s s' := by
  have h' := simplify_mono run F (max F (fuelBound s.choices)) (Nat.le_max_left _ _) s s' h
  have ⟨s'', h'', hst⟩ := simplify_ok run (max F (fuelBound s.choices)) s (Nat.le_max_right _ _)
  rw [h'] at h''
  cases h''
  exact hst

/-! ## The reported counterexample is real -/

/-- With the cache's own assumption (`PrefixStable`): if the starting pair falsifies the property
(`run c₀ = keep v₀`) and the cache holds only true answers, so does the simplified pair. -/
theorem counterexample_real (run : Choices → Status α) (hps : PrefixStable run) (s s' : CE α)
    (F : Nat) (hdb : DbSound run s.cache)
    (h₀ : run s.choices = .keep s.value) (h : simplify run F s = .ok s') :
    run s'.choices = .keep s'.value :=
  (Steps.real run hps (steps_of_ok run s s' F h) ⟨hdb, h₀⟩).2

/-- The same WITHOUT any hypothesis on `run` (fuzzers that look at the replay cursor, hash the
whole sequence, …), starting from the empty cache as `run_once` does: `simplify` only ever
queries sequences no longer than the current one and accepts every `Keep` answer, so a stale
`Keep` can never be served.  (What prefix-instability can cost is a missed shrink, see
`prefix_stable_needed`.) -/
theorem counterexample_real_unconditional (run : Choices → Status α) (c₀ : Choices) (v₀ : α)
    (s' : CE α) (F : Nat) (h₀ : run c₀ = .keep v₀)
    (h : simplify run F { value := v₀, choices := c₀ } = .ok s') :
    run s'.choices = .keep s'.value := by
  have hst := steps_of_ok run _ s' F h
  have h0 : Real' run ({ value := v₀, choices := c₀ } : CE α) :=
    ⟨fun _ _ hk => by simp at hk, fun _ _ hk => by simp at hk, h₀⟩
  exact (Steps.real' run hst h0).2.2

/-! ## Never larger than the first failing case -/

/-- for EVERY `run`: the simplified choice sequence is `≤` the initial one in shortlex order -/
theorem never_larger (run : Choices → Status α) (s s' : CE α) (F : Nat)
    (h : simplify run F s = .ok s') : shortlexLe s'.choices s.choices = true :=
  Steps.le run (steps_of_ok run s s' F h)

/-- `shortlexLe` is the order meant: shorter, or equally long and lexicographically `≤`; it is a
partial order with a strictly monotone rank (so "no larger" is not vacuous) -/
theorem shortlexLe_iff (a b : Choices) :
    shortlexLe a b = true ↔ a.length < b.length ∨ (a.length = b.length ∧ lexLe a b = true) := by
  simp [shortlexLe]

theorem shortlexLe_strict_rank (a b : Choices) (h : shortlexLe a b = true) (hne : a ≠ b) :
    shortlexRank a < shortlexRank b := shortlexRank_lt h hne

/-! ## The cache is transparent -/

/-- with `PrefixStable`, `Cache::get` answers exactly what `run` answers and keeps the stored
answers true (pruning / the longest-common-prefix rule never change an answer) -/
theorem cache_transparent (run : Choices → Status α) (hps : PrefixStable run) (c : Cache α)
    (choices : Choices) (hdb : DbSound run c) :
    (c.get run choices).1 = run choices ∧ DbSound run (c.get run choices).2 :=
  ⟨get_fst_of_stable run hps c choices hdb, get_sound run c choices hdb⟩

/-- …and for every `run`, stored answers stay true (only *served* answers need `PrefixStable`) -/
theorem cache_sound (run : Choices → Status α) (c : Cache α) (choices : Choices)
    (hdb : DbSound run c) : DbSound run (c.get run choices).2 :=
  get_sound run c choices hdb

/-- a `run` that looks at the replay cursor (outcome depends on how many choices are supplied) -/
def cursorRun : Choices → Status Nat := fun cs => if cs.length ≥ 2 then .keep cs.length else .ignore

/-- `PrefixStable` is necessary for `cache_transparent`: for `cursorRun` the cache, after having
been asked `[5]`, answers `Ignore` for `[5, 6]` although `run [5, 6] = Keep 2` — the failure is
lost (not invented). -/
theorem prefix_stable_needed :
    ¬ PrefixStable cursorRun ∧
    ∃ (c : Cache Nat) (choices : Choices), DbSound cursorRun c ∧
      (c.get cursorRun choices).1 ≠ cursorRun choices := by
  refine ⟨?_, (({} : Cache Nat).get cursorRun [5]).2, [5, 6], ?_, ?_⟩
  · intro h
    have := h [5] [6] (by decide)
    revert this; decide
  · exact get_sound cursorRun {} [5] (fun _ _ hk => by simp at hk)
  · decide

/-- fuzzers that touch the PRNG only by drawing from it (`Gen`) give a prefix-stable `run`:
the closure `run_once` hands to `Cache::new` satisfies the cache's assumption -/
theorem replayed_prng_prefix_stable (S : SeedSys) (g : Gen α) (keep : α → Bool) :
    PrefixStable (runOf S g keep) := by
  intro p s h
  rw [runOf_eq] at h ⊢
  rw [runOf_eq]
  cases hp : g.replay p with
  | none => rw [hp] at h; simp [Status.isInvalid] at h
  | some a => rw [replay_append g p s a hp]

/-! ## Replay regenerates the value -/

/-- `Prng::from_choices(prng'.choices())` replays a seeded run: the fuzzer yields the same value -/
theorem replay_regenerates (S : SeedSys) (g : Gen α) (seed : S.σ) (p' : Prng S) (a : α)
    (h : g.sample (Prng.fromSeed seed) = some (p', a)) :
    (g.sample (S := S) (Prng.fromChoices p'.choices)).map (·.2) = some a := by
  have ⟨drawn, seed', h1, h2⟩ := sample_seeded g seed [] p' a h
  rw [sample_fromChoices, h1]
  simpa [Prng.choices] using h2

/-! ## Verdicts -/

/-- `keep_counterexample` and `is_success`, all cases -/
theorem verdict_table :
    (∀ f, keepCounterexample .failImmediately f = f) ∧
    (∀ f, keepCounterexample .succeedImmediately f = f) ∧
    (∀ f, keepCounterexample .succeedEventually f = !f) ∧
    (∀ c, isSuccess .failImmediately c = !c) ∧
    (∀ c, isSuccess .succeedEventually c = !c) ∧
    (∀ c, isSuccess .succeedImmediately c = c) := by decide

/-- the three expectations mean what the documentation says, for every sequence of per-sample
outcomes: plain = no sample fails; `fail` = every sample fails; `fail once` = some sample fails -/
theorem verdict_inverts (otf : OnTestFailure) (fs : List Bool) :
    isSuccess otf (runNTimes otf fs).1 = verdictSpec otf fs := runNTimes_spec otf fs

/-- iterations reported: at most `n`, and exactly `n` when no counterexample was kept -/
theorem iterations_bound (otf : OnTestFailure) (fs : List Bool) :
    (runNTimes otf fs).2 ≤ fs.length ∧
    ((runNTimes otf fs).1 = false → (runNTimes otf fs).2 = fs.length) :=
  runNTimes_iterations otf fs

/-! ## End to end in the model: what `PropertyTest::run` reports -/

/-- what is claimed of a report of `PropertyTest::run` -/
def SoundReport (g : Gen α) (fails : α → Bool) (otf : OnTestFailure) : RunResult α → Prop
  | .counterexample c v _ first =>
      g.replay c = some v ∧ keepCounterexample otf (fails v) = true ∧
      shortlexLe c first = true ∧ (g.replay first).isSome = true
  | .outOfFuel => False
  | .panic => False
  | _ => True

/-- For every draw-only fuzzer `g`, property `fails`, expectation, seed and `n`: `run` never hangs
or panics in the shrinker, and a reported counterexample `(c, v)` (i) is regenerated by replaying
`c`, (ii) is a kept case (fails, resp. passes under `fail`), (iii) is `≤` the first failing case
in shortlex order, which itself replays. -/
theorem reported_counterexample_sound (S : SeedSys) (g : Gen α) (fails : α → Bool)
    (otf : OnTestFailure) : ∀ (n done : Nat) (seed : S.σ),
    SoundReport g fails otf (propertyRun S g fails otf n done (Prng.fromSeed seed))
  | 0, _, _ => by simp [propertyRun, SoundReport]
  | n + 1, done, seed => by
    unfold propertyRun
    cases hs : g.sample (Prng.fromSeed seed) with
    | none => simp [SoundReport]
    | some pa =>
      obtain ⟨p', a⟩ := pa
      have ⟨drawn, seed', h1, h2⟩ := sample_seeded g seed [] p' a hs
      have hch : p'.choices = drawn := by rw [h1]; simp [Prng.choices]
      simp only
      by_cases hkeep : keepCounterexample otf (fails a) = true
      · rw [if_pos hkeep, hch]
        by_cases hemp : drawn.isEmpty = true
        · rw [if_pos hemp]
          exact ⟨h2, hkeep, shortlexLe_refl _, by simp [h2]⟩
        · rw [if_neg hemp]
          have hrun : runOf S g (fun a => keepCounterexample otf (fails a)) drawn = .keep a :=
            (runOf_keep S g _ drawn a).mpr ⟨h2, hkeep⟩
          have ⟨s', hok, hst⟩ := simplify_ok (runOf S g (fun a => keepCounterexample otf (fails a)))
            (fuelBound drawn) { value := a, choices := drawn } (Nat.le_refl _)
          rw [hok]
          have hreal := (Steps.real' _ hst
            ⟨fun _ _ hk => by simp at hk, fun _ _ hk => by simp at hk, hrun⟩).2.2
          have := (runOf_keep S g _ _ _).mp hreal
          exact ⟨this.1, this.2, Steps.le _ hst, by simp [h2]⟩
      · rw [if_neg hkeep]
        have hcl : p'.cleared = Prng.fromSeed seed' := by rw [h1]; rfl
        rw [hcl]
        exact reported_counterexample_sound S g fails otf n (done + 1) seed'

/-- reproducibility: the report is a function of (fuzzer, property, expectation, n, seed) — the
model has no other input (no clock, no hash-map order, no global state); the same holds of the
real code only if it has no hidden input, which `c16-e2e` checks by running every case twice. -/
theorem run_deterministic (S : SeedSys) (g : Gen α) (fails : α → Bool) (otf : OnTestFailure)
    (n : Nat) (seed₁ seed₂ : S.σ) (h : seed₁ = seed₂) :
    propertyRun S g fails otf n 0 (Prng.fromSeed seed₁) =
      propertyRun S g fails otf n 0 (Prng.fromSeed seed₂) := by rw [h]

/-! ## Non-vacuity: the hypotheses are satisfiable on non-trivial instances -/

/-- two draws, the property fails when their sum is at least 300 -/
def sumRun : Choices → Status Nat
  | a :: b :: _ => if a.toNat + b.toNat ≥ 300 then .keep (a.toNat + b.toNat) else .ignore
  | _ => .invalid

/-- `sumRun` is prefix-stable and `[255, 200]` is a failing start: the premises of
`counterexample_real`, `never_larger`, `cache_transparent` hold together -/
example : PrefixStable sumRun ∧ sumRun [255, 200] = .keep 455 ∧
    DbSound sumRun ({ value := 455, choices := [255, 200] } : CE Nat).cache := by
  refine ⟨?_, by decide, fun _ _ hk => by simp at hk⟩
  intro p s h
  match p, h with
  | [], h => simp [sumRun, Status.isInvalid] at h
  | [_], h => simp [sumRun, Status.isInvalid] at h
  | a :: b :: rest, _ => simp [sumRun]

/-- the model really shrinks it, to the shortlex-least failing pair `[45, 255]`, in 42 runs -/
example : (match simplify sumRun 2000 { value := 455, choices := [255, 200] } with
    | .ok s => (s.choices, s.value, s.cache.calls) | _ => ([], 0, 0)) = ([45, 255], 300, 42) := by
  decide +kernel

/-- a draw-only fuzzer with a data-dependent number of draws (first draw = how many follow, mod 3)
exists, so `reported_counterexample_sound` / `replayed_prng_prefix_stable` are about real things -/
example : ∃ g : Gen (List UInt8), g.replay [2, 7, 9, 1] = some [7, 9] ∧ g.replay [2, 7] = none :=
  ⟨.read fun n => match n.toNat % 3 with
      | 0 => .done (some [])
      | 1 => .read fun a => .done (some [a])
      | _ => .read fun a => .read fun b => .done (some [a, b]),
   by decide, by decide⟩

/-- all three expectations disagree on some outcome list, so `verdict_inverts` distinguishes them -/
example : verdictSpec .failImmediately [false, true] = false ∧
    verdictSpec .succeedImmediately [false, true] = true ∧
    verdictSpec .succeedEventually [false, true] = false ∧
    verdictSpec .succeedEventually [true, true] = true := by decide

end AikenVerif.C16
