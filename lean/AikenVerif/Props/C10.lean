import AikenVerif.Lemmas.CekNoPanic
import AikenVerif.Lemmas.CekTerminates
import AikenVerif.Lemmas.CostNonneg
import AikenVerif.Lemmas.FlatWt
/-!
# C10 — evaluation never crashes: property theorems (evaluator part)

Every Rust operation of `machine.rs`, `runtime.rs`, `cost_model.rs`, `value.rs`, `discharge.rs`
that can panic (`unwrap`, indexing, `usize` conversion, `len - idx`, `unreachable!()`) is an explicit
`panic` outcome of the impl model.  The theorems say that outcome is unreachable.

Hypothesis `Term.wt t`: list/pair CONSTANTS carry items of their declared type — what the flat
decoder and the text parser construct by decoding items by the declared type (checked on the real
decoders by the correspondence `c10-eval`).  Nothing is assumed about the term otherwise: it may be
open, ill-typed, over- or under-apply builtins, use any integer size.
-/
namespace AikenVerif.C10
open AikenVerif Gen

/-- the generated costing table is coherent: every index is below the arity, no `unwrap()`, every
size/literal/list-length measure is backed by the fallible statement that establishes it -/
theorem cost_table_coherent : ∀ b : Builtin, costTableOK b = true := costTable_ok

/-- costing a saturated builtin never panics, whatever the arguments -/
theorem cost_no_panic (cm : CostModel) (sem : Sem) (b : Builtin) (args : List Value)
    (hl : args.length = b.arity) : builtinCost cm sem b args ≠ .panic :=
  builtinCost_np cm sem b args hl

/-- a saturated builtin applied to well-typed arguments, after its costing guards passed, never panics -/
theorem builtin_no_panic (sem : Sem) (b : Builtin) (args : List Value) (hl : args.length = b.arity)
    (hw : Value.wtList args = true) (hpre : runPre b args (costSpec b).pre = .ok ()) :
    callBuiltin sem b args ≠ .panic :=
  callBuiltin_np sem b args hl hw hpre

/-- builtins return well-typed constants -/
theorem builtin_preserves_typing (sem : Sem) (b : Builtin) (args : List Value) (v : Value)
    (hl : args.length = b.arity) (hw : Value.wtList args = true) (h : callBuiltin sem b args = .ok v) :
    v.wt = true :=
  callBuiltin_wt sem b args v hl hw h

/-- one transition never panics and keeps constants well-typed -/
theorem step_no_panic (cfg : Config) (a : Acct) (s : State) (hwt : s.wt = true) (ha : AcctWF a) :
    step cfg a s ≠ .panic ∧ ∀ a' s', step cfg a s = .next a' s' → s'.wt = true := by
  have := step_safe cfg a s hwt ha
  constructor
  · intro h; rw [h] at this; exact this
  · intro a' s' h; rw [h] at this; exact this

theorem runFrom_no_panic (cfg : Config) : ∀ (fuel : Nat) (a : Acct) (s : State),
    s.wf = true → s.wt = true → AcctWF a → runFrom cfg fuel a s ≠ .panic := by
  intro fuel
  induction fuel with
  | zero => intro a s _ _ _ h; simp [runFrom] at h
  | succ n ih =>
    intro a s hwf hwt ha
    have hg := step_good cfg a s hwf ha
    have hs := step_safe cfg a s hwt ha
    simp only [runFrom]
    cases hst : step cfg a s with
    | next a' s' =>
      rw [hst] at hg hs
      simp only [StepGood] at hg
      simp only [StepSafe] at hs
      exact ih a' s' hg.2.1 hs hg.2.2
    | done a' t => intro h; cases h
    | fail => intro h; cases h
    | oob => intro h; cases h
    | panic => rw [hst] at hs; exact hs.elim
    | unmodelled => intro h; cases h

/-- **C10 (evaluator)**: evaluating ANY term whose constants are well-typed — open, ill-typed,
with arbitrarily large integers — under any budget, slippage, cost model and semantics variant never
panics: the run ends with a term, an evaluation error, budget exhaustion, or (model only) an
unmodelled cryptographic builtin. -/
theorem cek_no_panic (cfg : Config) (fuel : Nat) (budget : ExBudget) (t : NTerm) (ht : Term.wt t = true) :
    run cfg fuel budget t ≠ .panic := by
  unfold run
  cases hsu : cfg.costs.machineCost .startUp with
  | none => intro h; cases h
  | some c =>
    simp only
    rcases spendBudget_cases' ⟨budget, initCounts⟩ c with hsp | ⟨a, hsp, hb⟩
    · rw [hsp]; intro h; cases h
    · rw [hsp]
      simp only
      exact runFrom_no_panic cfg fuel a (.compute [] [] t) (by simp [State.wf, Value.wfList])
        (by simp [State.wt, Value.wtList, ht]) (by simp [AcctWF, hb, initCounts])

/-- **C10 (termination)**: under ANY finite budget — and any slippage, semantics variant, term (open,
ill-typed, any size) — the run halts: some number of machine steps is enough.  Hypothesis: every
machine step is priced at one CPU unit or more and no builtin has a negative price (`PosCosts`; the
step half is the decidable `stepsPositive`, answered by the driver for the cost models of the real
evaluator).  The measure is `cpu left · (slippage+1) + (slippage − steps counted and unspent)`, then
the depth of the context between two `compute` transitions. -/
theorem runFrom_terminates (cfg : Config) (hp : PosCosts cfg.costs cfg.sem) (a : Acct) (s : State)
    (hl : a.counts.length = 10) : ∃ fuel, runFrom cfg fuel a s ≠ .outOfFuel :=
  runFrom_halts cfg hp _ _ a s rfl hl rfl

theorem cek_terminates (cfg : Config) (hp : PosCosts cfg.costs cfg.sem) (budget : ExBudget) (t : NTerm) :
    ∃ fuel, run cfg fuel budget t ≠ .outOfFuel := by
  unfold run
  cases hsu : cfg.costs.machineCost .startUp with
  | none => exact ⟨0, by intro h; cases h⟩
  | some c =>
    simp only
    rcases spendBudget_cases' ⟨budget, initCounts⟩ c with hsp | ⟨a, hsp, hb⟩
    · exact ⟨0, by rw [hsp]; intro h; cases h⟩
    · obtain ⟨fuel, hf⟩ := runFrom_terminates cfg hp a (.compute [] [] t) (by rw [hb]; rfl)
      exact ⟨fuel, by rw [hsp]; exact hf⟩

/-- **C10 (evaluator), both halves**: evaluation of any term with well-typed constants under a finite
budget ENDS, and ends with a term, an evaluation error or budget exhaustion (or, model only, at an
unmodelled cryptographic builtin) — never a panic, never an endless run. -/
theorem cek_total (cfg : Config) (hp : PosCosts cfg.costs cfg.sem) (budget : ExBudget) (t : NTerm)
    (ht : Term.wt t = true) :
    ∃ fuel, (∃ a r, run cfg fuel budget t = .done a r) ∨ run cfg fuel budget t = .fail ∨
      run cfg fuel budget t = .oob ∨ run cfg fuel budget t = .unmodelled := by
  obtain ⟨fuel, hf⟩ := cek_terminates cfg hp budget t
  have hp' := cek_no_panic cfg fuel budget t ht
  refine ⟨fuel, ?_⟩
  cases h : run cfg fuel budget t with
  | done a r => exact Or.inl ⟨a, r, rfl⟩
  | fail => exact Or.inr (Or.inl rfl)
  | oob => exact Or.inr (Or.inr (Or.inl rfl))
  | unmodelled => exact Or.inr (Or.inr (Or.inr rfl))
  | panic => exact absurd h hp'
  | outOfFuel => exact absurd h hf

/-- `PosCosts` follows from two DECIDABLE checks on a concrete cost model — every step priced ≥ 1 cpu
(`stepsPositive`) and no costing function with a negative coefficient or floor (`builtinsNonneg`;
all size measures are non-negative, `measures_nonneg`).  The driver evaluates both on the cost models
the real evaluator runs with (`costpos`), so for those the termination theorem holds outright: -/
theorem cek_terminates_checked (cfg : Config) (h1 : stepsPositive cfg.costs = true)
    (h2 : builtinsNonneg cfg.costs = true) (budget : ExBudget) (t : NTerm) :
    ∃ fuel, run cfg fuel budget t ≠ .outOfFuel :=
  cek_terminates cfg (posCosts_of_checks cfg.costs cfg.sem h1 h2) budget t

/-- the step half of `PosCosts` is decidable on a concrete cost model -/
theorem posCosts_of_check (cm : CostModel) (sem : Sem) (h : stepsPositive cm = true)
    (hb : ∀ b args c, builtinCost cm sem b args = .ok c → ExBudget.le .zero c) : PosCosts cm sem :=
  posCosts_of cm sem h hb

/-- non-vacuity: a cost model with the ledger's step prices passes the check, one with a free step
does not; and the divergent term `(λx. x x) (λx. x x)` — which needs unbounded fuel without a
budget — is stopped by budget exhaustion -/
example :
    let cm : CostModel := ⟨[("startup", ⟨100, 100⟩), ("constant", ⟨100, 16000⟩), ("apply", ⟨100, 16000⟩),
      ("lambda", ⟨100, 16000⟩), ("var", ⟨100, 16000⟩), ("delay", ⟨100, 16000⟩), ("force", ⟨100, 16000⟩),
      ("builtin", ⟨100, 16000⟩), ("constr", ⟨100, 16000⟩), ("case", ⟨100, 16000⟩)], []⟩
    let cm0 : CostModel := ⟨[("startup", ⟨100, 100⟩), ("constant", ⟨100, 16000⟩), ("apply", ⟨100, 0⟩),
      ("lambda", ⟨100, 16000⟩), ("var", ⟨100, 16000⟩), ("delay", ⟨100, 16000⟩), ("force", ⟨100, 16000⟩),
      ("builtin", ⟨100, 16000⟩), ("constr", ⟨100, 16000⟩), ("case", ⟨100, 16000⟩)], []⟩
    let w : NTerm := .lam ⟨"x", 0⟩ (.app (.var ⟨"x", 1⟩) (.var ⟨"x", 1⟩))
    stepsPositive cm = true ∧ stepsPositive cm0 = false ∧
    run ⟨cm, .E, 5⟩ 40 ⟨1000, 100000⟩ (.app w w) = .oob := by
  exact ⟨rfl, rfl, rfl⟩

/-- **C10, "decoded from untrusted bytes"**: whatever bytes are given, if the flat decoder (model of
`flat.rs`, either the unchanged or the repaired pallas reading mode) returns a program, then that
program meets the hypothesis of the theorems above (`fromFlat_wt`: list items are decoded BY the
declared element type) — so its evaluation under any finite budget ends with a term, an evaluation
error or budget exhaustion; it neither panics nor runs forever. -/
theorem decoded_program_never_crashes (cfg : Config) (h1 : stepsPositive cfg.costs = true)
    (h2 : builtinsNonneg cfg.costs = true) (cd : Flat.DataCodec) (m : Flat.Mode) (bytes : Bytes)
    (p : Program NamedDeBruijn) (hdec : Flat.fromFlat cd m bytes = .ok p) (budget : ExBudget) :
    ∃ fuel, (∃ a r, run cfg fuel budget p.term = .done a r) ∨ run cfg fuel budget p.term = .fail ∨
      run cfg fuel budget p.term = .oob ∨ run cfg fuel budget p.term = .unmodelled :=
  cek_total cfg (posCosts_of_checks cfg.costs cfg.sem h1 h2) budget p.term (Flat.fromFlat_wt cd m bytes p hdec)

/-- reading back the final value is a total function (no fuel, no failure case) -/
theorem discharge_total (v : Value) : ∃ t, valueAsTerm v = t := ⟨_, rfl⟩

/-- non-vacuity: an OPEN, ill-typed term with a huge integer and an over-applied builtin satisfies the
hypothesis, and a term with an ill-typed list constant does not -/
example :
    Term.wt (.app (.app (.app (.builtin .sliceByteString) (.const (.integer (2 ^ 200)))) (.var ⟨"free", 7⟩))
      (.const (.list .integer [.integer 1, .integer 2]))) = true ∧
    Term.wt (.const (.list .integer [.bytestring []])) = false := by
  constructor <;> rfl

end AikenVerif.C10
