import AikenVerif.Lemmas.CekNoPanic
/-!
# C10 — evaluation never crashes: property theorems (evaluator part)

Every Rust operation of `machine.rs`, `runtime.rs`, `cost_model.rs`, `value.rs`, `discharge.rs`
that can panic (`unwrap`, indexing, `usize` conversion, `len - idx`, `unreachable!()`) is an explicit
`panic` outcome of the impl model.  The theorems say that outcome is unreachable.

Hypothesis `Term.wt t`: list/pair CONSTANTS carry items of their declared type — what the flat
decoder and the text parser construct by decoding items by the declared type (checked on the real
decoders by the correspondence `c10-eval`).  Nothing is assumed about the term otherwise: it may be
open, ill-typed, over- or under-apply builtins, use any integer size.
-/
namespace AikenVerif.C10
open AikenVerif Gen

/-- the generated costing table is coherent: every index is below the arity, no `unwrap()`, every
size/literal/list-length measure is backed by the fallible statement that establishes it -/
theorem cost_table_coherent : ∀ b : Builtin, costTableOK b = true := costTable_ok

/-- costing a saturated builtin never panics, whatever the arguments -/
theorem cost_no_panic (cm : CostModel) (sem : Sem) (b : Builtin) (args : List Value)
    (hl : args.length = b.arity) : builtinCost cm sem b args ≠ .panic :=
  builtinCost_np cm sem b args hl

/-- a saturated builtin applied to well-typed arguments, after its costing guards passed, never panics -/
theorem builtin_no_panic (sem : Sem) (b : Builtin) (args : List Value) (hl : args.length = b.arity)
    (hw : Value.wtList args = true) (hpre : runPre b args (costSpec b).pre = .ok ()) :
    callBuiltin sem b args ≠ .panic :=
  callBuiltin_np sem b args hl hw hpre

/-- builtins return well-typed constants -/
theorem builtin_preserves_typing (sem : Sem) (b : Builtin) (args : List Value) (v : Value)
    (hl : args.length = b.arity) (hw : Value.wtList args = true) (h : callBuiltin sem b args = .ok v) :
    v.wt = true :=
  callBuiltin_wt sem b args v hl hw h

/-- one transition never panics and keeps constants well-typed -/
theorem step_no_panic (cfg : Config) (a : Acct) (s : State) (hwt : s.wt = true) (ha : AcctWF a) :
    step cfg a s ≠ .panic ∧ ∀ a' s', step cfg a s = .next a' s' → s'.wt = true := by
  have := step_safe cfg a s hwt ha
  constructor
  · intro h; rw [h] at this; exact this
  · intro a' s' h; rw [h] at this; exact this

theorem runFrom_no_panic (cfg : Config) : ∀ (fuel : Nat) (a : Acct) (s : State),
    s.wf = true → s.wt = true → AcctWF a → runFrom cfg fuel a s ≠ .panic := by
  intro fuel
  induction fuel with
  | zero => intro a s _ _ _ h; simp [runFrom] at h
  | succ n ih =>
    intro a s hwf hwt ha
    have hg := step_good cfg a s hwf ha
    have hs := step_safe cfg a s hwt ha
    simp only [runFrom]
    cases hst : step cfg a s with
    | next a' s' =>
      rw [hst] at hg hs
      simp only [StepGood] at hg
      simp only [StepSafe] at hs
      exact ih a' s' hg.2.1 hs hg.2.2
    | done a' t => intro h; cases h
    | fail => intro h; cases h
    | oob => intro h; cases h
    | panic => rw [hst] at hs; exact hs.elim
    | unmodelled => intro h; cases h

/-- **C10 (evaluator)**: evaluating ANY term whose constants are well-typed — open, ill-typed,
with arbitrarily large integers — under any budget, slippage, cost model and semantics variant never
panics: the run ends with a term, an evaluation error, budget exhaustion, or (model only) an
unmodelled cryptographic builtin. -/
theorem cek_no_panic (cfg : Config) (fuel : Nat) (budget : ExBudget) (t : NTerm) (ht : Term.wt t = true) :
    run cfg fuel budget t ≠ .panic := by
  unfold run
  cases hsu : cfg.costs.machineCost .startUp with
  | none => intro h; cases h
  | some c =>
    simp only
    rcases spendBudget_cases' ⟨budget, initCounts⟩ c with hsp | ⟨a, hsp, hb⟩
    · rw [hsp]; intro h; cases h
    · rw [hsp]
      simp only
      exact runFrom_no_panic cfg fuel a (.compute [] [] t) (by simp [State.wf, Value.wfList])
        (by simp [State.wt, Value.wtList, ht]) (by simp [AcctWF, hb, initCounts])

/-- reading back the final value is a total function (no fuel, no failure case) -/
theorem discharge_total (v : Value) : ∃ t, valueAsTerm v = t := ⟨_, rfl⟩

/-- non-vacuity: an OPEN, ill-typed term with a huge integer and an over-applied builtin satisfies the
hypothesis, and a term with an ill-typed list constant does not -/
example :
    Term.wt (.app (.app (.app (.builtin .sliceByteString) (.const (.integer (2 ^ 200)))) (.var ⟨"free", 7⟩))
      (.const (.list .integer [.integer 1, .integer 2]))) = true ∧
    Term.wt (.const (.list .integer [.bytestring []])) = false := by
  constructor <;> rfl

end AikenVerif.C10
