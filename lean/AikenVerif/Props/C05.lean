import AikenVerif.Lemmas.CekThreshold
import AikenVerif.Props.C03
import AikenVerif.Model.CostSpecTable
import AikenVerif.Lemmas.CostNonneg
/-!
# C05 — execution budgets are exact: property theorems

`ledger` is the specification of the cost: start-up cost, plus for every transition of the
specification's machine the step cost of the term former computed or the costing function of the
builtin called (`stepCharge`).  It mentions neither the budget nor the batching interval.
The impl model (`run`) spends in batches (`unbudgeted_steps`, slippage) exactly as `machine.rs`.
-/
namespace AikenVerif.C05
open AikenVerif Gen

/-- total ledger cost of the (at most `fuel`) transitions of the specification's machine from `s` -/
def ledger (cm : CostModel) (sem : Sem) : Nat → State → ExBudget
  | 0, _ => .zero
  | n + 1, s =>
    match Spec.step sem (denotation sem) s with
    | .next s' => (stepCharge cm sem s).add (ledger cm sem n s')
    | _ => .zero

theorem runFrom_charged (cfg : Config) : ∀ (fuel : Nat) (a a' : Acct) (s : State) (t : NTerm),
    s.wf = true → AcctWF a → AcctInv cfg.costs a → runFrom cfg fuel a s = .done a' t →
    a'.budget = (eff cfg.costs a).sub (ledger cfg.costs cfg.sem fuel s) ∧ NonNeg a'.budget := by
  intro fuel
  induction fuel with
  | zero => intro a a' s t _ _ _ h; simp [runFrom] at h
  | succ n ih =>
    intro a a' s t hs hw hi h
    have hg := step_good cfg a s hs hw
    have hc := step_charged cfg a s hi
    simp only [runFrom] at h
    simp only [ledger]
    cases hst : step cfg a s with
    | next a1 s1 =>
      rw [hst] at h hg hc
      simp only at h
      simp only [StepGood] at hg
      simp only [StepCharged] at hc
      obtain ⟨h1, h2⟩ := ih a1 a' s1 t hg.2.1 hg.2.2 hc.2 h
      refine ⟨?_, h2⟩
      rw [h1, hc.1, hg.1]
      ext <;> simp [ExBudget.sub, ExBudget.add] <;> omega
    | done a1 t1 =>
      rw [hst] at h hg hc
      simp only at h
      cases h
      simp only [StepGood] at hg
      simp only [StepCharged] at hc
      refine ⟨?_, hc.2⟩
      rw [hc.1, hg]
      ext <;> simp [ExBudget.sub, ExBudget.zero]
    | fail => rw [hst] at h; cases h
    | oob => rw [hst] at h; cases h
    | panic => rw [hst] at h; cases h
    | unmodelled => rw [hst] at h; cases h

/-- the cost of a whole program: start-up plus the ledger of its run -/
def programCost (cm : CostModel) (sem : Sem) (fuel : Nat) (t : NTerm) : ExBudget :=
  (stepCostOf cm .startUp).add (ledger cm sem fuel (.compute [] [] t))

/-- **C05 (exactness)**: a successful evaluation leaves exactly `budget − (start-up + Σ step costs +
Σ builtin costs)`, whatever the batching interval, and the remaining budget is never negative. -/
theorem charged_exact (cfg : Config) (fuel : Nat) (budget : ExBudget) (t r : NTerm) (a' : Acct)
    (h : run cfg fuel budget t = .done a' r) :
    a'.budget = budget.sub (programCost cfg.costs cfg.sem fuel t) ∧ 0 ≤ a'.budget.mem ∧ 0 ≤ a'.budget.cpu := by
  unfold run at h
  cases hsu : cfg.costs.machineCost .startUp with
  | none => rw [hsu] at h; cases h
  | some c =>
    rw [hsu] at h
    simp only at h
    cases hsp : spendBudget ⟨budget, initCounts⟩ c with
    | ok a =>
      rw [hsp] at h
      simp only at h
      obtain ⟨hb, hc, hn⟩ := spendBudget_ok _ a c hsp
      simp only at hb hc
      have hz : ∀ j, a.counts.getD j 0 = 0 := by
        intro j; rw [hc]
        have : j = 0 ∨ j = 1 ∨ j = 2 ∨ j = 3 ∨ j = 4 ∨ j = 5 ∨ j = 6 ∨ j = 7 ∨ j = 8 ∨ j = 9 ∨ 10 ≤ j := by omega
        rcases this with h | h | h | h | h | h | h | h | h | h | h <;> try (subst h; rfl)
        rw [List.getD_eq_getElem?_getD, List.getElem?_eq_none (by simp [initCounts, unbudgetedLen]; omega)]; rfl
      have hp : pending cfg.costs a = .zero := pending_of_zero cfg.costs a hz
      have hi : AcctInv cfg.costs a := ⟨by simp [hc, initCounts, unbudgetedLen], fun _ => hp, hn⟩
      have hw : AcctWF a := by simp [AcctWF, hc, initCounts]
      obtain ⟨h1, h2⟩ := runFrom_charged cfg fuel a a' (.compute [] [] t) r
        (by simp [State.wf, Value.wfList]) hw hi h
      refine ⟨?_, h2.1, h2.2⟩
      rw [h1]
      simp only [eff, hp, hb, programCost, stepCostOf, hsu, Option.getD_some]
      ext <;> simp [ExBudget.sub, ExBudget.add, ExBudget.zero] <;> omega
    | oob => rw [hsp] at h; cases h
    | fail => rw [hsp] at h; cases h
    | panic => rw [hsp] at h; cases h
    | unmodelled => rw [hsp] at h; cases h

/-- **C05 (batching is irrelevant)**: two successful evaluations of the same program under the same
cost model and semantics — with any two slippages and any two budgets — return the same term and
are charged the same amount. -/
theorem slippage_irrelevant (costs : CostModel) (sem : Sem) (s1 s2 : Nat) (fuel : Nat) (b1 b2 : ExBudget)
    (t r1 r2 : NTerm) (a1 a2 : Acct)
    (h1 : run ⟨costs, sem, s1⟩ fuel b1 t = .done a1 r1)
    (h2 : run ⟨costs, sem, s2⟩ fuel b2 t = .done a2 r2) :
    r1 = r2 ∧ b1.sub a1.budget = b2.sub a2.budget := by
  have e1 := charged_exact ⟨costs, sem, s1⟩ fuel b1 t r1 a1 h1
  have e2 := charged_exact ⟨costs, sem, s2⟩ fuel b2 t r2 a2 h2
  have c1 := C03.cek_refines_spec ⟨costs, sem, s1⟩ fuel b1 t
  have c2 := C03.cek_refines_spec ⟨costs, sem, s2⟩ fuel b2 t
  rw [h1] at c1
  rw [h2] at c2
  simp only at c1 c2
  refine ⟨?_, ?_⟩
  · rw [c1] at c2; cases c2; rfl
  · rw [e1.1, e2.1]
    ext <;> simp [ExBudget.sub] <;> omega

/-- **C05 (no success beyond the budget)**: success implies that the program's cost fits the budget
in both dimensions. -/
theorem success_implies_cost_le_budget (cfg : Config) (fuel : Nat) (budget : ExBudget) (t r : NTerm) (a' : Acct)
    (h : run cfg fuel budget t = .done a' r) :
    (programCost cfg.costs cfg.sem fuel t).mem ≤ budget.mem ∧ (programCost cfg.costs cfg.sem fuel t).cpu ≤ budget.cpu := by
  obtain ⟨h1, h2, h3⟩ := charged_exact cfg fuel budget t r a' h
  rw [h1] at h2 h3
  simp only [ExBudget.sub] at h2 h3
  constructor <;> omega

theorem ledger_nonneg (cm : CostModel) (sem : Sem) (hn : NonnegCosts cm sem) : ∀ (n : Nat) (s : State),
    ExBudget.le .zero (ledger cm sem n s) := by
  intro n
  induction n with
  | zero => intro s; simp [ledger, ExBudget.le, ExBudget.zero]
  | succ n ih =>
    intro s
    simp only [ledger]
    cases Spec.step sem (denotation sem) s with
    | next s' =>
      have h1 := stepCharge_nonneg cm sem hn s
      have h2 := ih s'
      simp only [ExBudget.le, ExBudget.add, ExBudget.zero] at *
      constructor <;> omega
    | done _ => simp [ExBudget.le, ExBudget.zero]
    | fail => simp [ExBudget.le, ExBudget.zero]
    | other => simp [ExBudget.le, ExBudget.zero]

/-- with non-negative prices, a run whose effective budget covers the ledger cost of the
specification's (successful) run never stops for budget reasons -/
theorem runFrom_no_oob (cfg : Config) (hn : NonnegCosts cfg.costs cfg.sem) : ∀ (fuel : Nat) (a : Acct) (s : State) (t : NTerm),
    s.wf = true → AcctWF a → AcctInv cfg.costs a →
    Spec.runFrom cfg.sem (denotation cfg.sem) fuel s = .done t →
    ExBudget.le (ledger cfg.costs cfg.sem fuel s) (eff cfg.costs a) →
    runFrom cfg fuel a s ≠ .oob := by
  intro fuel
  induction fuel with
  | zero => intro a s t _ _ _ h; simp [Spec.runFrom] at h
  | succ n ih =>
    intro a s t hs hw hi hspec hle
    have hg := step_good cfg a s hs hw
    have hc := step_charged cfg a s hi
    simp only [Spec.runFrom] at hspec
    simp only [ledger] at hle
    simp only [runFrom]
    cases hsp : Spec.step cfg.sem (denotation cfg.sem) s with
    | next s1 =>
      rw [hsp] at hspec hle
      simp only at hspec hle
      have hrest := ledger_nonneg cfg.costs cfg.sem hn n s1
      have hstep : step cfg a s ≠ .oob := by
        apply step_no_oob cfg hn a s hi
        simp only [ExBudget.le, ExBudget.add, ExBudget.zero] at hle hrest ⊢
        constructor <;> omega
      cases hst : step cfg a s with
      | next a1 s1' =>
        rw [hst] at hg hc
        simp only [StepGood] at hg
        simp only [StepCharged] at hc
        rw [hsp] at hg
        have : s1' = s1 := by have := hg.1; cases this; rfl
        subst this
        simp only
        apply ih a1 s1' t hg.2.1 hg.2.2 hc.2 hspec
        rw [hc.1]
        simp only [ExBudget.le, ExBudget.add, ExBudget.sub] at hle ⊢
        constructor <;> omega
      | done a1 t1 => intro h; cases h
      | fail => intro h; cases h
      | oob => exact absurd hst hstep
      | panic => intro h; cases h
      | unmodelled => intro h; cases h
    | done t1 =>
      rw [hsp] at hle
      have hstep : step cfg a s ≠ .oob := by
        apply step_no_oob cfg hn a s hi
        have hz : stepCharge cfg.costs cfg.sem s = .zero := by
          obtain ⟨v, rfl⟩ := spec_step_done cfg.sem (denotation cfg.sem) s t1 hsp
          rfl
        rw [hz]; exact hle
      cases hst : step cfg a s with
      | next a1 s1' => rw [hst] at hg; simp only [StepGood] at hg; rw [hsp] at hg; cases hg.1
      | done a1 t1' => intro h; cases h
      | fail => intro h; cases h
      | oob => exact absurd hst hstep
      | panic => intro h; cases h
      | unmodelled => intro h; cases h
    | fail => rw [hsp] at hspec; cases hspec
    | other => rw [hsp] at hspec; cases hspec

/-- **C05 (budget threshold, ⇐)**: with non-negative prices, if the program's ledger cost fits the
budget in both dimensions then evaluation never stops for budget reasons (and, the specification's
run being successful, never reports a failure either) — whatever the batching interval. Together
with `success_implies_cost_le_budget` this is "succeeds iff cost ≤ budget". -/
theorem budget_suffices (cfg : Config) (hn : NonnegCosts cfg.costs cfg.sem) (fuel : Nat) (budget : ExBudget)
    (t r : NTerm) (hstart : ExBudget.le .zero (stepCostOf cfg.costs .startUp))
    (hspec : Spec.run cfg.sem (denotation cfg.sem) fuel t = .done r)
    (hle : ExBudget.le (programCost cfg.costs cfg.sem fuel t) budget) :
    run cfg fuel budget t ≠ .oob ∧ run cfg fuel budget t ≠ .fail := by
  have hfail : run cfg fuel budget t ≠ .fail := by
    have := C03.cek_refines_spec cfg fuel budget t
    intro h
    rw [h] at this
    simp only at this
    rw [hspec] at this
    cases this
  refine ⟨?_, hfail⟩
  unfold run
  cases hsu : cfg.costs.machineCost .startUp with
  | none => intro h; cases h
  | some c =>
    simp only
    have hc : stepCostOf cfg.costs .startUp = c := by simp [stepCostOf, hsu]
    have hl := ledger_nonneg cfg.costs cfg.sem hn fuel (.compute [] [] t)
    simp only [programCost, hc, ExBudget.le, ExBudget.add, ExBudget.zero] at hle hstart hl
    cases hsp : spendBudget ⟨budget, initCounts⟩ c with
    | ok a =>
      simp only
      obtain ⟨hb, hcn, hnn⟩ := spendBudget_ok _ a c hsp
      simp only at hb hcn
      have hz : ∀ j, a.counts.getD j 0 = 0 := by
        intro j; rw [hcn]
        have : j = 0 ∨ j = 1 ∨ j = 2 ∨ j = 3 ∨ j = 4 ∨ j = 5 ∨ j = 6 ∨ j = 7 ∨ j = 8 ∨ j = 9 ∨ 10 ≤ j := by omega
        rcases this with h | h | h | h | h | h | h | h | h | h | h <;> try (subst h; rfl)
        rw [List.getD_eq_getElem?_getD, List.getElem?_eq_none (by simp [initCounts, unbudgetedLen]; omega)]; rfl
      have hp : pending cfg.costs a = .zero := pending_of_zero cfg.costs a hz
      have hi : AcctInv cfg.costs a := ⟨by simp [hcn, initCounts, unbudgetedLen], fun _ => hp, hnn⟩
      have hw : AcctWF a := by simp [AcctWF, hcn, initCounts]
      apply runFrom_no_oob cfg hn fuel a (.compute [] [] t) r (by simp [State.wf, Value.wfList]) hw hi hspec
      simp only [ExBudget.le, eff, hp, hb, ExBudget.sub, ExBudget.zero]
      constructor <;> omega
    | oob =>
      exfalso
      unfold spendBudget at hsp
      simp only at hsp
      split at hsp
      · rename_i hneg
        simp only [Bool.or_eq_true, decide_eq_true_eq] at hneg
        omega
      · cases hsp
    | fail => intro h; cases h
    | panic => intro h; cases h
    | unmodelled => intro h; cases h

/-- **which size measure feeds which costing function**: the recipe regenerated from `cost_model.rs`
(argument measured as memory words / literally / as a size in bytes / by list length / under the
ledger variant for text, and the fallible preliminary steps) is the specification's, builtin by
builtin; so `builtinCost` is the specification's cost function -/
theorem measure_table (b : Builtin) : Gen.costSpec b = Spec.costSpecOf b := by
  cases b <;> rfl

theorem builtinCost_is_spec (cm : CostModel) (sem : Sem) (b : Builtin) (args : List Value) :
    builtinCost cm sem b args = builtinCostWith (Spec.costSpecOf b) cm sem b args := by
  rw [← measure_table b]; rfl

/-- the generated step-kind tables are coherent: counter `i` of `unbudgeted_steps` is priced with the
cost of the step kind whose tag is `i`, and every term former is charged as a non-start-up kind -/
theorem machine_costs_table :
    (∀ k : StepKind, k ≠ .startUp → StepKind.ofTag k.tag = some k) ∧
    (∀ i, i < 9 → ∃ k, StepKind.ofTag i = some k) ∧
    Gen.unbudgetedLen = 10 :=
  ⟨ofTag_tag, ofTag_some, rfl⟩

/-- the price hypotheses of `budget_suffices` follow from two DECIDABLE checks on the cost model
(`stepsPositive`: every step kind priced, non-negative, ≥ 1 cpu; `builtinsNonneg`: no costing function
with a negative coefficient or floor), which the driver evaluates on the cost models of the real
evaluator (`costpos`, correspondence `c05-budget` / `c10-eval`).  So for those: succeeds iff cost ≤ budget. -/
theorem budget_suffices_checked (cfg : Config) (h1 : stepsPositive cfg.costs = true)
    (h2 : builtinsNonneg cfg.costs = true) (fuel : Nat) (budget : ExBudget) (t r : NTerm)
    (hspec : Spec.run cfg.sem (denotation cfg.sem) fuel t = .done r)
    (hle : ExBudget.le (programCost cfg.costs cfg.sem fuel t) budget) :
    run cfg fuel budget t ≠ .oob ∧ run cfg fuel budget t ≠ .fail := by
  have hp := posCosts_of_checks cfg.costs cfg.sem h1 h2
  have hk := kindOK_sound cfg.costs .startUp (List.all_eq_true.mp h1 _ (mem_allKinds .startUp))
  exact budget_suffices cfg hp.nonneg fuel budget t r ⟨hk.1, hk.2.1⟩ hspec hle

/-- non-vacuity: a concrete program, cost model and two slippages for which the hypotheses hold -/
example :
    let cm : CostModel := ⟨[("startup", ⟨100, 100⟩), ("constant", ⟨100, 16000⟩), ("apply", ⟨100, 16000⟩),
      ("lambda", ⟨100, 16000⟩), ("var", ⟨100, 16000⟩), ("delay", ⟨1, 2⟩), ("force", ⟨3, 4⟩),
      ("builtin", ⟨5, 6⟩), ("constr", ⟨7, 8⟩), ("case", ⟨9, 10⟩)], []⟩
    let t : NTerm := .app (.lam ⟨"x", 0⟩ (.var ⟨"x", 1⟩)) (.const (.integer 1))
    (∃ a, run ⟨cm, .E, 200⟩ 20 ⟨1000, 100000⟩ t = .done a (.const (.integer 1)) ∧ a.budget = ⟨500, 35900⟩) ∧
    (∃ a, run ⟨cm, .E, 1⟩ 20 ⟨500, 64100⟩ t = .done a (.const (.integer 1)) ∧ a.budget = ⟨0, 0⟩) := by
  exact ⟨⟨_, rfl, rfl⟩, ⟨_, rfl, rfl⟩⟩

end AikenVerif.C05

