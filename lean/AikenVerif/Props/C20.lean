import AikenVerif.Lemmas.FlatTotal
import AikenVerif.Lemmas.FlatFuel
import AikenVerif.Model.Cbor
/-!
# C20 — malformed input is rejected with an error, not a crash
## (this file: the flat / CBOR-wrapper program decoders only)

Over M-FLAT's decoder (`Model/Flat.lean`), whose outcomes are `ok | err | panic |
fuel`, for **every** byte string:

* `flat_decode_no_panic` — the decoder with the guards of
  `proposed_fixes/C20-flat-decoder-guards.diff` (`Mode.fixed`) never panics;
* `flat_decode_impl_panics_*` — the decoder as linked by the unchanged tree
  (`Mode.impl`) does, on two concrete inputs (these are the replays);
* `flat_decode_terminates` — in both modes the decoder's loops stop: the fuel
  `8·len + 1` given by `fromFlat` is never exhausted (every loop iteration and
  every nested call consumes at least one bit).

The UPLC text parser, the Aiken parser/formatter and blueprint loading are NOT
covered here.
-/
namespace AikenVerif.C20
open AikenVerif AikenVerif.Flat

def Res.isPanic {α : Type} : Res α → Bool
  | .panic => true
  | _ => false

def Res.isErr {α : Type} : Res α → Bool
  | .err => true
  | _ => false

section
variable {β : Type} [FlatBinder β]

/-- **flat_decode_no_panic** (repaired decoder): every byte string gives a
program or an error -/
theorem flat_decode_no_panic [SafeFlatBinder β] (cd : DataCodec) (bytes : Bytes) :
    (fromFlat cd .fixed bytes : Res (Program β)) ≠ .panic := by
  unfold fromFlat
  have := np_program_fixed (β := β) cd ⟨0, bitsOfBytes bytes⟩
  cases h : decProgram (β := β) cd .fixed ⟨0, bitsOfBytes bytes⟩ with
  | ok r => simp
  | err => simp
  | panic => exact absurd h this
  | fuel => simp

/-- **flat_decode_terminates** (both decoders): the loop bound of the model is
never hit — each iteration consumes input or the decoder stops -/
theorem flat_decode_terminates [ProgFlatBinder β] (cd : DataCodec) (m : Mode) (bytes : Bytes) :
    (fromFlat cd m bytes : Res (Program β)) ≠ .fuel := by
  unfold fromFlat
  have := (prog_program (β := β) cd m ⟨0, bitsOfBytes bytes⟩).1
  cases h : decProgram (β := β) cd m ⟨0, bitsOfBytes bytes⟩ with
  | ok r => simp
  | err => simp
  | panic => simp
  | fuel => exact absurd h this

/-- a successful decode never reads past the end: what it leaves is a suffix no
longer than the input (stated on lengths) -/
theorem flat_decode_consumes [ProgFlatBinder β] (cd : DataCodec) (m : Mode) (s s' : S) (p : Program β)
    (h : decProgram cd m s = .ok (p, s')) : s'.bs.length + 29 ≤ s.bs.length :=
  (prog_program (β := β) cd m s).2 p s' h

/-- `Program::from_cbor`: the byte-string wrapper, then `from_flat` -/
def fromCbor (cd : DataCodec) (m : Mode) (bytes : Bytes) : Res (Program β) :=
  match Cbor.unwrapBytes bytes with
  | none => .err
  | some flat => fromFlat cd m flat

theorem cbor_decode_no_panic [SafeFlatBinder β] (cd : DataCodec) (bytes : Bytes) :
    (fromCbor cd .fixed bytes : Res (Program β)) ≠ .panic := by
  unfold fromCbor
  split
  · simp
  · exact flat_decode_no_panic cd _

end

/-- the three binder forms -/
theorem flat_decode_no_panic_all (cd : DataCodec) (bytes : Bytes) :
    (fromFlat cd .fixed bytes : Res (Program DeBruijn)) ≠ .panic ∧
    (fromFlat cd .fixed bytes : Res (Program NamedDeBruijn)) ≠ .panic ∧
    (fromFlat cd .fixed bytes : Res (Program Name)) ≠ .panic :=
  ⟨flat_decode_no_panic cd bytes, flat_decode_no_panic cd bytes, flat_decode_no_panic cd bytes⟩

theorem flat_decode_terminates_all (cd : DataCodec) (m : Mode) (bytes : Bytes) :
    (fromFlat cd m bytes : Res (Program DeBruijn)) ≠ .fuel ∧
    (fromFlat cd m bytes : Res (Program NamedDeBruijn)) ≠ .fuel ∧
    (fromFlat cd m bytes : Res (Program Name)) ≠ .fuel :=
  ⟨flat_decode_terminates cd m bytes, flat_decode_terminates cd m bytes, flat_decode_terminates cd m bytes⟩

/-- the unchanged tree: an 11-group word makes `Decoder::word` shift by 70 -/
theorem flat_decode_impl_panics_word :
    Res.isPanic (fromFlat DataCodec.opaque .impl
      [0xff, 0xff, 0xff, 0xff, 0xff, 0xff, 0xff, 0xff, 0xff, 0xff, 0xff, 0x01] : Res (Program DeBruijn)) = true := by
  decide

/-- the unchanged tree: `(con (list (list bool)) [[` and then the buffer ends:
`Decoder::bool` indexes `buffer[pos]` with `pos = len` -/
theorem flat_decode_impl_panics_bool :
    Res.isPanic (fromFlat DataCodec.opaque .impl
      [0x01, 0x00, 0x00, 0x4b, 0xd6, 0xf5, 0xa3] : Res (Program DeBruijn)) = true := by
  decide

/-- the same two inputs are plain errors for the repaired decoder -/
theorem flat_decode_fixed_rejects :
    Res.isErr (fromFlat DataCodec.opaque .fixed
      [0xff, 0xff, 0xff, 0xff, 0xff, 0xff, 0xff, 0xff, 0xff, 0xff, 0xff, 0x01] : Res (Program DeBruijn)) = true ∧
    Res.isErr (fromFlat DataCodec.opaque .fixed
      [0x01, 0x00, 0x00, 0x4b, 0xd6, 0xf5, 0xa3] : Res (Program DeBruijn)) = true := by
  decide

end AikenVerif.C20
