import AikenVerif.Lemmas.MatchCheck
import AikenVerif.Lemmas.MatchTree
import AikenVerif.Lemmas.ListSwitch
import AikenVerif.Lemmas.MatchPanic
/-!
# C07 — Pattern matching is exhaustive when accepted and first-match when run

Model: `AikenVerif/Model/Match.lean` (impl model of `tipo/exhaustive.rs` and of the loop of
`Environment::check_exhaustiveness`; spec `pmatch` / `firstMatch`; decision trees).

All theorems quantify over every signature `sg`, every matrix / clause list and every value.
Hypotheses are the decidable (Bool-valued) predicates

* `Sig.ok sg`            — constructor names of a type are distinct, field types are declared;
* `inhOk sg inh`         — the table `inh` holds one well-typed value per declared type
                           ("every type is inhabited");
* `Matrix.hasTy sg M ts` / `Pat.hasTyL sg v ts` / `Pat.hasTy sg p t` — patterns are well-typed;
* `Ty.ok sg t`           — the (column / scrutinee) type is declared.

Int / ByteArray literals are an infinite domain; lists are the data type `:: | []`, tuples and
pairs are single-constructor data types, so they need no separate treatment.
-/
namespace AikenVerif.C07
open AikenVerif.Match

/-! ## usefulness (`Matrix::is_useful`) -/

/-- **soundness**: a vector reported *not useful* matches no value that the matrix does not
already match -/
theorem useful_sound {sg : Sig} {M : Matrix} {v : Row} {ts : List Ty}
    (hM : Matrix.hasTy sg M ts = true) (hv : Pat.hasTyL sg v ts = true)
    (h : isUseful M v = false) :
    ∀ vs, Val.hasTyL sg vs ts = true → pmatchL v vs = true → ∃ r ∈ M, pmatchL r vs = true :=
  useful_sound_gen M v ts hM hv h

/-- **completeness**: a vector reported *useful* matches some well-typed value vector that no
row of the matrix matches -/
theorem useful_complete {sg : Sig} {inh : List Val} {M : Matrix} {v : Row} {ts : List Ty}
    (hs : Sig.ok sg = true) (hi : inhOk sg inh = true) (hts : ts.all (Ty.ok sg) = true)
    (hM : Matrix.hasTy sg M ts = true) (hv : Pat.hasTyL sg v ts = true)
    (h : isUseful M v = true) :
    ∃ vs, Val.hasTyL sg vs ts = true ∧ pmatchL v vs = true ∧ ∀ r ∈ M, pmatchL r vs = false :=
  useful_complete_gen hs hi M v ts (by simpa [List.all_eq_true] using hts) hM hv h

/-- the two directions together -/
theorem useful_iff {sg : Sig} {inh : List Val} {M : Matrix} {v : Row} {ts : List Ty}
    (hs : Sig.ok sg = true) (hi : inhOk sg inh = true) (hts : ts.all (Ty.ok sg) = true)
    (hM : Matrix.hasTy sg M ts = true) (hv : Pat.hasTyL sg v ts = true) :
    isUseful M v = true ↔
      ∃ vs, Val.hasTyL sg vs ts = true ∧ pmatchL v vs = true ∧ ∀ r ∈ M, pmatchL r vs = false := by
  constructor
  · exact useful_complete hs hi hts hM hv
  · rintro ⟨vs, h1, h2, h3⟩
    cases hu : isUseful M v with
    | true => rfl
    | false =>
      obtain ⟨r, hr, hm⟩ := useful_sound hM hv hu vs h1 h2
      rw [h3 r hr] at hm; cases hm

/-! ## missing patterns (`Matrix::collect_missing_patterns`) -/

/-- the report is empty exactly when every value of the scrutinee type is matched by a row -/
theorem missing_empty_iff_exhaustive {sg : Sig} {inh : List Val} {M : Matrix} {t : Ty}
    (hs : Sig.ok sg = true) (hi : inhOk sg inh = true) (ht : Ty.ok sg t = true)
    (hM : Matrix.hasTy sg M [t] = true) :
    collectMissing M 1 = [] ↔ ∀ x, Val.hasTy sg x t = true → ∃ r ∈ M, pmatchL r [x] = true := by
  constructor
  · intro he x hx
    exact missing_nil_exhaustive_gen hs M 1 [t] rfl hM he [x] (by simp [Val.hasTyL, hx])
  · intro hex
    cases he : collectMissing M 1 with
    | nil => rfl
    | cons p ps =>
      have hp : p ∈ collectMissing M 1 := by rw [he]; simp
      obtain ⟨vs, h1, _, h3⟩ := missing_witness_gen hs hi M 1 [t] rfl
        (by intro t' h'; simp at h'; subst h'; exact ht) hM p hp
      obtain ⟨x, e, hx⟩ := Val.hasTyL_singleton h1
      subst e
      obtain ⟨r, hr, hm⟩ := hex x hx
      rw [h3 r hr] at hm; cases hm

/-- every reported missing pattern is unmatched: NO value it matches is matched by a row —
for matrices without Int/ByteArray literal patterns (no typing hypothesis needed) -/
theorem missing_are_unmatched {M : Matrix} (hlf : Matrix.litFree M = true) {p : Pat}
    (hp : [p] ∈ collectMissing M 1) :
    ∀ x, pmatch p x = true → ∀ r ∈ M, pmatchL r [x] = false := by
  intro x hx r hr
  exact missing_strong_gen M 1 hlf [p] hp [x] (by simp [pmatchL, hx]) r hr

/-- with literal patterns the checker prints `_` in the literal's position, so only this holds:
every reported missing pattern has a well-typed instance that no row matches.
(Missing w.r.t. `missing_are_unmatched`: "all instances" when the matrix contains literals —
that stronger statement is false for the code by design, e.g. `when x is { 1 -> .. }` reports `_`.) -/
theorem missing_are_unmatched_partial {sg : Sig} {inh : List Val} {M : Matrix} {t : Ty}
    (hs : Sig.ok sg = true) (hi : inhOk sg inh = true) (ht : Ty.ok sg t = true)
    (hM : Matrix.hasTy sg M [t] = true) {p : Pat} (hp : [p] ∈ collectMissing M 1) :
    ∃ x, Val.hasTy sg x t = true ∧ pmatch p x = true ∧ ∀ r ∈ M, pmatchL r [x] = false := by
  obtain ⟨vs, h1, h2, h3⟩ := missing_witness_gen hs hi M 1 [t] rfl
    (by intro t' h'; simp at h'; subst h'; exact ht) hM [p] hp
  obtain ⟨x, e, hx⟩ := Val.hasTyL_singleton h1
  subst e
  simp only [pmatchL, Bool.and_true] at h2
  exact ⟨x, hx, h2, h3⟩

/-- every reported row consists of exactly one pattern (what `flatten` in the caller relies on) -/
theorem missing_width (M : Matrix) : ∀ r ∈ collectMissing M 1, r.length = 1 :=
  collectMissing_length M 1

/-! ## the checker (`Environment::check_exhaustiveness`) -/

/-- **accept ⇔ no clause is subsumed by the earlier ones ∧ the clauses cover every value** -/
theorem check_accepts_iff {sg : Sig} {inh : List Val} {t : Ty} (cs : List Pat)
    (hs : Sig.ok sg = true) (hi : inhOk sg inh = true) (ht : Ty.ok sg t = true)
    (hcs : cs.all (fun p => Pat.hasTy sg p t) = true) :
    checkExhaustive cs = .ok ↔
      (∀ i (h : i < cs.length), ∃ x, Val.hasTy sg x t = true ∧ pmatch cs[i] x = true ∧
          ∀ p ∈ cs.take i, pmatch p x = false) ∧
      (∀ x, Val.hasTy sg x t = true → ∃ p ∈ cs, pmatch p x = true) := by
  have hcs' : ∀ p ∈ cs, Pat.hasTy sg p t = true := by simpa [List.all_eq_true] using hcs
  have htake : ∀ i, Matrix.hasTy sg (rowsOf (cs.take i)) [t] = true := fun i =>
    rowsOf_hasTy (fun p hp => hcs' p (List.mem_of_mem_take hp))
  have hall := rowsOf_hasTy hcs'
  unfold checkExhaustive
  rw [checkLoop_ok cs [] 0]
  simp only [List.nil_append]
  rw [missing_empty_iff_exhaustive hs hi ht hall]
  constructor
  · rintro ⟨h1, h2⟩
    refine ⟨?_, fun x hx => (rowsOf_matches cs x).mp (h2 x hx)⟩
    intro i hi'
    obtain ⟨vs, hv1, hv2, hv3⟩ := useful_complete hs hi (ts := [t]) (by simp [ht]) (htake i)
      (by simp [Pat.hasTyL, hcs' _ (List.getElem_mem hi')]) (h1 i hi')
    obtain ⟨x, e, hx⟩ := Val.hasTyL_singleton hv1
    subst e
    simp only [pmatchL, Bool.and_true] at hv2
    exact ⟨x, hx, hv2, (rowsOf_unmatched _ x).mp hv3⟩
  · rintro ⟨h1, h2⟩
    refine ⟨?_, fun x hx => (rowsOf_matches cs x).mpr (h2 x hx)⟩
    intro i hi'
    obtain ⟨x, hx1, hx2, hx3⟩ := h1 i hi'
    exact (useful_iff hs hi (ts := [t]) (by simp [ht]) (htake i)
      (by simp [Pat.hasTyL, hcs' _ (List.getElem_mem hi')])).mpr
      ⟨[x], by simp [Val.hasTyL, hx1], by simp [pmatchL, hx2], (rowsOf_unmatched _ x).mpr hx3⟩

/-- a clause is reported redundant only if no value can reach it: every value it matches is
matched by an earlier clause -/
theorem check_redundant_sound {sg : Sig} {t : Ty} (cs : List Pat) {k : Nat}
    (hcs : cs.all (fun p => Pat.hasTy sg p t) = true)
    (h : checkExhaustive cs = .redundant k) :
    ∃ hk : k < cs.length, ∀ x, Val.hasTy sg x t = true → pmatch cs[k] x = true →
      ∃ p ∈ cs.take k, pmatch p x = true := by
  have hcs' : ∀ p ∈ cs, Pat.hasTy sg p t = true := by simpa [List.all_eq_true] using hcs
  unfold checkExhaustive at h
  obtain ⟨j, e, hj, hu⟩ := checkLoop_redundant cs [] 0 k h
  simp only [Nat.zero_add] at e
  subst e
  refine ⟨hj, ?_⟩
  intro x hx hm
  simp only [List.nil_append] at hu
  have := useful_sound (sg := sg) (ts := [t])
    (rowsOf_hasTy (fun p hp => hcs' p (List.mem_of_mem_take hp)))
    (by simp [Pat.hasTyL, hcs' _ (List.getElem_mem hj)]) hu [x]
    (by simp [Val.hasTyL, hx]) (by simp [pmatchL, hm])
  exact (rowsOf_matches _ x).mp this

/-- when the checker answers `NotExhaustive{unmatched}`: the list is not empty, no clause was
redundant, and every listed pattern has a well-typed instance matched by no clause; if no clause
contains a literal, no instance of a listed pattern is matched by any clause -/
theorem check_notExhaustive_sound {sg : Sig} {inh : List Val} {t : Ty} (cs : List Pat) {ms : List Pat}
    (hs : Sig.ok sg = true) (hi : inhOk sg inh = true) (ht : Ty.ok sg t = true)
    (hcs : cs.all (fun p => Pat.hasTy sg p t) = true)
    (h : checkExhaustive cs = .notExhaustive ms) :
    ms ≠ [] ∧
    (∀ q ∈ ms, ∃ x, Val.hasTy sg x t = true ∧ pmatch q x = true ∧ ∀ p ∈ cs, pmatch p x = false) ∧
    (Matrix.litFree (rowsOf cs) = true →
      ∀ q ∈ ms, ∀ x, pmatch q x = true → ∀ p ∈ cs, pmatch p x = false) := by
  have hcs' : ∀ p ∈ cs, Pat.hasTy sg p t = true := by simpa [List.all_eq_true] using hcs
  unfold checkExhaustive at h
  obtain ⟨hne, e⟩ := checkLoop_notExhaustive cs [] 0 ms h
  simp only [List.nil_append] at e
  refine ⟨hne, ?_, ?_⟩
  · intro q hq
    rw [e, mem_flatten_of_length (missing_width _)] at hq
    obtain ⟨x, h1, h2, h3⟩ := missing_are_unmatched_partial hs hi ht (rowsOf_hasTy hcs') hq
    exact ⟨x, h1, h2, (rowsOf_unmatched cs x).mp h3⟩
  · intro hlf q hq x hx
    rw [e, mem_flatten_of_length (missing_width _)] at hq
    exact (rowsOf_unmatched cs x).mp (missing_are_unmatched hlf hq x hx)

/-! ## the checker's partial operations are never reached on well-typed input

`Model/MatchPanic.lean` keeps the Rust's `unreachable!("constructors and literals should never
align …")` and `self.0[0]` on an empty row as the outcome `Out.panic`. -/

/-- `Matrix::is_useful` neither panics nor diverges on a well-typed matrix and vector: for every
large enough fuel the panic-aware model returns `ok` with the value of `isUseful` -/
theorem useful_never_panics {sg : Sig} {M : Matrix} {v : Row} {ts : List Ty}
    (hs : Sig.ok sg = true) (hM : Matrix.hasTy sg M ts = true) (hv : Pat.hasTyL sg v ts = true) :
    ∃ n, ∀ fuel, n ≤ fuel → isUsefulX fuel M v = .ok (isUseful M v) :=
  isUsefulX_ok hs M v ts hM hv

/-- the partial operations of `collect_missing_patterns` on a well-typed matrix: every row has a
head (`collect_ctors`), specialising by a constructor never meets a literal or an empty row;
both properties are inherited by the specialised matrices (`specCtor_hasTy`, `specWild_hasTy`) -/
theorem specialize_never_panics {sg : Sig} {M : Matrix} {t : Nat} {ts : List Ty} (c a : Nat)
    (hM : Matrix.hasTy sg M (.data t :: ts) = true) :
    allNonEmpty M = true ∧ filterMapX (specRowCtorX c a) M = .ok (specCtor c a M) :=
  ⟨allNonEmpty_of_hasTy hM, filterMapX_ctor_ok c a hM⟩

/-- `recover_ctor`'s `split_off(arity)` is within bounds: the rows it is applied to have
`arity + n - 1 ≥ arity` patterns (for `n ≥ 1`) -/
theorem recover_ctor_split_ok (M : Matrix) (arity n : Nat) (hn : n ≠ 0) :
    ∀ r ∈ collectMissing M (arity + n - 1), arity ≤ r.length := by
  intro r hr
  have := collectMissing_length M (arity + n - 1) r hr
  omega

/-- `Pattern::pretty` never meets a literal (`unreachable!("maybe never happens?")`): no reported
missing pattern contains one, whatever the matrix -/
theorem pretty_never_sees_literal (M : Matrix) (n : Nat) :
    ∀ r ∈ collectMissing M n, Pat.litFreeL r = true :=
  collectMissing_litFree M n

/-! ## run time: first match, bindings, decision trees -/

/-- `firstMatch` picks a matching clause and none before it matches -/
theorem firstMatch_spec (cs : List Pat) (x : Val) (i : Nat) :
    firstMatch cs x = some i ↔
      ∃ h : i < cs.length, pmatch cs[i] x = true ∧ ∀ p ∈ cs.take i, pmatch p x = false := by
  unfold firstMatch
  suffices H : ∀ (cs : List Pat) (b i : Nat), firstMatchFrom b cs x = some (b + i) ↔
      ∃ h : i < cs.length, pmatch cs[i] x = true ∧ ∀ p ∈ cs.take i, pmatch p x = false by
    simpa using H cs 0 i
  intro cs
  induction cs with
  | nil => intro b i; simp [firstMatchFrom]
  | cons p ps ih =>
    intro b i
    simp only [firstMatchFrom]
    cases hp : pmatch p x with
    | true =>
      simp only [if_true, Option.some.injEq]
      constructor
      · intro e
        have : i = 0 := by omega
        subst this
        exact ⟨by simp, by simpa using hp, by simp⟩
      · rintro ⟨_, _, h3⟩
        cases i with
        | zero => rfl
        | succ i => simp [hp] at h3
    | false =>
      simp only [Bool.false_eq_true, if_false]
      cases i with
      | zero =>
        constructor
        · intro e
          -- the index found in the tail is at least b + 1
          have : ∀ (qs : List Pat) (b k : Nat), firstMatchFrom b qs x = some k → b ≤ k := by
            intro qs
            induction qs with
            | nil => intro b k h; simp [firstMatchFrom] at h
            | cons q qs ihq =>
              intro b k h
              simp only [firstMatchFrom] at h
              split at h
              · cases h; omega
              · have := ihq _ _ h; omega
          have := this ps (b + 1) (b + 0) e
          omega
        · rintro ⟨_, h2, _⟩
          simp [hp] at h2
      | succ i =>
        have := ih (b + 1) i
        rw [show b + 1 + i = b + (i + 1) by omega] at this
        rw [this]
        simp [hp]

/-- every value of an accepted clause list has a first matching clause (no run-time
"no clause matched" for accepted programs) -/
theorem accepted_firstMatch_total {sg : Sig} {inh : List Val} {t : Ty} (cs : List Pat)
    (hs : Sig.ok sg = true) (hi : inhOk sg inh = true) (ht : Ty.ok sg t = true)
    (hcs : cs.all (fun p => Pat.hasTy sg p t) = true) (h : checkExhaustive cs = .ok) :
    ∀ x, Val.hasTy sg x t = true → ∃ i, firstMatch cs x = some i := by
  intro x hx
  obtain ⟨p, hp, hm⟩ := ((check_accepts_iff cs hs hi ht hcs).mp h).2 x hx
  unfold firstMatch
  suffices H : ∀ (cs : List Pat) (b : Nat), (∃ p ∈ cs, pmatch p x = true) →
      ∃ i, firstMatchFrom b cs x = some i from H cs 0 ⟨p, hp, hm⟩
  intro cs
  induction cs with
  | nil => intro b h; simp at h
  | cons q qs ih =>
    intro b h
    simp only [firstMatchFrom]
    split
    · exact ⟨b, rfl⟩
    · rename_i hq
      obtain ⟨p, hp, hm⟩ := h
      simp only [List.mem_cons] at hp
      rcases hp with e | hp
      · subst e; exact absurd hm hq
      · exact ih (b + 1) ⟨p, hp, hm⟩

/-- a source pattern binds variables exactly when its simplified matrix pattern matches -/
theorem bind_iff_matches (p : SPat) (v : Val) : (bind p v).isSome = pmatch (simplify p) v :=
  bind_isSome p v

/-- "each pattern variable is bound to the corresponding sub-value": the value bound to a variable
is the sub-value of the scrutinee at the variable's occurrence path (the `Assigned { path }` of
decision_tree.rs: argument indexes from the root), in binding order -/
theorem bindings_are_subvalues (p : SPat) (x : Val) (bs : List (Nat × Val)) (h : bind p x = some bs) :
    (varPaths p []).map (fun xp => (xp.1, subAt xp.2 x)) = bs.map (fun b => (b.1, some b.2)) :=
  bind_paths p x x [] bs rfl h

/-- hoisted clause bodies (repaired leaf): whatever order a leaf collected the clause's assignments
in, the body sees every variable bound to the sub-value at that variable's own path -/
theorem hoisted_call_fixed_correct (params leaf : List Assign) (root : Val)
    (hd : (leaf.map (·.1)).Nodup) (hsub : ∀ p ∈ params, p ∈ leaf) :
    callEnvFixed params leaf root = params.map (fun p => (p.1, subAt p.2 root)) := by
  simp only [callEnvFixed, reorderArgs_eq hd hsub]
  exact zip_map_self params (·.1) (fun a => subAt a.2 root)

/-- before the fix the arguments were passed in the leaf's own order: with the assignments of
`([Some(a), ..], H3(b, c, _))` collected as `[b, c, a]` by one leaf and `[a, b, c]` by the first one,
`a` receives the value of `b`, `b` that of `c`, `c` that of `a` (the failure found on the real code) -/
example :
    let root : Val := .ctor 0 [.ctor 1 [.ctor 2 [.lit (.int 7)], .ctor 3 []], .ctor 4 [.lit (.int 1), .lit (.int 2), .lit (.int 3)]]
    let params : List Assign := [(0, [0, 0, 0]), (1, [1, 0]), (2, [1, 1])]
    let leaf : List Assign := [(1, [1, 0]), (2, [1, 1]), (0, [0, 0, 0])]
    callEnvUnfixed params leaf root = [(0, some (.lit (.int 1))), (1, some (.lit (.int 2))), (2, some (.lit (.int 7)))] ∧
    callEnvFixed params leaf root = [(0, some (.lit (.int 7))), (1, some (.lit (.int 1))), (2, some (.lit (.int 2)))] :=
  ⟨rfl, rfl⟩

/-- the clause chosen with bindings is the first clause whose simplified pattern matches -/
theorem firstBind_is_firstMatch (cs : List SPat) (x : Val) :
    (firstBind cs x).map (·.1) = firstMatch (cs.map simplify) x :=
  firstBindFrom_index 0 cs x

/-- **decision trees**: for an ARBITRARY column-selection function, evaluating the compiled tree
on a scrutinee returns the first clause, in source order, whose pattern matches -/
theorem tree_is_firstMatch (sel : IMatrix → Nat) (cs : List Pat) (x : Val) :
    evalTree (buildClauses sel cs) [x] = firstMatch cs x := by
  unfold buildClauses firstMatch
  rw [tree_correct sel (indexRows 0 cs) [x] (by simpa using indexRows_width 0 cs)]
  exact firstMatchRows_indexRows 0 cs x

/-- the general form over matrices (any number of columns) -/
theorem tree_is_firstMatch_rows (sel : IMatrix → Nat) (M : IMatrix) (vs : List Val)
    (hw : ∀ r ∈ M, r.2.length = vs.length) :
    evalTree (build sel M) vs = firstMatchRows M vs :=
  tree_correct sel M vs hw

/-! ## the list-length dispatch of the real decision-tree compiler (fixed behaviour)

`AikenVerif/Model/ListSwitch.lean` mirrors the fold of `TreeGen::do_build_tree` that builds one
sub-matrix per `CaseTest::List(n)` / `ListWithTail(n)` and the selection made by
`CodeGenerator::handle_decision_tree` for a list of length `L`, as repaired by
`proposed_fixes/C07-list-tail-case-order.diff` (cases picked by length). -/

open AikenVerif.ListSwitch in
/-- with the fix, a list of length `L` is handled by exactly the clauses whose list pattern
admits length `L`, in source order — so the first matching clause is never lost by the dispatch -/
theorem list_dispatch_fixed_correct (rows : List ListSwitch.Row) (L : Nat) :
    dispatchFixed rows L = (rows.filter (fun r => r.1.admits L)).map (·.2) :=
  dispatchFixed_eq rows L

open AikenVerif.ListSwitch in
/-- in particular the first clause offered to a list of length `L` is the first one, in source
order, whose list shape admits `L` -/
theorem list_dispatch_fixed_head (rows : List ListSwitch.Row) (L : Nat) :
    (dispatchFixed rows L).head? = (rows.find? (fun r => r.1.admits L)).map (·.2) := by
  rw [dispatchFixed_eq]
  induction rows with
  | nil => rfl
  | cons r rows ih =>
    by_cases h : r.1.admits L = true
    · simp [List.filter_cons, List.find?_cons, h]
    · simp only [Bool.not_eq_true] at h
      simp [List.filter_cons, List.find?_cons, h, ih]

open AikenVerif.ListSwitch in
/-- the selection before the fix (`tail_cases.last()`, first tail case with `i ≤ index`) loses
the first clause: `when xs is { [_, _, ..] -> 0  [_, ..] -> 1  [] -> 2 }` on a 3-element list is
sent to clause 1 only; and `[1, ..] / [_, 5, ..] / [_, _, 7, ..] / _` on a 2-element list never
sees clause 1.  (These are the two failures the run-time harness found on the real code.) -/
example :
    dispatchUnfixed [(.tail 2, 0), (.tail 1, 1), (.list 0, 2)] 3 = [1] ∧
    dispatchFixed [(.tail 2, 0), (.tail 1, 1), (.list 0, 2)] 3 = [0, 1] ∧
    dispatchUnfixed [(.tail 1, 0), (.tail 2, 1), (.tail 3, 2), (.wild, 3)] 2 = [0, 3] ∧
    dispatchFixed [(.tail 1, 0), (.tail 2, 1), (.tail 3, 2), (.wild, 3)] 2 = [0, 1, 3] := by
  decide

/-! ## the hypotheses are satisfiable on a non-trivial instance -/

section Examples

/-- `0: List<Int>` (`::`=0 `[]`=1), `1: Option<List<Int>>` (`Some`=3 `None`=2), `2: (Option<..>, Int)` (`__Tuple`=4) -/
def exSig : Sig :=
  [ [(0, [.int, .data 0]), (1, [])],
    [(3, [.data 0]), (2, [])],
    [(4, [.data 1, .int])] ]

def exInh : List Val := [.ctor 1 [], .ctor 2 [], .ctor 4 [.ctor 2 [], .lit (.int 0)]]

def listAlts : Alts := declAlts [(0, [.int, .data 0]), (1, [])]
def optAlts : Alts := declAlts [(3, [.data 0]), (2, [])]
def tupAlts : Alts := declAlts [(4, [.data 1, .int])]

/-- `(Some([1, ..]), _)`, `(None, 7)`, `(_, _)` -/
def exClauses : List Pat :=
  [ .ctor 4 tupAlts [.ctor 3 optAlts [.ctor 0 listAlts [.lit (.int 1), .wild]], .wild],
    .ctor 4 tupAlts [.ctor 2 optAlts [], .lit (.int 7)],
    .wild ]

example : Sig.ok exSig = true ∧ inhOk exSig exInh = true ∧ Ty.ok exSig (.data 2) = true ∧
    exClauses.all (fun p => Pat.hasTy exSig p (.data 2)) = true ∧
    Matrix.hasTy exSig (rowsOf exClauses) [.data 2] = true ∧
    [Ty.data 2].all (Ty.ok exSig) = true := by decide

/-- hypotheses of `useful_sound` / `useful_complete` on a two-column matrix with a literal,
a list pattern and a wildcard -/
example :
    Matrix.hasTy exSig [[.ctor 3 optAlts [.wild], .lit (.int 7)], [.wild, .wild]] [.data 1, .int] = true ∧
    Pat.hasTyL exSig [.ctor 2 optAlts [], .wild] [.data 1, .int] = true ∧
    [Ty.data 1, Ty.int].all (Ty.ok exSig) = true := by decide

/-- the literal-free hypothesis of `missing_are_unmatched` -/
example : Matrix.litFree [[.ctor 3 optAlts [.ctor 0 listAlts [.wild, .wild]]]] = true := by decide

/-- the spec side is executable in the kernel: first match and bindings -/
example :
    firstMatch exClauses (.ctor 4 [.ctor 2 [], .lit (.int 7)]) = some 1 ∧
    firstMatch exClauses (.ctor 4 [.ctor 2 [], .lit (.int 8)]) = some 2 ∧
    firstBind [.ctor 4 tupAlts [.as_ 5 (.ctor 2 optAlts []), .var 6]]
      (.ctor 4 [.ctor 2 [], .lit (.int 8)]) = some (0, [(5, .ctor 2 []), (6, .lit (.int 8))]) :=
  ⟨rfl, rfl, rfl⟩

end Examples

end AikenVerif.C07
