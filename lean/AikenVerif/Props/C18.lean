import AikenVerif.Model.Apply
import AikenVerif.Lemmas.SchemaFuel
/-!
# C18 — Applying a parameter means applying the function

Model: `AikenVerif/Model/Apply.lean` (`Validator::apply`, `Program::apply_data`, serde of
`SerializableProgram`, `apply_params_to_script`).  `apply true` is the code with
proposed_fixes/C12-fields-length.diff; `apply false` the code as it stands.

The behavioural clause of the property ("the applied validator behaves like the original applied
to the parameter") is, at the level of this model, the fact that the new code *is* the application
term `[code (con data d)]` (`apply_code_is_application`); what that term evaluates to is the
subject of the evaluator model (C03).
-/
namespace AikenVerif.C18
open AikenVerif AikenVerif.Blueprint AikenVerif.Apply

/-- shape of an accepted application -/
theorem apply_ok_eq {fixed : Bool} {tbl : Table} {v v' : Validator} {d : Data}
    (h : apply fixed tbl v d = .ok v') :
    ∃ p rest, v.params = p :: rest ∧ validate fixed tbl p d = .ok ∧
      v' = { v with params := rest, program := applyData v.program d } := by
  unfold apply at h
  cases hp : v.params with
  | nil => simp [hp] at h
  | cons p rest =>
    simp only [hp] at h
    split at h <;> simp at h
    rename_i hv
    exact ⟨p, rest, rfl, hv, h.symm⟩

/-- once an application is not accepted, the fold stays there -/
theorem foldl_stuck (fixed : Bool) (tbl : Table) (r : Applied) (ds : List Data)
    (hr : ∀ v, r ≠ .ok v) : ds.foldl (applyStep fixed tbl) r = r := by
  induction ds with
  | nil => rfl
  | cons d ds ih =>
    simp only [List.foldl_cons]
    have : applyStep fixed tbl r d = r := by
      cases r with
      | ok v => exact absurd rfl (hr v)
      | _ => rfl
    rw [this, ih]

/-- exactly the first remaining parameter is consumed, nothing else changes -/
theorem apply_consumes_first {fixed : Bool} {tbl : Table} {v v' : Validator} {d : Data}
    (h : apply fixed tbl v d = .ok v') :
    ∃ p, v.params = p :: v'.params ∧ v'.lang = v.lang := by
  unfold apply at h
  cases hp : v.params with
  | nil => simp [hp] at h
  | cons p rest =>
    simp only [hp] at h
    split at h <;> simp at h
    subst h
    exact ⟨p, rfl, rfl⟩

/-- the new code is the old code applied to the constant `d` (same program version) -/
theorem apply_code_is_application {fixed : Bool} {tbl : Table} {v v' : Validator} {d : Data}
    (h : apply fixed tbl v d = .ok v') :
    v'.program.term = .app v.program.term (.const (.data d)) ∧
      v'.program.version = v.program.version := by
  unfold apply at h
  cases hp : v.params with
  | nil => simp [hp] at h
  | cons p rest =>
    simp only [hp] at h
    split at h <;> simp at h
    subst h
    exact ⟨rfl, rfl⟩

/-- the parameter is accepted iff it conforms to the schema of the first remaining parameter -/
theorem apply_accepts_iff_conforms (fixed : Bool) (tbl : Table) (v : Validator) (d : Data) :
    (∃ v', apply fixed tbl v d = .ok v') ↔
      ∃ p rest, v.params = p :: rest ∧ validate fixed tbl p d = .ok := by
  unfold apply
  cases hp : v.params with
  | nil => simp
  | cons p rest =>
    simp only [List.cons.injEq]
    constructor
    · intro ⟨v', h⟩
      refine ⟨p, rest, ⟨rfl, rfl⟩, ?_⟩
      split at h <;> simp_all
    · intro ⟨p', rest', ⟨hp', _⟩, hv⟩
      subst hp'
      simp [hv]

/-- … and never by panicking (with the repair), whatever the blueprint and the argument -/
theorem apply_never_panics (tbl : Table) (v : Validator) (d : Data) :
    ∀ r, apply true tbl v d = r → (match r with | .panic => False | _ => True) := by
  intro r h
  unfold apply at h
  cases hp : v.params with
  | nil => simp [hp] at h; subst h; trivial
  | cons p rest =>
    simp only [hp] at h
    have hnp := validate_no_panic tbl p d
    split at h
    · subst h; trivial
    · rename_i hpanic; exact absurd hpanic hnp
    · subst h; trivial

/-- on the code as it stands the process can die instead of rejecting -/
theorem apply_panics_unfixed : ∃ (tbl : Table) (v : Validator) (d : Data),
    apply false tbl v d = .panic :=
  ⟨[(.adt 0 .nil, .data (.anyOf [(0, [.inline .integer, .inline .bytes]), (1, [])]))],
   ⟨[.ref (.adt 0 .nil)], .v3, ⟨(1, 1, 0), .error⟩⟩, .constr 0 [.int 1], rfl⟩

/-- applying one by one (a fold, as a deployment script does) is `applyAll` -/
theorem apply_sequence (fixed : Bool) (tbl : Table) (v : Validator) (ds : List Data) :
    ds.foldl (applyStep fixed tbl) (.ok v) = applyAll fixed tbl v ds := by
  induction ds generalizing v with
  | nil => rfl
  | cons d ds ih =>
    simp only [List.foldl_cons, applyStep, applyAll]
    cases h : apply fixed tbl v d with
    | ok v' => exact ih v'
    | noParameters => exact foldl_stuck _ _ _ _ (by simp)
    | rejected why => exact foldl_stuck _ _ _ _ (by simp)
    | panic => exact foldl_stuck _ _ _ _ (by simp)

/-- if every argument is accepted: the parameters consumed are exactly the first `ds.length`
and the program is the one `apply_params_to_script` builds -/
theorem applyAll_ok {fixed : Bool} {tbl : Table} {v v' : Validator} {ds : List Data}
    (h : applyAll fixed tbl v ds = .ok v') :
    v'.params = v.params.drop ds.length ∧ v'.program = applyScript v.program ds ∧
      v'.lang = v.lang := by
  induction ds generalizing v with
  | nil => simp [applyAll] at h; subst h; exact ⟨rfl, rfl, rfl⟩
  | cons d ds ih =>
    simp only [applyAll] at h
    cases ha : apply fixed tbl v d with
    | ok v1 =>
      rw [ha] at h
      obtain ⟨h1, h2, h3⟩ := ih h
      obtain ⟨p, hp, hl⟩ := apply_consumes_first ha
      have hprog : v1.program = applyData v.program d := by
        obtain ⟨_, _, _, _, hv1⟩ := apply_ok_eq ha
        rw [hv1]
      refine ⟨?_, ?_, h3.trans hl⟩
      · rw [h1, hp]; rfl
      · rw [h2, hprog]; rfl
    | noParameters => rw [ha] at h; simp at h
    | rejected why => rw [ha] at h; simp at h
    | panic => rw [ha] at h; simp at h

-- ------------------------------------------------------------------ histories
variable {β η : Type} [DecidableEq η]

/-- what C08 establishes about the byte codec and what is assumed of the hash:
decoding inverts encoding, and the three language tags give three different hashes
for the same bytes (blake2b-224 of `tag ‖ bytes`) -/
structure CodecOk (c : Codec β η) : Prop where
  roundtrip : ∀ p, c.de (c.ser p) = some p
  v3v2 : ∀ b, c.hash .v3 b ≠ c.hash .v2 b
  v3v1 : ∀ b, c.hash .v3 b ≠ c.hash .v1 b
  v2v1 : ∀ b, c.hash .v2 b ≠ c.hash .v1 b

/-- reading back what was written gives the same validator -/
theorem load_save {c : Codec β η} (hc : CodecOk c) (v : Validator) : load c (save c v) = some v := by
  obtain ⟨params, lang, program⟩ := v
  simp only [load, save, hc.roundtrip]
  cases lang with
  | v3 => simp
  | v2 => simp [hc.v3v2]
  | v1 => simp [hc.v3v1, hc.v2v1]

/-- the invariant of a deployment session started from `v₀`:
the file is the serialisation of the validator in memory (so the published hash is the hash of
the published code, and the published code decodes to the code in memory), and the validator in
memory is `v₀` with some arguments `ds` applied: the first `ds.length` parameters are gone, the
program is `v₀`'s applied to `ds` in order, the language is unchanged -/
def Inv (c : Codec β η) (v₀ : Validator) (s : State β η) : Prop :=
  s.file = save c s.v ∧
    ∃ ds : List Data, s.v.params = v₀.params.drop ds.length ∧
      s.v.program = applyScript v₀.program ds ∧ s.v.lang = v₀.lang

omit [DecidableEq η] in
theorem inv_init (c : Codec β η) (v₀ : Validator) : Inv c v₀ (init c v₀) :=
  ⟨rfl, [], rfl, rfl, rfl⟩

theorem applyScript_snoc (p : Program DeBruijn) (ds : List Data) (d : Data) :
    applyScript p (ds ++ [d]) = applyData (applyScript p ds) d := by
  simp [applyScript, List.foldl_append]

theorem inv_step {c : Codec β η} (hc : CodecOk c) (tbl : Table) (v₀ : Validator) (s : State β η) (op : Op)
    (h : Inv c v₀ s) : Inv c v₀ (step c tbl s op) := by
  obtain ⟨hfile, ds, hparams, hprog, hlang⟩ := h
  cases op with
  | apply d =>
    simp only [step]
    cases ha : apply true tbl s.v d with
    | ok v' =>
      refine ⟨rfl, ds ++ [d], ?_, ?_, ?_⟩
      · obtain ⟨p, hp, _⟩ := apply_consumes_first ha
        simp only [List.length_append, List.length_cons, List.length_nil]
        rw [← List.drop_drop, ← hparams, hp]; rfl
      · have := (applyAll_ok (fixed := true) (tbl := tbl) (ds := [d]) (v := s.v) (v' := v') (by simp [applyAll, ha])).2.1
        rw [this, applyScript_snoc, hprog]; rfl
      · obtain ⟨_, _, hl⟩ := apply_consumes_first ha
        exact hl.trans hlang
    | noParameters => exact ⟨hfile, ds, hparams, hprog, hlang⟩
    | rejected why => exact ⟨hfile, ds, hparams, hprog, hlang⟩
    | panic => exact ⟨hfile, ds, hparams, hprog, hlang⟩
  | reload =>
    simp only [step]
    rw [hfile, load_save hc]
    exact ⟨rfl, ds, hparams, hprog, hlang⟩

/-- the invariant holds after EVERY history of `apply` / `reload` operations -/
theorem inv_reachable {c : Codec β η} (hc : CodecOk c) (tbl : Table) (v₀ : Validator) (ops : List Op) :
    Inv c v₀ (run c tbl (init c v₀) ops) := by
  suffices ∀ s, Inv c v₀ s → Inv c v₀ (run c tbl s ops) from this _ (inv_init c v₀)
  induction ops with
  | nil => intro s h; exact h
  | cons op ops ih =>
    intro s h
    simp only [run, List.foldl_cons]
    exact ih _ (inv_step hc tbl v₀ s op h)

/-- consequence for what is published after any history: the hash in the file is the hash of
the code in the file, and that code decodes to `v₀`'s program applied to the accepted arguments -/
theorem published_consistent {c : Codec β η} (hc : CodecOk c) (tbl : Table) (v₀ : Validator)
    (ops : List Op) :
    let s := run c tbl (init c v₀) ops
    s.file.hash = c.hash v₀.lang s.file.compiledCode ∧
      ∃ ds, c.de s.file.compiledCode = some (applyScript v₀.program ds) ∧
        s.file.params = v₀.params.drop ds.length := by
  intro s
  obtain ⟨hfile, ds, hparams, hprog, hlang⟩ := inv_reachable hc tbl v₀ ops
  refine ⟨?_, ds, ?_, ?_⟩
  · show s.file.hash = _
    rw [hfile]; simp [save, hlang]
  · show c.de s.file.compiledCode = _
    rw [hfile]; simp [save, hc.roundtrip, hprog]
  · show s.file.params = _
    rw [hfile]; simp [save, hparams]

-- ------------------------------------------------------------------ non-vacuity
/-- `CodecOk` is satisfiable (the identity codec with `hash = (language, bytes)`), so the
history theorems are not vacuous -/
example : ∃ c : Codec (Program DeBruijn) (Lang × Nat), True ∧
    (∀ p, c.de (c.ser p) = some p) ∧ (∀ b, c.hash .v3 b ≠ c.hash .v2 b) :=
  ⟨⟨id, some, fun l _ => (l, 0)⟩, trivial, fun _ => rfl, fun _ => by simp⟩

/-- acceptance and rejection both occur -/
example : ∃ v : Validator, ∃ tbl : Table,
    (∃ v', apply true tbl v (.int 7) = .ok v' ∧ v'.params = [.inline (.data .bytes)]) ∧
    (∃ why, apply true tbl v (.bytes []) = .rejected why) := by
  refine ⟨
    ⟨[.inline (.data .integer), .inline (.data .bytes)], .v3, ⟨(1, 1, 0), .error⟩⟩, [], ?_, ?_⟩
  · exact ⟨_, rfl, rfl⟩
  · exact ⟨.mismatch, rfl⟩

end AikenVerif.C18
