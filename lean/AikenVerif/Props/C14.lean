import AikenVerif.Lemmas.MiniTrace
import AikenVerif.Gen.Tracing
/-!
# C14 — trace settings never change what a program decides

Level: translation validation (harness `c14-tracing`: every generated module under the 9 real
settings) + the theorems below on the SOURCE semantics `Mini.evalSrc`, whose trace mode is
`Tracing::trace_level(false)`:

* `trace_erasure_partial`: if every trace label and trace argument of the program is a literal
  (`LabelsTotal`, decidable), the outcome — value or abort — is the same under all modes.
  `_partial`: the hypothesis is needed (`trace_label_can_decide`, `trace_argument_can_decide`:
  the type checker drops the label under `Silent` and the arguments under `Compact`, so a label
  that fails decides the outcome; known finding, by design), and the statement is about the
  source semantics, not about the compiler.
* `tracing_table`: the generated table of `Tracing::trace_level(is_code_gen)`.
-/
namespace AikenVerif.C14
open AikenVerif AikenVerif.Mini

/-- every trace label / argument of the expression and of all function bodies is a literal -/
def LabelsTotal (P : Mini.Program) (e : Expr) : Prop := P.labelsTotal = true ∧ labelsTotal e = true

instance (P : Mini.Program) (e : Expr) : Decidable (LabelsTotal P e) := by
  unfold LabelsTotal; exact inferInstance

/-- **C14 on the source semantics**: with total labels the outcome does not depend on the trace mode
(at equal fuel, unless one of the two runs is cut off by the fuel). -/
theorem trace_erasure_partial (P : Mini.Program) (e : Expr) (h : LabelsTotal P e) (m m' : Mode)
    (fuel : Nat) (env : Env)
    (hm : result (evalSrc P m fuel env e) ≠ .outOfFuel) (hm' : result (evalSrc P m' fuel env e) ≠ .outOfFuel) :
    result (evalSrc P m fuel env e) = result (evalSrc P m' fuel env e) :=
  (erasure_step P h.1 m m' fuel).1 env e h.2 hm hm'

/-- the same for any two fuels at which the two runs finish -/
theorem trace_erasure_any_fuel (P : Mini.Program) (e : Expr) (h : LabelsTotal P e) (m m' : Mode)
    (n n' : Nat) (env : Env)
    (hm : result (evalSrc P m n env e) ≠ .outOfFuel) (hm' : result (evalSrc P m' n' env e) ≠ .outOfFuel) :
    result (evalSrc P m n env e) = result (evalSrc P m' n' env e) := by
  have h1 : eval P m n env e = eval P m (n + n') env e := eval_mono P m n n' env e hm
  have h2 : eval P m' n' env e = eval P m' (n' + n) env e := eval_mono P m' n' n env e hm'
  have h2' : eval P m' n' env e = eval P m' (n + n') env e := by rw [h2, Nat.add_comm]
  unfold evalSrc result at *
  rw [h1, h2']
  rw [h1] at hm
  rw [h2'] at hm'
  exact (erasure_step P h.1 m m' (n + n')).1 env e h.2 hm hm'

/-- calling an entry function: same outcome under every mode -/
theorem trace_erasure_call (P : Mini.Program) (hP : P.labelsTotal = true) (m m' : Mode) (fuel f : Nat) (args : List Val)
    (hm : result (runCall P m fuel f args) ≠ .outOfFuel) (hm' : result (runCall P m' fuel f args) ≠ .outOfFuel) :
    result (runCall P m fuel f args) = result (runCall P m' fuel f args) := by
  unfold runCall at *
  split
  · rename_i xs body hf
    split
    · rename_i env henv
      simp only [hf, henv] at hm hm'
      exact trace_erasure_partial P body ⟨hP, fns_labelsTotal P hP f xs body hf⟩ m m' fuel env hm hm'
    · rfl
  · rfl

/-- a program with a trace whose label may fail -/
def witnessLabel : Expr := .trace (.fail false) [] (.lit (.int 1))
/-- a program with a trace whose ARGUMENT may fail (kept under `Verbose` only) -/
def witnessArg : Expr := .trace (.lit (.str "label")) [.fail false] (.lit (.int 1))
def emptyProgram : Mini.Program := ⟨[], [], []⟩

/-- the hypothesis is necessary: the label is evaluated under `Verbose`/`Compact` and dropped under
`Silent` (`tipo/expr.rs::infer_trace` returns `Ok(then)`), so a failing label decides the outcome -/
theorem trace_label_can_decide :
    result (evalSrc emptyProgram .verbose 3 [] witnessLabel) = .abort ∧
    result (evalSrc emptyProgram .compact 3 [] witnessLabel) = .abort ∧
    result (evalSrc emptyProgram .silent 3 [] witnessLabel) = .val (.int 1) ∧
    ¬ LabelsTotal emptyProgram witnessLabel :=
  ⟨rfl, rfl, rfl, by decide⟩

/-- under `Compact` only the label is kept: a failing trace argument separates `Verbose` from `Compact` -/
theorem trace_argument_can_decide :
    result (evalSrc emptyProgram .verbose 3 [] witnessArg) = .abort ∧
    result (evalSrc emptyProgram .compact 3 [] witnessArg) = .val (.int 1) ∧
    result (evalSrc emptyProgram .silent 3 [] witnessArg) = .val (.int 1) ∧
    ¬ LabelsTotal emptyProgram witnessArg :=
  ⟨rfl, rfl, rfl, by decide⟩

/-- non-vacuity: a recursive program with traces, total labels, evaluated under two modes -/
def sumTo : Mini.Program :=
  ⟨[], [([0], .ite (.bin .le (.var 0) (.lit (.int 0))) (.lit (.int 0))
            (.trace (.lit (.str "step")) [.lit (.int 7)]
              (.bin .add (.var 0) (.call 0 [.bin .sub (.var 0) (.lit (.int 1))]))))], []⟩

example : LabelsTotal sumTo (.call 0 [.lit (.int 3)]) := by decide
example : result (evalSrc sumTo .verbose 30 [] (.call 0 [.lit (.int 3)])) = .val (.int 6) := rfl
example : result (evalSrc sumTo .silent 30 [] (.call 0 [.lit (.int 3)])) = .val (.int 6) := rfl
example : (evalSrc sumTo .verbose 30 [] (.call 0 [.lit (.int 3)])).2.length = 3 := rfl
example : (evalSrc sumTo .silent 30 [] (.call 0 [.lit (.int 3)])).2.length = 0 := rfl

-- ---------------------------------------------------------------- the generated table
open Gen.Tracing in
/-- `Tracing::trace_level(is_code_gen)` over the 3 scopes × 3 levels × 2 contexts (GENERATED from
`ast.rs`): `All` applies the level everywhere, `UserDefined` silences compiler-generated traces,
`CompilerGenerated` silences user traces — and nothing else -/
theorem tracing_table (l : Level) :
    traceLevel .all l true = l ∧ traceLevel .all l false = l ∧
    traceLevel .userDefined l true = .silent ∧ traceLevel .userDefined l false = l ∧
    traceLevel .compilerGenerated l true = l ∧ traceLevel .compilerGenerated l false = .silent := by
  cases l <;> decide

open Gen.Tracing in
/-- whatever the setting, the level in force is the requested one or `silent` -/
theorem tracing_level_or_silent (s : Scope) (l : Level) (codeGen : Bool) :
    traceLevel s l codeGen = l ∨ traceLevel s l codeGen = .silent := by
  cases s <;> cases l <;> cases codeGen <;> decide

/-- the source trace mode a setting selects -/
def sourceMode (s : Gen.Tracing.Scope) (l : Gen.Tracing.Level) : Mode :=
  match Gen.Tracing.traceLevel s l false with
  | .silent => .silent
  | .compact => .compact
  | .verbose => .verbose

/-- **C14 for the source semantics under the real settings**: for a program with total labels, any two
of the 9 (scope, level) settings give the same outcome -/
theorem settings_agree_partial (P : Mini.Program) (e : Expr) (h : LabelsTotal P e)
    (s s' : Gen.Tracing.Scope) (l l' : Gen.Tracing.Level) (fuel : Nat) (env : Env)
    (hm : result (evalSrc P (sourceMode s l) fuel env e) ≠ .outOfFuel)
    (hm' : result (evalSrc P (sourceMode s' l') fuel env e) ≠ .outOfFuel) :
    result (evalSrc P (sourceMode s l) fuel env e) = result (evalSrc P (sourceMode s' l') fuel env e) :=
  trace_erasure_partial P e h _ _ fuel env hm hm'

end AikenVerif.C14
