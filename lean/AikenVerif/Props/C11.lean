import AikenVerif.Lemmas.DeBruijn
import AikenVerif.Lemmas.Interner
/-!
# C11 — Variable binding survives name/index conversions

Model: `Model/DeBruijn.lean` (impl model of `Converter`, literal; spec by binder
environment).  All theorems quantify over every term (induction in
`Lemmas/DeBruijn.lean`), none has a hypothesis other than the ones written here.

The index→name theorems are about the behaviour **after**
`proposed_fixes/C11-debruijn-to-name-scope.diff` (`dbToName`, `namedDbToName`);
`orig_accepts_open_term` / `orig_rebinds` exhibit the defects of the code as it stands
(`dbToNameOrig`), which is why the full theorems cannot hold for it.
-/
namespace AikenVerif.C11
open AikenVerif AikenVerif.Db

/-- output binder of `name_to_named_debruijn` / `name_to_debruijn` -/
abbrev mkNamed : String → Nat → NamedDeBruijn := fun s i => ⟨s, i⟩
abbrev mkDb : String → Nat → DeBruijn := fun _ i => i

-- ================================================================= name → index
/-- `name_to_debruijn` computes exactly the environment-passing resolution, error payload included -/
theorem nameToDb_eq_spec (t : Term Name) : nameToDb t = specNameTo mkDb [] t := by
  have h := nameTo_st mkDb t [] 0
  simp only [nameToDb, conv_new, h]
  cases specNameTo mkDb [] t <;> rfl

/-- `name_to_named_debruijn` likewise -/
theorem nameToNamedDb_eq_spec (t : Term Name) : nameToNamedDb t = specNameTo mkNamed [] t := by
  have h := nameTo_st mkNamed t [] 0
  simp only [nameToNamedDb, conv_new, h]
  cases specNameTo mkNamed [] t <;> rfl

/-- a term is rejected iff it has a free variable, and then the error is `FreeUnique` of the
first free occurrence (never a panic, never another binder) -/
theorem nameToDb_err_iff_free (t : Term Name) (e : Err) :
    nameToDb t = .error e ↔ ∃ n rest, freeOccs [] t = n :: rest ∧ e = .freeUnique n := by
  rw [nameToDb_eq_spec]
  rcases specNameTo_dich mkDb t [] with ⟨h, d, hd⟩ | ⟨n, rest, h, hd⟩
  · simp [h, hd]
  · rw [h, hd]
    constructor
    · intro he; exact ⟨n, rest, rfl, by cases he; rfl⟩
    · rintro ⟨n', rest', h1, h2⟩; cases h1; rw [h2]

theorem nameToDb_ok_iff_closed (t : Term Name) : (∃ d, nameToDb t = .ok d) ↔ freeOccs [] t = [] := by
  rw [nameToDb_eq_spec]
  rcases specNameTo_dich mkDb t [] with ⟨h, d, hd⟩ | ⟨n, rest, h, hd⟩
  · simp [h, hd]
  · simp [h, hd]

theorem nameToNamedDb_err_iff_free (t : Term Name) (e : Err) :
    nameToNamedDb t = .error e ↔ ∃ n rest, freeOccs [] t = n :: rest ∧ e = .freeUnique n := by
  rw [nameToNamedDb_eq_spec]
  rcases specNameTo_dich mkNamed t [] with ⟨h, d, hd⟩ | ⟨n, rest, h, hd⟩
  · simp [h, hd]
  · rw [h, hd]
    constructor
    · intro he; exact ⟨n, rest, rfl, by cases he; rfl⟩
    · rintro ⟨n', rest', h1, h2⟩; cases h1; rw [h2]

theorem nameToNamedDb_ok_iff_closed (t : Term Name) : (∃ d, nameToNamedDb t = .ok d) ↔ freeOccs [] t = [] := by
  rw [nameToNamedDb_eq_spec]
  rcases specNameTo_dich mkNamed t [] with ⟨h, d, hd⟩ | ⟨n, rest, h, hd⟩
  · simp [h, hd]
  · simp [h, hd]

/-- `named_db_to_db`: the plain de Bruijn form is the named form with the texts dropped
(so anything that reads indices only — the CEK machine, flat — sees the same program) -/
theorem named_db_to_db (t : Term Name) : nameToDb t = (nameToNamedDb t).map namedDbToDb := by
  rw [nameToDb_eq_spec, nameToNamedDb_eq_spec]
  exact specNameTo_natural mkNamed (·.index) t []

/-- `debruijn_to_named_debruijn` followed by `named_debruijn_to_debruijn` is the identity -/
theorem dbToNamedDb_project (t : Term DeBruijn) : namedDbToDb (dbToNamedDb t) = t := by
  simp only [namedDbToDb, dbToNamedDb, mapBinders_comp]
  exact mapBinders_id t

-- ================================================================= index → name (after the fix)
/-- `debruijn_to_name`: binder number `k` (pre-order) is named `k`, variable `i ≥ 1` gets the
name of its `i`-th enclosing binder -/
theorem dbToName_eq_spec (t : Term DeBruijn) :
    dbToName t = (specToName id dbText [] 0 t).map (·.1) := by
  have h := toName_st id dbText t [] 0
  simp only [dbToName, conv_new, h]
  cases specToName id dbText [] 0 t <;> rfl

theorem namedDbToName_eq_spec (t : Term NamedDeBruijn) :
    namedDbToName t = (specToName NamedDeBruijn.index namedText [] 0 t).map (·.1) := by
  have h := toName_st NamedDeBruijn.index namedText t [] 0
  simp only [namedDbToName, conv_new, h]
  cases specToName NamedDeBruijn.index namedText [] 0 t <;> rfl

/-- an index term is rejected iff it is open (some variable is 0 or points beyond its binders) -/
theorem dbToName_err_iff_open (t : Term DeBruijn) :
    (∃ e, dbToName t = .error e) ↔ closedI id 0 t = false := by
  rw [dbToName_eq_spec]
  rcases specToName_dich id dbText t [] 0 with ⟨h, d, hd⟩ | ⟨h, i, hd⟩
  · simp only [List.length_nil] at h; simp [h, hd, Except.map]
  · simp only [List.length_nil] at h; simp [h, hd, Except.map]

/-- … and the error is always `FreeIndex` (no panic) -/
theorem dbToName_err_class (t : Term DeBruijn) (e : Err) (h : dbToName t = .error e) : ∃ i, e = .freeIndex i := by
  rw [dbToName_eq_spec] at h
  rcases specToName_dich id dbText t [] 0 with ⟨_, d, hd⟩ | ⟨_, i, hd⟩
  · simp [hd, Except.map] at h
  · simp [hd, Except.map] at h; exact ⟨i, h.symm⟩

theorem namedDbToName_err_iff_open (t : Term NamedDeBruijn) :
    (∃ e, namedDbToName t = .error e) ↔ closedI NamedDeBruijn.index 0 t = false := by
  rw [namedDbToName_eq_spec]
  rcases specToName_dich NamedDeBruijn.index namedText t [] 0 with ⟨h, d, hd⟩ | ⟨h, i, hd⟩
  · simp only [List.length_nil] at h; simp [h, hd, Except.map]
  · simp only [List.length_nil] at h; simp [h, hd, Except.map]

theorem namedDbToName_err_class (t : Term NamedDeBruijn) (e : Err) (h : namedDbToName t = .error e) :
    ∃ i, e = .freeIndex i := by
  rw [namedDbToName_eq_spec] at h
  rcases specToName_dich NamedDeBruijn.index namedText t [] 0 with ⟨_, d, hd⟩ | ⟨_, i, hd⟩
  · simp [hd, Except.map] at h
  · simp [hd, Except.map] at h; exact ⟨i, h.symm⟩

-- ================================================================= round trips
/-- index → name → index: every closed index term comes back, with the (information-free)
binder indices set to 0 -/
theorem roundtrip (t : Term DeBruijn) (hc : closedI id 0 t = true) :
    ∃ t', dbToName t = .ok t' ∧ nameToDb t' = .ok (zeroBinders t) := by
  rcases specToName_dich id dbText t [] 0 with ⟨_, r, hr⟩ | ⟨h, _, _⟩
  · refine ⟨r.1, ?_, ?_⟩
    · rw [dbToName_eq_spec, hr]; rfl
    · rw [nameToDb_eq_spec]
      exact roundtrip_gen id dbText mkDb (fun _ i => i) (fun _ _ _ => rfl) t [] 0 r hr Fresh.nil
  · simp only [List.length_nil] at h; rw [hc] at h; cases h

/-- the statement of DESIGN.md: on what decoders and `name_to_debruijn` produce (binder index 0)
the round trip is the identity -/
theorem roundtrip_alpha (t : Term DeBruijn) (hc : closedI id 0 t = true) (hz : bindersZero id t = true) :
    ∃ t', dbToName t = .ok t' ∧ nameToDb t' = .ok t := by
  obtain ⟨t', h1, h2⟩ := roundtrip t hc
  refine ⟨t', h1, ?_⟩
  rw [h2, zeroBinders, zeroBinders_id t hz]

/-- named-de-Bruijn → name → named-de-Bruijn: indices *and texts* come back -/
theorem roundtrip_named (t : Term NamedDeBruijn) (hc : closedI NamedDeBruijn.index 0 t = true) :
    ∃ t', namedDbToName t = .ok t' ∧ nameToNamedDb t' = .ok (zeroBindersNamed t) := by
  rcases specToName_dich NamedDeBruijn.index namedText t [] 0 with ⟨_, r, hr⟩ | ⟨h, _, _⟩
  · refine ⟨r.1, ?_, ?_⟩
    · rw [namedDbToName_eq_spec, hr]; rfl
    · rw [nameToNamedDb_eq_spec]
      exact roundtrip_gen NamedDeBruijn.index namedText mkNamed (fun n i => ⟨n.text, i⟩) (fun _ _ _ => rfl) t [] 0 r hr Fresh.nil
  · simp only [List.length_nil] at h; rw [hc] at h; cases h

/-- name → index → name: accepted, and alpha-equivalent to the original -/
theorem alpha_preserved (t : Term Name) (d : Term DeBruijn) (h : nameToDb t = .ok d) :
    ∃ t', dbToName d = .ok t' ∧ AlphaEq [] [] t t' := by
  rw [nameToDb_eq_spec] at h
  have hcl := specNameTo_closed id mkDb (fun _ _ => rfl) t [] d h
  rcases specToName_dich id dbText d [] 0 with ⟨_, r, hr⟩ | ⟨h2, _, _⟩
  · refine ⟨r.1, ?_, ?_⟩
    · rw [dbToName_eq_spec, hr]; rfl
    · exact alpha_gen id dbText mkDb (fun _ _ => rfl) t [] d h [] 0 r hr Fresh.nil
  · rw [hcl] at h2; cases h2

theorem alpha_preserved_named (t : Term Name) (d : Term NamedDeBruijn) (h : nameToNamedDb t = .ok d) :
    ∃ t', namedDbToName d = .ok t' ∧ AlphaEq [] [] t t' := by
  rw [nameToNamedDb_eq_spec] at h
  have hcl := specNameTo_closed NamedDeBruijn.index mkNamed (fun _ _ => rfl) t [] d h
  rcases specToName_dich NamedDeBruijn.index namedText d [] 0 with ⟨_, r, hr⟩ | ⟨h2, _, _⟩
  · refine ⟨r.1, ?_, ?_⟩
    · rw [namedDbToName_eq_spec, hr]; rfl
    · exact alpha_gen NamedDeBruijn.index namedText mkNamed (fun _ _ => rfl) t [] d h [] 0 r hr Fresh.nil
  · rw [hcl] at h2; cases h2

/-- `AlphaEq` is at least as fine as "same de Bruijn form": alpha-equivalent closed terms convert to
the same index term (so `alpha_preserved` says that no variable changed its binder) -/
theorem alpha_same_index_form (t t' : Term Name) (h : AlphaEq [] [] t t') (d : Term DeBruijn)
    (hd : nameToDb t = .ok d) : nameToDb t' = .ok d := by
  rw [nameToDb_eq_spec] at hd ⊢
  exact alpha_sound t [] [] t' h d hd

/-- evaluation reads indices only: the index skeleton handed to the machine is the same
before and after a round trip through names -/
theorem index_skeleton_invariant (t : Term Name) (d : Term NamedDeBruijn) (h : nameToNamedDb t = .ok d) :
    ∃ t' d', namedDbToName d = .ok t' ∧ nameToNamedDb t' = .ok d' ∧ namedDbToDb d' = namedDbToDb d := by
  obtain ⟨t', h1, h2⟩ := alpha_preserved_named t d h
  have hd : nameToDb t = .ok (namedDbToDb d) := by rw [named_db_to_db, h]; rfl
  have hd' := alpha_same_index_form t t' h2 _ hd
  rw [named_db_to_db] at hd'
  cases hn : nameToNamedDb t' with
  | error e => rw [hn] at hd'; cases hd'
  | ok d' =>
    rw [hn] at hd'
    refine ⟨t', d', h1, hn, ?_⟩
    simpa [Except.map] using hd'

-- ================================================================= the code as it stands
/-- DeBruijn `lam.[(lam.1) 0]` -/
def witness : Term DeBruijn := .lam 0 (.app (.lam 0 (.var 1)) (.var 0))

/-- unpatched `debruijn_to_name` accepts an open term: index 0 after a closed sibling lambda is
resolved through the stale entry of the current level (`lam.0` alone is rejected) -/
theorem orig_accepts_open_term :
    closedI id 0 witness = false ∧ (∃ t', dbToNameOrig witness = .ok t') ∧
    dbToNameOrig (.lam 0 (.var 0)) = .error (.freeIndex 0) :=
  ⟨rfl, ⟨_, rfl⟩, rfl⟩

/-- unpatched: a binder whose own index is 1 takes the enclosing binder's name, and a variable
that referred to the *outer* lambda (index 2) comes back referring to the *inner* one (index 1) -/
theorem orig_rebinds :
    ∃ t', dbToNameOrig (.lam 0 (.lam 1 (.var 2))) = .ok t' ∧ nameToDb t' = .ok (.lam 0 (.lam 0 (.var 1))) :=
  ⟨_, rfl, rfl⟩

/-- the patched model on the same inputs -/
example : dbToName witness = .error (.freeIndex 0) := rfl
example : ∃ t', dbToName (.lam 0 (.lam 1 (.var 2))) = .ok t' ∧ nameToDb t' = .ok (.lam 0 (.lam 0 (.var 2))) :=
  ⟨_, rfl, rfl⟩

-- ================================================================= non-vacuity
/-- shadowing + duplicate unique with another text + binders under delay/constr/case -/
def sample : Term Name :=
  .lam ⟨"x", 0⟩ (.delay (.constr 0 [.lam ⟨"y", 0⟩ (.var ⟨"z", 0⟩), .case (.var ⟨"x", 0⟩) [.lam ⟨"x", 1⟩ (.var ⟨"q", 0⟩)]]))

example : nameToDb sample =
    .ok (.lam 0 (.delay (.constr 0 [.lam 0 (.var 1), .case (.var 1) [.lam 0 (.var 2)]]))) := rfl
example : freeOccs [] sample = [] := rfl
example : freeOccs [] (.app (.lam ⟨"x", 0⟩ (.var ⟨"x", 0⟩)) (.var ⟨"x", 0⟩)) = [⟨"x", 0⟩] := rfl
example : nameToDb (.app (.lam ⟨"x", 0⟩ (.var ⟨"x", 0⟩)) (.var ⟨"x", 0⟩)) = .error (.freeUnique ⟨"x", 0⟩) := rfl
example : closedI id 0 (Term.lam 0 (.app (.lam 0 (.var 2)) (.var 1)) : Term DeBruijn) = true
    ∧ bindersZero id (Term.lam 0 (.app (.lam 0 (.var 2)) (.var 1)) : Term DeBruijn) = true := ⟨rfl, rfl⟩
example : closedI NamedDeBruijn.index 0 (Term.lam ⟨"f", 7⟩ (.var ⟨"g", 1⟩)) = true := rfl
/-- `AlphaEq` separates `λx.λy.x` from `λx.λy.y` and identifies renamings -/
example : ¬ AlphaEq [] [] (.lam ⟨"x", 0⟩ (.lam ⟨"y", 1⟩ (.var ⟨"x", 0⟩))) (.lam ⟨"x", 0⟩ (.lam ⟨"y", 1⟩ (.var ⟨"y", 1⟩))) := by
  intro h
  have h1 := alpha_same_index_form _ _ h (.lam 0 (.lam 0 (.var 2))) rfl
  have h2 : nameToDb (.lam ⟨"x", 0⟩ (.lam ⟨"y", 1⟩ (.var ⟨"y", 1⟩))) = .ok (.lam 0 (.lam 0 (.var 1))) := rfl
  rw [h2] at h1
  simp at h1
example : AlphaEq [] [] (.lam ⟨"x", 0⟩ (.var ⟨"x", 0⟩)) (.lam ⟨"i_5", 5⟩ (.var ⟨"i_5", 5⟩)) :=
  AlphaEq.lam (AlphaEq.var rfl (by simp [resolve]))

-- ================================================================= CodeGenInterner
/-- `CodeGenInterner::program` never panics, and in its output binding *by unique alone* (what
`name_to_debruijn` looks at) is exactly the binding *by (text, unique)* of its input: same index
term, and an input with a variable that has no binder of its key is still rejected afterwards. -/
theorem intern_preserves_binding (t : Term Name) :
    ∃ t', intern t = .ok t' ∧
      (∀ d, specByKey ckey [] t = .ok d → nameToDb t' = .ok d) ∧
      (∀ e, specByKey ckey [] t = .error e → ∃ n, nameToDb t' = .error (.freeUnique n)) := by
  obtain ⟨t', s', h1, _, _, h4, h5⟩ := internTerm_ok t Interner.new [] iinv_new
  refine ⟨t', by simp [intern, h1, Except.map], ?_, ?_⟩
  · intro d hd; rw [nameToDb_eq_spec]; exact h4 d hd
  · intro e he; rw [nameToDb_eq_spec]; exact h5 e he

/-- resolution by key with `key = unique` is the converter's own resolution -/
theorem specByKey_unique_eq (t : Term Name) : specByKey (·.unique) [] t = nameToDb t := by
  rw [nameToDb_eq_spec]; exact specByKey_unique t []

/-- optimiser-style input: every name has unique 0, binding is by text.  The converter alone would
bind `y` to the innermost lambda; after interning it refers to the outer one, as its key says. -/
example : nameToDb (.lam ⟨"y", 0⟩ (.lam ⟨"x", 0⟩ (.var ⟨"y", 0⟩))) = .ok (.lam 0 (.lam 0 (.var 1))) := rfl
example : specByKey ckey [] (.lam ⟨"y", 0⟩ (.lam ⟨"x", 0⟩ (.var ⟨"y", 0⟩))) = .ok (.lam 0 (.lam 0 (.var 2))) := rfl
example : ∃ t', intern (.lam ⟨"y", 0⟩ (.lam ⟨"x", 0⟩ (.var ⟨"y", 0⟩))) = .ok t' ∧ nameToDb t' = .ok (.lam 0 (.lam 0 (.var 2))) :=
  ⟨_, rfl, rfl⟩

end AikenVerif.C11
