import AikenVerif.Model.Spec
import AikenVerif.Gen.Optimiser
/-!
# C02 — the optimiser never changes what compiler output computes

Level: translation validation (harness `c02-optimiser`: every (pre, post) pair the real code
generator hands to / gets from the optimiser, evaluated on the same arguments; every optimiser phase
applied separately under a panic guard).  Whole-optimiser soundness is NOT a theorem here.
Machine-checked are side conditions the rewrites rely on, over GENERATED tables, in the impl model
of the builtins (`callBuiltin`, tied to the Rust by C03/C04's correspondences) and the specification
machine (`Spec.run`):

* `order_agnostic_covered` / `order_agnostic_commutes`: every builtin of the generated
  `is_order_agnostic_builtin` list is one of the five modelled commutative ones (proved to commute on
  ALL argument values, ill-typed ones included), `equalsData`, or a BLS builtin (opaque: assumed);
* `arith_flip`: `subtractInteger x c = addInteger x (-c)` (what `convert_arithmetic_ops` uses);
* `cast_data_cancel` (the sound direction `un·Data (·Data v) = v`) and `wrap_after_unwrap_not_identity`
  (the other direction, which `cast_data_reducer` ALSO cancels, is not an identity: defect found);
* `force_delay_root`, `inline_under_delay_changes_outcome` (a possibly failing argument may only be
  inlined where it must execute: the side condition `carry_args_to_branch` gets wrong; defect found).
-/
namespace AikenVerif.C02
open AikenVerif Gen

def cInt (n : Int) : Value := .con (.integer n)

theorem unwrapInteger_cases (v : Value) : (∃ n, v = cInt n) ∨ v.unwrapInteger = .err := by
  cases v with
  | con c => cases c <;> simp [Value.unwrapInteger, cInt]
  | _ => right; rfl

theorem unwrapByteString_cases (v : Value) : (∃ b, v = .con (.bytestring b)) ∨ v.unwrapByteString = .err := by
  cases v with
  | con c => cases c <;> simp [Value.unwrapByteString]
  | _ => right; rfl

theorem unwrapString_cases (v : Value) : (∃ s, v = .con (.string s)) ∨ v.unwrapString = .err := by
  cases v with
  | con c => cases c <;> simp [Value.unwrapString]
  | _ => right; rfl

/-- the builtins of the order-agnostic list whose commutativity is proved in the model -/
def modelledCommutative : List Builtin :=
  [.addInteger, .multiplyInteger, .equalsInteger, .equalsByteString, .equalsString]

/-- the GENERATED list contains nothing but: the five modelled ones, `equalsData` (structural equality
of `PlutusData`), and BLS group operations (opaque in this development) -/
theorem order_agnostic_covered :
    ∀ b ∈ Gen.Optimiser.orderAgnostic,
      b ∈ modelledCommutative ∨ b = .equalsData ∨
      b ∈ [Builtin.bls12_381_G1_Equal, .bls12_381_G2_Equal, .bls12_381_G1_Add, .bls12_381_G2_Add] := by
  decide

/-- every order-agnostic builtin takes exactly two arguments and no force (the curry reducer swaps
the two arguments of such a call) -/
theorem order_agnostic_binary : ∀ b ∈ Gen.Optimiser.orderAgnostic, b.arity = 2 ∧ b.forceCount = 0 := by
  decide

/-- swapping the two arguments of a modelled order-agnostic builtin never changes the result —
for ALL argument values, including ill-typed ones (both orders then fail) -/
theorem order_agnostic_commutes (b : Builtin) (_hb : b ∈ Gen.Optimiser.orderAgnostic)
    (hm : b ∈ modelledCommutative) (sem : Sem) (x y : Value) :
    callBuiltin sem b [x, y] = callBuiltin sem b [y, x] := by
  simp only [modelledCommutative, List.mem_cons, List.mem_nil_iff, or_false] at hm
  rcases hm with rfl | rfl | rfl | rfl | rfl
  · rcases unwrapInteger_cases x with ⟨a, rfl⟩ | hx <;> rcases unwrapInteger_cases y with ⟨c, rfl⟩ | hy <;>
      simp_all [callBuiltin, callBuiltinCore, getArgB, Value.unwrapInteger, cInt, Res.bind, Bind.bind, Pure.pure, Int.add_comm]
  · rcases unwrapInteger_cases x with ⟨a, rfl⟩ | hx <;> rcases unwrapInteger_cases y with ⟨c, rfl⟩ | hy <;>
      simp_all [callBuiltin, callBuiltinCore, getArgB, Value.unwrapInteger, cInt, Res.bind, Bind.bind, Pure.pure, Int.mul_comm]
  · rcases unwrapInteger_cases x with ⟨a, rfl⟩ | hx <;> rcases unwrapInteger_cases y with ⟨c, rfl⟩ | hy <;>
      simp_all [callBuiltin, callBuiltinCore, getArgB, Value.unwrapInteger, cInt, Res.bind, Bind.bind, Pure.pure, BEq.comm]
  · rcases unwrapByteString_cases x with ⟨a, rfl⟩ | hx <;> rcases unwrapByteString_cases y with ⟨c, rfl⟩ | hy <;>
      simp_all [callBuiltin, callBuiltinCore, getArgB, Value.unwrapByteString, Res.bind, Bind.bind, Pure.pure, BEq.comm]
  · rcases unwrapString_cases x with ⟨a, rfl⟩ | hx <;> rcases unwrapString_cases y with ⟨c, rfl⟩ | hy <;>
      simp_all [callBuiltin, callBuiltinCore, getArgB, Value.unwrapString, Res.bind, Bind.bind, Pure.pure, BEq.comm]

/-- non-commutative builtins are not in the generated list (a constant on either side of `-`, `/`,
`<`, `appendByteString` … must not be swapped) -/
theorem non_commutative_not_listed :
    ∀ b ∈ [Builtin.subtractInteger, .divideInteger, .modInteger, .quotientInteger, .remainderInteger,
           .lessThanInteger, .lessThanEqualsInteger, .appendByteString, .appendString, .consByteString,
           .lessThanByteString, .lessThanEqualsByteString],
      b ∉ Gen.Optimiser.orderAgnostic := by decide

example : callBuiltin .E .subtractInteger [cInt 1, cInt 2] ≠ callBuiltin .E .subtractInteger [cInt 2, cInt 1] := by
  simp [callBuiltin, callBuiltinCore, getArgB, Value.unwrapInteger, cInt, Res.bind, Bind.bind, Pure.pure]

/-- `convert_arithmetic_ops`: subtracting a constant is adding its negation -/
theorem arith_flip (sem : Sem) (x : Value) (c : Int) :
    callBuiltin sem .subtractInteger [x, cInt c] = callBuiltin sem .addInteger [x, cInt (-c)] := by
  rcases unwrapInteger_cases x with ⟨a, rfl⟩ | hx
  · simp [callBuiltin, callBuiltinCore, getArgB, Value.unwrapInteger, cInt, Res.bind, Bind.bind, Pure.pure, Int.sub_eq_add_neg]
  · simp_all [callBuiltin, callBuiltinCore, getArgB, cInt, Res.bind, Bind.bind]

/-- `cast_data_reducer`, sound direction: unwrapping what was just wrapped gives the value back -/
theorem cast_data_cancel (sem : Sem) (n : Int) (b : Bytes) :
    (callBuiltin sem .iData [cInt n]).bind (fun d => callBuiltin sem .unIData [d]) = .ok (cInt n) ∧
    (callBuiltin sem .bData [.con (.bytestring b)]).bind (fun d => callBuiltin sem .unBData [d]) = .ok (.con (.bytestring b)) :=
  ⟨rfl, rfl⟩

/-- the other direction is NOT an identity: `iData (unIData d)` fails when `d` is not an integer, so
cancelling it (as `cast_data_reducer` does for `(IData, UnIData)`, `(BData, UnBData)`, `(ListData,
UnListData)`, `(MapData, UnMapData)`) turns a failing program into a succeeding one — this is the
check `expect n: Int = d` compiles to -/
theorem wrap_after_unwrap_not_identity (sem : Sem) :
    (callBuiltin sem .unIData [.con (.data (.bytes []))]).bind (fun v => callBuiltin sem .iData [v]) = .err ∧
    (callBuiltin sem .unBData [.con (.data (.int 0))]).bind (fun v => callBuiltin sem .bData [v]) = .err ∧
    (callBuiltin sem .unListData [.con (.data (.int 0))]).bind (fun v => callBuiltin sem .listData [v]) = .err ∧
    (callBuiltin sem .unMapData [.con (.data (.int 0))]).bind (fun v => callBuiltin sem .mapData [v]) = .err :=
  ⟨rfl, rfl, rfl, rfl⟩

/-- `force_delay_reducer` at the root: `force (delay t)` runs exactly as `t` (three machine steps later) -/
theorem force_delay_root (sem : Sem) (den : Builtin → List Value → Res Value) (fuel : Nat) (t : NTerm) :
    Spec.run sem den (fuel + 3) (.force (.delay t)) = Spec.run sem den fuel t := by
  simp [Spec.run, Spec.runFrom, Spec.step]

section
def nm (s : String) : NamedDeBruijn := ⟨s, 1⟩
def one : NTerm := .const (.integer 1)
def ite (c t e : NTerm) : NTerm :=
  .force (.app (.app (.app (.force (.builtin .ifThenElse)) c) (.delay t)) (.delay e))

/-- `[(lam d (if True then 1 else d)) error]`: the argument is evaluated first -/
def strictArg : NTerm := .app (.lam (nm "d") (ite (.const (.bool true)) one (.var (nm "d")))) .error
/-- the same with the argument inlined into the branch that is not taken -/
def inlinedArg : NTerm := ite (.const (.bool true)) one .error

/-- inlining a possibly failing argument under a `delay` that is not forced changes the outcome
(this is the side condition `must_execute` of `inline_reducer`; `carry_args_to_branch` counts the two
branches of `ifThenElse` / `chooseList` as not delayed when neither is `error` — defect found) -/
theorem inline_under_delay_changes_outcome (sem : Sem) :
    Spec.run sem (denotation sem) 40 strictArg = .fail ∧
    Spec.run sem (denotation sem) 40 inlinedArg = .done one := by
  cases sem <;> exact ⟨rfl, rfl⟩
end


/-! ## Contextual facts: the rewrites at ANY position (any evaluation context, any environment)

The specification machine is environment-based, so a statement about the state
`compute ctx env t` with `ctx`, `env` universally quantified is a statement about the rewrite wherever
the machine meets the redex — not only at the root. -/
section Contextual
open Gen.Optimiser

/-- `force_delay_reducer`, first branch, at any position: `force (delay t)` is in the state
`compute ctx env t` three steps later -/
theorem force_delay_anywhere (sem : Sem) (den : Builtin → List Value → Res Value) (fuel : Nat)
    (ctx : Ctx) (env : List Value) (t : NTerm) :
    Spec.runFrom sem den (fuel + 3) (.compute ctx env (.force (.delay t))) =
    Spec.runFrom sem den fuel (.compute ctx env t) := by
  simp [Spec.runFrom, Spec.step]

/-- `force_delay_reducer`, second branch (`delay (force x)` ↦ `x`): wherever the result is FORCED the
two are the same state three steps later — for any binding of `x`, bound or not -/
theorem delay_force_var_when_forced (sem : Sem) (den : Builtin → List Value → Res Value) (fuel : Nat)
    (ctx : Ctx) (env : List Value) (x : NamedDeBruijn) :
    Spec.runFrom sem den (fuel + 3) (.compute (.force :: ctx) env (.delay (.force (.var x)))) =
    Spec.runFrom sem den fuel (.compute (.force :: ctx) env (.var x)) := by
  simp [Spec.runFrom, Spec.step]

/-- … and the premise "the result is forced" is necessary: returned unforced the two differ when `x`
is not a delayed computation (the rewrite relies on the code generator's typing of `x`) -/
theorem delay_force_var_unforced_differs (sem : Sem) :
    Spec.run sem (denotation sem) 20 (.app (.lam (nm "x") (.delay (.force (.var (nm "x"))))) one)
      = .done (.delay (.force one)) ∧
    Spec.run sem (denotation sem) 20 (.app (.lam (nm "x") (.var (nm "x"))) one) = .done one := by
  cases sem <;> exact ⟨rfl, rfl⟩

/-- does a term have the shape an arm of `lambda_reducer`'s `match arg_term` selects? -/
def selects : ArgShape → NTerm → Bool
  | .stringConstant, .const (.string _) => true
  | .constant, .const _ => true
  | .delayError, .delay .error => true
  | .lambda, .lam _ _ => true
  | .var, .var _ => true
  | .builtin, .builtin _ => true
  | .anythingElse, _ => true
  | _, _ => false

/-- the value a non-variable inlinable argument denotes in environment `env` -/
def argValue (env : List Value) : NTerm → Option Value
  | .const c => some (.con c)
  | .delay b => some (.delay b env)
  | .lam n b => some (.lam n b env)
  | .builtin b => some (.builtin b 0 [])
  | _ => none

/-- over the GENERATED arm table of `lambda_reducer`: an argument is substituted for the parameter
only when it is a constant, `delay error`, a lambda, a variable or a builtin (a new arm answering
`true` for an application, `force`, `error`, `constr` or `case` does not get past this) -/
theorem lambda_reducer_substitutes_only_value_shapes :
    ∀ a ∈ lambdaReducerArms, a.2 ≠ .never →
      a.1 = .constant ∨ a.1 = .delayError ∨ a.1 = .lambda ∨ a.1 = .var ∨ a.1 = .builtin := by
  decide

/-- the catch-all of the generated table refuses -/
theorem lambda_reducer_catch_all_refuses : (.anythingElse, .never) ∈ lambdaReducerArms := by decide

/-- every argument of a substituted shape other than a variable is a VALUE: the machine returns it in
one step, in any context and environment, without failing — so evaluating it zero times or many
times instead of once cannot change the outcome -/
theorem substituted_arg_is_value (sem : Sem) (den : Builtin → List Value → Res Value)
    (a : ArgShape × Verdict) (ha : a ∈ lambdaReducerArms) (hv : a.2 ≠ .never)
    (t : NTerm) (ht : selects a.1 t = true) (ctx : Ctx) (env : List Value) :
    (∃ v, argValue env t = some v ∧ Spec.step sem den (.compute ctx env t) = .next (.ret ctx v)) ∨
    (∃ x, t = .var x) := by
  rcases lambda_reducer_substitutes_only_value_shapes a ha hv with h | h | h | h | h <;>
    rw [h] at ht <;> cases t <;> simp [selects] at ht
  all_goals first | exact .inl ⟨_, rfl, rfl⟩ | exact .inr ⟨_, rfl⟩

/-- a variable argument is returned in one step too, or is free — and then every occurrence it
would be substituted at fails as well -/
theorem substituted_var_is_value_or_free (sem : Sem) (den : Builtin → List Value → Res Value)
    (ctx : Ctx) (env : List Value) (x : NamedDeBruijn) :
    (∃ v, Spec.step sem den (.compute ctx env (.var x)) = .next (.ret ctx v)) ∨
    (∀ ctx', Spec.step sem den (.compute ctx' env (.var x)) = .fail) := by
  cases h : Spec.lookup env x.index with
  | some v => exact .inl ⟨v, by simp [Spec.step, h]⟩
  | none => exact .inr (fun _ => by simp [Spec.step, h])

/-- beta at any position for a value argument: `[(lam n body) arg]` is, five steps later, the state
that computes `body` with `arg`'s value bound to `n` -/
theorem beta_value_anywhere (sem : Sem) (den : Builtin → List Value → Res Value) (fuel : Nat)
    (ctx : Ctx) (env : List Value) (n : NamedDeBruijn) (body arg : NTerm) (v : Value)
    (hv : argValue env arg = some v) :
    Spec.runFrom sem den (fuel + 5) (.compute ctx env (.app (.lam n body) arg)) =
    Spec.runFrom sem den fuel (.compute ctx (env ++ [v]) body) := by
  cases arg <;> simp [argValue] at hv <;> subst hv <;>
    simp [Spec.runFrom, Spec.step, Spec.applyValue]

/-- `identity_reducer` at any position: `[(lam x x) arg]` for a value-shaped `arg` returns `arg`'s
value to the enclosing context, six steps later — exactly what computing `arg` alone returns -/
theorem identity_value_anywhere (sem : Sem) (den : Builtin → List Value → Res Value) (fuel : Nat)
    (ctx : Ctx) (env : List Value) (s : String) (arg : NTerm) (v : Value)
    (hv : argValue env arg = some v) :
    Spec.runFrom sem den (fuel + 6) (.compute ctx env (.app (.lam ⟨s, 1⟩ (.var ⟨s, 1⟩)) arg)) =
      Spec.runFrom sem den fuel (.ret ctx v) ∧
    Spec.runFrom sem den (fuel + 1) (.compute ctx env arg) = Spec.runFrom sem den fuel (.ret ctx v) := by
  constructor
  · rw [show fuel + 6 = (fuel + 1) + 5 from rfl, beta_value_anywhere sem den (fuel + 1) ctx env ⟨s, 1⟩ _ arg v hv]
    simp [Spec.runFrom, Spec.step, Spec.lookup]
  · cases arg <;> simp [argValue] at hv <;> subst hv <;> simp [Spec.runFrom, Spec.step]

/-- non-vacuity: the table does substitute something, and a selected term exists for the shape -/
example : (ArgShape.constant, Verdict.always) ∈ lambdaReducerArms ∧
    selects .constant one = true ∧ argValue [] one = some (.con (.integer 1)) := by
  refine ⟨by decide, rfl, rfl⟩

/-- why an application must NOT be substituted: evaluated zero times instead of once, a failing
argument stops failing -/
theorem substituting_a_failing_arg_changes_outcome (sem : Sem) :
    Spec.run sem (denotation sem) 20 (.app (.lam (nm "x") one) .error) = .fail ∧
    Spec.run sem (denotation sem) 20 one = .done one := by
  cases sem <;> exact ⟨rfl, rfl⟩

end Contextual


/-! ## `cast_data_reducer`: the GENERATED pair table -/
section CastPairs
open Gen.Optimiser

/-- unwrap after wrap: sound (`cast_data_cancel`; for lists the items come back by `dataItems_ok`) -/
def unwrapAfterWrap : List (Builtin × Builtin) :=
  [(.unIData, .iData), (.unBData, .bData), (.unListData, .listData), (.unMapData, .mapData)]
/-- wrap after unwrap: the recorded finding (`wrap_after_unwrap_not_identity`) -/
def wrapAfterUnwrap : List (Builtin × Builtin) :=
  [(.iData, .unIData), (.bData, .unBData), (.listData, .unListData), (.mapData, .unMapData)]

/-- every pair `outer (inner x) ↦ x` of the generated table is a wrap/unwrap pair of the SAME kind,
in one of the two directions; a new pair (say `(UnIData, BData)`, or anything with `constrData`)
does not get past this -/
theorem cast_pairs_classified :
    ∀ p ∈ castCancelPairs, p ∈ unwrapAfterWrap ∨ p ∈ wrapAfterUnwrap := by decide

theorem dataItems_ok : ∀ (cs : List Const) (ds : List Data), dataItems cs = .ok ds → cs = ds.map .data
  | [], ds, h => by simp [dataItems] at h; subst h; rfl
  | c :: rest, ds, h => by
    cases c <;> simp [dataItems] at h
    case data d =>
      cases hr : dataItems rest with
      | ok r =>
        rw [hr] at h
        simp [bind, Res.bind, pure] at h
        subst h
        simp [dataItems_ok rest r hr]
      | _ => rw [hr] at h; simp [bind, Res.bind] at h

end CastPairs

end AikenVerif.C02
