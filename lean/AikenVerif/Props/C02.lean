import AikenVerif.Model.Spec
import AikenVerif.Gen.Optimiser
/-!
# C02 — the optimiser never changes what compiler output computes

Level: translation validation (harness `c02-optimiser`: every (pre, post) pair the real code
generator hands to / gets from the optimiser, evaluated on the same arguments; every optimiser phase
applied separately under a panic guard).  Whole-optimiser soundness is NOT a theorem here.
Machine-checked are side conditions the rewrites rely on, over GENERATED tables, in the impl model
of the builtins (`callBuiltin`, tied to the Rust by C03/C04's correspondences) and the specification
machine (`Spec.run`):

* `order_agnostic_covered` / `order_agnostic_commutes`: every builtin of the generated
  `is_order_agnostic_builtin` list is one of the five modelled commutative ones (proved to commute on
  ALL argument values, ill-typed ones included), `equalsData`, or a BLS builtin (opaque: assumed);
* `arith_flip`: `subtractInteger x c = addInteger x (-c)` (what `convert_arithmetic_ops` uses);
* `cast_data_cancel` (the sound direction `un·Data (·Data v) = v`) and `wrap_after_unwrap_not_identity`
  (the other direction, which `cast_data_reducer` ALSO cancels, is not an identity: defect found);
* `force_delay_root`, `inline_under_delay_changes_outcome` (a possibly failing argument may only be
  inlined where it must execute: the side condition `carry_args_to_branch` gets wrong; defect found).
-/
namespace AikenVerif.C02
open AikenVerif Gen

def cInt (n : Int) : Value := .con (.integer n)

theorem unwrapInteger_cases (v : Value) : (∃ n, v = cInt n) ∨ v.unwrapInteger = .err := by
  cases v with
  | con c => cases c <;> simp [Value.unwrapInteger, cInt]
  | _ => right; rfl

theorem unwrapByteString_cases (v : Value) : (∃ b, v = .con (.bytestring b)) ∨ v.unwrapByteString = .err := by
  cases v with
  | con c => cases c <;> simp [Value.unwrapByteString]
  | _ => right; rfl

theorem unwrapString_cases (v : Value) : (∃ s, v = .con (.string s)) ∨ v.unwrapString = .err := by
  cases v with
  | con c => cases c <;> simp [Value.unwrapString]
  | _ => right; rfl

/-- the builtins of the order-agnostic list whose commutativity is proved in the model -/
def modelledCommutative : List Builtin :=
  [.addInteger, .multiplyInteger, .equalsInteger, .equalsByteString, .equalsString]

/-- the GENERATED list contains nothing but: the five modelled ones, `equalsData` (structural equality
of `PlutusData`), and BLS group operations (opaque in this development) -/
theorem order_agnostic_covered :
    ∀ b ∈ Gen.Optimiser.orderAgnostic,
      b ∈ modelledCommutative ∨ b = .equalsData ∨
      b ∈ [Builtin.bls12_381_G1_Equal, .bls12_381_G2_Equal, .bls12_381_G1_Add, .bls12_381_G2_Add] := by
  decide

/-- every order-agnostic builtin takes exactly two arguments and no force (the curry reducer swaps
the two arguments of such a call) -/
theorem order_agnostic_binary : ∀ b ∈ Gen.Optimiser.orderAgnostic, b.arity = 2 ∧ b.forceCount = 0 := by
  decide

/-- swapping the two arguments of a modelled order-agnostic builtin never changes the result —
for ALL argument values, including ill-typed ones (both orders then fail) -/
theorem order_agnostic_commutes (b : Builtin) (_hb : b ∈ Gen.Optimiser.orderAgnostic)
    (hm : b ∈ modelledCommutative) (sem : Sem) (x y : Value) :
    callBuiltin sem b [x, y] = callBuiltin sem b [y, x] := by
  simp only [modelledCommutative, List.mem_cons, List.mem_nil_iff, or_false] at hm
  rcases hm with rfl | rfl | rfl | rfl | rfl
  · rcases unwrapInteger_cases x with ⟨a, rfl⟩ | hx <;> rcases unwrapInteger_cases y with ⟨c, rfl⟩ | hy <;>
      simp_all [callBuiltin, callBuiltinCore, getArgB, Value.unwrapInteger, cInt, Res.bind, Bind.bind, Pure.pure, Int.add_comm]
  · rcases unwrapInteger_cases x with ⟨a, rfl⟩ | hx <;> rcases unwrapInteger_cases y with ⟨c, rfl⟩ | hy <;>
      simp_all [callBuiltin, callBuiltinCore, getArgB, Value.unwrapInteger, cInt, Res.bind, Bind.bind, Pure.pure, Int.mul_comm]
  · rcases unwrapInteger_cases x with ⟨a, rfl⟩ | hx <;> rcases unwrapInteger_cases y with ⟨c, rfl⟩ | hy <;>
      simp_all [callBuiltin, callBuiltinCore, getArgB, Value.unwrapInteger, cInt, Res.bind, Bind.bind, Pure.pure, BEq.comm]
  · rcases unwrapByteString_cases x with ⟨a, rfl⟩ | hx <;> rcases unwrapByteString_cases y with ⟨c, rfl⟩ | hy <;>
      simp_all [callBuiltin, callBuiltinCore, getArgB, Value.unwrapByteString, Res.bind, Bind.bind, Pure.pure, BEq.comm]
  · rcases unwrapString_cases x with ⟨a, rfl⟩ | hx <;> rcases unwrapString_cases y with ⟨c, rfl⟩ | hy <;>
      simp_all [callBuiltin, callBuiltinCore, getArgB, Value.unwrapString, Res.bind, Bind.bind, Pure.pure, BEq.comm]

/-- non-commutative builtins are not in the generated list (a constant on either side of `-`, `/`,
`<`, `appendByteString` … must not be swapped) -/
theorem non_commutative_not_listed :
    ∀ b ∈ [Builtin.subtractInteger, .divideInteger, .modInteger, .quotientInteger, .remainderInteger,
           .lessThanInteger, .lessThanEqualsInteger, .appendByteString, .appendString, .consByteString,
           .lessThanByteString, .lessThanEqualsByteString],
      b ∉ Gen.Optimiser.orderAgnostic := by decide

example : callBuiltin .E .subtractInteger [cInt 1, cInt 2] ≠ callBuiltin .E .subtractInteger [cInt 2, cInt 1] := by
  simp [callBuiltin, callBuiltinCore, getArgB, Value.unwrapInteger, cInt, Res.bind, Bind.bind, Pure.pure]

/-- `convert_arithmetic_ops`: subtracting a constant is adding its negation -/
theorem arith_flip (sem : Sem) (x : Value) (c : Int) :
    callBuiltin sem .subtractInteger [x, cInt c] = callBuiltin sem .addInteger [x, cInt (-c)] := by
  rcases unwrapInteger_cases x with ⟨a, rfl⟩ | hx
  · simp [callBuiltin, callBuiltinCore, getArgB, Value.unwrapInteger, cInt, Res.bind, Bind.bind, Pure.pure, Int.sub_eq_add_neg]
  · simp_all [callBuiltin, callBuiltinCore, getArgB, cInt, Res.bind, Bind.bind]

/-- `cast_data_reducer`, sound direction: unwrapping what was just wrapped gives the value back -/
theorem cast_data_cancel (sem : Sem) (n : Int) (b : Bytes) :
    (callBuiltin sem .iData [cInt n]).bind (fun d => callBuiltin sem .unIData [d]) = .ok (cInt n) ∧
    (callBuiltin sem .bData [.con (.bytestring b)]).bind (fun d => callBuiltin sem .unBData [d]) = .ok (.con (.bytestring b)) :=
  ⟨rfl, rfl⟩

/-- the other direction is NOT an identity: `iData (unIData d)` fails when `d` is not an integer, so
cancelling it (as `cast_data_reducer` does for `(IData, UnIData)`, `(BData, UnBData)`, `(ListData,
UnListData)`, `(MapData, UnMapData)`) turns a failing program into a succeeding one — this is the
check `expect n: Int = d` compiles to -/
theorem wrap_after_unwrap_not_identity (sem : Sem) :
    (callBuiltin sem .unIData [.con (.data (.bytes []))]).bind (fun v => callBuiltin sem .iData [v]) = .err ∧
    (callBuiltin sem .unBData [.con (.data (.int 0))]).bind (fun v => callBuiltin sem .bData [v]) = .err ∧
    (callBuiltin sem .unListData [.con (.data (.int 0))]).bind (fun v => callBuiltin sem .listData [v]) = .err ∧
    (callBuiltin sem .unMapData [.con (.data (.int 0))]).bind (fun v => callBuiltin sem .mapData [v]) = .err :=
  ⟨rfl, rfl, rfl, rfl⟩

/-- `force_delay_reducer` at the root: `force (delay t)` runs exactly as `t` (three machine steps later) -/
theorem force_delay_root (sem : Sem) (den : Builtin → List Value → Res Value) (fuel : Nat) (t : NTerm) :
    Spec.run sem den (fuel + 3) (.force (.delay t)) = Spec.run sem den fuel t := by
  simp [Spec.run, Spec.runFrom, Spec.step]

section
def nm (s : String) : NamedDeBruijn := ⟨s, 1⟩
def one : NTerm := .const (.integer 1)
def ite (c t e : NTerm) : NTerm :=
  .force (.app (.app (.app (.force (.builtin .ifThenElse)) c) (.delay t)) (.delay e))

/-- `[(lam d (if True then 1 else d)) error]`: the argument is evaluated first -/
def strictArg : NTerm := .app (.lam (nm "d") (ite (.const (.bool true)) one (.var (nm "d")))) .error
/-- the same with the argument inlined into the branch that is not taken -/
def inlinedArg : NTerm := ite (.const (.bool true)) one .error

/-- inlining a possibly failing argument under a `delay` that is not forced changes the outcome
(this is the side condition `must_execute` of `inline_reducer`; `carry_args_to_branch` counts the two
branches of `ifThenElse` / `chooseList` as not delayed when neither is `error` — defect found) -/
theorem inline_under_delay_changes_outcome (sem : Sem) :
    Spec.run sem (denotation sem) 40 strictArg = .fail ∧
    Spec.run sem (denotation sem) 40 inlinedArg = .done one := by
  cases sem <;> exact ⟨rfl, rfl⟩
end

end AikenVerif.C02
