import AikenVerif.Lemmas.CekRefine
import AikenVerif.Lemmas.CekClosed
/-!
# C03 — the evaluator implements UPLC's operational semantics: property theorems

`AikenVerif.run` is the impl model of `Machine::run` (tied to the Rust by the
correspondence `c03-cek` and by the generated tables `arity`, `forceCount`,
`StepKind`, `termSteps`, `costSpec`); `Spec.run` is the specification's CEK machine
with builtin signatures transcribed from the specification (`Spec.sig`).
-/
namespace AikenVerif.C03
open AikenVerif Gen

/-- the generated `arity`/`force_count` tables are the specification's signatures, and every
signature has all its quantifiers before its arguments (the machine's force discipline relies on it) -/
theorem sig_tables_agree (b : Builtin) :
    Spec.sig b = List.replicate b.forceCount .all ++ List.replicate b.arity .arg ∧ 0 < b.arity :=
  ⟨sig_eq b, arity_pos b⟩

/-- reading back a value: the implementation's `value_as_term`/`with_env` (index arithmetic from the
end of the environment vector) is substitution of the environment through every term former -/
theorem discharge_impl_eq_spec (v : Value) : valueAsTerm v = Spec.discharge v := valueAsTerm_eq v

/-- one transition: same next state / same final term / same failure as the specification -/
theorem step_refines_spec (cfg : Config) (a : Acct) (s : State) (hs : s.wf = true) (ha : AcctWF a) :
    match step cfg a s with
    | .next a' s' => Spec.step cfg.sem (denotation cfg.sem) s = .next s' ∧ s'.wf = true ∧ AcctWF a'
    | .done _ t => Spec.step cfg.sem (denotation cfg.sem) s = .done t
    | .fail => Spec.step cfg.sem (denotation cfg.sem) s = .fail
    | _ => True := by
  have := step_good cfg a s hs ha
  revert this
  cases step cfg a s <;> simp [StepGood]

theorem runFrom_refines (cfg : Config) : ∀ (fuel : Nat) (a : Acct) (s : State), s.wf = true → AcctWF a →
    match runFrom cfg fuel a s with
    | .done _ t => Spec.runFrom cfg.sem (denotation cfg.sem) fuel s = .done t
    | .fail => Spec.runFrom cfg.sem (denotation cfg.sem) fuel s = .fail
    | _ => True := by
  intro fuel
  induction fuel with
  | zero => intro a s _ _; simp [runFrom]
  | succ n ih =>
    intro a s hs ha
    have hg := step_good cfg a s hs ha
    simp only [runFrom, Spec.runFrom]
    revert hg
    cases step cfg a s with
    | next a' s' =>
      intro hg
      simp only [StepGood] at hg
      simp only [hg.1]
      exact ih a' s' hg.2.1 hg.2.2
    | done a' t => intro hg; simp only [StepGood] at hg; simp [hg]
    | fail => intro hg; simp only [StepGood] at hg; simp [hg]
    | oob => intro _; trivial
    | panic => intro _; trivial
    | unmodelled => intro _; trivial

theorem spendBudget_cases (a : Acct) (c : ExBudget) :
    spendBudget a c = .oob ∨ ∃ a', spendBudget a c = .ok a' ∧ a'.counts = a.counts := by
  unfold spendBudget
  simp only
  split
  · exact Or.inl rfl
  · exact Or.inr ⟨_, rfl, rfl⟩

/-- **C03 (soundness)**: whatever term `Machine::run` returns for a program, under any budget,
slippage, cost model and semantics variant, is the term the specification's machine returns; and
whenever it reports an evaluation failure, so does the specification's machine. -/
theorem cek_refines_spec (cfg : Config) (fuel : Nat) (budget : ExBudget) (t : NTerm) :
    match run cfg fuel budget t with
    | .done _ r => Spec.run cfg.sem (denotation cfg.sem) fuel t = .done r
    | .fail => Spec.run cfg.sem (denotation cfg.sem) fuel t = .fail
    | _ => True := by
  unfold run Spec.run
  cases hsu : cfg.costs.machineCost .startUp with
  | none => trivial
  | some c =>
    simp only
    rcases spendBudget_cases ⟨budget, initCounts⟩ c with hsp | ⟨a, hsp, hb⟩
    · rw [hsp]; trivial
    · rw [hsp]
      simp only
      have hwf : AcctWF a := by simp [AcctWF, hb, initCounts]
      exact runFrom_refines cfg fuel a (.compute [] [] t) (by simp [State.wf, Value.wfList]) hwf

/-- **C03 (completeness up to resources)**: if the specification's machine finishes with `r` within
`fuel` steps, the implementation either returns exactly `r` or stops for a reason outside the
semantics (budget exhausted, unmodelled builtin) — it never returns a different term and never
reports a failure the specification does not have. -/
theorem spec_result_is_impl_result (cfg : Config) (fuel : Nat) (budget : ExBudget) (t : NTerm) (r : NTerm)
    (h : Spec.run cfg.sem (denotation cfg.sem) fuel t = .done r) :
    match run cfg fuel budget t with
    | .done _ r' => r' = r
    | .fail => False
    | _ => True := by
  have := cek_refines_spec cfg fuel budget t
  revert this
  cases hr : run cfg fuel budget t with
  | done a r' => intro h'; simp only at h'; rw [h] at h'; cases h'; rfl
  | fail => intro h'; simp only at h'; rw [h] at h'; cases h'
  | oob => intro _; trivial
  | panic => intro _; trivial
  | unmodelled => intro _; trivial
  | outOfFuel => intro _; trivial

theorem runFrom_closed (cfg : Config) : ∀ (fuel : Nat) (a a' : Acct) (s : State) (t : NTerm),
    s.closed = true → runFrom cfg fuel a s = .done a' t → Term.closedAt 0 t = true := by
  intro fuel
  induction fuel with
  | zero => intro a a' s t _ h; simp [runFrom] at h
  | succ n ih =>
    intro a a' s t hs h
    have hc := step_closed cfg a s hs
    simp only [runFrom] at h
    cases hst : step cfg a s with
    | next a1 s1 => rw [hst] at h hc; exact ih a1 a' s1 t hc h
    | done a1 t1 => rw [hst] at h hc; cases h; exact hc
    | fail => rw [hst] at h; cases h
    | oob => rw [hst] at h; cases h
    | panic => rw [hst] at h; cases h
    | unmodelled => rw [hst] at h; cases h

/-- **C03 (result is closed)**: evaluating a CLOSED term returns a term with no free variable:
every captured variable has been substituted, under lambdas, delays, applications, constructors
and case expressions alike. -/
theorem result_closed (cfg : Config) (fuel : Nat) (budget : ExBudget) (t r : NTerm) (a' : Acct)
    (ht : Term.closedAt 0 t = true) (h : run cfg fuel budget t = .done a' r) : Term.closedAt 0 r = true := by
  unfold run at h
  cases hsu : cfg.costs.machineCost .startUp with
  | none => rw [hsu] at h; cases h
  | some c =>
    rw [hsu] at h
    simp only at h
    cases hsp : spendBudget ⟨budget, initCounts⟩ c with
    | ok a =>
      rw [hsp] at h
      exact runFrom_closed cfg fuel a a' (.compute [] [] t) r (by simp [State.closed, Value.closedList, ht]) h
    | oob => rw [hsp] at h; cases h
    | fail => rw [hsp] at h; cases h
    | panic => rw [hsp] at h; cases h
    | unmodelled => rw [hsp] at h; cases h

/-- more fuel never changes a finished run -/
theorem runFrom_fuel_mono (cfg : Config) : ∀ (n : Nat) (a : Acct) (s : State) (m : Nat),
    runFrom cfg n a s ≠ .outOfFuel → runFrom cfg (n + m) a s = runFrom cfg n a s := by
  intro n
  induction n with
  | zero => intro a s m h; exact absurd rfl h
  | succ n ih =>
    intro a s m h
    have : n + 1 + m = (n + m) + 1 := by omega
    rw [this]
    simp only [runFrom] at h ⊢
    cases hs : step cfg a s with
    | next a' s' => rw [hs] at h; simp only at h ⊢; exact ih a' s' m h
    | done a' t => rfl
    | fail => rfl
    | oob => rfl
    | panic => rfl
    | unmodelled => rfl

/-- non-vacuity: a closed program using application, closures capturing under `constr`, `case`,
`force`/`delay` and a builtin evaluates, on both machines, to the substituted closed term -/
example :
    let t : NTerm :=
      .app (.lam ⟨"x", 0⟩ (.delay (.constr 0 [.var ⟨"x", 1⟩,
        .case (.constr 1 [.const (.integer 2)]) [.error, .lam ⟨"y", 0⟩
          (.app (.app (.builtin .addInteger) (.var ⟨"y", 1⟩)) (.var ⟨"x", 2⟩))]])))
        (.const (.integer 40))
    Spec.run .E (denotation .E) 50 t =
      .done (.delay (.constr 0 [.const (.integer 40),
        .case (.constr 1 [.const (.integer 2)]) [.error, .lam ⟨"y", 0⟩
          (.app (.app (.builtin .addInteger) (.var ⟨"y", 1⟩)) (.const (.integer 40)))]])) := by
  rfl

end AikenVerif.C03
