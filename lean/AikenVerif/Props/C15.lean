import AikenVerif.Lemmas.TextNoNewline
/-!
# C15 — UPLC text round-trips: property theorems

Model: `Model/Text.lean` (printer `pretty.rs` → tokens, parser `parser.rs` peg grammar ← tokens,
string escapes on characters), tables regenerated from `/repo` on every run by `tools/translate.py`
(`Gen/Builtins.lean`, `Gen/TextTables.lean`).  The modelled behaviour is the one with
`proposed_fixes/C15-*.diff` and `C20-uplc-parser-unknown-builtin.diff` applied; on the unpatched tree the
generated tables differ and `type_names_roundtrip`, `string_escape_roundtrip` (via `escapeMode_fixed`)
and `builtin_rule_no_panic` stop checking.

Every theorem quantifies over *all* strings / integers / byte strings / data / constants / terms /
programs; hypotheses are explicit decidable (`Bool`) predicates, each shown satisfiable next to it.
-/
namespace AikenVerif.C15
open AikenVerif.Gen AikenVerif.Gen.TextTables AikenVerif.Text

-- ------------------------------------------------------------------ part 1: generated tables
/-- every builtin's printed name parses back to that builtin -/
theorem builtin_names_roundtrip : ∀ b : Builtin, Builtin.fromStr b.display = some b := by
  intro b; cases b <;> decide

/-- no two builtins print the same (so the printed text determines the builtin) -/
theorem builtin_display_injective : ∀ a b : Builtin, a.display = b.display → a = b := by
  intro a b h
  have ha := builtin_names_roundtrip a
  have hb := builtin_names_roundtrip b
  rw [h] at ha
  rw [ha] at hb
  exact Option.some.inj hb

/-- non-vacuity / sanity: the table has the size of the enum and a known entry -/
example : Builtin.all.length = 91 ∧ Builtin.fromStr Builtin.addInteger.display = some .addInteger := by
  decide

/-- every type name the printer emits (`Type::to_doc`) is read back by `type_info()` as the same type,
and the `list` / `pair` type keywords agree (fails on the unpatched tree at G2 and at the ml-result type) -/
theorem type_names_roundtrip :
    (∀ a : TyAtom, tyAtomOfWord (chars (tyDisplay a)) = some a) ∧
    chars tyListDisplay = chars tyListParse ∧ chars tyPairDisplay = chars tyPairParse :=
  ⟨tyAtomOfWord_display, tyList_kw, tyPair_kw⟩

/-- all other keyword tables of printer and parser agree entry by entry: term keywords, `program`,
constant type keywords after `con`, data constructors, booleans -/
theorem keyword_tables_agree :
    (∀ k : TermKind, chars (termDisplay k) = chars (termParse k)) ∧
    chars programDisplay = chars programParse ∧
    (∀ k : ConKind, conKindOfWord (chars (conDisplay k)) = some k) ∧
    (∀ k : DataKind, dataKindOfWord (chars (dataDisplay k)) = some k) ∧
    (∀ b : Bool, boolOfWord (boolWord b) = some b) :=
  ⟨kwTerm_eq, program_kw, conKindOfWord_kw, dataKindOfWord_kw, boolOfWord_boolWord⟩

/-- the parser's `builtin` rule returns a parse error (not a panic) on an unknown name
(`C20-uplc-parser-unknown-builtin.diff`; the model's `altBuiltin` returns `none` there) -/
theorem builtin_rule_no_panic : unknownBuiltin = .error := by decide

/-- nesting of type syntax: any type, printed, parses back (and consumes exactly its tokens) -/
theorem type_text_roundtrip (t : Ty) : parseTy (printTy t).length (printTy t) = some (t, []) := by
  simpa using parseTy_printTy t (printTy t).length [] (Nat.le_refl _)

example : parseTy 12 (printTy (.list (.pair .g2 (.list .ml)))) = some (.list (.pair .g2 (.list .ml)), []) := by
  decide

-- ------------------------------------------------------------------ part 2: lexical round trips
/-- escaping then un-escaping any string over all of Unicode gives the string back
(`escape` = what pretty.rs prints between the quotes, `unescape` = the grammar's `character()*`) -/
theorem string_escape_roundtrip (s : List Char) : unescape (escape s) = some s :=
  unescape_escape s

/-- … also in context: whatever follows the closing quote is left untouched -/
theorem string_escape_roundtrip_ctx (s rest : List Char) :
    unescapeQ (s.length + 1) (escape s ++ '"' :: rest) = some (s, rest) :=
  unescapeQ_escape s rest _ (Nat.le_refl _)

example : unescape (escape ['a', '"', '\\', '\n', '\x00', 'é', '\x7f', Char.ofNat 0x10ffff]) =
    some ['a', '"', '\\', '\n', '\x00', 'é', '\x7f', Char.ofNat 0x10ffff] := by decide

/-- the escaped text never contains a raw new-line: a string token cannot span lines, so the layout
hack in `to_pretty` (blanking white-space-only lines) cannot touch the inside of a token -/
theorem escape_no_newline (s : List Char) : '\n' ∉ escape s := escape_no_newline' s

/-- integers of any size and sign: `BigInt::to_string` is read back by `big_number()`;
unsigned numbers below 2^64 (`usize`: versions, constructor tags) by `decimal()` -/
theorem number_roundtrip :
    (∀ i : Int, parseBigNumber (intChars i) = some i) ∧
    (∀ n : Nat, n < 2 ^ 64 → parseDecimal (natChars n) = some n) :=
  ⟨parseBigNumber_intChars, parseDecimal_natChars⟩

example : parseBigNumber (intChars (-(2 : Int) ^ 70)) = some (-(2 : Int) ^ 70) := number_roundtrip.1 _

/-- the bound in `number_roundtrip` is needed: 2^64 does not fit `usize` -/
example : parseDecimal (natChars (2 ^ 64)) = none := by
  simp [parseDecimal, allDigits_natChars, digitsVal_natChars]

/-- byte strings: `#` + `hex::encode` is read back by `hex::decode` -/
theorem bytes_hex_roundtrip (b : Bytes) : hexDecode (hexChars b) = some b := hexDecode_hexChars b

-- ------------------------------------------------------------------ part 3: data and constants
/-- any `Data` value (every constructor, any nesting; tags must fit the parser's `u64`) -/
theorem data_text_roundtrip (d : Data) (h : dataOk d = true) :
    parseData (printData d).length (printData d) = some (d, []) := by
  simpa using parseData_print d (printData d).length [] h (Nat.le_refl _)

example : dataOk (.constr 128 [.map [(.int (-1), .bytes [0xff])], .list [], .constr 0 []]) = true := by decide

/-- the tag bound is needed: a tag of 2^64 is printed but rejected by `decimal()` -/
example : parseData 100 (printData (.constr (2 ^ 64) [])) = none := by
  simp [printData, parseData, dataKindOfWord_kw, parseDecimal, allDigits_natChars, digitsVal_natChars]

/-- any well-formed constant of any type and nesting (`constOk`: no ml-result *value* — the printer panics
on those —, list elements / pair components have the declared types, data tags fit `u64`) -/
theorem const_text_roundtrip (c : Const) (h : constOk c.ty c = true) :
    parseConst (printConst c).length (printConst c) = some (c, []) := by
  simpa using parseConst_print c (printConst c).length [] h (Nat.le_refl _)

example : constOk (Const.ty (.list (.pair .string (.list .data))
    [.pair .string (.list .data) (.string ['é']) (.list .data [.data (.int 5)])]))
    (.list (.pair .string (.list .data)) [.pair .string (.list .data) (.string ['é']) (.list .data [.data (.int 5)])])
    = true := by decide

/-- an empty list of ml-results is a well-formed constant (it can come out of the flat decoder) -/
example : constOk (Const.ty (.list .ml [])) (.list .ml []) = true := by decide

/-- the typing hypothesis is needed: an ill-typed element is printed (the printer never checks) but
the parser rejects it -/
example : parseConst 20 (printConst (.list .integer [.bool true])) = none := by decide

-- ------------------------------------------------------------------ part 4: terms and programs
/-- decidable hypotheses of the program round trip -/
def WellFormed (p : Program Name) : Prop := programOk p = true
def NamesConsistent (p : Program Name) : Prop := namesConsistent p = true
instance (p : Program Name) : Decidable (WellFormed p) := by unfold WellFormed; infer_instance
instance (p : Program Name) : Decidable (NamesConsistent p) := by unfold NamesConsistent; infer_instance

/-- what the parser makes of printer output, exactly: the same program with every name's unique
replaced by the number its text is interned to (`Interner::term`) — no hypothesis on names needed -/
theorem parse_print_eq_relabel (p : Program Name) (h : WellFormed p) :
    printProgram p = some (printProgramTokens p) ∧
    parseProgram (printProgramTokens p) = some ⟨p.version, (relabel [] p.term).1⟩ := by
  have h' := h
  simp [WellFormed, programOk] at h'
  exact ⟨by simp [printProgram, termPrintable_of_ok p.term h'.2], parseProgram_print p h⟩

/-- **C15.** Pretty-printing any well-formed program and parsing the tokens back yields an
α-equivalent program (same version, same nameless view, all constants and builtins identical),
provided the names are consistent (at each variable the binder found through the text — all the
printer emits — is the binder found through the unique). -/
theorem text_roundtrip (p : Program Name) (hw : WellFormed p) (hn : NamesConsistent p) :
    ∃ ts q, printProgram p = some ts ∧ parseProgram ts = some q ∧ AlphaEq q p := by
  obtain ⟨h1, h2⟩ := parse_print_eq_relabel p hw
  exact ⟨_, _, h1, h2, rfl, nameless_relabel p.term hn⟩

/-- **Layout is irrelevant.** The same holds for *every* layout of the document — every choice of which
soft breaks (`line_()`: before the closing parenthesis of `lam`/`delay`/`force`/`con`/`builtin`/`constr`/
`case`/`program` and of list types) are rendered as white space; hard breaks and spaces are white space
in any case.  The flat rendering used above is the layout `fun _ => false`. -/
theorem text_roundtrip_any_layout (p : Program Name) (hw : WellFormed p) (hn : NamesConsistent p) (w : Layout) :
    ∃ q, parseProgram (printProgramTokensL w p) = some q ∧ AlphaEq q p :=
  ⟨_, parseProgram_printL w p hw, rfl, nameless_relabel p.term hn⟩

theorem flat_is_a_layout (p : Program Name) : printProgramTokensL (fun _ => false) p = printProgramTokens p :=
  printProgramTokensL_flat p

/-- … and no token of any rendering contains a raw new-line character (strings are escaped, everything
else is a table word, digits, hex or an identifier), so the line-based post-processing in `to_pretty`
(blanking white-space-only lines, re-joining with `\n`) cannot change a token -/
theorem print_tokens_no_newline (p : Program Name) (hw : WellFormed p) (w : Layout) :
    ∀ tk ∈ printProgramTokensL w p, tokOk tk = true := by
  have := printProgramTokensL_ok w p hw
  simpa [toksOk] using this

/-- printing what was parsed from printer output gives the same tokens again (what `aiken uplc fmt`
relies on); no hypothesis on names -/
theorem print_parse_fixpoint (p : Program Name) (hw : WellFormed p) :
    ∃ ts q, printProgram p = some ts ∧ parseProgram ts = some q ∧ printProgram q = some ts := by
  obtain ⟨h1, h2⟩ := parse_print_eq_relabel p hw
  refine ⟨_, _, h1, h2, ?_⟩
  have h' := hw
  simp [WellFormed, programOk] at h'
  simp [printProgram, printProgramTokens, termPrintable_relabel, termPrintable_of_ok p.term h'.2,
    printTerm_relabel]

/-- a scope-free sufficient condition for `NamesConsistent`: over the whole program, text and unique
determine each other — what `debruijn_to_name` (text `i_<unique>`, used by `aiken uplc decode` and the
`--uplc` dump) and the parser's interner produce -/
theorem names_bijective_consistent (p : Program Name) (h : namesBijective p = true) : NamesConsistent p :=
  namesConsistent_of_bijective p h

/-- a non-trivial program satisfying both hypotheses: shadowing, constr/case, a nested constant -/
def sample : Program Name :=
  ⟨(1, 1, 0), .lam ⟨"x", 7⟩ (.lam ⟨"y", 3⟩ (.lam ⟨"x", 7⟩
    (.case (.constr 1 [.var ⟨"x", 7⟩, .var ⟨"y", 3⟩])
      [.app (.force (.builtin .ifThenElse)) (.const (.list (.pair .integer .string) [.pair .integer .string (.integer (-5)) (.string ['é', '"'])])),
       .delay .error])))⟩

example : WellFormed sample ∧ NamesConsistent sample := by decide

/-- what `debruijn_to_name` produces (text `i_<unique>`) is consistent -/
example : NamesConsistent ⟨(1, 0, 0), .lam ⟨"i_0", 0⟩ (.lam ⟨"i_1", 1⟩ (.app (.var ⟨"i_0", 0⟩) (.var ⟨"i_1", 1⟩)))⟩ := by
  decide

/-- why `WellFormed` excludes names that start with `--` (although `ident()` accepts them): once a line
break follows — and the real layout breaks lines — the name is read as a comment -/
example : lex "(lam --x\n y)".toList = some [.lpar, .word ['l', 'a', 'm'], .ws, .word ['y'], .rpar] ∧
    lex "(lam --x y)".toList = some [.lpar, .word ['l', 'a', 'm'], .ws, .word ['-', '-', 'x'], .ws, .word ['y'], .rpar] := by
  decide

example : ¬ WellFormed ⟨(1, 0, 0), .lam ⟨"--x", 0⟩ (.var ⟨"--x", 0⟩)⟩ := by decide

/-- the hypothesis `NamesConsistent` is needed: `(lam x₀ (lam x₁ x₀))` with equal texts is well-formed,
prints as `(lam x (lam x x))`, and parses back as a program in which the variable refers to the *inner*
binder — not α-equivalent -/
def shadowCex : Program Name := ⟨(1, 0, 0), .lam ⟨"x", 0⟩ (.lam ⟨"x", 1⟩ (.var ⟨"x", 0⟩))⟩

theorem text_roundtrip_needs_names_consistent :
    WellFormed shadowCex ∧ ¬ NamesConsistent shadowCex ∧
    ∃ q, parseProgram (printProgramTokens shadowCex) = some q ∧ ¬ AlphaEq q shadowCex := by
  refine ⟨by decide, by decide, _, (parse_print_eq_relabel shadowCex (by decide)).2, ?_⟩
  intro h
  have := h.2
  simp [nameless, shadowCex, relabel, resolveBy, intern, idxOf, nameChars, mkName] at this

end AikenVerif.C15
