import AikenVerif.Gen.Builtins
/-!
# C15 — UPLC text round-trips: property theorems

Part 1 (tables, regenerated from `/repo` on every run by `tools/translate.py`):
the printer's builtin names (`impl Display for DefaultFunction`) are read back by
the parser's table (`impl FromStr for DefaultFunction`) as the same builtin.
-/
namespace AikenVerif.C15
open AikenVerif.Gen

/-- every builtin's printed name parses back to that builtin -/
theorem builtin_names_roundtrip : ∀ b : Builtin, Builtin.fromStr b.display = some b := by
  intro b; cases b <;> decide

/-- no two builtins print the same (so the printed text determines the builtin) -/
theorem builtin_display_injective : ∀ a b : Builtin, a.display = b.display → a = b := by
  intro a b h
  have ha := builtin_names_roundtrip a
  have hb := builtin_names_roundtrip b
  rw [h] at ha
  rw [ha] at hb
  exact Option.some.inj hb

/-- non-vacuity / sanity: the table has the size of the enum and a known entry -/
example : Builtin.all.length = 91 ∧ Builtin.fromStr Builtin.addInteger.display = some .addInteger := by
  decide

end AikenVerif.C15
