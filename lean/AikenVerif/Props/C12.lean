import AikenVerif.Lemmas.SchemaMain
import AikenVerif.Lemmas.SchemaFuel
import AikenVerif.Lemmas.SchemaPublish
import AikenVerif.Lemmas.SchemaEncode
/-!
# C12 — Blueprint schemas describe exactly what validators accept

Models: `AikenVerif/Model/Schema.lean`.  `conforms` is `Parameter::validate` as the code stands
(`panic!("fields length different")` is the outcome `panic`), `conformsFixed` is the same with
proposed_fixes/C12-fields-length.diff applied; `inh`/`inhabits` is what the compiled
`expect _: T = d` accepts; `publish` is the blueprint generator.

All statements quantify over every declaration table, every (closed or open) type, every table
and every `Data`; the only hypotheses are that the table is the generator's output
(`publish … = some tbl`, decidable by evaluation) or the explicit invariant `Faithful`.
-/
namespace AikenVerif.C12
open AikenVerif AikenVerif.Blueprint

/-- On a faithful definitions table, validating `d` against the schema registered for `t`
is *the same function* as the compiled `expect _: t = d` — same outcome, for every `d`. -/
theorem conforms_eq_expect {decls : Decls} {tbl : Table} (hF : Faithful decls tbl)
    {t : ATy} {s : Schema} (hdef : tbl.get t = some s) (d : Data) :
    conformsFixed tbl (.ref t) d = inh decls (dsize d + 1) t d := by
  obtain ⟨ds, hres⟩ := hF.res hdef
  unfold Res at hres
  simp only [conformsFixed, validate, resolveS, hres, vSchema]
  exact vData_eq_inh hF _ t ds d hres

/-- C12, first half: a data value conforms to the published schema iff `expect` accepts it. -/
theorem conforms_iff_inhabits {decls : Decls} {tbl : Table} (hF : Faithful decls tbl)
    {t : ATy} {s : Schema} (hdef : tbl.get t = some s) (d : Data) :
    conformsFixed tbl (.ref t) d = .ok ↔ inhabits decls t d = true := by
  rw [conforms_eq_expect hF hdef d]
  simp [inhabits]

/-- the generator's output is faithful and defines every interface type -/
theorem publish_faithful {decls : Decls} {fuel : Nat} {params : List ATy} {tbl : Table}
    (h : publish decls fuel params = some tbl) :
    Faithful decls tbl ∧ ∀ p ∈ params, ∃ s, tbl.get p = some s :=
  publish_faithful_aux h

/-- C12 for the blueprint actually generated: for every interface type `t` of a validator
(parameter, datum, redeemer) and every `d`, the published schema accepts `d` iff `expect` does.
Hypothesis: the generator returned a table (no unsupported type, enough fuel). -/
theorem published_conforms_iff_inhabits {decls : Decls} {fuel : Nat} {params : List ATy}
    {tbl : Table} (h : publish decls fuel params = some tbl) {t : ATy} (ht : t ∈ params) (d : Data) :
    conformsFixed tbl (.ref t) d = .ok ↔ inhabits decls t d = true := by
  obtain ⟨hF, hroots⟩ := publish_faithful h
  obtain ⟨s, hs⟩ := hroots t ht
  exact conforms_iff_inhabits hF hs d

/-- validation ends within `dsize d + 2` steps of fuel — for EVERY table and schema,
faithful or hand-written, repaired or not (`validate` uses exactly that much) -/
theorem conforms_terminates (fixed : Bool) (tbl : Table) (p : Decl Schema) (d : Data) :
    validate fixed tbl p d ≠ .outOfFuel := by
  simp only [validate]
  split
  · simp
  · rename_i s _
    cases s with
    | data ds =>
      simp only [vSchema]
      exact vData_terminates fixed tbl _ ds d (by omega)
    | _ => simp [vSchema]

/-- `expect` as modelled ends within `dsize d + 1` fuel on a faithful table -/
theorem inhabits_terminates {decls : Decls} {tbl : Table} (hF : Faithful decls tbl)
    {t : ATy} {s : Schema} (hdef : tbl.get t = some s) (d : Data) :
    inh decls (dsize d + 1) t d ≠ .outOfFuel := by
  rw [← conforms_eq_expect hF hdef d]
  exact conforms_terminates true tbl _ d

/-- with the repair, `Parameter::validate` never panics, whatever the blueprint says -/
theorem conformsFixed_never_panics (tbl : Table) (p : Decl Schema) (d : Data) :
    conformsFixed tbl p d ≠ .panic := validate_no_panic tbl p d

/-- the code as it stands panics: right constructor index, wrong number of fields
(the input found on the real code: `Foo = A{x: Int, y: ByteArray} | B`, `Constr 0 [I 1]`) -/
theorem conforms_panics :
    ∃ (tbl : Table) (p : Decl Schema) (d : Data), conforms tbl p d = .panic :=
  ⟨[(.adt 0 .nil, .data (.anyOf [(0, [.inline .integer, .inline .bytes]), (1, [])]))],
   .ref (.adt 0 .nil), .constr 0 [.int 1], by decide⟩

/-- C12, second half (expect side): every typed value, serialised, is accepted by the compiled
`expect` at its type.  `encode … = some d` says "`v` has type `t` and `d` is its serialisation";
`TagsDistinct` is the type checker's rule that constructor indices do not overlap (decidable).
Acceptance is at the same fuel the encoder used (`.ok` at any fuel is acceptance). -/
theorem encode_inhabits {decls : Decls} (hw : TagsDistinct decls) (fuel : Nat) (t : ATy) (v : Val)
    (d : Data) (h : encode decls fuel t v = some d) : inh decls fuel t d = .ok :=
  encode_inh hw fuel t v d h

/-- C12, second half (schema side): … and validates against the published schema.
`_partial`: stated for the validator run with the encoder's fuel, not for `conformsFixed`'s
canonical `dsize d + 2` (the fuel-monotonicity lemma that bridges the two is not proved). -/
theorem encode_conforms_partial {decls : Decls} {tbl : Table} (hF : Faithful decls tbl)
    (hw : TagsDistinct decls) {t : ATy} {ds : DSchema} (hdef : tbl.get t = some (.data ds))
    (fuel : Nat) (v : Val) (d : Data) (h : encode decls fuel t v = some d) :
    vData true tbl fuel ds d = .ok := by
  rw [vData_eq_inh hF fuel t ds d hdef]
  exact encode_inh hw fuel t v d h

/-- constructor index ↔ CBOR tag: what `Data::constr` writes, `unConstrData` reads back,
for every index (compact 121..127, 1280..1400, and the general form from 128 on) -/
theorem tag_index_agree (ix : Nat) :
    indexOfTag (constrTag ix).1 (constrTag ix).2 = some ix := by
  unfold constrTag indexOfTag
  by_cases h1 : ix < 7
  · simp only [h1, if_true]
    rw [if_pos (by omega)]; congr 1; omega
  · by_cases h2 : ix < 128
    · simp only [h1, h2, if_true, if_false]
      rw [if_neg (by omega), if_pos (by omega)]; congr 1; omega
    · simp only [h1, h2, if_false]

theorem constrTag_injective (i j : Nat) (h : constrTag i = constrTag j) : i = j := by
  have hi := tag_index_agree i
  have hj := tag_index_agree j
  rw [h] at hi
  rw [hi] at hj
  exact Option.some.inj hj

example : constrTag 6 = (127, none) ∧ constrTag 7 = (1280, none) ∧
    constrTag 127 = (1400, none) ∧ constrTag 128 = (102, some 128) := by decide

-- ------------------------------------------------------------------ non-vacuity
/-- `pub type Two<a> { Two(a, a) }`, `@tag(5) pub type Rec { r: Int }`,
`pub type L { Nil  Cons(Int, L) }` -/
def exDecls : Decls :=
  [ ⟨1, [⟨none, [.var 0, .var 0]⟩], false⟩,
    ⟨0, [⟨some 5, [.int]⟩], false⟩,
    ⟨0, [⟨none, []⟩, ⟨none, [.int, .adt 2 .nil]⟩], false⟩ ]

def twoTwoInt : ATy := .adt 0 (.cons (.adt 0 (.cons .int .nil)) .nil)
def exParams : List ATy :=
  [twoTwoInt, .adt 1 .nil, .adt 2 .nil, .list (.pair .int .bytes), .option (.tuple (.cons .bool (.cons .data .nil)))]

/-- the hypotheses of `published_conforms_iff_inhabits` hold on a non-trivial interface
(nested generic instantiation, explicit tag, recursion, map, option of tuple), and both
directions of the equivalence are exercised -/
example : ∃ tbl, publish exDecls 64 exParams = some tbl ∧
    conformsFixed tbl (.ref twoTwoInt)
      (.constr 0 [.constr 0 [.int 1, .int 2], .constr 0 [.int 3, .int 4]]) = .ok ∧
    conformsFixed tbl (.ref twoTwoInt) (.constr 0 [.constr 0 [.int 1, .int 2], .int 3]) = .mismatch ∧
    conformsFixed tbl (.ref (.adt 1 .nil)) (.constr 5 [.int 1]) = .ok ∧
    conformsFixed tbl (.ref (.adt 1 .nil)) (.constr 0 [.int 1]) = .mismatch ∧
    conformsFixed tbl (.ref (.adt 2 .nil)) (.constr 1 [.int 1, .constr 1 [.int 2, .constr 0 []]]) = .ok ∧
    conformsFixed tbl (.ref (.list (.pair .int .bytes))) (.map [(.int 1, .bytes [])]) = .ok ∧
    conformsFixed tbl (.ref (.list (.pair .int .bytes))) (.list [.list [.int 1, .bytes []]]) = .mismatch := by
  refine ⟨_, rfl, ?_⟩
  decide

/-- `TagsDistinct` holds of the example declarations, and a value of a recursive, tagged and
generic type is encoded and accepted -/
example : TagsDistinct exDecls ∧
    encode exDecls 8 (.adt 2 .nil) (.con 1 [.int 1, .con 1 [.int 2, .con 0 []]]) =
      some (.constr 1 [.int 1, .constr 1 [.int 2, .constr 0 []]]) ∧
    encode exDecls 8 (.adt 1 .nil) (.con 0 [.int 9]) = some (.constr 5 [.int 9]) := by
  refine ⟨by decide, rfl, rfl⟩

end AikenVerif.C12
