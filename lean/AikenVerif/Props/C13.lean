import AikenVerif.Lemmas.PrecRound
/-!
# C13 — the formatter preserves programs: the operator / parenthesis core

`Model/Prec.lean` holds the impl models: `print` (the parenthesisation rules of
`Formatter::{bin_op, operator_side, un_op, wrap_unary_op, pipeline}`) and `parse` (the
precedence tower of `parser::expr::pure_expression`), both over the tables that
`tools/translate.py` (G4) regenerates from `ast.rs`, `expr.rs`, `format.rs`,
`parser/lexer.rs` and `parser/expr/mod.rs` on every run.

Domain of the theorems: ALL trees `Expr` — binary operators, `!`/`-`, pipelines, atoms.
`Expr` is the parser-normal form of `UntypedExpr` (see Model/Prec.lean): a pipeline whose first
stage is a pipeline, or with a single stage, is not an `Expr`, because the real parser cannot
produce one (`(a |> b) |> c` is flattened by its `foldl`); `one_liner` is layout.
What is NOT modelled: the document layout engine, every other expression form
(`e?`, calls, field access, records, …) — those are covered by validation of the real code
(harness `c13-roundtrip`), see notes/C13.md.
-/
namespace AikenVerif.C13
open AikenVerif.Prec AikenVerif.Gen.Prec

/-! ## round trip -/

/-- formatting then parsing gives back the same tree — for every tree, of any size and depth -/
theorem prec_roundtrip : ∀ e : Expr, parse (print e) = some e := by
  intro e
  have hg := all_good e.size e (Nat.le_refl _) (print e).length (print_length_pos e)
  have := hg.2 [] trivial
  simp only [List.append_nil] at this
  unfold parse
  rw [this]

/-- the formatter never prints two different trees as the same text -/
theorem print_injective : ∀ a b : Expr, print a = print b → a = b := by
  intro a b h
  have ha := prec_roundtrip a
  rw [h, prec_roundtrip b] at ha
  exact (Option.some.inj ha).symm

/-- formatting is idempotent on every parseable token text: if `ts` parses to `e`, then the
    formatted text `print e` parses, and formatting it again gives `print e` unchanged -/
theorem print_idempotent : ∀ (ts : List Tok) (e : Expr), parse ts = some e →
    (parse (print e)).map print = some (print e) := by
  intro ts e _
  rw [prec_roundtrip e]
  rfl

/-- the formatted text means the same as the original text -/
theorem format_preserves_tree : ∀ (ts : List Tok) (e : Expr), parse ts = some e →
    parse (print e) = parse ts := by
  intro ts e h
  rw [prec_roundtrip e, h]

/-! ## table lemmas: the generated tables agree with each other -/

/-- `BinOp::precedence` orders the operators exactly as the parser's tower does
    (higher precedence = parsed closer to `unary`) -/
theorem precedence_matches_tower : ∀ a b : BinOp, a.precedence < b.precedence ↔ b.tower < a.tower := by
  intro a b; cases a <;> cases b <;> decide

theorem same_precedence_iff_same_level : ∀ a b : BinOp, a.precedence = b.precedence ↔ a.tower = b.tower := by
  intro a b; cases a <;> cases b <;> decide

/-- the formatter's mirrored rule (`matches!(name, BinOp::Or | BinOp::And)`) is applied exactly to
    the operators of the levels that the parser reduces from the right -/
theorem mirrored_iff_right_level : ∀ b : BinOp, b.mirrored = levelRight b.tower := by
  intro b; cases b <;> decide

/-- every operator is produced by a level of the tower -/
theorem tower_in_range : ∀ b : BinOp, b.tower < towerLevels := by
  intro b; cases b <;> decide

/-- symbol printed by the formatter → lexer token → parser arm gives back the operator,
    at the tower level the model uses for it -/
theorem symbol_token_roundtrip : ∀ b : BinOp,
    (lexSymbol b.symbolCodes).bind parserArm = some (b.tower, b) := by
  intro b; cases b <;> decide

/-- unary minus and binary minus are the same lexer token (so `Tok.op .subInt` stands for both),
    and `!` is the token the parser's unary level expects -/
theorem negate_shares_minus_token :
    lexSymbol (UnOp.symbolCodes .negate) = some (UnOp.token .negate)
    ∧ lexSymbol (BinOp.symbolCodes .subInt) = some (UnOp.token .negate)
    ∧ lexSymbol (UnOp.symbolCodes .not) = some (UnOp.token .not)
    ∧ parserArm (UnOp.token .not) = none := by decide

theorem pipe_symbol_token : lexSymbol pipeSymbolCodes = some pipeToken ∧ parserArm pipeToken = none := by
  decide

/-- thresholds of `Formatter::pipeline`: a pipeline standing as a later stage is parenthesised,
    and every binary operator parenthesises a pipeline operand -/
theorem pipeline_thresholds :
    pipePrecedence < pipeRestThreshold ∧ pipePrecedence < pipeFirstThreshold
    ∧ ∀ b : BinOp, pipePrecedence < b.precedence ∧ b.precedence < otherPrecedence - 1 := by
  refine ⟨by decide, by decide, ?_⟩
  intro b; cases b <;> decide

/-- ordered choice in the lexer behaves as longest match on the operator symbols: no symbol is
    shadowed by an earlier arm that is a prefix of it -/
def lexShadowFree : List (List Nat × Token) → Bool
  | [] => true
  | a :: rest => rest.all (fun b => !(a.1.isPrefixOf b.1)) && lexShadowFree rest

theorem lexer_no_shadowing : lexShadowFree lexArms = true := by decide

/-! ## non-vacuity -/

private def a : Expr := .atom 0
private def b : Expr := .atom 1
private def c : Expr := .atom 2

/-- `a - (b - c)` keeps its parentheses, `(a - b) - c` loses them, and both come back -/
example : print (.bin .subInt a (.bin .subInt b c)) =
    [.atom 0, .op .subInt, .lparen, .atom 1, .op .subInt, .atom 2, .rparen]
    ∧ print (.bin .subInt (.bin .subInt a b) c) = [.atom 0, .op .subInt, .atom 1, .op .subInt, .atom 2]
    ∧ parse [.atom 0, .op .subInt, .atom 1, .op .subInt, .atom 2] = some (.bin .subInt (.bin .subInt a b) c) := by
  decide

/-- `&&` is right-nested by the parser, and the printer mirrors its rule -/
example : parse [.atom 0, .op .and, .atom 1, .op .and, .atom 2] = some (.bin .and a (.bin .and b c))
    ∧ print (.bin .and (.bin .and a b) c) = [.lparen, .atom 0, .op .and, .atom 1, .rparen, .op .and, .atom 2] := by
  decide

/-- pipelines, unary operators; a text that does not parse -/
example : parse (print (.pipe (.pipe a (.pipe b c)) (.un .negate (.un .not (.bin .eq a b))))) =
      some (.pipe (.pipe a (.pipe b c)) (.un .negate (.un .not (.bin .eq a b))))
    ∧ parse [.atom 0, .op .addInt] = none
    ∧ parse [.lparen, .atom 0, .pipe, .atom 1, .rparen, .pipe, .atom 2] = some (.pipe (.pipe a b) c) := by
  decide

end AikenVerif.C13
