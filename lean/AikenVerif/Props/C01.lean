import AikenVerif.Lemmas.Mini
import AikenVerif.Model.Spec
/-!
# C01 — compiled code computes what the Aiken source means

Level: translation validation against the Lean-defined source semantics `Mini.evalSrc` (harness
`c01-source`: the REAL parser, type checker, code generator, optimiser and machine on generated
modules × arguments, read back through the representation relation and compared with
`driver mini`).  There is no model of the code generator.  Machine-checked here, for ALL
expressions of the modelled language:

* `evalSrc_fuel_mono`, `evalSrc_deterministic`: the semantics is a function of the program and its
  arguments — the fuel only decides whether the answer is reached;
* `when_is_firstMatch`, `firstMatch_spec`: a `when` runs the first clause whose pattern matches;
* `and_short_circuits`, `or_short_circuits`, `div_is_floor`, `unused_let_not_evaluated`;
* lowering lemmas in the UPLC model (`…_partial` w.r.t. C01: they justify the representation
  relation and the fixed lowering schemes, not the whole compiler): `and_or_lowering_partial`
  (delayed `ifThenElse` run by the specification machine), `div_mod_lowering_partial`.
-/
namespace AikenVerif.C01
open AikenVerif AikenVerif.Mini

/-- more fuel never changes a finished evaluation (result and emitted traces) -/
theorem evalSrc_fuel_mono (P : Mini.Program) (m : Mode) (n n' : Nat) (env : Env) (e : Expr) (h : n ≤ n')
    (hfin : result (evalSrc P m n env e) ≠ .outOfFuel) :
    evalSrc P m n' env e = evalSrc P m n env e := by
  obtain ⟨k, rfl⟩ := Nat.exists_eq_add_of_le h
  exact (eval_mono P m n k env e hfin).symm

/-- the outcome does not depend on the fuel: any two finished runs agree -/
theorem evalSrc_deterministic (P : Mini.Program) (m : Mode) (n n' : Nat) (env : Env) (e : Expr)
    (h : result (evalSrc P m n env e) ≠ .outOfFuel) (h' : result (evalSrc P m n' env e) ≠ .outOfFuel) :
    evalSrc P m n env e = evalSrc P m n' env e := by
  rcases Nat.le_total n n' with hle | hle
  · exact (evalSrc_fuel_mono P m n n' env e hle h).symm
  · exact evalSrc_fuel_mono P m n' n env e hle h'

/-- what `firstMatch` selects: the first clause that matches, none before it does -/
theorem firstMatch_spec (v : Val) (cs : List (Pat × Expr)) (bs : Env) (b : Expr) :
    firstMatch v cs = some (bs, b) ↔
      ∃ pre p post, cs = pre ++ (p, b) :: post ∧ matchPat p v = some bs ∧
        ∀ c ∈ pre, matchPat c.1 v = none := by
  induction cs with
  | nil => simp [firstMatch]
  | cons c cs ih =>
    obtain ⟨p0, b0⟩ := c
    simp only [firstMatch]
    cases hm : matchPat p0 v with
    | some bs0 =>
      simp only [Option.some.injEq, Prod.mk.injEq]
      constructor
      · rintro ⟨rfl, rfl⟩
        exact ⟨[], p0, cs, rfl, hm, by simp⟩
      · rintro ⟨pre, p, post, hcs, hp, hpre⟩
        cases pre with
        | nil =>
          simp only [List.nil_append, List.cons.injEq, Prod.mk.injEq] at hcs
          obtain ⟨⟨rfl, rfl⟩, _⟩ := hcs
          rw [hm] at hp
          exact ⟨Option.some.inj hp, rfl⟩
        | cons c' pre' =>
          simp only [List.cons_append, List.cons.injEq] at hcs
          have := hpre c' (by simp)
          rw [← hcs.1] at this
          simp [hm] at this
    | none =>
      simp only
      rw [ih]
      constructor
      · rintro ⟨pre, p, post, rfl, hp, hpre⟩
        refine ⟨(p0, b0) :: pre, p, post, rfl, hp, ?_⟩
        intro c hc
        simp only [List.mem_cons] at hc
        rcases hc with rfl | hc
        · exact hm
        · exact hpre c hc
      · rintro ⟨pre, p, post, hcs, hp, hpre⟩
        cases pre with
        | nil =>
          simp only [List.nil_append, List.cons.injEq, Prod.mk.injEq] at hcs
          obtain ⟨⟨rfl, rfl⟩, _⟩ := hcs
          rw [hm] at hp
          exact absurd hp (by simp)
        | cons c' pre' =>
          simp only [List.cons_append, List.cons.injEq] at hcs
          exact ⟨pre', p, post, hcs.2, hp, fun c hc => hpre c (by simp [hc])⟩

/-- **first-match**: once the scrutinee has a value, `when` is the body of the first matching clause
evaluated under that clause's bindings (and nothing else; no clause → ill-typed, the checker demands
exhaustiveness) -/
theorem when_is_firstMatch (P : Mini.Program) (m : Mode) (n : Nat) (env : Env) (s : Expr)
    (cs : List (Pat × Expr)) (v : Val) (hs : eval P m n env s = ret v) :
    evalSrc P m (n + 1) env (.when s cs) =
      match firstMatch v cs with
      | some (bs, b) => evalSrc P m n (bs ++ env) b
      | none => stuckM := by
  cases hfm : firstMatch v cs with
  | none => simp [evalSrc, eval, hs, ret, hfm, stuckM]
  | some r =>
    obtain ⟨bs, b⟩ := r
    simp [evalSrc, eval, hs, ret, hfm]

/-- `&&` does not evaluate its right operand when the left one is `False` -/
theorem and_short_circuits (P : Mini.Program) (m : Mode) (n : Nat) (env : Env) (a b : Expr)
    (ha : eval P m n env a = ret (.bool false)) :
    evalSrc P m (n + 1) env (.and a b) = ret (.bool false) := by
  simp [evalSrc, eval, ha, ret]

/-- `||` does not evaluate its right operand when the left one is `True` -/
theorem or_short_circuits (P : Mini.Program) (m : Mode) (n : Nat) (env : Env) (a b : Expr)
    (ha : eval P m n env a = ret (.bool true)) :
    evalSrc P m (n + 1) env (.or a b) = ret (.bool true) := by
  simp [evalSrc, eval, ha, ret]

/-- and both are strict in the left operand: `fail && b` aborts whatever `b` is -/
theorem and_or_strict_left (P : Mini.Program) (m : Mode) (n : Nat) (env : Env) (b : Expr) (t : Bool) :
    result (evalSrc P m (n + 2) env (.and (.fail t) b)) = .abort ∧
    result (evalSrc P m (n + 2) env (.or (.fail t) b)) = .abort := ⟨rfl, rfl⟩

/-- `/` and `%` are floor division and modulo, and abort on a zero divisor -/
theorem div_is_floor (a b : Int) :
    binOp .div (.int a) (.int b) = (if b = 0 then .abort else .val (.int (a.fdiv b))) ∧
    binOp .mod (.int a) (.int b) = (if b = 0 then .abort else .val (.int (a.fmod b))) := ⟨rfl, rfl⟩

example : binOp .div (.int (-7)) (.int 2) = .val (.int (-4)) ∧ binOp .mod (.int (-7)) (.int 2) = .val (.int 1) ∧
    binOp .div (.int 7) (.int (-2)) = .val (.int (-4)) ∧ binOp .mod (.int 7) (.int (-2)) = .val (.int (-1)) :=
  ⟨rfl, rfl, rfl, rfl⟩

/-- an unused `let` is removed, its right-hand side is not evaluated (documented compiler behaviour) -/
theorem unused_let_not_evaluated (P : Mini.Program) (m : Mode) (n : Nat) (env : Env) (x : Nat) (a b : Expr) :
    evalSrc P m (n + 1) env (.letE x false a b) = evalSrc P m n env b := by
  simp [evalSrc, eval]

-- ---------------------------------------------------------------- lowering schemes in the UPLC model
section Lowering

def nm (s : String) : NamedDeBruijn := ⟨s, 0⟩
def cBool (b : Bool) : NTerm := .const (.bool b)

/-- `builder.rs::delayed_if_then_else`: `force (ifThenElse c (delay t) (delay e))` -/
def delayedIte (c t e : NTerm) : NTerm :=
  .force (.app (.app (.app (.force (.builtin .ifThenElse)) c) (.delay t)) (.delay e))

/-- `a && b` is lowered to `delayed_if_then_else(a, b, False)`, `a || b` to `(a, True, b)` -/
def andTerm (a b : NTerm) : NTerm := delayedIte a b (cBool false)
def orTerm (a b : NTerm) : NTerm := delayedIte a (cBool true) b

/-- run by the SPECIFICATION machine, the lowering of `&&` / `||` on Boolean constants yields the
representation of the source result, and does not touch the right operand when the left decides
(`error` stands for an operand whose evaluation fails).  `_partial`: fixed operands, not arbitrary
sub-terms — a congruence theorem would need a logical relation over the machine. -/
theorem and_or_lowering_partial (sem : Sem) (a b : Bool) :
    Spec.run sem (denotation sem) 40 (andTerm (cBool a) (cBool b)) = .done (cBool (a && b)) ∧
    Spec.run sem (denotation sem) 40 (orTerm (cBool a) (cBool b)) = .done (cBool (a || b)) ∧
    Spec.run sem (denotation sem) 40 (andTerm (cBool false) .error) = .done (cBool false) ∧
    Spec.run sem (denotation sem) 40 (orTerm (cBool true) .error) = .done (cBool true) ∧
    Spec.run sem (denotation sem) 40 (andTerm (cBool true) .error) = .fail ∧
    Spec.run sem (denotation sem) 40 (orTerm (cBool false) .error) = .fail ∧
    Spec.run sem (denotation sem) 40 (andTerm .error (cBool b)) = .fail := by
  cases sem <;> cases a <;> cases b <;> exact ⟨rfl, rfl, rfl, rfl, rfl, rfl, rfl⟩

/-- how an outcome of the source semantics looks on the machine -/
def reprInt : Mini.Outcome Val → Res Value
  | .val (.int n) => .ok (.con (.integer n))
  | .abort => .err
  | _ => .panic

/-- `/` is `divideInteger`, `%` is `modInteger`: same value, and both abort exactly on a zero divisor -/
theorem div_mod_lowering_partial (sem : Sem) (x y : Int) :
    callBuiltin sem .divideInteger [.con (.integer x), .con (.integer y)] = reprInt (binOp .div (.int x) (.int y)) ∧
    callBuiltin sem .modInteger [.con (.integer x), .con (.integer y)] = reprInt (binOp .mod (.int x) (.int y)) := by
  constructor <;>
  · by_cases hy : y = 0
    · subst hy; rfl
    · simp [callBuiltin, callBuiltinCore, getArgB, Value.unwrapInteger, binOp, reprInt, hy, Res.bind, Bind.bind, Pure.pure]

/-- `+ - *` and the comparisons are the corresponding integer builtins -/
theorem arith_lowering_partial (sem : Sem) (x y : Int) :
    callBuiltin sem .addInteger [.con (.integer x), .con (.integer y)] = reprInt (binOp .add (.int x) (.int y)) ∧
    callBuiltin sem .subtractInteger [.con (.integer x), .con (.integer y)] = reprInt (binOp .sub (.int x) (.int y)) ∧
    callBuiltin sem .multiplyInteger [.con (.integer x), .con (.integer y)] = reprInt (binOp .mul (.int x) (.int y)) ∧
    callBuiltin sem .lessThanInteger [.con (.integer x), .con (.integer y)] = .ok (.con (.bool (x < y))) ∧
    callBuiltin sem .lessThanEqualsInteger [.con (.integer x), .con (.integer y)] = .ok (.con (.bool (x ≤ y))) :=
  ⟨rfl, rfl, rfl, rfl, rfl⟩

end Lowering

end AikenVerif.C01
