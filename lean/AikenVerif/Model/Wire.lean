import AikenVerif.Model.Term
/-!
Wire format shared by the Rust harness and the Lean driver (DESIGN.md, appendix B).
One s-expression per value; atoms are decimal integers, `#`-prefixed hex, or names.
Only used by the driver (I/O glue): `partial` is allowed here, no theorem depends on it.
-/
namespace AikenVerif
open Gen (Builtin)

inductive Sexp where
  | atom (s : String)
  | list (xs : List Sexp)
  deriving Repr, Inhabited

namespace Sexp

partial def render : Sexp → String
  | .atom s => s
  | .list xs => "(" ++ " ".intercalate (xs.map render) ++ ")"

private partial def parseList (cs : List Char) (acc : List Sexp) : Option (List Sexp × List Char) :=
  match cs with
  | [] => none
  | ')' :: rest => some (acc.reverse, rest)
  | ' ' :: rest => parseList rest acc
  | '(' :: rest =>
    match parseList rest [] with
    | some (xs, rest') => parseList rest' (.list xs :: acc)
    | none => none
  | _ =>
    let tok := cs.takeWhile (fun c => c != ' ' && c != '(' && c != ')')
    parseList (cs.drop tok.length) (.atom (String.ofList tok) :: acc)

/-- parse a sequence of s-expressions up to the end of input -/
def parseAll (s : String) : Option (List Sexp) :=
  match parseList (s.toList ++ [')']) [] with
  | some (xs, []) => some xs
  | _ => none

def parse (s : String) : Option Sexp :=
  match parseAll s with
  | some [x] => some x
  | _ => none

end Sexp

namespace Wire

def hexDigit (n : Nat) : Char :=
  if n < 10 then Char.ofNat (48 + n) else Char.ofNat (87 + n)

def hexOfBytes (b : Bytes) : String :=
  String.ofList ('#' :: b.flatMap (fun x => [hexDigit (x.toNat / 16), hexDigit (x.toNat % 16)]))

def hexVal (c : Char) : Option Nat :=
  if '0' ≤ c ∧ c ≤ '9' then some (c.toNat - 48)
  else if 'a' ≤ c ∧ c ≤ 'f' then some (c.toNat - 87)
  else if 'A' ≤ c ∧ c ≤ 'F' then some (c.toNat - 55)
  else none

def bytesOfHexChars : List Char → Option Bytes
  | [] => some []
  | a :: b :: rest => do
    let x ← hexVal a
    let y ← hexVal b
    let r ← bytesOfHexChars rest
    pure (UInt8.ofNat (x * 16 + y) :: r)
  | _ => none

def bytesOfHex (s : String) : Option Bytes :=
  match s.toList with
  | '#' :: rest => bytesOfHexChars rest
  | _ => none

def utf8OfChars (s : List Char) : Bytes := s.flatMap String.utf8EncodeChar

/-- strings travel as hex of their UTF-8 bytes -/
def hexOfString (s : String) : String := hexOfBytes s.toUTF8.toList

def stringOfHex (s : String) : Option String := do
  let b ← bytesOfHex s
  String.fromUTF8? (ByteArray.mk b.toArray)

def intOfString (s : String) : Option Int := s.toInt?

-- ---------------------------------------------------------------- types
def tyToSexp : Ty → Sexp
  | .integer => .atom "i" | .bytestring => .atom "bs" | .string => .atom "st"
  | .unit => .atom "u" | .bool => .atom "bo" | .data => .atom "da"
  | .g1 => .atom "g1" | .g2 => .atom "g2" | .ml => .atom "ml"
  | .list t => .list [.atom "li", tyToSexp t]
  | .pair a b => .list [.atom "pa", tyToSexp a, tyToSexp b]

partial def tyOfSexp : Sexp → Option Ty
  | .atom "i" => some .integer | .atom "bs" => some .bytestring | .atom "st" => some .string
  | .atom "u" => some .unit | .atom "bo" => some .bool | .atom "da" => some .data
  | .atom "g1" => some .g1 | .atom "g2" => some .g2 | .atom "ml" => some .ml
  | .list [.atom "li", t] => .list <$> tyOfSexp t
  | .list [.atom "pa", a, b] => do pure (.pair (← tyOfSexp a) (← tyOfSexp b))
  | _ => none

-- ---------------------------------------------------------------- data
partial def dataToSexp : Data → Sexp
  | .constr tag fs => .list (.atom "C" :: .atom (toString tag) :: fs.map dataToSexp)
  | .map es => .list (.atom "M" :: es.map (fun (k, v) => .list [dataToSexp k, dataToSexp v]))
  | .list xs => .list (.atom "L" :: xs.map dataToSexp)
  | .int n => .list [.atom "I", .atom (toString n)]
  | .bytes b => .list [.atom "B", .atom (hexOfBytes b)]

partial def dataOfSexp : Sexp → Option Data
  | .list (.atom "C" :: .atom tag :: fs) => do
    let t ← tag.toNat?
    pure (.constr t (← fs.mapM dataOfSexp))
  | .list (.atom "M" :: es) => do
    let es ← es.mapM (fun e => match e with
      | .list [k, v] => do pure ((← dataOfSexp k), (← dataOfSexp v))
      | _ => none)
    pure (.map es)
  | .list (.atom "L" :: xs) => do pure (.list (← xs.mapM dataOfSexp))
  | .list [.atom "I", .atom n] => .int <$> intOfString n
  | .list [.atom "B", .atom h] => .bytes <$> bytesOfHex h
  | _ => none

-- ---------------------------------------------------------------- constants
partial def constToSexp : Const → Sexp
  | .integer n => .list [.atom "i", .atom (toString n)]
  | .bytestring b => .list [.atom "bs", .atom (hexOfBytes b)]
  | .string s => .list [.atom "st", .atom (hexOfBytes (utf8OfChars s))]
  | .unit => .atom "u"
  | .bool b => .list [.atom "bo", .atom (if b then "1" else "0")]
  | .list t xs => .list (.atom "li" :: tyToSexp t :: xs.map constToSexp)
  | .pair a b x y => .list [.atom "pa", tyToSexp a, tyToSexp b, constToSexp x, constToSexp y]
  | .data d => .list [.atom "da", dataToSexp d]
  | .g1 b => .list [.atom "g1", .atom (hexOfBytes b)]
  | .g2 b => .list [.atom "g2", .atom (hexOfBytes b)]
  | .ml b => .list [.atom "ml", .atom (hexOfBytes b)]

partial def constOfSexp : Sexp → Option Const
  | .list [.atom "i", .atom n] => .integer <$> intOfString n
  | .list [.atom "bs", .atom h] => .bytestring <$> bytesOfHex h
  | .list [.atom "st", .atom h] => (fun s => .string s.toList) <$> stringOfHex h
  | .atom "u" => some .unit
  | .list [.atom "bo", .atom "1"] => some (.bool true)
  | .list [.atom "bo", .atom "0"] => some (.bool false)
  | .list (.atom "li" :: t :: xs) => do pure (.list (← tyOfSexp t) (← xs.mapM constOfSexp))
  | .list [.atom "pa", a, b, x, y] => do
    pure (.pair (← tyOfSexp a) (← tyOfSexp b) (← constOfSexp x) (← constOfSexp y))
  | .list [.atom "da", d] => .data <$> dataOfSexp d
  | .list [.atom "g1", .atom h] => .g1 <$> bytesOfHex h
  | .list [.atom "g2", .atom h] => .g2 <$> bytesOfHex h
  | .list [.atom "ml", .atom h] => .ml <$> bytesOfHex h
  | _ => none

-- ---------------------------------------------------------------- binders
/-- how a binder/variable travels: a list of atoms -/
class WireBinder (β : Type) where
  toAtoms : β → List Sexp
  ofAtoms : List Sexp → Option β

instance : WireBinder NamedDeBruijn where
  toAtoms n := [.atom (hexOfString n.text), .atom (toString n.index)]
  ofAtoms
    | [.atom t, .atom i] => do pure ⟨← stringOfHex t, ← i.toNat?⟩
    | _ => none

instance : WireBinder Name where
  toAtoms n := [.atom (hexOfString n.text), .atom (toString n.unique)]
  ofAtoms
    | [.atom t, .atom i] => do pure ⟨← stringOfHex t, ← intOfString i⟩
    | _ => none

instance : WireBinder DeBruijn where
  toAtoms n := [.atom (toString n)]
  ofAtoms
    | [.atom i] => i.toNat?
    | _ => none

-- ---------------------------------------------------------------- terms
variable {β : Type} [WireBinder β]

partial def termToSexp : Term β → Sexp
  | .var n => .list (.atom "v" :: WireBinder.toAtoms n)
  | .lam n b => .list (.atom "l" :: WireBinder.toAtoms n ++ [termToSexp b])
  | .app f a => .list [.atom "a", termToSexp f, termToSexp a]
  | .delay t => .list [.atom "d", termToSexp t]
  | .force t => .list [.atom "f", termToSexp t]
  | .error => .atom "e"
  | .builtin b => .list [.atom "b", .atom b.rustName]
  | .const c => .list [.atom "c", constToSexp c]
  | .constr tag fs => .list (.atom "k" :: .atom (toString tag) :: fs.map termToSexp)
  | .case s bs => .list (.atom "s" :: termToSexp s :: bs.map termToSexp)

partial def termOfSexp : Sexp → Option (Term β)
  | .list (.atom "v" :: rest) => .var <$> WireBinder.ofAtoms rest
  | .list (.atom "l" :: rest) =>
    match rest.reverse with
    | body :: binderRev => do pure (.lam (← WireBinder.ofAtoms binderRev.reverse) (← termOfSexp body))
    | [] => none
  | .list [.atom "a", f, a] => do pure (.app (← termOfSexp f) (← termOfSexp a))
  | .list [.atom "d", t] => .delay <$> termOfSexp t
  | .list [.atom "f", t] => .force <$> termOfSexp t
  | .atom "e" => some .error
  | .list [.atom "b", .atom n] => .builtin <$> Builtin.ofRustName n
  | .list [.atom "c", c] => .const <$> constOfSexp c
  | .list (.atom "k" :: .atom tag :: fs) => do pure (.constr (← tag.toNat?) (← fs.mapM termOfSexp))
  | .list (.atom "s" :: s :: bs) => do pure (.case (← termOfSexp s) (← bs.mapM termOfSexp))
  | _ => none

def termToWire (t : Term β) : String := (termToSexp t).render
def termOfWire (s : String) : Option (Term β) := Sexp.parse s >>= termOfSexp

end Wire
end AikenVerif
