/-!
# M-MATCH — pattern matching: signatures, values, matrix patterns, the usefulness
algorithm of `crates/aiken-lang/src/tipo/exhaustive.rs`, and a decision-tree model.

* spec side: `pmatch` (does a pattern match a value), `firstMatch` (naive "try the
  clauses top to bottom"), `SPat`/`bind` (source patterns with variables), typing
  of patterns and values w.r.t. a signature;
* impl side (mirrors the Rust, function by function): `specRowCtor`/`specRowWild`/
  `specRowLit` (`PatternStack::specialize_row_by_*`), `collectCtors` (a `BTreeMap`
  keyed by constructor name), `isComplete`, `isUseful`, `isMissing`, `recoverCtor`,
  `collectMissing`, `checkLoop`/`checkExhaustive` (`Environment::check_exhaustiveness`);
  the Rust's `unreachable!` (literal aligned with constructor) and `row[0]` panics are
  totalised as "row dropped"; they cannot occur on well-typed matrices (`Matrix.hasTy`);
* decision trees: `build sel` for an arbitrary column-selection function and `evalTree`.

Constructor names are natural numbers (the harness numbers the constructor names of
a case by their rank in string order, so that the `BTreeMap<String, _>` order is the
order on numbers).  Core Lean only (this file is linked into the native driver).
-/
namespace AikenVerif.Match

/-! ## types, signatures, values, patterns -/

inductive Ty where
  | int
  | bytes
  | data (t : Nat)
  deriving DecidableEq, Repr, Inhabited

/-- `Literal` of exhaustive.rs (`Int(String)` holds the canonical decimal spelling; see notes) -/
inductive Lit where
  | int (i : Int)
  | bytes (b : List Nat)
  deriving DecidableEq, Repr, Inhabited

/-- what a `Pattern::Constructor` carries as `alts`: (constructor name, arity) in declaration order -/
abbrev Alts := List (Nat × Nat)

/-- a data-type declaration: constructors (name, field types) in declaration order.
Generic types are represented per instance (`Option<Int>` and `Option<Bool>` are two
declarations); tuples/pairs are single-constructor declarations, lists are `:: | []`. -/
abbrev Decl := List (Nat × List Ty)
abbrev Sig := List Decl

def declAlts (d : Decl) : Alts := d.map (fun c => (c.1, c.2.length))

def lookupCtor (c : Nat) : Decl → Option (List Ty)
  | [] => none
  | (c', tys) :: rest => if c' = c then some tys else lookupCtor c rest

/-- the matrix pattern language of exhaustive.rs -/
inductive Pat where
  | wild
  | lit (l : Lit)
  | ctor (name : Nat) (alts : Alts) (args : List Pat)
  deriving Repr, Inhabited

inductive Val where
  | lit (l : Lit)
  | ctor (name : Nat) (args : List Val)
  deriving Repr, Inhabited

abbrev Row := List Pat
abbrev Matrix := List Row

/-! ## spec: matching -/

mutual
/-- does pattern `p` match value `v` -/
def pmatch : Pat → Val → Bool
  | .wild, _ => true
  | .lit l, .lit l' => decide (l = l')
  | .lit _, .ctor _ _ => false
  | .ctor _ _ _, .lit _ => false
  | .ctor c _ ps, .ctor c' vs => decide (c = c') && pmatchL ps vs
/-- a row of patterns matches a vector of values (same length, pointwise) -/
def pmatchL : List Pat → List Val → Bool
  | [], [] => true
  | p :: ps, v :: vs => pmatch p v && pmatchL ps vs
  | [], _ :: _ => false
  | _ :: _, [] => false
end

/-- index of the first clause whose pattern matches (source order) -/
def firstMatchFrom (i : Nat) : List Pat → Val → Option Nat
  | [], _ => none
  | p :: ps, x => if pmatch p x then some i else firstMatchFrom (i + 1) ps x

def firstMatch (cs : List Pat) (x : Val) : Option Nat := firstMatchFrom 0 cs x

/-! ## spec: typing -/

mutual
def Pat.hasTy (sg : Sig) : Pat → Ty → Bool
  | .wild, _ => true
  | .lit (.int _), .int => true
  | .lit (.bytes _), .bytes => true
  | .lit _, _ => false
  | .ctor c alts ps, .data t =>
    match sg[t]? with
    | some d =>
      decide (alts = declAlts d) &&
      (match lookupCtor c d with
       | some tys => Pat.hasTyL sg ps tys
       | none => false)
    | none => false
  | .ctor _ _ _, _ => false
def Pat.hasTyL (sg : Sig) : List Pat → List Ty → Bool
  | [], [] => true
  | p :: ps, t :: ts => Pat.hasTy sg p t && Pat.hasTyL sg ps ts
  | [], _ :: _ => false
  | _ :: _, [] => false
end

mutual
def Val.hasTy (sg : Sig) : Val → Ty → Bool
  | .lit (.int _), .int => true
  | .lit (.bytes _), .bytes => true
  | .lit _, _ => false
  | .ctor c vs, .data t =>
    match sg[t]? with
    | some d =>
      (match lookupCtor c d with
       | some tys => Val.hasTyL sg vs tys
       | none => false)
    | none => false
  | .ctor _ _, _ => false
def Val.hasTyL (sg : Sig) : List Val → List Ty → Bool
  | [], [] => true
  | v :: vs, t :: ts => Val.hasTy sg v t && Val.hasTyL sg vs ts
  | [], _ :: _ => false
  | _ :: _, [] => false
end

/-- every row of the matrix is a vector of patterns of the column types `ts` -/
def Matrix.hasTy (sg : Sig) (M : Matrix) (ts : List Ty) : Bool :=
  M.all (fun r => Pat.hasTyL sg r ts)

def Ty.ok (sg : Sig) : Ty → Bool
  | .data t => decide (t < sg.length)
  | _ => true

def nodupNat : List Nat → Bool
  | [] => true
  | x :: xs => !(xs.contains x) && nodupNat xs

/-- signature well-formed: constructor names of a type are distinct, field types exist -/
def Sig.ok (sg : Sig) : Bool :=
  sg.all (fun d => nodupNat (d.map (·.1)) && d.all (fun c => c.2.all (Ty.ok sg)))

/-- a witness table: one value per declared type -/
def witness (inh : List Val) : Ty → Val
  | .int => .lit (.int 0)
  | .bytes => .lit (.bytes [])
  | .data t => inh[t]?.getD (.lit (.int 0))

/-- "every type is inhabited", as a decidable check of a table of inhabitants -/
def inhOk (sg : Sig) (inh : List Val) : Bool :=
  (List.range sg.length).all (fun t => Val.hasTy sg (witness inh (.data t)) (.data t))

/-! ## impl: exhaustive.rs -/

mutual
/-- number of constructor and literal nodes -/
def Pat.nodes : Pat → Nat
  | .wild => 0
  | .lit _ => 1
  | .ctor _ _ args => 1 + Pat.nodesL args
def Pat.nodesL : List Pat → Nat
  | [] => 0
  | p :: ps => Pat.nodes p + Pat.nodesL ps
end

def Matrix.nodes : Matrix → Nat
  | [] => 0
  | r :: M => Pat.nodesL r + Matrix.nodes M

def wilds (n : Nat) : Row := List.replicate n Pat.wild

/-- `PatternStack::specialize_row_by_ctor` (`Literal` head: `unreachable!`, empty row:
index panic — both `none` here; neither occurs on a well-typed matrix) -/
def specRowCtor (c : Nat) (arity : Nat) : Row → Option Row
  | .ctor c' _ args :: rest => if c' = c ∧ args.length = arity then some (args ++ rest) else none
  | .wild :: rest => some (wilds arity ++ rest)
  | .lit _ :: _ => none
  | [] => none

/-- `PatternStack::specialize_row_by_wildcard` -/
def specRowWild : Row → Option Row
  | .wild :: rest => some rest
  | _ => none

/-- `PatternStack::specialize_row_by_literal` -/
def specRowLit (l : Lit) : Row → Option Row
  | .lit l' :: rest => if l' = l then some rest else none
  | .wild :: rest => some rest
  | .ctor _ _ _ :: _ => none
  | [] => none

def specCtor (c : Nat) (arity : Nat) (M : Matrix) : Matrix := M.filterMap (specRowCtor c arity)
def specWild (M : Matrix) : Matrix := M.filterMap specRowWild
def specLit (l : Lit) (M : Matrix) : Matrix := M.filterMap (specRowLit l)

/-- `BTreeMap::insert` on an association list kept sorted by key -/
def ctorsInsert (k : Nat) (a : Alts) : List (Nat × Alts) → List (Nat × Alts)
  | [] => [(k, a)]
  | (k', a') :: rest =>
    if k < k' then (k, a) :: (k', a') :: rest
    else if k = k' then (k, a) :: rest
    else (k', a') :: ctorsInsert k a rest

/-- `Matrix::collect_ctors`, one row -/
def ctorsStep (acc : List (Nat × Alts)) (r : Row) : List (Nat × Alts) :=
  match r with
  | .ctor c alts _ :: _ => ctorsInsert c alts acc
  | _ => acc

/-- `Matrix::collect_ctors` -/
def collectCtors (M : Matrix) : List (Nat × Alts) := M.foldl ctorsStep []

/-- `Matrix::is_complete`: `Complete::Yes(alts)` is `some alts` -/
def isComplete (M : Matrix) : Option Alts :=
  match collectCtors M with
  | [] => none
  | (_, alts) :: rest => if rest.length + 1 = alts.length then some alts else none

theorem Pat.nodesL_append (a b : List Pat) : Pat.nodesL (a ++ b) = Pat.nodesL a + Pat.nodesL b := by
  induction a with
  | nil => simp [Pat.nodesL]
  | cons p ps ih => simp [Pat.nodesL, ih, Nat.add_assoc]

theorem Pat.nodesL_wilds (n : Nat) : Pat.nodesL (wilds n) = 0 := by
  induction n with
  | zero => simp [wilds, Pat.nodesL]
  | succ n ih => simpa [wilds, List.replicate_succ, Pat.nodesL, Pat.nodes] using ih

theorem specRowCtor_nodes {c a : Nat} {r r' : Row} (h : specRowCtor c a r = some r') :
    Pat.nodesL r' ≤ Pat.nodesL r := by
  match r, h with
  | .ctor c' _ args :: rest, h =>
    simp only [specRowCtor] at h
    split at h
    · cases h; simp [Pat.nodesL, Pat.nodes, Pat.nodesL_append]
    · cases h
  | .wild :: rest, h =>
    simp only [specRowCtor] at h; cases h
    simp [Pat.nodesL, Pat.nodes, Pat.nodesL_append, Pat.nodesL_wilds]

theorem specCtor_nodes_le (c a : Nat) (M : Matrix) : Matrix.nodes (specCtor c a M) ≤ Matrix.nodes M := by
  induction M with
  | nil => simp [specCtor, Matrix.nodes]
  | cons r M ih =>
    simp only [specCtor, List.filterMap_cons] at *
    split
    · simp only [Matrix.nodes]; omega
    · rename_i r' h
      have := specRowCtor_nodes h
      simp only [Matrix.nodes]; omega

theorem specWild_nodes_le (M : Matrix) : Matrix.nodes (specWild M) ≤ Matrix.nodes M := by
  induction M with
  | nil => simp [specWild, Matrix.nodes]
  | cons r M ih =>
    simp only [specWild, List.filterMap_cons] at *
    split
    · simp only [Matrix.nodes]; omega
    · rename_i r' h
      have : Pat.nodesL r' ≤ Pat.nodesL r := by
        match r, h with
        | .wild :: rest, h => simp only [specRowWild] at h; cases h; simp [Pat.nodesL, Pat.nodes]
      simp only [Matrix.nodes]; omega

theorem specLit_nodes_le (l : Lit) (M : Matrix) : Matrix.nodes (specLit l M) ≤ Matrix.nodes M := by
  induction M with
  | nil => simp [specLit, Matrix.nodes]
  | cons r M ih =>
    simp only [specLit, List.filterMap_cons] at *
    split
    · simp only [Matrix.nodes]; omega
    · rename_i r' h
      have : Pat.nodesL r' ≤ Pat.nodesL r := by
        match r, h with
        | .wild :: rest, h => simp only [specRowLit] at h; cases h; simp [Pat.nodesL, Pat.nodes]
        | .lit l' :: rest, h =>
          simp only [specRowLit] at h
          split at h
          · cases h; simp [Pat.nodesL, Pat.nodes]
          · cases h
      simp only [Matrix.nodes]; omega

/-- does some row start with a constructor pattern -/
def hasCtorHead : Matrix → Bool
  | [] => false
  | (.ctor _ _ _ :: _) :: _ => true
  | _ :: M => hasCtorHead M

theorem ctorsInsert_ne_nil (k : Nat) (a : Alts) (l : List (Nat × Alts)) : ctorsInsert k a l ≠ [] := by
  cases l with
  | nil => simp [ctorsInsert]
  | cons x xs =>
    obtain ⟨k', a'⟩ := x
    simp only [ctorsInsert]
    split
    · simp
    · split <;> simp

theorem collectCtors_foldl_ne_nil (M : Matrix) (acc : List (Nat × Alts)) (h : acc ≠ []) :
    M.foldl ctorsStep acc ≠ [] := by
  induction M generalizing acc with
  | nil => simpa using h
  | cons r M ih =>
    simp only [List.foldl_cons]
    apply ih
    unfold ctorsStep
    split
    · exact ctorsInsert_ne_nil _ _ _
    · exact h

theorem hasCtorHead_of_foldl (M : Matrix) (acc : List (Nat × Alts)) :
    M.foldl ctorsStep acc ≠ [] → acc ≠ [] ∨ hasCtorHead M = true := by
  induction M generalizing acc with
  | nil => intro h; left; simpa using h
  | cons r M ih =>
    intro h
    simp only [List.foldl_cons] at h
    match r with
    | .ctor c alts args :: rest => right; simp [hasCtorHead]
    | [] =>
      simp only [ctorsStep] at h
      rcases ih _ h with h' | h'
      · left; exact h'
      · right; simpa [hasCtorHead] using h'
    | .wild :: rest =>
      simp only [ctorsStep] at h
      rcases ih _ h with h' | h'
      · left; exact h'
      · right; simpa [hasCtorHead] using h'
    | .lit _ :: rest =>
      simp only [ctorsStep] at h
      rcases ih _ h with h' | h'
      · left; exact h'
      · right; simpa [hasCtorHead] using h'

theorem hasCtorHead_of_collectCtors {M : Matrix} (h : collectCtors M ≠ []) : hasCtorHead M = true := by
  rcases hasCtorHead_of_foldl M [] h with h' | h'
  · exact absurd rfl h'
  · exact h'

theorem hasCtorHead_of_isComplete {M : Matrix} {alts : Alts} (h : isComplete M = some alts) :
    hasCtorHead M = true := by
  apply hasCtorHead_of_collectCtors
  intro hc
  simp [isComplete, hc] at h

/-- specialising by a constructor strictly removes nodes as soon as one row starts with a constructor -/
theorem specCtor_nodes_lt (c a : Nat) {M : Matrix} (h : hasCtorHead M = true) :
    Matrix.nodes (specCtor c a M) < Matrix.nodes M := by
  induction M with
  | nil => simp [hasCtorHead] at h
  | cons r M ih =>
    match r with
    | .ctor c' alts args :: rest =>
      have hle := specCtor_nodes_le c a M
      simp only [specCtor, List.filterMap_cons, specRowCtor] at *
      split
      · rename_i h'
        simp only [Matrix.nodes, Pat.nodesL, Pat.nodes]; omega
      · rename_i r' h'
        split at h'
        · cases h'
          simp only [Matrix.nodes, Pat.nodesL, Pat.nodes, Pat.nodesL_append]; omega
        · cases h'
    | [] =>
      have := ih (by simpa [hasCtorHead] using h)
      simp only [specCtor, List.filterMap_cons, specRowCtor, Matrix.nodes, Pat.nodesL] at *
      omega
    | .wild :: rest =>
      have := ih (by simpa [hasCtorHead] using h)
      simp only [specCtor, List.filterMap_cons, specRowCtor, Matrix.nodes, Pat.nodesL, Pat.nodes,
        Pat.nodesL_append, Pat.nodesL_wilds] at *
      omega
    | .lit l :: rest =>
      have := ih (by simpa [hasCtorHead] using h)
      simp only [specCtor, List.filterMap_cons, specRowCtor, Matrix.nodes, Pat.nodesL, Pat.nodes] at *
      omega

/-- `Matrix::is_useful`.  Well-founded on (constructor/literal nodes of matrix + vector, width of
the vector) — the Rust recursion has no other guard. -/
def isUseful (M : Matrix) (v : Row) : Bool :=
  if M.isEmpty then true
  else
    match v with
    | [] => false
    | .ctor c _ args :: rest => isUseful (specCtor c args.length M) (args ++ rest)
    | .wild :: rest =>
      match h : isComplete M with
      | none => isUseful (specWild M) rest
      | some alts =>
        alts.any (fun alt => isUseful (specCtor alt.1 alt.2 M) (wilds alt.2 ++ rest))
    | .lit l :: rest => isUseful (specLit l M) rest
termination_by (Matrix.nodes M + Pat.nodesL v, v.length)
decreasing_by
  · apply Prod.Lex.left
    have := specCtor_nodes_le c args.length M
    simp only [Pat.nodesL, Pat.nodes, Pat.nodesL_append]; omega
  · have := specWild_nodes_le M
    simp only [Pat.nodesL, Pat.nodes, List.length_cons]
    rcases Nat.lt_or_ge (Matrix.nodes (specWild M)) (Matrix.nodes M) with h1 | h1
    · apply Prod.Lex.left; omega
    · have : Matrix.nodes (specWild M) = Matrix.nodes M := by omega
      rw [this, Nat.zero_add]; apply Prod.Lex.right; omega
  · apply Prod.Lex.left
    have := specCtor_nodes_lt alt.1 alt.2 (hasCtorHead_of_isComplete h)
    simp only [Pat.nodesL, Pat.nodes, Pat.nodesL_append, Pat.nodesL_wilds]; omega
  · apply Prod.Lex.left
    have := specLit_nodes_le l M
    simp only [Pat.nodesL, Pat.nodes]; omega

/-- `is_missing` -/
def isMissing (alts : Alts) (ctors : List (Nat × Alts)) (alt : Nat × Nat) : Option Pat :=
  if ctors.any (fun kv => kv.1 == alt.1) then none
  else some (.ctor alt.1 alts (wilds alt.2))

/-- `recover_ctor` (`split_at` is `take`/`drop`; `Vec::split_off` panics when the row is
shorter than `arity`, which `collectMissing_length` (Lemmas) excludes) -/
def recoverCtor (alts : Alts) (c : Nat) (arity : Nat) (r : Row) : Row :=
  .ctor c alts (r.take arity) :: r.drop arity

/-- `Matrix::collect_missing_patterns` -/
def collectMissing (M : Matrix) (n : Nat) : Matrix :=
  if M.isEmpty then [wilds n]
  else if n = 0 then []
  else
    match h : collectCtors M with
    | [] => (collectMissing (specWild M) (n - 1)).map (fun r => Pat.wild :: r)
    | (k, alts) :: rest =>
      if rest.length + 1 < alts.length then
        let rec_ := collectMissing (specWild M) (n - 1)
        let pre := alts.filterMap (isMissing alts ((k, alts) :: rest))
        rec_.flatMap (fun r => pre.map (fun p => p :: r))
      else
        alts.flatMap (fun alt =>
          (collectMissing (specCtor alt.1 alt.2 M) (alt.2 + n - 1)).map (recoverCtor alts alt.1 alt.2))
termination_by (Matrix.nodes M, n)
decreasing_by
  · have := specWild_nodes_le M
    rcases Nat.lt_or_ge (Matrix.nodes (specWild M)) (Matrix.nodes M) with h1 | h1
    · apply Prod.Lex.left; omega
    · have : Matrix.nodes (specWild M) = Matrix.nodes M := by omega
      rw [this]; apply Prod.Lex.right; omega
  · have := specWild_nodes_le M
    rcases Nat.lt_or_ge (Matrix.nodes (specWild M)) (Matrix.nodes M) with h1 | h1
    · apply Prod.Lex.left; omega
    · have : Matrix.nodes (specWild M) = Matrix.nodes M := by omega
      rw [this]; apply Prod.Lex.right; omega
  · apply Prod.Lex.left
    exact specCtor_nodes_lt alt.1 alt.2 (hasCtorHead_of_collectCtors (by rw [h]; simp))

inductive CheckResult where
  | ok
  | redundant (index : Nat)
  | notExhaustive (missing : List Pat)
  deriving Repr, Inhabited

/-- the loop of `Environment::check_exhaustiveness`; `i` is the index of the next clause -/
def checkLoop (M : Matrix) (i : Nat) : List Pat → CheckResult
  | [] =>
    match (collectMissing M 1).flatten with
    | [] => .ok
    | ms => .notExhaustive ms
  | p :: ps => if isUseful M [p] then checkLoop (M ++ [[p]]) (i + 1) ps else .redundant i

/-- `Environment::check_exhaustiveness` on the simplified patterns of the clauses -/
def checkExhaustive (cs : List Pat) : CheckResult := checkLoop [] 0 cs

/-! ## source patterns with variables, bindings -/

/-- source-level patterns (`ast::Pattern` after type checking, as far as matching goes) -/
inductive SPat where
  | var (x : Nat)
  | discard
  | as_ (x : Nat) (p : SPat)
  | lit (l : Lit)
  | ctor (name : Nat) (alts : Alts) (args : List SPat)
  deriving Repr, Inhabited

mutual
/-- `simplify` of exhaustive.rs on the modelled constructs -/
def simplify : SPat → Pat
  | .var _ => .wild
  | .discard => .wild
  | .as_ _ p => simplify p
  | .lit l => .lit l
  | .ctor c alts args => .ctor c alts (simplifyL args)
def simplifyL : List SPat → List Pat
  | [] => []
  | p :: ps => simplify p :: simplifyL ps
end

mutual
/-- variables bound by matching `p` against `v`, in left-to-right order; `none` = no match -/
def bind : SPat → Val → Option (List (Nat × Val))
  | .var x, v => some [(x, v)]
  | .discard, _ => some []
  | .as_ x p, v => (bind p v).map (fun bs => (x, v) :: bs)
  | .lit l, .lit l' => if l = l' then some [] else none
  | .lit _, .ctor _ _ => none
  | .ctor _ _ _, .lit _ => none
  | .ctor c _ ps, .ctor c' vs => if c = c' then bindL ps vs else none
def bindL : List SPat → List Val → Option (List (Nat × Val))
  | [], [] => some []
  | p :: ps, v :: vs =>
    match bind p v with
    | none => none
    | some b => (bindL ps vs).map (fun bs => b ++ bs)
  | [], _ :: _ => none
  | _ :: _, [] => none
end

/-- first clause (index, bindings) whose pattern matches -/
def firstBindFrom (i : Nat) : List SPat → Val → Option (Nat × List (Nat × Val))
  | [], _ => none
  | p :: ps, x =>
    match bind p x with
    | some bs => some (i, bs)
    | none => firstBindFrom (i + 1) ps x

def firstBind (cs : List SPat) (x : Val) : Option (Nat × List (Nat × Val)) := firstBindFrom 0 cs x

/-! ### occurrence paths (the `Assigned { path, .. }` of decision_tree.rs) -/

mutual
/-- the variables of a source pattern with the path (argument indexes from the scrutinee) of the
sub-value each one names, in binding order -/
def varPaths : SPat → List Nat → List (Nat × List Nat)
  | .var x, π => [(x, π)]
  | .discard, _ => []
  | .as_ x p, π => (x, π) :: varPaths p π
  | .lit _, _ => []
  | .ctor _ _ args, π => varPathsL args π 0
def varPathsL : List SPat → List Nat → Nat → List (Nat × List Nat)
  | [], _, _ => []
  | p :: ps, π, k => varPaths p (π ++ [k]) ++ varPathsL ps π (k + 1)
end

/-- the sub-value at a path -/
def subAt : List Nat → Val → Option Val
  | [], v => some v
  | k :: π, .ctor _ vs =>
    match vs[k]? with
    | some w => subAt π w
    | none => none
  | _ :: _, .lit _ => none

/-! ### calling a hoisted clause (`DecisionTree::HoistThen` / `HoistedLeaf`)

`TreeGen::do_build_tree` turns the body of clause N into a function whose parameters are the
`assigns` of the first leaf that reaches the clause (`params`); every leaf then calls it with the
sub-values named by its own `row.assigns` (`leaf`).  `Assign` = (variable, occurrence path). -/

abbrev Assign := Nat × List Nat

/-- the repaired leaf (proposed_fixes/C07-hoisted-clause-arg-order.diff): arguments in the order
of the parameters, looked up by variable name -/
def reorderArgs (params leaf : List Assign) : List Assign :=
  params.map (fun p => (leaf.find? (fun a => a.1 == p.1)).getD p)

/-- environment seen by the clause body: parameter names zipped with the argument values -/
def callEnvFixed (params leaf : List Assign) (root : Val) : List (Nat × Option Val) :=
  (params.map (·.1)).zip ((reorderArgs params leaf).map (fun a => subAt a.2 root))

/-- the leaf before the fix: `row.assigns` passed positionally -/
def callEnvUnfixed (params leaf : List Assign) (root : Val) : List (Nat × Option Val) :=
  (params.map (·.1)).zip (leaf.map (fun a => subAt a.2 root))

/-! ## decision trees with an arbitrary column-selection function -/

/-- what a test node inspects -/
inductive Head where
  | ctor (c : Nat) (arity : Nat)
  | lit (l : Lit)
  deriving DecidableEq, Repr, Inhabited

/-- `test col h yes no`: if the value in column `col` of the value stack has head `h`,
replace it by its fields (pushed in front) and continue with `yes`, otherwise continue
with `no` on the unchanged stack -/
inductive Tree where
  | fail
  | leaf (i : Nat)
  | test (col : Nat) (h : Head) (yes no : Tree)
  deriving Repr, Inhabited

def headOf : Pat → Option Head
  | .wild => none
  | .lit l => some (.lit l)
  | .ctor c _ args => some (.ctor c args.length)

/-- fields of `v` if it has head `h` -/
def headFields : Head → Val → Option (List Val)
  | .ctor c a, .ctor c' vs => if c = c' ∧ vs.length = a then some vs else none
  | .lit l, .lit l' => if l = l' then some [] else none
  | _, _ => none

def evalTree : Tree → List Val → Option Nat
  | .fail, _ => none
  | .leaf i, _ => some i
  | .test j h yes no, vs =>
    match vs[j]? with
    | none => none
    | some v =>
      match headFields h v with
      | some ws => evalTree yes (ws ++ vs.eraseIdx j)
      | none => evalTree no vs

/-- rows tagged with the index of their clause -/
abbrev IRow := Nat × Row
abbrev IMatrix := List IRow

def IMatrix.nodes : IMatrix → Nat
  | [] => 0
  | r :: M => Pat.nodesL r.2 + IMatrix.nodes M

def allWild : Row → Bool
  | [] => true
  | .wild :: r => allWild r
  | _ :: _ => false

/-- head of the first row (in order) whose column `j` is not a wildcard -/
def colHead (j : Nat) : IMatrix → Option Head
  | [] => none
  | r :: M =>
    match r.2[j]? with
    | some p => (match headOf p with | some h => some h | none => colHead j M)
    | none => colHead j M

/-- arity of the fields a head exposes -/
def Head.arity : Head → Nat
  | .ctor _ a => a
  | .lit _ => 0

/-- row specialised for "column `j` has head `h`": fields in front, column `j` removed -/
def treeSpecRow (j : Nat) (h : Head) (r : IRow) : Option IRow :=
  match r.2[j]? with
  | none => none
  | some .wild => some (r.1, wilds h.arity ++ r.2.eraseIdx j)
  | some (.lit l) => if h = .lit l then some (r.1, r.2.eraseIdx j) else none
  | some (.ctor c _ args) => if h = .ctor c args.length then some (r.1, args ++ r.2.eraseIdx j) else none

/-- row kept when column `j` does *not* have head `h` -/
def treeKeepRow (j : Nat) (h : Head) (r : IRow) : Bool :=
  match r.2[j]? with
  | none => true
  | some p => decide (headOf p ≠ some h)

/-- first column of `r` that is not a wildcard -/
def firstNonWild : Row → Nat
  | [] => 0
  | .wild :: r => firstNonWild r + 1
  | _ :: _ => 0

theorem Pat.nodesL_eraseIdx_add (r : Row) (j : Nat) (p : Pat) (h : r[j]? = some p) :
    Pat.nodesL (r.eraseIdx j) + Pat.nodes p = Pat.nodesL r := by
  induction r generalizing j with
  | nil => simp at h
  | cons q qs ih =>
    cases j with
    | zero => simp at h; subst h; simp [Pat.nodesL]; omega
    | succ j =>
      simp at h
      have := ih j h
      simp [Pat.nodesL]; omega

theorem treeSpecRow_nodes {j : Nat} {h : Head} {r r' : IRow} (e : treeSpecRow j h r = some r') :
    Pat.nodesL r'.2 ≤ Pat.nodesL r.2 := by
  unfold treeSpecRow at e
  split at e
  · cases e
  · rename_i hj; cases e
    have := Pat.nodesL_eraseIdx_add r.2 j _ hj
    simp [Pat.nodesL_append, Pat.nodesL_wilds, Pat.nodes] at *; omega
  · rename_i l hj
    split at e
    · cases e
      have := Pat.nodesL_eraseIdx_add r.2 j _ hj
      simp at *; omega
    · cases e
  · rename_i c alts args hj
    split at e
    · cases e
      have := Pat.nodesL_eraseIdx_add r.2 j _ hj
      simp [Pat.nodesL_append, Pat.nodes] at *; omega
    · cases e

theorem treeSpec_nodes_le (j : Nat) (h : Head) (M : IMatrix) :
    IMatrix.nodes (M.filterMap (treeSpecRow j h)) ≤ IMatrix.nodes M := by
  induction M with
  | nil => simp [IMatrix.nodes]
  | cons r M ih =>
    simp only [List.filterMap_cons]
    split
    · simp only [IMatrix.nodes]; omega
    · rename_i r' e
      have := treeSpecRow_nodes e
      simp only [IMatrix.nodes]; omega

theorem treeKeep_nodes_le (j : Nat) (h : Head) (M : IMatrix) :
    IMatrix.nodes (M.filter (treeKeepRow j h)) ≤ IMatrix.nodes M := by
  induction M with
  | nil => simp [IMatrix.nodes]
  | cons r M ih =>
    simp only [List.filter_cons]
    split <;> simp only [IMatrix.nodes] <;> omega

theorem headOf_nodes {p : Pat} {h : Head} (e : headOf p = some h) : 0 < Pat.nodes p := by
  cases p <;> simp [headOf, Pat.nodes] at * <;> omega

theorem treeSpec_nodes_lt {j : Nat} {h : Head} {M : IMatrix} (e : colHead j M = some h) :
    IMatrix.nodes (M.filterMap (treeSpecRow j h)) < IMatrix.nodes M := by
  induction M with
  | nil => simp [colHead] at e
  | cons r M ih =>
    have hle := treeSpec_nodes_le j h M
    unfold colHead at e
    split at e
    · rename_i p hj
      split at e
      · rename_i h' hp
        cases e
        have hpos := headOf_nodes hp
        have hsum := Pat.nodesL_eraseIdx_add r.2 j p hj
        simp only [List.filterMap_cons]
        split
        · simp only [IMatrix.nodes]; omega
        · rename_i r' e'
          unfold treeSpecRow at e'
          rw [hj] at e'
          cases p with
          | wild => simp [headOf] at hp
          | lit l =>
            simp only at e'
            split at e'
            · cases e'; simp only [IMatrix.nodes]; omega
            · cases e'
          | ctor c alts args =>
            simp only at e'
            split at e'
            · cases e'
              simp only [IMatrix.nodes, Pat.nodesL_append, Pat.nodes] at *; omega
            · cases e'
      · have := ih e
        simp only [List.filterMap_cons]
        split
        · simp only [IMatrix.nodes]; omega
        · rename_i r' e'
          have := treeSpecRow_nodes e'
          simp only [IMatrix.nodes]; omega
    · have := ih e
      simp only [List.filterMap_cons]
      split
      · simp only [IMatrix.nodes]; omega
      · rename_i r' e'
        have := treeSpecRow_nodes e'
        simp only [IMatrix.nodes]; omega

theorem treeKeep_nodes_lt {j : Nat} {h : Head} {M : IMatrix} (e : colHead j M = some h) :
    IMatrix.nodes (M.filter (treeKeepRow j h)) < IMatrix.nodes M := by
  induction M with
  | nil => simp [colHead] at e
  | cons r M ih =>
    have hle := treeKeep_nodes_le j h M
    unfold colHead at e
    split at e
    · rename_i p hj
      split at e
      · rename_i h' hp
        cases e
        have hpos := headOf_nodes hp
        have hsum := Pat.nodesL_eraseIdx_add r.2 j p hj
        have : treeKeepRow j h r = false := by simp [treeKeepRow, hj, hp]
        simp only [List.filter_cons, this, Bool.false_eq_true, if_false, IMatrix.nodes]
        omega
      · have := ih e
        simp only [List.filter_cons]
        split <;> simp only [IMatrix.nodes] <;> omega
    · have := ih e
      simp only [List.filter_cons]
      split <;> simp only [IMatrix.nodes] <;> omega

/-- Compile a clause matrix to a decision tree.  `sel` is an ARBITRARY column-selection
heuristic: its choice is used whenever some row has a non-wildcard in that column, otherwise
the first non-wildcard column of the first row is taken. -/
def build (sel : IMatrix → Nat) (M : IMatrix) : Tree :=
  match M with
  | [] => .fail
  | r :: M' =>
    if allWild r.2 then .leaf r.1
    else
      match h : colHead (sel (r :: M')) (r :: M') with
      | some hd =>
        .test (sel (r :: M')) hd
          (build sel ((r :: M').filterMap (treeSpecRow (sel (r :: M')) hd)))
          (build sel ((r :: M').filter (treeKeepRow (sel (r :: M')) hd)))
      | none =>
        match h2 : colHead (firstNonWild r.2) (r :: M') with
        | some hd =>
          .test (firstNonWild r.2) hd
            (build sel ((r :: M').filterMap (treeSpecRow (firstNonWild r.2) hd)))
            (build sel ((r :: M').filter (treeKeepRow (firstNonWild r.2) hd)))
        | none => .fail
termination_by IMatrix.nodes M
decreasing_by
  · exact treeSpec_nodes_lt h
  · exact treeKeep_nodes_lt h
  · exact treeSpec_nodes_lt h2
  · exact treeKeep_nodes_lt h2

def indexRows (i : Nat) : List Pat → IMatrix
  | [] => []
  | p :: ps => (i, [p]) :: indexRows (i + 1) ps

/-- decision tree of a clause list -/
def buildClauses (sel : IMatrix → Nat) (cs : List Pat) : Tree := build sel (indexRows 0 cs)

end AikenVerif.Match
