/-!
# M-BUDGET — the redeemer loop of `eval_phase_two` and the lookup tables (C19)

Impl model of `crates/uplc/src/tx.rs::eval_phase_two_with_override_and_optional_protocol`
(budget threading, collection of per-redeemer units, first failing redeemer
reported), of `tx/eval.rs::eval_redeemer_with_optional_protocol /
do_eval_redeemer` (stages, argument selection, success criterion per language)
and of `tx/script_context.rs::{DataLookupTable, find_script, get_tx_in_info_*}`
(hash tables as association lists, resolved-input lookup by `find`, sorting of
inputs and of redeemer keys).

The evaluator (`Program::eval_as…`), script decoding, `TxInfo::from_transaction`
and `ToPlutusData` are *parameters* of the model.  Core + Std only.

Conventions: Rust `i64` budgets are `Int` here (no wrap-around: on every path on
which the Rust subtracts, `0 ≤ cost ≤ budget`, see `Within`); the `as u64` /
`as i64` round trip of `ex_units` is the identity on that range (`asI64_asU64`).
-/
namespace AikenVerif.Budget

/-! ## budgets -/

/-- `machine::cost_model::ExBudget` (also used for `ExUnits`: `steps = cpu`) -/
structure ExBudget where
  cpu : Int
  mem : Int
  deriving DecidableEq, Repr, Inhabited

namespace ExBudget
def zero : ExBudget := ⟨0, 0⟩
def add (a b : ExBudget) : ExBudget := ⟨a.cpu + b.cpu, a.mem + b.mem⟩
def sub (a b : ExBudget) : ExBudget := ⟨a.cpu - b.cpu, a.mem - b.mem⟩
instance : Add ExBudget := ⟨add⟩
instance : Sub ExBudget := ⟨sub⟩
/-- componentwise order -/
def le (a b : ExBudget) : Prop := a.cpu ≤ b.cpu ∧ a.mem ≤ b.mem
instance : LE ExBudget := ⟨le⟩
instance (a b : ExBudget) : Decidable (a ≤ b) := by
  unfold LE.le instLE le; exact inferInstance
/-- `impl Default for ExBudget` (checked against the real value by the harness) -/
def default : ExBudget := ⟨10000000000, 16500000⟩
/-- sum of a list of budgets -/
def total : List ExBudget → ExBudget
  | [] => zero
  | c :: cs => c + total cs
end ExBudget

/-- `x as u64` for an `i64` bit pattern -/
def asU64 (x : Int) : Nat := (x % 18446744073709551616).toNat
/-- `n as i64` for a `u64` -/
def asI64 (n : Nat) : Int := if n < 9223372036854775808 then (n : Int) else (n : Int) - 18446744073709551616

/-! ## the redeemer loop -/

/-- why `eval_phase_two` returned `Err` -/
inductive Failure (ε : Type) where
  /-- `eval_phase_one(..)?` -/
  | phaseOne (e : ε)
  /-- the `?` on `eval::eval_redeemer(..)` for the redeemer at this position of `iter_redeemers` -/
  | redeemer (index : Nat) (e : ε)
  deriving DecidableEq, Repr

/-- `for (key, data, ex_units) in iter_redeemers(rs) { … }`: evaluate each redeemer against
the remaining budget, subtract its units, collect `(redeemer, units)`; stop at the first `Err`.
`i` is the position of the head of the list in the witness set. -/
def loopFrom {ρ ε : Type} (eval : ρ → ExBudget → Except ε ExBudget) :
    Nat → List ρ → ExBudget → Except (Nat × ε) (List (ρ × ExBudget))
  | _, [], _ => .ok []
  | i, r :: rs, b =>
    match eval r b with
    | .error e => .error (i, e)
    | .ok c =>
      match loopFrom eval (i + 1) rs (b - c) with
      | .error f => .error f
      | .ok us => .ok ((r, c) :: us)

def loop {ρ ε : Type} (eval : ρ → ExBudget → Except ε ExBudget) (rs : List ρ) (b : ExBudget) :
    Except (Nat × ε) (List (ρ × ExBudget)) :=
  loopFrom eval 0 rs b

/-- the units column of a result -/
def units {ρ : Type} (us : List (ρ × ExBudget)) : List ExBudget := us.map (·.2)

/-- everything `eval_phase_two_with_override_and_optional_protocol` consults besides the evaluator -/
structure Call (ρ ε : Type) where
  /-- `tx.transaction_witness_set.redeemer` in `iter_redeemers` order (`None` = no redeemers field) -/
  redeemers : Option (List ρ)
  runPhaseOne : Bool
  /-- outcome of `eval_phase_one(tx, utxos, &lookup_table)` (computed before overrides are applied) -/
  phaseOne : Except ε Unit
  /-- `initial_budget: Option<&ExBudget>` -/
  initialBudget : Option ExBudget

/-- `*initial_budget.unwrap_or(&ExBudget::default())` -/
def startBudget : Option ExBudget → ExBudget
  | some b => b
  | none => ExBudget.default

/-- `eval_phase_two_with_override_and_optional_protocol`; the override table and the optional
protocol version are part of `eval` (see `evalRedeemer`). -/
def evalPhaseTwo {ρ ε : Type} (eval : ρ → ExBudget → Except ε ExBudget) (c : Call ρ ε) :
    Except (Failure ε) (List (ρ × ExBudget)) :=
  let body : Except (Failure ε) (List (ρ × ExBudget)) :=
    match c.redeemers with
    | none => .ok []
    | some rs =>
      match loop eval rs (startBudget c.initialBudget) with
      | .error (i, e) => .error (.redeemer i e)
      | .ok us => .ok us
  if c.runPhaseOne then
    match c.phaseOne with
    | .error e => .error (.phaseOne e)
    | .ok _ => body
  else body

/-! ## one redeemer: `eval_redeemer_with_optional_protocol` -/

inductive Lang where | v1 | v2 | v3
  deriving DecidableEq, Repr

inductive CtxVersion where | v1v2 | v3
  deriving DecidableEq, Repr

/-- `TxInfoV1/V2::from_transaction` give `ScriptContext::V1V2`, `TxInfoV3` gives `ScriptContext::V3` -/
def Lang.ctxVersion : Lang → CtxVersion
  | .v1 => .v1v2
  | .v2 => .v1v2
  | .v3 => .v3

/-- what gets applied to the script, in order -/
inductive Arg where | datum | redeemer | context
  deriving DecidableEq, Repr

/-- `do_eval_redeemer`: `ScriptContext::V1V2 ⇒ [datum]? redeemer context`, `ScriptContext::V3 ⇒ context` -/
def selectArgs : CtxVersion → Bool → List Arg
  | .v1v2, true => [.datum, .redeemer, .context]
  | .v1v2, false => [.redeemer, .context]
  | .v3, _ => [.context]

/-- shape of the term the machine returned -/
inductive ResultKind where | unit | boolTrue | other
  deriving DecidableEq, Repr

/-- an `EvalResult`: cost and either a machine error or the shape of the value -/
structure Run (μ : Type) where
  cost : ExBudget
  result : Except μ ResultKind

/-- `EvalResult::failed(allow_bool_in_v3, language)` (the machine never yields `Ok(Term::Error)`) -/
def Run.failed {μ : Type} (r : Run μ) (allowBoolInV3 : Bool) (lang : Lang) : Bool :=
  match r.result with
  | .error _ => true
  | .ok k =>
    match lang with
    | .v1 => false
    | .v2 => false
    | .v3 => !(k == .unit || (allowBoolInV3 && k == .boolTrue))

/-- the ledger's rule (`processLogsAndErrors`): V1/V2 succeed iff no error, V3 iff the result is unit -/
def ledgerSucceeds {μ : Type} (lang : Lang) (r : Run μ) : Bool :=
  match r.result, lang with
  | .error _, _ => false
  | .ok _, .v1 => true
  | .ok _, .v2 => true
  | .ok k, .v3 => k == .unit

/-- errors of `eval_redeemer` that are not machine errors -/
inductive TxErr (μ : Type) where
  | missingScriptForRedeemer
  | missingRequiredScript
  | missingRequiredDatum
  | missingRequiredInlineDatumOrHash
  | resolvedInputNotFound
  | nonScript
  | costModelNotFound
  | txInfo            -- any error of `TxInfoVn::from_transaction`
  | decode            -- `Program::from_cbor`
  | machine (e : μ) (cost : ExBudget)
  /-- proposed fix `C19-v3-nonunit`: the script returned, but not what its language requires -/
  | invalidResult (cost : ExBudget)
  deriving Repr

/-- the two places where the unpatched tree departs from the property; each is a switch
`legacy` (tree without the proposed fix) / `fixed` (with it).
As success criterion of `do_eval_redeemer`: `legacy` = only machine errors fail,
`fixed` = `proposed_fixes/C19-v3-nonunit.diff` (`eval_result.failed(false, lang)`). -/
inductive Criterion where | legacy | fixed
  deriving DecidableEq, Repr

/-- which budget the machine gets when NO cost models are passed:
`legacy` = `ExBudget::default()` for every redeemer (the remaining budget is ignored),
`fixed` = the remaining budget (`proposed_fixes/C19-budget-without-cost-models.diff`) -/
def machineBudget (crit : Criterion) (haveCostModels : Bool) (remaining : ExBudget) : ExBudget :=
  match crit, haveCostModels with
  | .legacy, false => ExBudget.default
  | _, _ => remaining

/-- tail of `do_eval_redeemer`: turn an `EvalResult` into units or an error -/
def judge {μ : Type} (crit : Criterion) (lang : Lang) (r : Run μ) : Except (TxErr μ) ExBudget :=
  match r.result with
  | .error e => .error (.machine e r.cost)
  | .ok _ =>
    match crit with
    | .legacy => .ok r.cost
    | .fixed => if r.failed false lang then .error (.invalidResult r.cost) else .ok r.cost

/-- the parameters of one redeemer evaluation (`σ` script bytes, `δ` data, `κ` context, `π` program) -/
structure Stages (ρ σ δ κ π μ : Type) where
  /-- `find_script(redeemer, tx, utxos, lookup_table)?` -/
  findScript : ρ → Except (TxErr μ) ((Lang × σ) × Option δ)
  /-- `cost_mdls_opt.map(|c| c.plutus_vN.ok_or(CostModelNotFound)).transpose()?` ; `none` = no cost models passed -/
  costModel : Lang → Except (TxErr μ) (Option (List Int))
  /-- `TxInfoVn::from_transaction(tx, utxos, slot_config)?` then `into_script_context(redeemer, datum)` -/
  context : Lang → ρ → Option δ → Except (TxErr μ) κ
  /-- `Program::from_cbor(script)?` -/
  decode : σ → Except (TxErr μ) π
  /-- the CEK machine on the script applied to the selected arguments -/
  run : Lang → Option (List Int) → π → List Arg → Option δ → ρ → κ → ExBudget → Run μ

/-- `eval_redeemer_with_optional_protocol` (argument evaluation order of the Rust call:
cost model, tx info, program; then `do_eval_redeemer`) -/
def evalRedeemer {ρ σ δ κ π μ : Type} (critJudge critBudget : Criterion) (s : Stages ρ σ δ κ π μ)
    (r : ρ) (remaining : ExBudget) : Except (TxErr μ) ExBudget :=
  match s.findScript r with
  | .error e => .error e
  | .ok ((lang, script), datum) =>
    match s.costModel lang with
    | .error e => .error e
    | .ok cm =>
      match s.context lang r datum with
      | .error e => .error e
      | .ok ctx =>
        match s.decode script with
        | .error e => .error e
        | .ok prog =>
          let args := selectArgs lang.ctxVersion datum.isSome
          judge critJudge lang
            (s.run lang cm prog args datum r ctx (machineBudget critBudget cm.isSome remaining))

/-! ## lookup tables -/

/-- `HashMap` built by successive `insert`s, read by `get`: the LAST inserted entry for a key wins -/
def tableGet {κ ν : Type} [BEq κ] (entries : List (κ × ν)) (k : κ) : Option ν :=
  (entries.reverse.find? (fun e => e.1 == k)).map (·.2)

/-- `utxos.iter().find(|u| u.input == *input)`: the FIRST entry for a key wins -/
def firstGet {κ ν : Type} [BEq κ] (entries : List (κ × ν)) (k : κ) : Option ν :=
  (entries.find? (fun e => e.1 == k)).map (·.2)

/-- the value is determined by the key (true when keys are unique, and when keys are
collision-free hashes of the values) -/
def Functional {κ ν : Type} (entries : List (κ × ν)) : Prop :=
  ∀ a ∈ entries, ∀ b ∈ entries, a.1 = b.1 → a.2 = b.2

/-- `DataLookupTable::from_transaction`: insertion order of the script table -/
def scriptEntries {κ ν : Type} (witV1 witV2 witV3 refScripts : List (κ × ν)) : List (κ × ν) :=
  witV1 ++ witV2 ++ witV3 ++ refScripts

/-- `DataLookupTable::get_script`: overrides first -/
def getScript {κ ν : Type} [BEq κ] (overrides scripts : List (κ × ν)) (h : κ) : Option ν :=
  match tableGet overrides h with
  | some s => some s
  | none => tableGet scripts h

inductive DatumOption (η δ : Type) where
  | hash (h : η)
  | inline (d : δ)
  deriving Repr

/-- `lookup_datum` inside `find_script` -/
def lookupDatum {η δ μ : Type} [BEq η] (datums : List (η × δ)) :
    Option (DatumOption η δ) → Except (TxErr μ) (Option δ)
  | some (.hash h) =>
    match tableGet datums h with
    | some d => .ok (some d)
    | none => .error .missingRequiredDatum
  | some (.inline d) => .ok (some d)
  | none => .ok none

/-! ## sorting -/

/-- a transaction input: (transaction id as a big-endian number, output index);
`#[derive(Ord)]` on `TransactionInput` compares the id, then the index -/
abbrev TxIn := Nat × Nat

def TxIn.le (a b : TxIn) : Bool := a.1 < b.1 || (a.1 == b.1 && a.2 ≤ b.2)

/-- `inputs.iter().sorted()` -/
def sortInputs (l : List TxIn) : List TxIn := l.mergeSort TxIn.le

/-- a resolved output as far as `find_script` looks at it -/
structure Out (η δ : Type) where
  /-- payment credential is a script with this hash (`none`: key / byron / stake address) -/
  paymentScript : Option η
  datum : Option (DatumOption η δ)

/-- `find_script` for `RedeemerTag::Spend`: sort the body inputs, resolve each (first match in
`utxos`; a missing one is an error for the whole list), take the `index`-th, look its script and
datum up -/
def findScriptSpend {η σ δ μ : Type} [BEq η]
    (overrides scripts : List (η × (Lang × σ))) (datums : List (η × δ))
    (bodyInputs : List TxIn) (utxos : List (TxIn × Out η δ)) (index : Nat) :
    Except (TxErr μ) ((Lang × σ) × Option δ) :=
  let resolved := (sortInputs bodyInputs).map (fun i => firstGet utxos i)
  if resolved.any Option.isNone then .error .resolvedInputNotFound
  else
    match resolved[index]? with
    | none => .error .missingScriptForRedeemer
    | some none => .error .resolvedInputNotFound
    | some (some out) =>
      match out.paymentScript with
      | none => .error .nonScript
      | some h =>
        match getScript overrides scripts h with
        | none => .error .missingRequiredScript
        | some script =>
          match lookupDatum datums out.datum with
          | .error e => .error e
          | .ok datum =>
            if datum.isNone && script.1 != Lang.v3 then .error .missingRequiredInlineDatumOrHash
            else .ok (script, datum)

inductive Tag where | spend | mint | cert | reward | vote | propose
  deriving DecidableEq, Repr

/-- `redeemer_tag_as_usize` in `sort_redeemers` -/
def Tag.rank : Tag → Nat
  | .spend => 0 | .mint => 1 | .cert => 2 | .reward => 3 | .vote => 4 | .propose => 5

/-- `sort_redeemers` as a `≤` test on (tag, index) keys -/
def redeemerKeyLe (a b : Tag × Nat) : Bool :=
  if a.1 = b.1 then a.2 ≤ b.2 else a.1.rank ≤ b.1.rank

/-- `iter_redeemers(m).sorted_by(sort_redeemers)` in `get_redeemers_info` -/
def sortRedeemerKeys (l : List (Tag × Nat)) : List (Tag × Nat) := l.mergeSort redeemerKeyLe

end AikenVerif.Budget
