import AikenVerif.Model.Term
/-!
M-CEK values (`machine/value.rs`) and the outcome type shared by the builtin,
cost and machine models.
-/
namespace AikenVerif
open Gen (Builtin)

abbrev NTerm := Term NamedDeBruijn

/-- `machine::value::Value`.  `Env = Rc<Vec<Value>>`: newest binding LAST. -/
inductive Value where
  | con (c : Const)
  | delay (body : NTerm) (env : List Value)
  | lam (name : NamedDeBruijn) (body : NTerm) (env : List Value)
  | builtin (b : Builtin) (forces : Nat) (args : List Value)
  | constr (tag : Nat) (fields : List Value)
  deriving Inhabited

/-- ledger builtin semantics variants (`BuiltinSemantics`) -/
inductive Sem where
  | A | B | C | D | E
  deriving DecidableEq, Repr, Inhabited

/-- outcome of a model of Rust code that can fail or panic -/
inductive Res (α : Type) where
  | ok (a : α)
  /-- `Err(_)` other than budget exhaustion -/
  | err
  /-- a Rust panic (`unwrap` on `None`, slice index, arithmetic overflow in a dev build …) -/
  | panic
  /-- outside the modelled fragment (cryptographic builtins …): the driver answers `unmodelled` -/
  | unmodelled
  deriving Inhabited

namespace Res
@[inline] def bind {α β} (r : Res α) (f : α → Res β) : Res β :=
  match r with
  | .ok a => f a
  | .err => .err
  | .panic => .panic
  | .unmodelled => .unmodelled
instance : Monad Res where
  pure := .ok
  bind := Res.bind
def isOk {α} : Res α → Bool
  | .ok _ => true
  | _ => false
end Res

namespace Value
/-- `unwrap_constant` -/
def unwrapConstant : Value → Res Const
  | .con c => .ok c
  | _ => .err
def unwrapInteger (v : Value) : Res Int :=
  match v with
  | .con (.integer n) => .ok n
  | _ => .err
def unwrapByteString (v : Value) : Res Bytes :=
  match v with
  | .con (.bytestring b) => .ok b
  | _ => .err
def unwrapString (v : Value) : Res (List Char) :=
  match v with
  | .con (.string s) => .ok s
  | _ => .err
def unwrapBool (v : Value) : Res Bool :=
  match v with
  | .con (.bool b) => .ok b
  | _ => .err
def unwrapUnit (v : Value) : Res Unit :=
  match v with
  | .con .unit => .ok ()
  | _ => .err
def unwrapPair (v : Value) : Res (Ty × Ty × Const × Const) :=
  match v with
  | .con (.pair a b x y) => .ok (a, b, x, y)
  | _ => .err
def unwrapList (v : Value) : Res (Ty × List Const) :=
  match v with
  | .con (.list t xs) => .ok (t, xs)
  | _ => .err
def unwrapData (v : Value) : Res Data :=
  match v with
  | .con (.data d) => .ok d
  | _ => .err
/-- `unwrap_data_list`: a list constant whose element type is exactly `data` -/
def unwrapDataList (v : Value) : Res (List Const) :=
  match v with
  | .con (.list .data xs) => .ok xs
  | _ => .err
def unwrapIntList (v : Value) : Res (List Const) :=
  match v with
  | .con (.list .integer xs) => .ok xs
  | _ => .err
end Value

end AikenVerif
