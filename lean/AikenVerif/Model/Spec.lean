import AikenVerif.Model.Cek
/-!
SPEC model for C03: the CEK machine of the Plutus Core specification (§ "The CEK
machine", de Bruijn presentation), written from the specification and NOT from
the Rust:

* environments are read by "the i-th most recent binding";
* a builtin value carries the builtin, the arguments received so far and how much
  of its SIGNATURE `[∀…, arg…]` has been consumed; `force` needs the next item to
  be a quantifier, application needs it to be an argument, the builtin runs when
  the signature is exhausted;
* `constr` evaluates its fields left to right; `case` selects the branch and
  applies it to the fields in order;
* the final value is read back by substituting environments into bodies through
  EVERY term former.

The builtin denotation is a parameter (`den`), shared with the impl model.
-/
namespace AikenVerif.Spec
open AikenVerif Gen

inductive SigItem where
  | all   -- a type quantifier: consumed by `force`
  | arg   -- a term argument: consumed by application
  deriving DecidableEq, Repr

def mkSig (foralls args : Nat) : List SigItem :=
  List.replicate foralls .all ++ List.replicate args .arg

/-- builtin signatures, transcribed from the specification's table of built-in functions -/
def sig : Builtin → List SigItem
  -- integers
  | .addInteger | .subtractInteger | .multiplyInteger | .divideInteger | .quotientInteger
  | .remainderInteger | .modInteger | .equalsInteger | .lessThanInteger | .lessThanEqualsInteger => mkSig 0 2
  -- bytestrings
  | .appendByteString | .consByteString => mkSig 0 2
  | .sliceByteString => mkSig 0 3
  | .lengthOfByteString => mkSig 0 1
  | .indexByteString | .equalsByteString | .lessThanByteString | .lessThanEqualsByteString => mkSig 0 2
  -- hashes, signatures
  | .sha2_256 | .sha3_256 | .blake2b_256 | .keccak_256 | .blake2b_224 | .ripemd_160 => mkSig 0 1
  | .verifyEd25519Signature | .verifyEcdsaSecp256k1Signature | .verifySchnorrSecp256k1Signature => mkSig 0 3
  -- strings
  | .appendString | .equalsString => mkSig 0 2
  | .encodeUtf8 | .decodeUtf8 => mkSig 0 1
  -- polymorphic control
  | .ifThenElse => mkSig 1 3
  | .chooseUnit => mkSig 1 2
  | .trace => mkSig 1 2
  | .fstPair | .sndPair => mkSig 2 1
  | .chooseList => mkSig 2 3
  | .mkCons => mkSig 1 2
  | .headList | .tailList | .nullList => mkSig 1 1
  -- data
  | .chooseData => mkSig 1 6
  | .constrData => mkSig 0 2
  | .mapData | .listData | .iData | .bData | .unConstrData | .unMapData | .unListData | .unIData | .unBData => mkSig 0 1
  | .equalsData => mkSig 0 2
  | .serialiseData => mkSig 0 1
  | .mkPairData => mkSig 0 2
  | .mkNilData | .mkNilPairData => mkSig 0 1
  -- BLS12-381
  | .bls12_381_G1_Add | .bls12_381_G1_ScalarMul | .bls12_381_G1_Equal | .bls12_381_G1_HashToGroup => mkSig 0 2
  | .bls12_381_G1_Neg | .bls12_381_G1_Compress | .bls12_381_G1_Uncompress => mkSig 0 1
  | .bls12_381_G2_Add | .bls12_381_G2_ScalarMul | .bls12_381_G2_Equal | .bls12_381_G2_HashToGroup => mkSig 0 2
  | .bls12_381_G2_Neg | .bls12_381_G2_Compress | .bls12_381_G2_Uncompress => mkSig 0 1
  | .bls12_381_MillerLoop | .bls12_381_MulMlResult | .bls12_381_FinalVerify => mkSig 0 2
  | .bls12_381_G1_MultiScalarMul | .bls12_381_G2_MultiScalarMul => mkSig 0 2
  -- bitwise / conversions
  | .integerToByteString => mkSig 0 3
  | .byteStringToInteger => mkSig 0 2
  | .andByteString | .orByteString | .xorByteString => mkSig 0 3
  | .complementByteString => mkSig 0 1
  | .readBit => mkSig 0 2
  | .writeBits => mkSig 0 3
  | .replicateByte | .shiftByteString | .rotateByteString => mkSig 0 2
  | .countSetBits | .findFirstSetBit => mkSig 0 1
  | .expModInteger => mkSig 0 3
  | .dropList => mkSig 1 2

/-- the i-th most recent binding (i ≥ 1); environments list the OLDEST binding first -/
def lookup (env : List Value) (i : Nat) : Option Value :=
  if i = 0 then none else env.reverse[i - 1]?

/-- `M @ ρ`: substitute the (read-back) environment for the variables free in `M`,
under `depth` binders of `M` itself -/
def subst (depth : Nat) (env : List NTerm) : NTerm → NTerm
  | .var n =>
    if n.index ≤ depth then .var n
    else match env.reverse[n.index - depth - 1]? with
      | some t => t
      | none => .var n
  | .lam n body => .lam n (subst (depth + 1) env body)
  | .app f a => .app (subst depth env f) (subst depth env a)
  | .delay t => .delay (subst depth env t)
  | .force t => .force (subst depth env t)
  | .constr tag fs => .constr tag (substList depth env fs)
  | .case s bs => .case (subst depth env s) (substList depth env bs)
  | .error => .error
  | .builtin b => .builtin b
  | .const c => .const c
where
  substList (depth : Nat) (env : List NTerm) : List NTerm → List NTerm
    | [] => []
    | t :: ts => subst depth env t :: substList depth env ts

mutual
  /-- reading a value back as a term -/
  def discharge : Value → NTerm
    | .con c => .const c
    | .delay body env => .delay (subst 0 (dischargeList env) body)
    | .lam n body env => .lam ⟨n.text, 0⟩ (subst 1 (dischargeList env) body)
    | .constr tag fields => .constr tag (dischargeList fields)
    | .builtin b forces args => applyAll (forceN forces (.builtin b)) (dischargeList args)
  def dischargeList : List Value → List NTerm
    | [] => []
    | v :: vs => discharge v :: dischargeList vs
end

inductive SResult where
  | next (s : State)
  | done (t : NTerm)
  | fail
  /-- the builtin denotation is outside the modelled fragment / panicked -/
  | other
  deriving Inhabited

/-- what remains of the signature of a builtin value -/
def remaining (b : Builtin) (forces : Nat) (args : List Value) : List SigItem :=
  (sig b).drop (forces + args.length)

/-- run the builtin once its signature is exhausted, otherwise keep collecting -/
def saturate (den : Builtin → List Value → Res Value) (ctx : Ctx) (b : Builtin) (forces : Nat)
    (args : List Value) : SResult :=
  if remaining b forces args = [] then
    match den b args with
    | .ok v => .next (.ret ctx v)
    | .err => .fail
    | _ => .other
  else .next (.ret ctx (.builtin b forces args))

def applyValue (den : Builtin → List Value → Res Value) (ctx : Ctx) (fn arg : Value) : SResult :=
  match fn with
  | .lam _ body env => .next (.compute ctx (env ++ [arg]) body)
  | .builtin b forces args =>
    match remaining b forces args with
    | .arg :: _ => saturate den ctx b forces (args ++ [arg])
    | _ => .fail
  | _ => .fail

/-- pushing `[_ V₁] … [_ Vₙ]` so that `V₁` is applied first -/
def pushArgs (fields : List Value) (ctx : Ctx) : Ctx :=
  fields.map Frame.awaitFunValue ++ ctx

/-- `case` on a constant (specification ≥ 1.1.0 with built-in-type case, ledger semantics E) -/
def caseConst (c : Const) (branches : List NTerm) : Option (NTerm × List Value) :=
  match c with
  | .unit => if branches.length ≤ 1 then branches[0]?.map (·, []) else none
  | .bool b => if branches.length ≤ 2 then branches[if b then 1 else 0]?.map (·, []) else none
  | .integer i => if 0 ≤ i then branches[i.toNat]?.map (·, []) else none
  | .list t xs =>
    if branches.length ≤ 2 then
      match xs with
      | [] => branches[1]?.map (·, [])
      | x :: rest => branches[0]?.map (·, [.con x, .con (.list t rest)])
    else none
  | .pair _ _ x y => if branches.length ≤ 1 then branches[0]?.map (·, [.con x, .con y]) else none
  | _ => none

/-- one transition of the specification's machine -/
def step (sem : Sem) (den : Builtin → List Value → Res Value) : State → SResult
  | .compute ctx env t =>
    match t with
    | .var n => match lookup env n.index with
      | some v => .next (.ret ctx v)
      | none => .fail
    | .const c => .next (.ret ctx (.con c))
    | .lam n body => .next (.ret ctx (.lam n body env))
    | .delay body => .next (.ret ctx (.delay body env))
    | .force body => .next (.compute (.force :: ctx) env body)
    | .app f x => .next (.compute (.awaitFunTerm env x :: ctx) env f)
    | .constr tag [] => .next (.ret ctx (.constr tag []))
    | .constr tag (m :: ms) => .next (.compute (.constr env tag ms [] :: ctx) env m)
    | .case scrut branches => .next (.compute (.cases env branches :: ctx) env scrut)
    | .builtin b => .next (.ret ctx (.builtin b 0 []))
    | .error => .fail
  | .ret [] v => .done (discharge v)
  | .ret (fr :: ctx) v =>
    match fr with
    | .awaitFunTerm env arg => .next (.compute (.awaitArg v :: ctx) env arg)
    | .awaitArg fn => applyValue den ctx fn v
    | .awaitFunValue arg => applyValue den ctx v arg
    | .force =>
      match v with
      | .delay body env => .next (.compute ctx env body)
      | .builtin b forces args =>
        match remaining b forces args with
        | .all :: _ => saturate den ctx b (forces + 1) args
        | _ => .fail
      | _ => .fail
    | .constr env tag todo done =>
      match todo with
      | m :: ms => .next (.compute (.constr env tag ms (done ++ [v]) :: ctx) env m)
      | [] => .next (.ret ctx (.constr tag (done ++ [v])))
    | .cases env branches =>
      match v with
      | .constr tag fields =>
        match branches[tag]? with
        | some t => .next (.compute (pushArgs fields ctx) env t)
        | none => .fail
      | .con c =>
        if sem = .E then
          match caseConst c branches with
          | some (t, fields) => .next (.compute (pushArgs fields ctx) env t)
          | none => .fail
        else .fail
      | _ => .fail

inductive SRun where
  | done (t : NTerm) | fail | other | outOfFuel
  deriving Inhabited

def runFrom (sem : Sem) (den : Builtin → List Value → Res Value) : Nat → State → SRun
  | 0, _ => .outOfFuel
  | fuel + 1, s =>
    match step sem den s with
    | .next s' => runFrom sem den fuel s'
    | .done t => .done t
    | .fail => .fail
    | .other => .other

def run (sem : Sem) (den : Builtin → List Value → Res Value) (fuel : Nat) (t : NTerm) : SRun :=
  runFrom sem den fuel (.compute [] [] t)

end AikenVerif.Spec

namespace AikenVerif
/-- the builtin denotation shared by both machines: the guards the implementation evaluates while
costing (`cost_as_size`, argument-type checks, `expModInteger` bounds) followed by the builtin itself -/
def denotation (sem : Sem) (b : Gen.Builtin) (args : List Value) : Res Value :=
  (runPre b args (Gen.costSpec b).pre).bind fun _ => callBuiltin sem b args
end AikenVerif
