import AikenVerif.Model.Builtin
import AikenVerif.Model.Cost
/-!
M-CEK (impl model): `machine.rs` + `machine/discharge.rs`, transition by transition,
including the step accounting (`unbudgeted_steps`, slippage) and the budget.
Representation choices of the Rust are kept: environments are vectors with the
newest binding LAST and lookup at `len - index`; `FrameConstr` holds the remaining
fields (the Rust keeps them reversed and pops from the end — same order of evaluation); builtin values carry `forces`/`args`
counters checked against the GENERATED `arity`/`forceCount` tables.
-/
namespace AikenVerif
open Gen (Builtin StepKind)

/-- `Context` frames, innermost first (`NoFrame` = `[]`) -/
inductive Frame where
  | awaitArg (fn : Value)
  | awaitFunTerm (env : List Value) (arg : NTerm)
  | awaitFunValue (arg : Value)
  | force
  | constr (env : List Value) (tag : Nat) (todo : List NTerm) (done : List Value)
  | cases (env : List Value) (branches : List NTerm)
  deriving Inhabited

abbrev Ctx := List Frame

inductive State where
  | compute (ctx : Ctx) (env : List Value) (t : NTerm)
  | ret (ctx : Ctx) (v : Value)
  deriving Inhabited

-- ------------------------------------------------------------------ discharge
/-- `with_env` once the environment's values have been read back: variables bound outside the
`lamCnt` enclosing binders are replaced by the corresponding environment entry -/
def substEnv (lamCnt : Nat) (env : List NTerm) : NTerm → NTerm
  | .var n =>
    if lamCnt ≥ n.index then .var n
    else
      let k := n.index - lamCnt
      if k ≤ env.length then
        match env[env.length - k]? with
        | some t => t
        | none => .var n
      else .var n
  | .lam n body => .lam n (substEnv (lamCnt + 1) env body)
  | .app f a => .app (substEnv lamCnt env f) (substEnv lamCnt env a)
  | .delay t => .delay (substEnv lamCnt env t)
  | .force t => .force (substEnv lamCnt env t)
  | .constr tag fs => .constr tag (substEnvList lamCnt env fs)
  | .case s bs => .case (substEnv lamCnt env s) (substEnvList lamCnt env bs)
  | .error => .error
  | .builtin b => .builtin b
  | .const c => .const c
where
  substEnvList (lamCnt : Nat) (env : List NTerm) : List NTerm → List NTerm
    | [] => []
    | t :: ts => substEnv lamCnt env t :: substEnvList lamCnt env ts

def forceN : Nat → NTerm → NTerm
  | 0, t => t
  | n + 1, t => forceN n (.force t)

def applyAll (t : NTerm) : List NTerm → NTerm
  | [] => t
  | a :: as => applyAll (.app t a) as

mutual
  /-- `discharge::value_as_term` -/
  def valueAsTerm : Value → NTerm
    | .con c => .const c
    | .builtin b forces args => applyAll (forceN forces (.builtin b)) (valueAsTermList args)
    | .delay body env => substEnv 0 (valueAsTermList env) (.delay body)
    | .lam n body env => substEnv 0 (valueAsTermList env) (.lam ⟨n.text, 0⟩ body)
    | .constr tag fields => .constr tag (valueAsTermList fields)
  def valueAsTermList : List Value → List NTerm
    | [] => []
    | v :: vs => valueAsTerm v :: valueAsTermList vs
end

-- ------------------------------------------------------------------ accounting
/-- the part of `Machine` that changes: remaining budget and `unbudgeted_steps` -/
structure Acct where
  budget : ExBudget
  /-- `unbudgeted_steps`: per-kind counters, the last one is the total -/
  counts : List Nat
  deriving Repr, Inhabited

structure Config where
  costs : CostModel
  sem : Sem
  slippage : Nat
  deriving Inhabited

inductive Outcome (α : Type) where
  | ok (a : α)
  | fail        -- any `machine::Error` other than `OutOfExError`
  | oob         -- `OutOfExError`
  | panic
  | unmodelled
  deriving Inhabited

namespace Outcome
@[inline] def bind {α β} (r : Outcome α) (f : α → Outcome β) : Outcome β :=
  match r with
  | .ok a => f a
  | .fail => .fail
  | .oob => .oob
  | .panic => .panic
  | .unmodelled => .unmodelled
instance : Monad Outcome where
  pure := .ok
  bind := Outcome.bind
def ofRes {α} : Res α → Outcome α
  | .ok a => .ok a
  | .err => .fail
  | .panic => .panic
  | .unmodelled => .unmodelled
end Outcome

def initCounts : List Nat := List.replicate Gen.unbudgetedLen 0

/-- `spend_budget`: subtract, then test for a negative component -/
def spendBudget (a : Acct) (c : ExBudget) : Outcome Acct :=
  let b : ExBudget := ⟨a.budget.mem - c.mem, a.budget.cpu - c.cpu⟩
  if b.mem < 0 || b.cpu < 0 then .oob else .ok { a with budget := b }

/-- the loop of `spend_unbudgeted_steps` over `i = from .. len-2` -/
def spendLoop (cm : CostModel) : Nat → Nat → Acct → Outcome Acct
  | 0, _, a => .ok a
  | n + 1, i, a =>
    match StepKind.ofTag i with
    | none => .fail   -- `InvalidStepKind`
    | some k =>
      match cm.machineCost k with
      | none => .unmodelled
      | some c =>
        let occ : Int := (a.counts.getD i 0 : Nat)
        (spendBudget a ⟨c.mem * occ, c.cpu * occ⟩).bind fun a' =>
          spendLoop cm n (i + 1) { a' with counts := a'.counts.set i 0 }

/-- `spend_unbudgeted_steps` -/
def spendUnbudgeted (cm : CostModel) (a : Acct) : Outcome Acct :=
  (spendLoop cm (a.counts.length - 1) 0 a).bind fun a' =>
    .ok { a' with counts := a'.counts.set (a'.counts.length - 1) 0 }

/-- `step_and_maybe_spend` -/
def stepAndMaybeSpend (cfg : Config) (a : Acct) (k : StepKind) : Outcome Acct :=
  let i := k.tag
  let last := a.counts.length - 1
  let counts := (a.counts.modify i (· + 1)).modify last (· + 1)
  let a' := { a with counts := counts }
  if counts.getD last 0 ≥ cfg.slippage then spendUnbudgeted cfg.costs a' else .ok a'

def chargeStep (cfg : Config) (a : Acct) : Option StepKind → Outcome Acct
  | some k => stepAndMaybeSpend cfg a k
  | none => .ok a

-- ------------------------------------------------------------------ transitions
inductive StepResult where
  | next (a : Acct) (s : State)
  | done (a : Acct) (t : NTerm)
  | fail | oob | panic | unmodelled
  deriving Inhabited

def StepResult.ofOutcome : Outcome (Acct × State) → StepResult
  | .ok (a, s) => .next a s
  | .fail => .fail
  | .oob => .oob
  | .panic => .panic
  | .unmodelled => .unmodelled

/-- `lookup_var`: `env[len - index]` -/
def lookupVar (env : List Value) (n : NamedDeBruijn) : Outcome Value :=
  if n.index ≤ env.length then
    match env[env.length - n.index]? with
    | some v => .ok v
    | none => .fail      -- index 0: `env[len]` does not exist
  else .fail             -- `checked_sub` fails: free variable

/-- `transfer_arg_stack`: pops the arguments from the END, wrapping the context each time, so the
first field ends up innermost (applied first) -/
def transferArgStack (args : List Value) (ctx : Ctx) : Ctx :=
  args.reverse.foldl (fun c v => .awaitFunValue v :: c) ctx

/-- `eval_builtin_app`: cost, spend, call -/
def evalBuiltinApp (cfg : Config) (a : Acct) (b : Builtin) (args : List Value) : Outcome (Acct × Value) := do
  let cost ← Outcome.ofRes (builtinCost cfg.costs cfg.sem b args)
  let a' ← spendBudget a cost
  let v ← Outcome.ofRes (callBuiltin cfg.sem b args)
  pure (a', v)

def forceEvaluate (cfg : Config) (a : Acct) (ctx : Ctx) (v : Value) : Outcome (Acct × State) :=
  match v with
  | .delay body env => .ok (a, .compute ctx env body)
  | .builtin b forces args =>
    if forces < b.forceCount then
      let forces' := forces + 1
      if args.length = b.arity then do
        let (a', r) ← evalBuiltinApp cfg a b args
        pure (a', .ret ctx r)
      else .ok (a, .ret ctx (.builtin b forces' args))
    else .fail
  | _ => .fail

def applyEvaluate (cfg : Config) (a : Acct) (ctx : Ctx) (fn arg : Value) : Outcome (Acct × State) :=
  match fn with
  | .lam _ body env => .ok (a, .compute ctx (env ++ [arg]) body)
  | .builtin b forces args =>
    if args.length ≠ b.arity && !(forces < b.forceCount) then
      let args' := args ++ [arg]
      if args'.length = b.arity then do
        let (a', r) ← evalBuiltinApp cfg a b args'
        pure (a', .ret ctx r)
      else .ok (a, .ret ctx (.builtin b forces args'))
    else .fail
  | _ => .fail

/-- case on a constant (semantics E only): (tag, fields, max_branches) -/
def caseOnConst : Const → Option (Nat × List Value × Option Nat)
  | .unit => some (0, [], some 1)
  | .bool false => some (0, [], some 2)
  | .bool true => some (1, [], some 2)
  -- `to_usize()` also fails for i ≥ 2^64; no vector of branches is that long, so the outcome
  -- (`MissingCaseBranch`) is the one of the failed `branches.get(tag)` below
  | .integer i => if i < 0 then none else some (i.toNat, [], Option.none)
  | .list _ [] => some (1, [], some 2)
  | .list t (x :: xs) => some (0, [.con x, .con (.list t xs)], some 2)
  | .pair _ _ x y => some (0, [.con x, .con y], some 1)
  | _ => none

/-- `branches.len() > max_branches` -/
def tooManyBranches : Option Nat → Nat → Bool
  | some m, n => decide (n > m)
  | none, _ => false

def isCaseable : Const → Bool
  | .unit | .bool _ | .integer _ | .list _ _ | .pair _ _ _ _ => true
  | _ => false

/-- `compute` -/
def computeStep (cfg : Config) (a : Acct) (ctx : Ctx) (env : List Value) (t : NTerm) : Outcome (Acct × State) :=
  let ts := Gen.termSteps
  match t with
  | .var n => do
    let a ← chargeStep cfg a ts.var_
    let v ← lookupVar env n
    pure (a, .ret ctx v)
  | .delay body => do
    let a ← chargeStep cfg a ts.delay_
    pure (a, .ret ctx (.delay body env))
  | .lam n body => do
    let a ← chargeStep cfg a ts.lambda_
    pure (a, .ret ctx (.lam n body env))
  | .app f x => do
    let a ← chargeStep cfg a ts.apply_
    pure (a, .compute (.awaitFunTerm env x :: ctx) env f)
  | .const c => do
    let a ← chargeStep cfg a ts.constant_
    pure (a, .ret ctx (.con c))
  | .force body => do
    let a ← chargeStep cfg a ts.force_
    pure (a, .compute (.force :: ctx) env body)
  | .error => do
    let _ ← chargeStep cfg a ts.error_
    .fail
  | .builtin b => do
    let a ← chargeStep cfg a ts.builtin_
    pure (a, .ret ctx (.builtin b 0 []))
  | .constr tag fields => do
    let a ← chargeStep cfg a ts.constr_
    -- the Rust reverses `fields` and pops from the end: the fields are taken in source order
    match fields with
    | first :: rest => pure (a, .compute (.constr env tag rest [] :: ctx) env first)
    | [] => pure (a, .ret ctx (.constr tag []))
  | .case scrut branches => do
    let a ← chargeStep cfg a ts.case_
    pure (a, .compute (.cases env branches :: ctx) env scrut)

/-- `return_compute` for a non-empty context -/
def returnStep (cfg : Config) (a : Acct) (fr : Frame) (ctx : Ctx) (v : Value) : Outcome (Acct × State) :=
  match fr with
  | .force => forceEvaluate cfg a ctx v
  | .awaitFunTerm argEnv arg => .ok (a, .compute (.awaitArg v :: ctx) argEnv arg)
  | .awaitArg fn => applyEvaluate cfg a ctx fn v
  | .awaitFunValue arg => applyEvaluate cfg a ctx v arg
  | .constr env tag todo done =>
    let done' := done ++ [v]
    match todo with
    | nxt :: rest => .ok (a, .compute (.constr env tag rest done' :: ctx) env nxt)
    | [] => .ok (a, .ret ctx (.constr tag done'))
  | .cases env branches =>
    match v with
    | .constr tag fields =>
      match branches[tag]? with
      | some t => .ok (a, .compute (transferArgStack fields ctx) env t)
      | none => .fail
    | .con c =>
      if cfg.sem ≠ .E then .fail
      else
        match caseOnConst c with
        | none => .fail
        | some (tag, fields, maxBranches) =>
          if tooManyBranches maxBranches branches.length then .fail
          else
            match branches[tag]? with
            | some t => .ok (a, .compute (transferArgStack fields ctx) env t)
            | none => .fail
    | _ => .fail

/-- one iteration of the loop in `Machine::run` -/
def step (cfg : Config) (a : Acct) : State → StepResult
  | .compute ctx env t => .ofOutcome (computeStep cfg a ctx env t)
  | .ret [] v =>
    let flushed : Outcome Acct :=
      if a.counts.getD (a.counts.length - 1) 0 > 0 then spendUnbudgeted cfg.costs a else .ok a
    match flushed with
    | .ok a' => .done a' (valueAsTerm v)
    | .fail => .fail
    | .oob => .oob
    | .panic => .panic
    | .unmodelled => .unmodelled
  | .ret (fr :: ctx) v => .ofOutcome (returnStep cfg a fr ctx v)

inductive RunResult where
  | done (a : Acct) (t : NTerm)
  | fail | oob | panic | unmodelled
  | outOfFuel
  deriving Inhabited

def runFrom (cfg : Config) : Nat → Acct → State → RunResult
  | 0, _, _ => .outOfFuel
  | fuel + 1, a, s =>
    match step cfg a s with
    | .next a' s' => runFrom cfg fuel a' s'
    | .done a' t => .done a' t
    | .fail => .fail
    | .oob => .oob
    | .panic => .panic
    | .unmodelled => .unmodelled

/-- `Machine::run`: start-up cost first -/
def run (cfg : Config) (fuel : Nat) (budget : ExBudget) (t : NTerm) : RunResult :=
  match cfg.costs.machineCost .startUp with
  | none => .unmodelled
  | some c =>
    match spendBudget ⟨budget, initCounts⟩ c with
    | .ok a => runFrom cfg fuel a (.compute [] [] t)
    | .oob => .oob
    | _ => .fail

end AikenVerif
