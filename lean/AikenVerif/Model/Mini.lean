import AikenVerif.Model.Builtin
/-!
M-MINI: MiniAiken — the SOURCE semantics the properties C01 / C06 / C14 refer to.

A typed first-order-plus-lambdas fragment of Aiken: Int / Bool / ByteArray / Void / String
literals, lists, tuples, `Option` and user ADTs (constructors are tags), `let`, `if`,
`when` with patterns (constructors, literals, wildcard, list cons / nil, tuples),
short-circuit `&&` / `||`, arithmetic with floor division / modulo (abort on zero),
comparisons, structural equality, record field / tuple access, calls of (recursive)
top-level functions, lambdas and higher-order application, `fail` / `todo`, `expect`
with a pattern, `Data` up- and down-casts, `trace` with a label expression (and
arguments) and `?`, under a trace mode.

`evalSrc` is a fuelled big-step evaluator: strict, left to right, first-match.  It returns
an outcome (value | abort | outOfFuel | stuck) and the trace messages it emitted.
`stuck` is "the program is ill-typed" (it never happens for accepted programs and is what
C06 excludes); `abort` is a failure the source asks for.

Lambdas are lambda-lifted: `Expr.lam i` refers to `Program.lams[i]`, a closure value is
`(i, captured environment)`.  Values therefore contain no expressions.
Total, no Mathlib.
-/
namespace AikenVerif.Mini
open AikenVerif

/-- the source-level trace mode: `Tracing::trace_level(false)` -/
inductive Mode where
  | silent | compact | verbose
  deriving DecidableEq, Repr, Inhabited

/-- types, needed by `Data` down-casts only -/
inductive MTy where
  | int | bool | bytes | void | str | data | fn
  | list (t : MTy)
  | opt (t : MTy)
  | tup (ts : List MTy)
  | adt (i : Nat)
  deriving Repr, Inhabited

inductive Lit where
  | int (n : Int) | bool (b : Bool) | bytes (b : Bytes) | unit | str (s : String)
  deriving Repr, Inhabited, DecidableEq

/-- patterns; `[p, q, ..t]` is `cons p (cons q t)`, `[p]` is `cons p nil`, `[p, ..]` is `cons p wild` -/
inductive Pat where
  | wild
  | var (x : Nat)
  | int (n : Int)
  | bytes (b : Bytes)
  | bool (b : Bool)
  | con (tag : Nat) (ps : List Pat)
  | tuple (ps : List Pat)
  | nil
  | cons (h t : Pat)
  deriving Repr, Inhabited

inductive UnOp where
  | neg | not | len
  | field (i : Nat)
  | tupIdx (i : Nat)
  | toData
  | fromData (t : MTy)
  deriving Repr, Inhabited

inductive BinOp where
  | add | sub | mul | div | mod | lt | le | gt | ge | eq | ne | cons | append | index
  deriving Repr, Inhabited, DecidableEq

inductive Expr where
  | lit (l : Lit)
  | var (x : Nat)
  /-- `used = false`: the front end found no reference to `x` in `body`; the compiler then removes
  the binding (documented: "unused let-bindings are now fully removed from generated code") and `e`
  is NOT evaluated -/
  | letE (x : Nat) (used : Bool) (e body : Expr)
  | ite (c t e : Expr)
  | and (a b : Expr)
  | or (a b : Expr)
  | un (op : UnOp) (a : Expr)
  | bin (op : BinOp) (a b : Expr)
  | tuple (es : List Expr)
  | list (es : List Expr)
  | con (tag : Nat) (es : List Expr)
  | call (f : Nat) (es : List Expr)
  | lam (i : Nat)
  | app (f : Expr) (es : List Expr)
  | fnref (f : Nat)
  | when (scrut : Expr) (clauses : List (Pat × Expr))
  | fail (todo : Bool)
  | expect (p : Pat) (e body : Expr)
  | trace (label : Expr) (args : List Expr) (body : Expr)
  | traceIfFalse (e : Expr)
  deriving Repr, Inhabited

inductive Val where
  | int (n : Int)
  | bool (b : Bool)
  | bytes (b : Bytes)
  | unit
  | str (s : String)
  | list (vs : List Val)
  | tuple (vs : List Val)
  | con (tag : Nat) (vs : List Val)
  | clo (i : Nat) (env : List (Nat × Val))
  | fn (f : Nat)
  | data (d : Data)
  deriving Inhabited

abbrev Env := List (Nat × Val)

structure Program where
  /-- per ADT, per constructor, the field types (for `Data` down-casts) -/
  adts : List (List (List MTy))
  /-- top-level functions: parameters and body -/
  fns : List (List Nat × Expr)
  /-- lambda-lifted anonymous functions: parameters and body -/
  lams : List (List Nat × Expr)
  deriving Inhabited

inductive Outcome (α : Type) where
  | val (a : α)
  /-- a failure the source asks for: `fail`, `todo`, failed `expect` / cast, partial builtin -/
  | abort
  | outOfFuel
  /-- only ill-typed programs get here -/
  | stuck
  deriving Inhabited, Repr

/-- outcome and emitted trace messages -/
abbrev M (α : Type) := Outcome α × List Val

@[inline] def ret {α} (a : α) : M α := (.val a, [])
@[inline] def oof {α} : M α := (.outOfFuel, [])
@[inline] def abortM {α} : M α := (.abort, [])
@[inline] def stuckM {α} : M α := (.stuck, [])
@[inline] def emit (v : Val) : M Unit := (.val (), [v])
@[inline] def lift {α} (o : Outcome α) : M α := (o, [])

def bind {α β} (x : M α) (f : α → M β) : M β :=
  match x with
  | (.val a, l) => ((f a).1, l ++ (f a).2)
  | (.abort, l) => (.abort, l)
  | (.outOfFuel, l) => (.outOfFuel, l)
  | (.stuck, l) => (.stuck, l)

def lookup (env : Env) (x : Nat) : Option Val :=
  match env with
  | [] => none
  | (y, v) :: rest => if x = y then some v else lookup rest x

def litVal : Lit → Val
  | .int n => .int n
  | .bool b => .bool b
  | .bytes b => .bytes b
  | .unit => .unit
  | .str s => .str s

-- ---------------------------------------------------------------- pattern matching
mutual
  /-- bindings of a successful match (newest first), `none` when the value does not match -/
  def matchPat : Pat → Val → Option Env
    | .wild, _ => some []
    | .var x, v => some [(x, v)]
    | .int n, .int m => if n = m then some [] else none
    | .bytes b, .bytes c => if b = c then some [] else none
    | .bool b, .bool c => if b = c then some [] else none
    | .con tag ps, .con tag' vs => if tag = tag' then matchPats ps vs else none
    | .tuple ps, .tuple vs => matchPats ps vs
    | .nil, .list [] => some []
    | .cons h t, .list (v :: vs) =>
      match matchPat h v with
      | some b1 =>
        match matchPat t (.list vs) with
        | some b2 => some (b2 ++ b1)
        | none => none
      | none => none
    | _, _ => none
  def matchPats : List Pat → List Val → Option Env
    | [], [] => some []
    | p :: ps, v :: vs =>
      match matchPat p v with
      | some b1 =>
        match matchPats ps vs with
        | some b2 => some (b2 ++ b1)
        | none => none
      | none => none
    | _, _ => none
end

/-- the clause a `when` selects: the FIRST one whose pattern matches -/
def firstMatch (v : Val) : List (Pat × Expr) → Option (Env × Expr)
  | [] => none
  | (p, b) :: rest =>
    match matchPat p v with
    | some bs => some (bs, b)
    | none => firstMatch v rest

-- ---------------------------------------------------------------- structural equality, Data casts
mutual
  /-- `==` (defined on serialisable values; a function is never equal to anything) -/
  def Val.beq : Val → Val → Bool
    | .int a, .int b => a == b
    | .bool a, .bool b => a == b
    | .bytes a, .bytes b => a == b
    | .unit, .unit => true
    | .str a, .str b => a == b
    | .list a, .list b => Val.beqList a b
    | .tuple a, .tuple b => Val.beqList a b
    | .con t a, .con t' b => t == t' && Val.beqList a b
    | .data a, .data b => Data.beq a b
    | _, _ => false
  def Val.beqList : List Val → List Val → Bool
    | [], [] => true
    | a :: as, b :: bs => Val.beq a b && Val.beqList as bs
    | _, _ => false
end

mutual
  /-- up-cast `let d: Data = v`: the encoding every Aiken value has (`None` for functions) -/
  def toData : Val → Option Data
    | .int n => some (.int n)
    | .bytes b => some (.bytes b)
    | .str s => some (.bytes s.toUTF8.toList)
    | .bool b => some (.constr (if b then 1 else 0) [])
    | .unit => some (.constr 0 [])
    | .list vs => (toDataList vs).map .list
    | .tuple vs => (toDataList vs).map .list
    | .con tag vs => (toDataList vs).map (.constr tag)
    | .data d => some d
    | .clo _ _ => none
    | .fn _ => none
  def toDataList : List Val → Option (List Data)
    | [] => some []
    | v :: vs =>
      match toData v, toDataList vs with
      | some d, some ds => some (d :: ds)
      | _, _ => none
end

mutual
  /-- down-cast `expect v: τ = d`: the value of type τ that `d` encodes, `none` when it encodes none -/
  def fromData (adts : List (List (List MTy))) : MTy → Data → Option Val
    | .int, .int n => some (.int n)
    | .bytes, .bytes b => some (.bytes b)
    | .data, d => some (.data d)
    | .bool, .constr tag [] => if tag = 0 then some (.bool false) else if tag = 1 then some (.bool true) else none
    | .void, .constr tag [] => if tag = 0 then some .unit else none
    | .list t, .list ds => (fromDataAll adts t ds).map .list
    | .tup ts, .list ds => (fromDataZip adts ts ds).map .tuple
    | .opt t, .constr tag fs =>
      if tag = 0 then (fromDataZip adts [t] fs).map (.con 0)
      else if tag = 1 then (match fs with | [] => some (.con 1 []) | _ => none)
      else none
    | .adt i, .constr tag fs =>
      match adts[i]? with
      | some ctors =>
        match ctors[tag]? with
        | some tys => (fromDataZip adts tys fs).map (.con tag)
        | none => none
      | none => none
    | _, _ => none
  def fromDataAll (adts : List (List (List MTy))) (t : MTy) : List Data → Option (List Val)
    | [] => some []
    | d :: ds =>
      match fromData adts t d, fromDataAll adts t ds with
      | some v, some vs => some (v :: vs)
      | _, _ => none
  def fromDataZip (adts : List (List (List MTy))) : List MTy → List Data → Option (List Val)
    | [], [] => some []
    | t :: ts, d :: ds =>
      match fromData adts t d, fromDataZip adts ts ds with
      | some v, some vs => some (v :: vs)
      | _, _ => none
    | _, _ => none
end

-- ---------------------------------------------------------------- strict operators
def unOp (P : Program) : UnOp → Val → Outcome Val
  | .neg, .int a => .val (.int (-a))
  | .not, .bool b => .val (.bool (!b))
  | .len, .bytes b => .val (.int b.length)
  | .field i, .con _ vs =>
    match vs[i]? with
    | some v => .val v
    | none => .stuck
  | .tupIdx i, .tuple vs =>
    match vs[i]? with
    | some v => .val v
    | none => .stuck
  | .toData, v =>
    match toData v with
    | some d => .val (.data d)
    | none => .stuck
  | .fromData t, .data d =>
    match fromData P.adts t d with
    | some v => .val v
    | none => .abort
  | _, _ => .stuck

def binOp : BinOp → Val → Val → Outcome Val
  | .add, .int a, .int b => .val (.int (a + b))
  | .sub, .int a, .int b => .val (.int (a - b))
  | .mul, .int a, .int b => .val (.int (a * b))
  | .div, .int a, .int b => if b = 0 then .abort else .val (.int (a.fdiv b))
  | .mod, .int a, .int b => if b = 0 then .abort else .val (.int (a.fmod b))
  | .lt, .int a, .int b => .val (.bool (a < b))
  | .le, .int a, .int b => .val (.bool (a ≤ b))
  | .gt, .int a, .int b => .val (.bool (a > b))
  | .ge, .int a, .int b => .val (.bool (a ≥ b))
  | .eq, a, b => .val (.bool (Val.beq a b))
  | .ne, a, b => .val (.bool (!Val.beq a b))
  | .cons, v, .list vs => .val (.list (v :: vs))
  | .append, .bytes a, .bytes b => .val (.bytes (a ++ b))
  | .index, .bytes a, .int i =>
    if 0 ≤ i then
      match a[i.toNat]? with
      | some x => .val (.int x.toNat)
      | none => .abort
    else .abort
  | _, _, _ => .stuck

/-- bind parameters to arguments (arity mismatch is ill-typed) -/
def bindParams : List Nat → List Val → Option Env
  | [], [] => some []
  | x :: xs, v :: vs => (bindParams xs vs).map ((x, v) :: ·)
  | _, _ => none

-- ---------------------------------------------------------------- the evaluator
mutual
  /-- fuelled big-step source semantics (fuel bounds the evaluation depth) -/
  def eval (P : Program) (m : Mode) : Nat → Env → Expr → M Val
    | 0, _, _ => oof
    | n + 1, env, e =>
      match e with
      | .lit l => ret (litVal l)
      | .var x =>
        match lookup env x with
        | some v => ret v
        | none => stuckM
      | .letE x used a b =>
        if used then bind (eval P m n env a) fun v => eval P m n ((x, v) :: env) b
        else eval P m n env b
      | .ite c t f =>
        bind (eval P m n env c) fun
          | .bool true => eval P m n env t
          | .bool false => eval P m n env f
          | _ => stuckM
      | .and a b =>
        bind (eval P m n env a) fun
          | .bool true => eval P m n env b
          | .bool false => ret (.bool false)
          | _ => stuckM
      | .or a b =>
        bind (eval P m n env a) fun
          | .bool true => ret (.bool true)
          | .bool false => eval P m n env b
          | _ => stuckM
      | .un op a => bind (eval P m n env a) fun v => lift (unOp P op v)
      | .bin op a b => bind (eval P m n env a) fun x => bind (eval P m n env b) fun y => lift (binOp op x y)
      | .tuple es => bind (evalList P m n env es) fun vs => ret (.tuple vs)
      | .list es => bind (evalList P m n env es) fun vs => ret (.list vs)
      | .con tag es => bind (evalList P m n env es) fun vs => ret (.con tag vs)
      | .call f es =>
        bind (evalList P m n env es) fun vs =>
          match P.fns[f]? with
          | some (xs, body) =>
            match bindParams xs vs with
            | some env' => eval P m n env' body
            | none => stuckM
          | none => stuckM
      | .lam i => ret (.clo i env)
      | .app f es =>
        bind (eval P m n env f) fun fv =>
          bind (evalList P m n env es) fun vs =>
            match fv with
            | .clo i cenv =>
              match P.lams[i]? with
              | some (xs, body) =>
                match bindParams xs vs with
                | some env' => eval P m n (env' ++ cenv) body
                | none => stuckM
              | none => stuckM
            | .fn g =>
              match P.fns[g]? with
              | some (xs, body) =>
                match bindParams xs vs with
                | some env' => eval P m n env' body
                | none => stuckM
              | none => stuckM
            | _ => stuckM
      | .fnref f => ret (.fn f)
      | .when s cs =>
        bind (eval P m n env s) fun v =>
          match firstMatch v cs with
          | some (bs, b) => eval P m n (bs ++ env) b
          | none => stuckM
      | .fail _ => abortM
      | .expect p a b =>
        bind (eval P m n env a) fun v =>
          match matchPat p v with
          | some bs => eval P m n (bs ++ env) b
          | none => abortM
      | .trace label args body =>
        match m with
        | .silent => eval P m n env body
        | .compact =>
          bind (eval P m n env label) fun lv => bind (emit lv) fun _ => eval P m n env body
        | .verbose =>
          bind (eval P m n env label) fun lv =>
            bind (evalList P m n env args) fun avs =>
              bind (emit (.tuple (lv :: avs))) fun _ => eval P m n env body
      | .traceIfFalse a =>
        bind (eval P m n env a) fun v =>
          match m, v with
          | .verbose, .bool false => bind (emit (.str "? False")) fun _ => ret v
          | _, _ => ret v
  def evalList (P : Program) (m : Mode) : Nat → Env → List Expr → M (List Val)
    | 0, _, _ => oof
    | _ + 1, _, [] => ret []
    | n + 1, env, e :: es =>
      bind (eval P m n env e) fun v => bind (evalList P m n env es) fun vs => ret (v :: vs)
end

/-- `evalSrc mode fuel env e`: the source semantics of an expression of program `P` -/
def evalSrc (P : Program) (m : Mode) (fuel : Nat) (env : Env) (e : Expr) : M Val := eval P m fuel env e

/-- the observable C01 / C14 compare: value or abort (trace messages are not part of it) -/
def result {α} (r : M α) : Outcome α := r.1

/-- calling top-level function `f` on argument values -/
def runCall (P : Program) (m : Mode) (fuel : Nat) (f : Nat) (args : List Val) : M Val :=
  match P.fns[f]? with
  | some (xs, body) =>
    match bindParams xs args with
    | some env => evalSrc P m fuel env body
    | none => stuckM
  | none => stuckM

-- ---------------------------------------------------------------- `LabelsTotal`
/-- a trace label / argument that cannot fail or diverge: a literal -/
def isLit : Expr → Bool
  | .lit _ => true
  | _ => false

mutual
  /-- every trace label and trace argument of the expression is a literal -/
  def labelsTotal : Expr → Bool
    | .lit _ | .var _ | .lam _ | .fnref _ | .fail _ => true
    | .letE _ _ a b => labelsTotal a && labelsTotal b
    | .ite c t f => labelsTotal c && labelsTotal t && labelsTotal f
    | .and a b | .or a b | .bin _ a b => labelsTotal a && labelsTotal b
    | .un _ a | .traceIfFalse a => labelsTotal a
    | .tuple es | .list es | .con _ es | .call _ es => labelsTotalList es
    | .app f es => labelsTotal f && labelsTotalList es
    | .when s cs => labelsTotal s && labelsTotalClauses cs
    | .expect _ a b => labelsTotal a && labelsTotal b
    | .trace l args b => isLit l && args.all isLit && labelsTotal b
  def labelsTotalList : List Expr → Bool
    | [] => true
    | e :: es => labelsTotal e && labelsTotalList es
  def labelsTotalClauses : List (Pat × Expr) → Bool
    | [] => true
    | (_, b) :: cs => labelsTotal b && labelsTotalClauses cs
end

/-- all function and lambda bodies of the program have total labels -/
def Program.labelsTotal (P : Program) : Bool :=
  P.fns.all (fun f => Mini.labelsTotal f.2) && P.lams.all (fun f => Mini.labelsTotal f.2)

end AikenVerif.Mini
