import AikenVerif.Gen.Prec
/-!
# M-PREC — operator precedence: the formatter's parenthesisation and the parser's tower

Expression trees over the binary operators, unary `!`/`-`, pipelines and atoms.

* `print`  — impl model of `Formatter::{bin_op, operator_side, un_op, wrap_unary_op, pipeline}`
  (crates/aiken-lang/src/format.rs) down to the token level: which operands get
  parentheses.  Layout (line breaks, indentation) is not modelled.
* `parse`  — impl model of `parser::expr::pure_expression` (crates/aiken-lang/src/parser/expr/mod.rs):
  `chained`/block (atom or parenthesised expression) < unary prefix operators <
  the binary levels of the generated tower (`foldl` levels and right-reduced levels) < pipeline.

Representation of `UntypedExpr::PipeLine { expressions }`: the parser never builds a
pipeline whose first stage is itself a pipeline (its `foldl` pushes onto an existing
`PipeLine`), and never a one-stage pipeline.  `pipe l r` is that `foldl` step: when `l` is a
`pipe` it stands for "the same pipeline with `r` pushed", otherwise for `PipeLine [l, r]`.
So `pipe (pipe a b) c` is `PipeLine [a, b, c]` and `pipe a (pipe b c)` is `PipeLine [a, PipeLine [b, c]]`;
every `Expr` denotes exactly one parser-normal `UntypedExpr` and vice versa (`one_liner`,
a layout flag, is not represented).

Tokens: `Tok.op b` is the lexer token of the binary operator `b`; unary minus is written
with the token of `BinOp.subInt` because the lexer produces the same `Token::Minus` for both
(`C13.negate_shares_minus_token`).
No Mathlib.
-/
namespace AikenVerif.Prec
open AikenVerif.Gen.Prec

inductive Expr where
  | atom (n : Nat)
  | un (op : UnOp) (e : Expr)
  | bin (op : BinOp) (l r : Expr)
  | pipe (l r : Expr)
  deriving DecidableEq, Repr, Inhabited

inductive Tok where
  | atom (n : Nat)
  | lparen
  | rparen
  | bang
  | op (b : BinOp)
  | pipe
  deriving DecidableEq, Repr, Inhabited

namespace Expr

def size : Expr → Nat
  | atom _ => 1
  | un _ e => e.size + 1
  | bin _ l r => l.size + r.size + 1
  | pipe l r => l.size + r.size + 1

/-- `UntypedExpr::binop_precedence` -/
def binopPrecedence : Expr → Nat
  | bin op _ _ => op.precedence
  | pipe _ _ => pipePrecedence
  | _ => otherPrecedence

def isPipe : Expr → Bool
  | pipe _ _ => true
  | _ => false

/-- not one of the forms `wrap_unary_op` parenthesises (PipeLine | BinOp | UnOp) -/
def isAtom : Expr → Bool
  | atom _ => true
  | _ => false

end Expr

/-! ## printer -/

def paren (ts : List Tok) : List Tok := Tok.lparen :: (ts ++ [Tok.rparen])

/-- `Formatter::operator_side(doc, op, side)` -/
def operatorSide (op side : Nat) (doc : List Tok) : List Tok :=
  if op > side then paren doc else doc

def unTok : UnOp → Tok
  | .not => .bang
  | .negate => .op .subInt

/-- the formatter (`Formatter::expr` restricted to BinOp / UnOp / PipeLine / atoms) -/
def print : Expr → List Tok
  | .atom n => [.atom n]
  -- un_op: "!"/"-" ++ wrap_unary_op(value); wrap_unary_op parenthesises PipeLine | BinOp | UnOp
  | .un op e =>
    unTok op :: (if e.isAtom then print e else paren (print e))
  -- bin_op
  | .bin op l r =>
    let p := op.precedence
    let lp := l.binopPrecedence
    let rp := r.binopPrecedence
    operatorSide p (if op.mirrored then lp - 1 else lp) (print l)
      ++ [.op op]
      ++ operatorSide p (if op.mirrored then rp else rp - 1) (print r)
  -- pipeline: first stage with threshold `pipeFirstThreshold`, every later stage with `pipeRestThreshold`
  | .pipe l r =>
    (match l with
      | .pipe _ _ => print l
      | _ => operatorSide pipeFirstThreshold l.binopPrecedence (print l))
      ++ [.pipe]
      ++ operatorSide pipeRestThreshold r.binopPrecedence (print r)

/-! ## parser -/

abbrev PResult := Option (Expr × List Tok)
abbrev Parser := List Tok → PResult

/-- `chained`/`block` restricted to: a variable/literal, or `( sequence )`; `rec` is the
    whole-expression parser used inside parentheses -/
def atomP (rec : Parser) : Parser
  | .atom n :: ts => some (.atom n, ts)
  | .lparen :: ts =>
    match rec ts with
    | some (e, .rparen :: ts') => some (e, ts')
    | _ => none
  | _ => none

/-- `op.repeated().then(chained).foldr(UnOp)` -/
def unaryP (atom : Parser) : Parser
  | .bang :: ts =>
    match unaryP atom ts with
    | some (e, r) => some (.un .not e, r)
    | none => none
  | .op b :: ts =>
    if b = .subInt then
      match unaryP atom ts with
      | some (e, r) => some (.un .negate e, r)
      | none => none
    else none
  | ts => atom ts

/-- `sep.then(next).repeated()`: collects `(separator, operand)` items; stops (rewinding)
    at the first position where `sep.then(next)` does not parse.  `g` bounds the number of items. -/
def tailP {σ : Type} (sep : Tok → Option σ) (next : Parser) : Nat → List Tok → List (σ × Expr) × List Tok
  | 0, ts => ([], ts)
  | _ + 1, [] => ([], [])
  | g + 1, t :: ts =>
    match sep t with
    | none => ([], t :: ts)
    | some s =>
      match next ts with
      | none => ([], t :: ts)
      | some (e, ts') =>
        let (items, rest) := tailP sep next g ts'
        ((s, e) :: items, rest)

/-- `.foldl(|a, (op, b)| BinOp { name: op, left: a, right: b })` -/
def combineLeft (a : Expr) (items : List (BinOp × Expr)) : Expr :=
  items.foldl (fun acc it => .bin it.1 acc it.2) a

/-- `xs.into_iter().reduce(|right, left| BinOp { left, right })` on the reversed operand list:
    `a op₁ b op₂ c` ↦ `a op₁ (b op₂ c)` -/
def combineRight (a : Expr) : List (BinOp × Expr) → Expr
  | [] => a
  | (op, b) :: more => .bin op a (combineRight b more)

/-- separator of binary level `lvl`: an operator token whose generated tower level is `lvl` -/
def levelSep (lvl : Nat) : Tok → Option BinOp
  | .op b => if b.tower = lvl then some b else none
  | _ => none

/-- one binary level of the tower built on `next` -/
def levelP (next : Parser) (lvl : Nat) : Parser := fun ts =>
  match next ts with
  | none => none
  | some (a, ts') =>
    let (items, rest) := tailP (levelSep lvl) next ts'.length ts'
    some ((if levelRight lvl then combineRight a items else combineLeft a items), rest)

/-- `towerP rec h`: `h = 0` is `unary`; `h + 1` is tower level `h` built on `towerP rec h` -/
def towerP (rec : Parser) : Nat → Parser
  | 0 => unaryP (atomP rec)
  | h + 1 => levelP (towerP rec h) h

def pipeSep : Tok → Option Unit
  | .pipe => some ()
  | _ => none

/-- pipeline level: `disjunction.then((|>).then(disjunction).repeated()).foldl(push)` -/
def pipeP (next : Parser) : Parser := fun ts =>
  match next ts with
  | none => none
  | some (a, ts') =>
    let (items, rest) := tailP pipeSep next ts'.length ts'
    some (items.foldl (fun acc it => .pipe acc it.2) a, rest)

/-- whole expression; the fuel bounds the nesting depth of parentheses -/
def exprP : Nat → Parser
  | 0 => fun _ => none
  | f + 1 => pipeP (towerP (exprP f) towerLevels)

/-- parse a complete token list (every token consumed); parentheses nest at most `ts.length` deep -/
def parse (ts : List Tok) : Option Expr :=
  match exprP (ts.length + 1) ts with
  | some (e, []) => some e
  | _ => none

end AikenVerif.Prec
