import AikenVerif.Model.Match
/-!
`Matrix::is_useful` of exhaustive.rs with its partial operations kept as explicit outcomes:
`unreachable!("constructors and literals should never align …")` in
`specialize_row_by_ctor` / `specialize_row_by_literal`, and `self.0[0]` (`head()`) on an empty
row (in the two specialisations and in `collect_ctors`).  `Out.fuel` only marks that the
structural fuel ran out; `Lemmas/MatchPanic.lean` shows that on well-typed inputs the result is
`ok (isUseful M v)` for every sufficiently large fuel — i.e. the Rust neither panics nor diverges.
-/
namespace AikenVerif.Match

inductive Out (α : Type) where
  | ok (a : α)
  | panic
  | fuel
  deriving Repr

def specRowCtorX (c : Nat) (arity : Nat) : Row → Out (Option Row)
  | .ctor c' _ args :: rest => .ok (if c' = c ∧ args.length = arity then some (args ++ rest) else none)
  | .wild :: rest => .ok (some (wilds arity ++ rest))
  | .lit _ :: _ => .panic
  | [] => .panic

def specRowLitX (l : Lit) : Row → Out (Option Row)
  | .lit l' :: rest => .ok (if l' = l then some rest else none)
  | .wild :: rest => .ok (some rest)
  | .ctor _ _ _ :: _ => .panic
  | [] => .panic

/-- `iter().filter_map(f).collect()` where `f` may panic -/
def filterMapX (f : Row → Out (Option Row)) : Matrix → Out Matrix
  | [] => .ok []
  | r :: M =>
    match f r with
    | .ok none => filterMapX f M
    | .ok (some r') =>
      (match filterMapX f M with
       | .ok M' => .ok (r' :: M')
       | .panic => .panic
       | .fuel => .fuel)
    | .panic => .panic
    | .fuel => .fuel

/-- `collect_ctors` evaluates `head()` on every row -/
def allNonEmpty (M : Matrix) : Bool := M.all (fun r => !r.isEmpty)

/-- `Iterator::any` (short-circuit) over outcomes -/
def anyX (f : Nat × Nat → Out Bool) : Alts → Out Bool
  | [] => .ok false
  | a :: as =>
    match f a with
    | .ok true => .ok true
    | .ok false => anyX f as
    | .panic => .panic
    | .fuel => .fuel

def isUsefulX : Nat → Matrix → Row → Out Bool
  | 0, _, _ => .fuel
  | fuel + 1, M, v =>
    if M.isEmpty then .ok true
    else
      match v with
      | [] => .ok false
      | .ctor c _ args :: rest =>
        (match filterMapX (specRowCtorX c args.length) M with
         | .ok M' => isUsefulX fuel M' (args ++ rest)
         | .panic => .panic
         | .fuel => .fuel)
      | .wild :: rest =>
        if !allNonEmpty M then .panic
        else
          (match isComplete M with
           | none => isUsefulX fuel (specWild M) rest
           | some alts =>
             anyX (fun alt =>
               match filterMapX (specRowCtorX alt.1 alt.2) M with
               | .ok M' => isUsefulX fuel M' (wilds alt.2 ++ rest)
               | .panic => .panic
               | .fuel => .fuel) alts)
      | .lit l :: rest =>
        (match filterMapX (specRowLitX l) M with
         | .ok M' => isUsefulX fuel M' rest
         | .panic => .panic
         | .fuel => .fuel)

end AikenVerif.Match
