/-!
# M-ISO — non-atomic reference counts under interleaving (C17)

`Rc<T>` keeps its strong count in a plain (non-atomic) machine word: a clone is
"load the count, store count+1", a drop is "load the count, store count-1".  If
two threads do that on the same allocation, one update can be lost.  This file
is the smallest model in which that can be said and proved:

* memory is a map `Addr → Nat` (the strong count of every allocation);
* a worker (one running test) is a list of operations `inc a` / `dec a`; each
  operation takes **two** micro-steps: `read` copies `mem a` into the worker's
  private register, `write` stores `reg ± 1` back;
* an execution is any sequence of micro-steps, each taken by any worker that
  still has work (`Steps`, the reflexive-transitive closure of `Step`): all
  interleavings, any number of workers.

The second half is the model of an indexed parallel `map … collect` (each task
writes the slot carrying its own index) and the executable audit the driver
runs on the address sets measured on the real heap (`isoCheck`).

No Mathlib, no Batteries: this file is linked into the native driver.
-/
namespace AikenVerif.Iso

abbrev Addr := Nat
/-- strong counts of all allocations -/
abbrev Mem := Addr → Nat

inductive Op where
  | inc (a : Addr)
  | dec (a : Addr)
  deriving Repr, DecidableEq

def Op.addr : Op → Addr
  | .inc a => a
  | .dec a => a

/-- the value written back, given the value that was read -/
def Op.apply : Op → Nat → Nat
  | .inc _, v => v + 1
  | .dec _, v => v - 1

def update (m : Mem) (a : Addr) (v : Nat) : Mem := fun x => if x = a then v else m x

/-- an operation done atomically (what a sequential run does) -/
def stepSeq (m : Mem) (o : Op) : Mem := update m o.addr (o.apply (m o.addr))

/-- a whole list of operations, one after the other, nobody else running -/
def runSeq (m : Mem) (ops : List Op) : Mem := ops.foldl stepSeq m

/-- a worker: its private register (`some v` = it has read `v` and not yet
written back) and the operations it still has to do -/
structure Worker where
  reg : Option Nat
  ops : List Op
  deriving Repr

def Worker.fresh (ops : List Op) : Worker := ⟨none, ops⟩
def Worker.addrs (w : Worker) : List Addr := w.ops.map Op.addr
def Worker.done (w : Worker) : Prop := w.ops = []

/-- one micro-step of one worker -/
inductive WStep : Mem → Worker → Mem → Worker → Prop where
  | read (m : Mem) (o : Op) (rest : List Op) :
      WStep m ⟨none, o :: rest⟩ m ⟨some (m o.addr), o :: rest⟩
  | write (m : Mem) (v : Nat) (o : Op) (rest : List Op) :
      WStep m ⟨some v, o :: rest⟩ (update m o.addr (o.apply v)) ⟨none, rest⟩

structure Config where
  mem : Mem
  workers : List Worker

/-- one micro-step of the system: any one worker moves -/
inductive Step : Config → Config → Prop where
  | mk (m m' : Mem) (pre post : List Worker) (w w' : Worker) :
      WStep m w m' w' → Step ⟨m, pre ++ w :: post⟩ ⟨m', pre ++ w' :: post⟩

/-- any number of micro-steps in any order: every interleaving -/
inductive Steps : Config → Config → Prop where
  | refl (c : Config) : Steps c c
  | tail (c c' c'' : Config) : Steps c c' → Step c' c'' → Steps c c''

def Config.allDone (c : Config) : Prop := ∀ w ∈ c.workers, w.ops = []

def initial (m : Mem) (ws : List (List Op)) : Config := ⟨m, ws.map Worker.fresh⟩

/-- no address is used by two different workers -/
def Disjoint (ws : List Worker) : Prop :=
  ws.Pairwise (fun w₁ w₂ => ∀ a, a ∈ w₁.addrs → a ∈ w₂.addrs → False)

/-- every pending read is still up to date -/
def RegsFresh (c : Config) : Prop :=
  ∀ w ∈ c.workers, ∀ v, w.reg = some v → ∃ o rest, w.ops = o :: rest ∧ v = c.mem o.addr

/-! ## indexed parallel map -/

/-- task `i` finishes: it stores its result in slot `i` (an index without a task does nothing) -/
def writeSlot {α β : Type} (f : α → β) (tests : List α) (res : List (Option β)) (i : Nat) :
    List (Option β) :=
  match tests[i]? with
  | some t => res.set i (some (f t))
  | none => res

/-- `sched` is the order in which the tasks happen to finish -/
def collect {α β : Type} (f : α → β) (tests : List α) (sched : List Nat) : List (Option β) :=
  sched.foldl (writeSlot f tests) (List.replicate tests.length none)

/-! ## the audit run on the measured heap -/

/-- one allocation seen while walking one test: address, strong count read
from the allocation, number of references to it found inside the same test -/
structure Alloc where
  addr : Addr
  strong : Nat
  refs : Nat
  deriving Repr

/-- what the harness sends for one test: every allocation once -/
abbrev TestHeap := List Alloc

def TestHeap.addrs (t : TestHeap) : List Addr := t.map Alloc.addr

/-- strictly increasing -/
def strictSorted : List Nat → Bool
  | [] => true
  | [_] => true
  | a :: b :: rest => a < b && strictSorted (b :: rest)

/-- all addresses of all tests, globally without repetition (decided by sorting) -/
def allDistinct (ts : List TestHeap) : Bool :=
  strictSorted ((ts.flatMap TestHeap.addrs).mergeSort (fun a b => a ≤ b))

/-- every holder of every allocation is inside the same test -/
def selfContained (t : TestHeap) : Bool := t.all (fun al => al.strong == al.refs)

def isoCheck (ts : List TestHeap) : Bool := allDistinct ts && ts.all selfContained

/-- element-wise relation between two lists of the same length (core has no `Forall₂`) -/
inductive Forall2 {α β : Type} (R : α → β → Prop) : List α → List β → Prop where
  | nil : Forall2 R [] []
  | cons {a : α} {b : β} {as : List α} {bs : List β} : R a b → Forall2 R as bs → Forall2 R (a :: as) (b :: bs)

/-- first address (if any) that occurs in both lists — only used for the diagnostic -/
def firstShared (seen : List Addr) (t : List Addr) : Option Addr := t.find? (fun a => seen.contains a)

end AikenVerif.Iso
