import AikenVerif.Model.Value
import AikenVerif.Gen.Cost
/-!
M-COST: `machine/cost_model.rs` — costing-function shapes, argument size measures
(`value.rs::to_ex_mem*`, `cost_as_size`, literal and list-length measures) and
`BuiltinCosts::to_ex_budget` driven by the GENERATED table `Gen.costSpec`.
Arithmetic is over `Int` (no overflow) except where the Rust saturates.
-/
namespace AikenVerif
open Gen (Builtin StepKind Measure Pre CostSpec)

structure ExBudget where
  mem : Int
  cpu : Int
  deriving DecidableEq, Repr, Inhabited

def i64Max : Int := 9223372036854775807
def i64Min : Int := -9223372036854775808
/-- clamp to the `i64` range (`saturating_*`) -/
def sat (x : Int) : Int := if x > i64Max then i64Max else if x < i64Min then i64Min else x

/-- `OneArgument` -/
inductive Cost1 where
  | const (c : Int)
  | linear (intercept slope : Int)
  | quadratic (c0 c1 c2 : Int)
  deriving Repr, Inhabited

def Cost1.cost : Cost1 → Int → Int
  | .const c, _ => c
  | .linear i s, x => s * x + i
  | .quadratic c0 c1 c2, x => c0 + c1 * x + c2 * x * x

/-- `TwoArguments` -/
inductive Cost2 where
  | const (c : Int)
  | linearInX (intercept slope : Int)
  | linearInY (intercept slope : Int)
  | linearInY2 (intercept slope minimum : Int)
  | linearInXAndY (intercept slope1 slope2 : Int)
  | withInteraction (c00 c10 c01 c11 : Int)
  | addedSizes (intercept slope : Int)
  | subtractedSizes (intercept slope minimum : Int)
  | multipliedSizes (intercept slope : Int)
  | minSize (intercept slope : Int)
  | maxSize (intercept slope : Int)
  | linearOnDiagonal (constant intercept slope : Int)
  | constAboveDiagonal (constant : Int) (model : Cost2)
  | aboveAndBelowDiagonal (constant : Int) (model : Cost2)
  | constBelowDiagonal (constant : Int) (model : Cost2)
  | quadraticInY (c0 c1 c2 : Int)
  | quadraticInXAndY (minimum c00 c10 c01 c20 c11 c02 : Int)
  | constAboveDiagonalIntoQuadratic (constant minimum c00 c10 c01 c20 c11 c02 : Int)
  deriving Repr, Inhabited

def quadXY (minimum c00 c10 c01 c20 c11 c02 x y : Int) : Int :=
  max minimum (c00 + c10 * x + c01 * y + c20 * x * x + c11 * x * y + c02 * y * y)

def Cost2.cost : Cost2 → Int → Int → Int
  | .const c, _, _ => c
  | .linearInX i s, x, _ => sat (sat (s * x) + i)
  | .linearInY i s, _, y => sat (sat (s * y) + i)
  | .linearInY2 i s _, _, y => sat (sat (s * y) + i)
  | .linearInXAndY i s1 s2, x, y => s1 * x + s2 * y + i
  | .withInteraction c00 c10 c01 c11, x, y => c00 + c10 * x + c01 * y + c11 * x * y
  | .addedSizes i s, x, y => s * (x + y) + i
  | .subtractedSizes i s m, x, y => s * (max m (x - y)) + i
  | .multipliedSizes i s, x, y => s * (x * y) + i
  | .minSize i s, x, y => s * (min x y) + i
  | .maxSize i s, x, y => s * (max x y) + i
  | .linearOnDiagonal c i s, x, y => if x = y then x * s + i else c
  | .constAboveDiagonal c m, x, y => if x < y then c else m.cost x y
  | .aboveAndBelowDiagonal _ m, x, y => m.cost (max x y) (min x y)
  | .constBelowDiagonal c m, x, y => if x > y then c else m.cost x y
  | .quadraticInY c0 c1 c2, _, y => c0 + c1 * y + c2 * y * y
  | .quadraticInXAndY mn c00 c10 c01 c20 c11 c02, x, y => quadXY mn c00 c10 c01 c20 c11 c02 x y
  | .constAboveDiagonalIntoQuadratic c mn c00 c10 c01 c20 c11 c02, x, y =>
    if x < y then c else quadXY mn c00 c10 c01 c20 c11 c02 x y

/-- `ThreeArguments` -/
inductive Cost3 where
  | const (c : Int)
  | addedSizes (intercept slope : Int)
  | linearInX (intercept slope : Int)
  | linearInY (intercept slope : Int)
  | linearInZ (intercept slope : Int)
  | quadraticInZ (c0 c1 c2 : Int)
  | expMod (c00 c11 c12 : Int)
  | literalInYorLinearInZ (intercept slope : Int)
  | linearInMaxYZ (intercept slope : Int)
  | linearInYandZ (intercept slope1 slope2 : Int)
  deriving Repr, Inhabited

def Cost3.cost : Cost3 → Int → Int → Int → Int
  | .const c, _, _, _ => c
  | .addedSizes i s, x, y, z => (x + y + z) * s + i
  | .linearInX i s, x, _, _ => x * s + i
  | .linearInY i s, _, y, _ => y * s + i
  | .linearInZ i s, _, _, z => z * s + i
  | .quadraticInZ c0 c1 c2, _, _, z => c0 + c1 * z + c2 * z * z
  | .expMod c00 c11 c12, x, y, z =>
    let cost := c00 + c11 * y * z + c12 * y * z * z
    if x ≤ z then cost else cost + cost.tdiv 2
  | .literalInYorLinearInZ i s, _, y, z => if y = 0 then s * z + i else y
  | .linearInMaxYZ i s, _, y, z => (max y z) * s + i
  | .linearInYandZ i s1 s2, _, y, z => y * s1 + z * s2 + i

/-- `FourArguments` -/
inductive Cost4 where
  | const (c : Int)
  | linearInU (intercept slope : Int)
  deriving Repr, Inhabited

def Cost4.cost : Cost4 → Int → Int → Int → Int → Int
  | .const c, _, _, _, _ => c
  | .linearInU i s, _, _, _, u => s * u + i

/-- a costing function of any arity (`SixArguments` has only `ConstantCost`) -/
inductive CostFun where
  | one (f : Cost1) | two (f : Cost2) | three (f : Cost3) | four (f : Cost4) | six (c : Int)
  deriving Repr, Inhabited

def CostFun.apply : CostFun → List Int → Option Int
  | .one f, [x] => some (f.cost x)
  | .two f, [x, y] => some (f.cost x y)
  | .three f, [x, y, z] => some (f.cost x y z)
  | .four f, [x, y, z, u] => some (f.cost x y z u)
  | .six c, [_, _, _, _, _, _] => some c
  | _, _ => none

/-- the instantiated `CostModel`: machine step costs by `MachineCosts` field name,
builtin costing functions by `BuiltinCosts` field name (mem, cpu) -/
structure CostModel where
  machine : List (String × ExBudget)
  builtin : List (String × CostFun × CostFun)
  deriving Repr, Inhabited

def CostModel.machineCost (cm : CostModel) (k : StepKind) : Option ExBudget :=
  (cm.machine.find? (fun p => p.1 == k.costField)).map (·.2)

/-- decidable check of the machine-step prices: every kind is priced, no price is negative, and every
step other than the start-up costs at least one CPU unit (what the driver's `costpos` answers for
the cost models the real evaluator is run with) -/
def kindOK (cm : CostModel) (k : StepKind) : Bool :=
  match cm.machineCost k with
  | some c => decide (0 ≤ c.mem) && decide (0 ≤ c.cpu) && (k == .startUp || decide (1 ≤ c.cpu))
  | none => false

def allKinds : List StepKind :=
  [.constant, .var, .lambda, .apply, .delay, .force, .builtin, .constr, .case, .startUp]

def stepsPositive (cm : CostModel) : Bool := allKinds.all (kindOK cm)

def Cost1.nonneg : Cost1 → Bool
  | .const c => decide (0 ≤ c)
  | .linear i s => decide (0 ≤ i) && decide (0 ≤ s)
  | .quadratic c0 c1 c2 => decide (0 ≤ c0) && decide (0 ≤ c1) && decide (0 ≤ c2)

def Cost2.nonneg : Cost2 → Bool
  | .const c => decide (0 ≤ c)
  | .linearInX i s => decide (0 ≤ i) && decide (0 ≤ s)
  | .linearInY i s => decide (0 ≤ i) && decide (0 ≤ s)
  | .linearInY2 i s _ => decide (0 ≤ i) && decide (0 ≤ s)
  | .linearInXAndY i s1 s2 => decide (0 ≤ i) && decide (0 ≤ s1) && decide (0 ≤ s2)
  | .withInteraction c00 c10 c01 c11 => decide (0 ≤ c00) && decide (0 ≤ c10) && decide (0 ≤ c01) && decide (0 ≤ c11)
  | .addedSizes i s => decide (0 ≤ i) && decide (0 ≤ s)
  | .subtractedSizes i s m => decide (0 ≤ i) && decide (0 ≤ s) && decide (0 ≤ m)
  | .multipliedSizes i s => decide (0 ≤ i) && decide (0 ≤ s)
  | .minSize i s => decide (0 ≤ i) && decide (0 ≤ s)
  | .maxSize i s => decide (0 ≤ i) && decide (0 ≤ s)
  | .linearOnDiagonal c i s => decide (0 ≤ c) && decide (0 ≤ i) && decide (0 ≤ s)
  | .constAboveDiagonal c m => decide (0 ≤ c) && m.nonneg
  | .aboveAndBelowDiagonal _ m => m.nonneg
  | .constBelowDiagonal c m => decide (0 ≤ c) && m.nonneg
  | .quadraticInY c0 c1 c2 => decide (0 ≤ c0) && decide (0 ≤ c1) && decide (0 ≤ c2)
  | .quadraticInXAndY mn _ _ _ _ _ _ => decide (0 ≤ mn)
  | .constAboveDiagonalIntoQuadratic c mn _ _ _ _ _ _ => decide (0 ≤ c) && decide (0 ≤ mn)

def Cost3.nonneg : Cost3 → Bool
  | .const c => decide (0 ≤ c)
  | .addedSizes i s => decide (0 ≤ i) && decide (0 ≤ s)
  | .linearInX i s => decide (0 ≤ i) && decide (0 ≤ s)
  | .linearInY i s => decide (0 ≤ i) && decide (0 ≤ s)
  | .linearInZ i s => decide (0 ≤ i) && decide (0 ≤ s)
  | .quadraticInZ c0 c1 c2 => decide (0 ≤ c0) && decide (0 ≤ c1) && decide (0 ≤ c2)
  | .expMod c00 c11 c12 => decide (0 ≤ c00) && decide (0 ≤ c11) && decide (0 ≤ c12)
  | .literalInYorLinearInZ i s => decide (0 ≤ i) && decide (0 ≤ s)
  | .linearInMaxYZ i s => decide (0 ≤ i) && decide (0 ≤ s)
  | .linearInYandZ i s1 s2 => decide (0 ≤ i) && decide (0 ≤ s1) && decide (0 ≤ s2)

def Cost4.nonneg : Cost4 → Bool
  | .const c => decide (0 ≤ c)
  | .linearInU i s => decide (0 ≤ i) && decide (0 ≤ s)

def CostFun.nonneg : CostFun → Bool
  | .one f => f.nonneg
  | .two f => f.nonneg
  | .three f => f.nonneg
  | .four f => f.nonneg
  | .six c => decide (0 ≤ c)

/-- decidable: no builtin costing function has a negative coefficient (or, for the quadratic
two-variable shapes, a negative floor) -/
def builtinsNonneg (cm : CostModel) : Bool := cm.builtin.all (fun p => p.2.1.nonneg && p.2.2.nonneg)

-- ------------------------------------------------------------------ size measures
/-- `integer_to_ex_mem` -/
def integerExMem (i : Int) : Int := if i = 0 then 1 else (i.natAbs.log2 / 64 + 1 : Nat)
/-- `byte_string_to_ex_mem` -/
def bytesExMem (b : Bytes) : Int := if b.isEmpty then 1 else ((b.length - 1) / 8 + 1 : Nat)

def stringsByUtf8 : Sem → Bool
  | .D | .E => true
  | _ => false

mutual
  /-- `data_to_ex_mem_inner`: 4 per node plus leaf sizes (order of the work list is irrelevant) -/
  def dataExMem : Data → Int
    | .constr _ fs => 4 + dataExMemList fs
    | .map es => 4 + dataExMemPairs es
    | .list xs => 4 + dataExMemList xs
    | .int n => 4 + integerExMem n
    | .bytes b => 4 + bytesExMem b
  def dataExMemList : List Data → Int
    | [] => 0
    | d :: ds => dataExMem d + dataExMemList ds
  def dataExMemPairs : List (Data × Data) → Int
    | [] => 0
    | (k, v) :: es => dataExMem k + dataExMem v + dataExMemPairs es
end

def utf8Len (s : List Char) : Nat := (s.map Char.utf8Size).sum

mutual
  /-- `constant_to_ex_mem` -/
  def constExMem (sem : Sem) : Const → Int
    | .integer i => integerExMem i
    | .bytestring b => bytesExMem b
    | .string s => if stringsByUtf8 sem then ((utf8Len s) / 4 : Nat) else (s.length : Nat)
    | .unit => 1
    | .bool _ => 1
    | .list _ xs => constExMemList sem xs
    | .pair _ _ x y => constExMem sem x + constExMem sem y
    | .data d => dataExMem d
    | .g1 _ => 18
    | .g2 _ => 36
    | .ml _ => 72
  def constExMemList (sem : Sem) : List Const → Int
    | [] => 0
    | c :: cs => constExMem sem c + constExMemList sem cs
end

/-- `to_ex_mem_with_semantics` -/
def valueExMem (sem : Sem) : Value → Int
  | .con c => constExMem sem c
  | _ => 1

/-- `cost_as_size` -/
def costAsSize (b : Builtin) (v : Value) : Res Int :=
  match v with
  | .con (.integer size) =>
    if size < 0 || size > 8192 then
      (if b = .integerToByteString || b = .replicateByte then .err else .panic)
    else .ok (if size = 0 then 0 else (size - 1) / 8 + 1)
  | _ => .err

def getArg (args : List Value) (i : Nat) : Res Value :=
  match args[i]? with
  | some v => .ok v
  | none => .panic

/-- one fallible preliminary statement of a `to_ex_budget` arm -/
def preStep (b : Builtin) (args : List Value) : Pre → Res Unit
  | .asSize i => do let v ← getArg args i; let _ ← costAsSize b v; pure ()
  | .unwrapListPanic i => do
    let v ← getArg args i
    match v with
    | .con (.list _ _) => pure ()
    | _ => .panic
  | .unwrapListErr i => do let v ← getArg args i; let _ ← v.unwrapList; pure ()
  | .unwrapInt i => do let v ← getArg args i; let _ ← v.unwrapInteger; pure ()
  | .expModGuard i => do
    let v ← getArg args i
    let m ← v.unwrapInteger
    if m ≤ 0 || m.natAbs.log2 ≥ 8191 then .err else pure ()

def runPre (b : Builtin) (args : List Value) : List Pre → Res Unit
  | [] => .ok ()
  | p :: ps => (preStep b args p).bind (fun _ => runPre b args ps)

def measure (sem : Sem) (b : Builtin) (args : List Value) : Measure → Res Int
  | .exMem i => do let v ← getArg args i; pure (valueExMem .C v)
  | .exMemSem i => do let v ← getArg args i; pure (valueExMem sem v)
  -- `let size = args[i].cost_as_size(d)?` is ONE fallible step (the `Pre`); the measure is the value it bound
  | .asSize i => do
    let v ← getArg args i
    match costAsSize b v with
    | .ok x => pure x
    | _ => .panic
  | .listLen i => do
    let v ← getArg args i
    match v with
    | .con (.list _ xs) => pure (xs.length : Nat)
    | _ => .panic
  -- likewise `let literal = args[i].unwrap_integer()?` is the `Pre`; this is `literal_abs_as_i64_saturating`
  | .literalAbs i => do
    let v ← getArg args i
    match v with
    | .con (.integer n) => pure (if (n.natAbs : Int) > i64Max then i64Max else n.natAbs)
    | _ => .panic
  | .listLenOrExMem i => do
    let v ← getArg args i
    match v with
    | .con (.list _ xs) => pure (xs.length : Nat)
    | _ => pure (valueExMem .C v)

def measures (sem : Sem) (b : Builtin) (args : List Value) : List Measure → Res (List Int)
  | [] => .ok []
  | m :: ms => do let x ← measure sem b args m; let xs ← measures sem b args ms; pure (x :: xs)

/-- `BuiltinCosts::to_ex_budget(fun, args, semantics)` -/
def builtinCost (cm : CostModel) (sem : Sem) (b : Builtin) (args : List Value) : Res ExBudget := do
  let spec := Gen.costSpec b
  runPre b args spec.pre
  let ms ← measures sem b args spec.memArgs
  let cs ← measures sem b args spec.cpuArgs
  let memF ← (match cm.builtin.find? (fun p => p.1 == spec.memField) with
    | some (_, m, _) => Res.ok m | none => Res.unmodelled)
  let cpuF ← (match cm.builtin.find? (fun p => p.1 == spec.cpuField) with
    | some (_, _, c) => Res.ok c | none => Res.unmodelled)
  match memF.apply ms, cpuF.apply cs with
  | some m, some c => pure ⟨m, c⟩
  | _, _ => .unmodelled

/-- `to_ex_budget` under an explicit recipe (used with the SPEC table of `Model/CostSpecTable.lean`) -/
def builtinCostWith (spec : CostSpec) (cm : CostModel) (sem : Sem) (b : Builtin) (args : List Value) : Res ExBudget := do
  runPre b args spec.pre
  let ms ← measures sem b args spec.memArgs
  let cs ← measures sem b args spec.cpuArgs
  let memF ← (match cm.builtin.find? (fun p => p.1 == spec.memField) with
    | some (_, m, _) => Res.ok m | none => Res.unmodelled)
  let cpuF ← (match cm.builtin.find? (fun p => p.1 == spec.cpuField) with
    | some (_, _, c) => Res.ok c | none => Res.unmodelled)
  match memF.apply ms, cpuF.apply cs with
  | some m, some c => pure ⟨m, c⟩
  | _, _ => .unmodelled

end AikenVerif
