import AikenVerif.Model.Schema
/-!
M-APPLY (C18): `blueprint apply`.

* `Validator` = what the blueprint keeps per validator and `apply` touches
  (`blueprint::validator::Validator{parameters, program}`, `SerializableProgram`).
* `apply` = `Validator::apply`: validate the argument against the FIRST remaining parameter,
  then `Program::apply_data` and `parameters = tail` (crates/aiken-project/src/blueprint/validator.rs:288,
  crates/uplc/src/ast.rs:63).
* `save` / `load` = `impl Serialize / Deserialize for SerializableProgram` (ast.rs:171-262):
  `compiledCode` = hex(cbor(flat program)), `hash` = hash of the language tag and those bytes;
  loading decodes the bytes and recovers the language by trying V3, V2, V1 against the hash.
* `applyScript` = `tx::apply_params_to_script` (the unvalidated fold).

The byte codec and the hash are parameters (`Codec β η`, `β` = bytes, `η` = hashes): their
round trip is C08's subject.
-/
namespace AikenVerif.Apply
open AikenVerif.Blueprint

/-- `SerializableProgram::{PlutusV1Program, PlutusV2Program, PlutusV3Program}` -/
inductive Lang where
  | v1 | v2 | v3
  deriving DecidableEq, Repr, Inhabited

structure Validator where
  params : List (Decl Schema)
  lang : Lang
  program : Program DeBruijn
  deriving Inhabited

inductive Applied where
  | ok (v : Validator)
  /-- `Error::NoParametersToApply` -/
  | noParameters
  /-- an `Err(..)` from `Parameter::validate` -/
  | rejected (why : Outcome)
  /-- the process dies -/
  | panic
  deriving Inhabited

/-- `Program::apply_data` -/
def applyData (p : Program DeBruijn) (d : Data) : Program DeBruijn :=
  { p with term := .app p.term (.const (.data d)) }

/-- `Validator::apply`; `fixed` as in `Blueprint.validate` -/
def apply (fixed : Bool) (tbl : Table) (v : Validator) (d : Data) : Applied :=
  match v.params with
  | [] => .noParameters
  | p :: rest =>
    match validate fixed tbl p d with
    | .ok => .ok { v with params := rest, program := applyData v.program d }
    | .panic => .panic
    | why => .rejected why

/-- successive applications, stopping at the first one that is not accepted -/
def applyAll (fixed : Bool) (tbl : Table) (v : Validator) : List Data → Applied
  | [] => .ok v
  | d :: ds =>
    match apply fixed tbl v d with
    | .ok v' => applyAll fixed tbl v' ds
    | r => r

/-- the same as a left fold over the arguments (how a deployment script does it) -/
def applyStep (fixed : Bool) (tbl : Table) (acc : Applied) (d : Data) : Applied :=
  match acc with
  | .ok v => apply fixed tbl v d
  | r => r

/-- `apply_params_to_script`: `for param in params { program = program.apply_data(param) }` -/
def applyScript (p : Program DeBruijn) (ds : List Data) : Program DeBruijn :=
  ds.foldl applyData p

/-- byte codec and hash (C08): `ser` = cbor ∘ flat, `de` its decoder, `hash lang bytes` -/
structure Codec (β η : Type) where
  ser : Program DeBruijn → β
  de : β → Option (Program DeBruijn)
  hash : Lang → β → η

/-- what the blueprint file holds for a validator -/
structure Saved (β η : Type) where
  params : List (Decl Schema)
  compiledCode : β
  hash : η

/-- `Serialize`: `compiled_code_and_hash` -/
def save {β η : Type} (c : Codec β η) (v : Validator) : Saved β η :=
  { params := v.params, compiledCode := c.ser v.program, hash := c.hash v.lang (c.ser v.program) }

/-- `Deserialize`: decode, re-encode, find the language whose hash matches (V3, V2, V1) -/
def load {β η : Type} [DecidableEq η] (c : Codec β η) (s : Saved β η) : Option Validator :=
  match c.de s.compiledCode with
  | none => none
  | some p =>
    if c.hash .v3 (c.ser p) = s.hash then some ⟨s.params, .v3, p⟩
    else if c.hash .v2 (c.ser p) = s.hash then some ⟨s.params, .v2, p⟩
    else if c.hash .v1 (c.ser p) = s.hash then some ⟨s.params, .v1, p⟩
    else none

/-- the state of a deployment session: the validator in memory and the file last written -/
structure State (β η : Type) where
  v : Validator
  file : Saved β η

inductive Op where
  /-- `aiken blueprint apply <d>`: on acceptance the blueprint is rewritten -/
  | apply (d : Data)
  /-- a new process starts from the file -/
  | reload

def init {β η : Type} (c : Codec β η) (v : Validator) : State β η := ⟨v, save c v⟩

def step {β η : Type} [DecidableEq η] (c : Codec β η) (tbl : Table) (s : State β η) : Op → State β η
  | .apply d =>
    match apply true tbl s.v d with
    | .ok v' => ⟨v', save c v'⟩
    | _ => s
  | .reload =>
    match load c s.file with
    | some v' => ⟨v', s.file⟩
    | none => s

def run {β η : Type} [DecidableEq η] (c : Codec β η) (tbl : Table) (s : State β η) (ops : List Op) : State β η :=
  ops.foldl (step c tbl) s

/-- the arguments of a history that were accepted, in order -/
def accepted {β η : Type} [DecidableEq η] (c : Codec β η) (tbl : Table) : State β η → List Op → List Data
  | _, [] => []
  | s, .apply d :: ops =>
    match apply true tbl s.v d with
    | .ok _ => d :: accepted c tbl (step c tbl s (.apply d)) ops
    | _ => accepted c tbl s ops
  | s, .reload :: ops => accepted c tbl (step c tbl s .reload) ops

end AikenVerif.Apply
