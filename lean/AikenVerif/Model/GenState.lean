/-!
# M-GEN — the code generator as a state machine (C09)

`CodeGenerator` (crates/aiken-lang/src/gen_uplc.rs) keeps, per instance,

* state that `reset` / `finalize` put back to its initial value after every
  generated program: the `AirInterner` (a map text ↦ non-empty stack of uniques,
  and a counter), the `IdGenerator` counter, `special_functions`,
  `defined_functions`, `cyclic_functions` (and `code_gen_functions`);
* `cached_constants`, kept across resets: for every module constant already
  compiled, its value and the number of interner uniques and of ids that
  compiling it consumed (`interner_delta`, `id_gen_delta`).  A later reference
  to the constant does not recompile it: it *replays* the two counter
  increments (`AirInterner::advance`, `IdGenerator::advance`) and emits a copy
  of the value.

This file models exactly that: `Resettable`, `Cache`, the interner operations
with their partiality (`pop_text` / `lookup_interned` on a text that is not
interned is `unreachable!()` → `none`), a small instruction language in which a
compile request is a list of instructions, and three ways to run a request:

* `exec`   — what the code does: constants through the cache, with replay;
* `execRe` — what it is supposed to be equal to: every constant recompiled;
* `Machine`/`generate`/`runHistory` — an *abstract* deterministic `compile`
  for the history theorem.

Numbers drawn from the counters are part of the output (`emit`, `fresh`), and
`define` emits a definition only the first time a function is met in a
program, so the output of the model is sensitive to every component of the
state — a missed reset or a wrong delta changes it.

No Mathlib, no Batteries.
-/
namespace AikenVerif.GenState

/-! ## the resettable part -/

/-- texts and function keys are numbers (string literals do not reduce in the kernel) -/
abbrev Text := Nat

structure Resettable where
  /-- `AirInterner.identifiers`: stack of uniques per text, newest first; `[]` = not in the map -/
  ids : Text → List Nat
  /-- `AirInterner.current` -/
  cur : Nat
  /-- `IdGenerator` -/
  idg : Nat
  /-- `special_functions.used_funcs` -/
  special : List Nat
  /-- `defined_functions` -/
  defined : List Nat
  /-- `cyclic_functions` -/
  cyclic : List Nat

/-- `CodeGenerator::new` / what `reset(true)` restores -/
def Resettable.init : Resettable := ⟨fun _ => [], 0, 0, [], [], []⟩

def updateIds (ids : Text → List Nat) (t : Text) (v : List Nat) : Text → List Nat :=
  fun x => if x = t then v else ids x

/-- `AirInterner::intern` -/
def intern (s : Resettable) (t : Text) : Resettable :=
  { s with ids := updateIds s.ids t (s.cur :: s.ids t), cur := s.cur + 1 }

/-- `AirInterner::pop_text`; `none` = `unreachable!("Looking up a missing text")` -/
def popText (s : Resettable) (t : Text) : Option Resettable :=
  match s.ids t with
  | [] => none
  | _ :: rest => some { s with ids := updateIds s.ids t rest }

/-- `AirInterner::lookup_interned`: the unique on top of the stack -/
def lookup (s : Resettable) (t : Text) : Option Nat := (s.ids t).head?

/-- `AirInterner::advance` + `IdGenerator::advance` -/
def advance (s : Resettable) (dCur dIdg : Nat) : Resettable :=
  { s with cur := s.cur + dCur, idg := s.idg + dIdg }

/-! ## the constant cache -/

/-- `CachedConstant { constant, interner_delta, id_gen_delta }` -/
structure Entry where
  val : Nat
  dCur : Nat
  dIdg : Nat
  deriving DecidableEq, Repr

abbrev Cache := Nat → Option Entry

def Cache.empty : Cache := fun _ => none

def Cache.insert (c : Cache) (k : Nat) (e : Entry) : Cache := fun x => if x = k then some e else c x

/-- the whole generator -/
structure Gen where
  r : Resettable
  cache : Cache

def Gen.fresh : Gen := ⟨Resettable.init, Cache.empty⟩

/-- `CodeGenerator::finalize` ends with `self.reset(true)`: everything but the cache -/
def finalize (g : Gen) : Gen := ⟨Resettable.init, g.cache⟩

/-! ## compile requests -/

inductive Instr where
  /-- `interner.intern(text)` on entering a binder -/
  | intern (t : Text)
  /-- `interner.pop_text(text)` on leaving it -/
  | pop (t : Text)
  /-- a variable occurrence: emits the unique `lookup_interned` gives -/
  | emit (t : Text)
  /-- `id_gen.next()`: emits the id -/
  | fresh
  /-- a reference to a special function: recorded, emitted at `finalize` -/
  | useSpecial (f : Nat)
  /-- a hoisted function: its definition is emitted the first time only -/
  | define (f : Nat)
  /-- a cyclic (mutually recursive) function group being registered -/
  | cyclic (f : Nat)
  /-- a reference to module constant `k` -/
  | const (k : Nat)
  deriving DecidableEq, Repr

abbrev Out := List Nat

/-- every instruction but `const` -/
def step (i : Instr) (s : Resettable) : Option (Resettable × Out) :=
  match i with
  | .intern t => some (intern s t, [])
  | .pop t => (popText s t).map (fun s' => (s', []))
  | .emit t => (lookup s t).map (fun u => (s, [t, u]))
  | .fresh => some ({ s with idg := s.idg + 1 }, [s.idg])
  | .useSpecial f => some (if f ∈ s.special then s else { s with special := s.special ++ [f] }, [])
  | .define f => if f ∈ s.defined then some (s, []) else some ({ s with defined := s.defined ++ [f] }, [1000 + f])
  | .cyclic f => some (if f ∈ s.cyclic then s else { s with cyclic := s.cyclic ++ [f] }, [])
  | .const _ => none

/-- a constant's own definition: constant-free instructions -/
def runBody : List Instr → Resettable → Option (Resettable × Out)
  | [], s => some (s, [])
  | i :: rest, s =>
    match step i s with
    | none => none
    | some (s₁, o₁) =>
      match runBody rest s₁ with
      | none => none
      | some (s₂, o₂) => some (s₂, o₁ ++ o₂)

/-- the project's constants: definition and the value it evaluates to (a closed
constant: evaluation does not look at the generator) -/
structure Defs where
  body : Nat → List Instr
  val : Nat → Nat

/-- what `gen_uplc` does (ModuleConstant case, gen_uplc.rs:3916-3987): a cached
constant replays its deltas; otherwise it is compiled from the current state,
the consumed uniques/ids are measured, and the entry is stored -/
def exec (D : Defs) : List Instr → Resettable → Cache → Option (Resettable × Out × Cache)
  | [], s, c => some (s, [], c)
  | .const k :: rest, s, c =>
    match c k with
    | some e =>
      match exec D rest (advance s e.dCur e.dIdg) c with
      | none => none
      | some (s', o, c') => some (s', e.val :: o, c')
    | none =>
      match runBody (D.body k) s with
      | none => none
      | some (s₁, _) =>
        match exec D rest s₁ (c.insert k ⟨D.val k, s₁.cur - s.cur, s₁.idg - s.idg⟩) with
        | none => none
        | some (s', o, c') => some (s', D.val k :: o, c')
  | i :: rest, s, c =>
    match step i s with
    | none => none
    | some (s₁, o₁) =>
      match exec D rest s₁ c with
      | none => none
      | some (s', o, c') => some (s', o₁ ++ o, c')

/-- the reference: every constant reference recompiles the constant -/
def execRe (D : Defs) : List Instr → Resettable → Option (Resettable × Out)
  | [], s => some (s, [])
  | .const k :: rest, s =>
    match runBody (D.body k) s with
    | none => none
    | some (s₁, _) =>
      match execRe D rest s₁ with
      | none => none
      | some (s', o) => some (s', D.val k :: o)
  | i :: rest, s =>
    match step i s with
    | none => none
    | some (s₁, o₁) =>
      match execRe D rest s₁ with
      | none => none
      | some (s', o) => some (s', o₁ ++ o)

def nIntern : List Instr → Nat
  | [] => 0
  | .intern _ :: rest => nIntern rest + 1
  | _ :: rest => nIntern rest

def nFresh : List Instr → Nat
  | [] => 0
  | .fresh :: rest => nFresh rest + 1
  | _ :: rest => nFresh rest

/-- well-scoped constant-free code: every `intern t` is closed by its `pop t`,
variables are looked up inside their binder (`env` = texts in scope) -/
inductive Scoped : List Text → List Instr → Prop where
  | nil (env) : Scoped env []
  | emit (env t rest) : t ∈ env → Scoped env rest → Scoped env (.emit t :: rest)
  | fresh (env rest) : Scoped env rest → Scoped env (.fresh :: rest)
  | scope (env t body rest) : Scoped (t :: env) body → Scoped env rest →
      Scoped env (.intern t :: (body ++ .pop t :: rest))

/-- what a cache entry must be: the value and the two deltas of the definition -/
def Cache.Valid (D : Defs) (c : Cache) : Prop :=
  ∀ k e, c k = some e → e = ⟨D.val k, nIntern (D.body k), nFresh (D.body k)⟩

/-! ## abstract deterministic compile (history theorem) -/

/-- a code generator whose `compile` is some deterministic function of the
request, the resettable state and the cache — by its type it can read nothing else -/
structure Machine (Req O R C : Type) where
  init : R
  compile : Req → R → C → O × R × C

/-- `generate` / `generate_raw`: compile, then `finalize` (reset everything but the cache) -/
def Machine.generate {Req O R C : Type} (M : Machine Req O R C) (q : Req) (g : R × C) : O × (R × C) :=
  let res := M.compile q g.1 g.2
  (res.1, (M.init, res.2.2))

/-- the generator after a whole history of requests -/
def Machine.runHistory {Req O R C : Type} (M : Machine Req O R C) (h : List Req) (g : R × C) : R × C :=
  h.foldl (fun g q => (M.generate q g).2) g

/-- the same, but `finalize` forgets to reset (for the necessity example) -/
def Machine.generateNoReset {Req O R C : Type} (M : Machine Req O R C) (q : Req) (g : R × C) : O × (R × C) :=
  let res := M.compile q g.1 g.2
  (res.1, (res.2.1, res.2.2))

/-- the concrete machine of this file -/
def concrete (D : Defs) : Machine (List Instr) (Option Out) Resettable Cache where
  init := Resettable.init
  compile q s c :=
    match exec D q s c with
    | none => (none, s, c)
    | some (s', o, c') => (some o, s', c')

end AikenVerif.GenState
