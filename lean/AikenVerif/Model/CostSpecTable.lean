import AikenVerif.Gen.Cost
/-!
SPEC table for C05: how each argument of a builtin is measured before it is fed to the costing
function, transcribed from the Plutus cost-model documentation ("ExMemoryUsage" instances and the
`costingFun` wrappers: memory-usage words for integers and byte strings, `IntegerCostedLiterally` for
the count of `dropList`/shift/rotate, `NumBytesCostedAsNumWords` for the size of
`integerToByteString`/`replicateByte`, `ListCostedByLength` for the index list of `writeBits` and the
scalar/point lists of the multi-scalar multiplications, text measured under the ledger variant).
HAND-WRITTEN, not generated: the theorem `C05.measure_table` compares it with the table regenerated
from `cost_model.rs` on every run.
-/
namespace AikenVerif.Spec
open Gen (Builtin Measure)

/-- the measure of each argument (the same for the memory and the CPU costing function) -/
def measures : Builtin → List Measure
  | .addInteger => [.exMem 0, .exMem 1]
  | .subtractInteger => [.exMem 0, .exMem 1]
  | .multiplyInteger => [.exMem 0, .exMem 1]
  | .divideInteger => [.exMem 0, .exMem 1]
  | .quotientInteger => [.exMem 0, .exMem 1]
  | .remainderInteger => [.exMem 0, .exMem 1]
  | .modInteger => [.exMem 0, .exMem 1]
  | .equalsInteger => [.exMem 0, .exMem 1]
  | .lessThanInteger => [.exMem 0, .exMem 1]
  | .lessThanEqualsInteger => [.exMem 0, .exMem 1]
  | .appendByteString => [.exMem 0, .exMem 1]
  | .consByteString => [.exMem 0, .exMem 1]
  | .sliceByteString => [.exMem 0, .exMem 1, .exMem 2]
  | .lengthOfByteString => [.exMem 0]
  | .indexByteString => [.exMem 0, .exMem 1]
  | .equalsByteString => [.exMem 0, .exMem 1]
  | .lessThanByteString => [.exMem 0, .exMem 1]
  | .lessThanEqualsByteString => [.exMem 0, .exMem 1]
  | .sha2_256 => [.exMem 0]
  | .sha3_256 => [.exMem 0]
  | .blake2b_256 => [.exMem 0]
  | .keccak_256 => [.exMem 0]
  | .blake2b_224 => [.exMem 0]
  | .verifyEd25519Signature => [.exMem 0, .exMem 1, .exMem 2]
  | .verifyEcdsaSecp256k1Signature => [.exMem 0, .exMem 1, .exMem 2]
  | .verifySchnorrSecp256k1Signature => [.exMem 0, .exMem 1, .exMem 2]
  | .appendString => [.exMemSem 0, .exMemSem 1]
  | .equalsString => [.exMemSem 0, .exMemSem 1]
  | .encodeUtf8 => [.exMemSem 0]
  | .decodeUtf8 => [.exMem 0]
  | .ifThenElse => [.exMem 0, .exMem 1, .exMem 2]
  | .chooseUnit => [.exMem 0, .exMem 1]
  | .trace => [.exMem 0, .exMem 1]
  | .fstPair => [.exMem 0]
  | .sndPair => [.exMem 0]
  | .chooseList => [.exMem 0, .exMem 1, .exMem 2]
  | .mkCons => [.exMem 0, .exMem 1]
  | .headList => [.exMem 0]
  | .tailList => [.exMem 0]
  | .nullList => [.exMem 0]
  | .chooseData => [.exMem 0, .exMem 1, .exMem 2, .exMem 3, .exMem 4, .exMem 5]
  | .constrData => [.exMem 0, .exMem 1]
  | .mapData => [.exMem 0]
  | .listData => [.exMem 0]
  | .iData => [.exMem 0]
  | .bData => [.exMem 0]
  | .unConstrData => [.exMem 0]
  | .unMapData => [.exMem 0]
  | .unListData => [.exMem 0]
  | .unIData => [.exMem 0]
  | .unBData => [.exMem 0]
  | .equalsData => [.exMem 0, .exMem 1]
  | .serialiseData => [.exMem 0]
  | .mkPairData => [.exMem 0, .exMem 1]
  | .mkNilData => [.exMem 0]
  | .mkNilPairData => [.exMem 0]
  | .bls12_381_G1_Add => [.exMem 0, .exMem 1]
  | .bls12_381_G1_Neg => [.exMem 0]
  | .bls12_381_G1_ScalarMul => [.exMem 0, .exMem 1]
  | .bls12_381_G1_Equal => [.exMem 0, .exMem 1]
  | .bls12_381_G1_Compress => [.exMem 0]
  | .bls12_381_G1_Uncompress => [.exMem 0]
  | .bls12_381_G1_HashToGroup => [.exMem 0, .exMem 1]
  | .bls12_381_G2_Add => [.exMem 0, .exMem 1]
  | .bls12_381_G2_Neg => [.exMem 0]
  | .bls12_381_G2_ScalarMul => [.exMem 0, .exMem 1]
  | .bls12_381_G2_Equal => [.exMem 0, .exMem 1]
  | .bls12_381_G2_Compress => [.exMem 0]
  | .bls12_381_G2_Uncompress => [.exMem 0]
  | .bls12_381_G2_HashToGroup => [.exMem 0, .exMem 1]
  | .bls12_381_MillerLoop => [.exMem 0, .exMem 1]
  | .bls12_381_MulMlResult => [.exMem 0, .exMem 1]
  | .bls12_381_FinalVerify => [.exMem 0, .exMem 1]
  | .integerToByteString => [.exMem 0, .asSize 1, .exMem 2]
  | .byteStringToInteger => [.exMem 0, .exMem 1]
  | .andByteString => [.exMem 0, .exMem 1, .exMem 2]
  | .orByteString => [.exMem 0, .exMem 1, .exMem 2]
  | .xorByteString => [.exMem 0, .exMem 1, .exMem 2]
  | .complementByteString => [.exMem 0]
  | .readBit => [.exMem 0, .exMem 1]
  | .writeBits => [.exMem 0, .listLen 1, .exMem 2]
  | .replicateByte => [.asSize 0, .exMem 1]
  | .shiftByteString => [.exMem 0, .literalAbs 1]
  | .rotateByteString => [.exMem 0, .literalAbs 1]
  | .countSetBits => [.exMem 0]
  | .findFirstSetBit => [.exMem 0]
  | .ripemd_160 => [.exMem 0]
  | .expModInteger => [.exMem 0, .exMem 1, .exMem 2]
  | .dropList => [.literalAbs 0, .exMem 1]
  | .bls12_381_G1_MultiScalarMul => [.listLenOrExMem 0, .exMem 1]
  | .bls12_381_G2_MultiScalarMul => [.listLenOrExMem 0, .listLenOrExMem 1]

end AikenVerif.Spec

namespace AikenVerif
open Gen (Builtin Measure Pre CostSpec)

/-- the fallible steps implied by the measures (a literal size / count / list length can only be taken
from an argument of the right shape), plus the modulus guard of `expModInteger` -/
def Spec.preOf (b : Builtin) : List Pre :=
  let fromMeasures := (Spec.measures b).filterMap fun
    | .asSize i => some (Pre.asSize i)
    | .listLen i => some (Pre.unwrapListErr i)
    | .literalAbs i => some (Pre.unwrapInt i)
    | _ => none
  match b with
  | .expModInteger => [.unwrapInt 2, .expModGuard 2]
  | _ => fromMeasures

/-- the specification's cost recipe of a builtin (field names are the implementation's own) -/
def Spec.costSpecOf (b : Builtin) : CostSpec :=
  { memField := (Gen.costSpec b).memField, cpuField := (Gen.costSpec b).cpuField,
    memArgs := Spec.measures b, cpuArgs := Spec.measures b, pre := Spec.preOf b }

end AikenVerif
