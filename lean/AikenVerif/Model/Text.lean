import AikenVerif.Model.Term
import AikenVerif.Gen.TextTables
/-!
M-TEXT: the UPLC text printer (`crates/uplc/src/pretty.rs`) and parser
(`crates/uplc/src/parser.rs`, peg grammar `uplc`) as functions over a token list.

* The printer model produces the *flat* token sequence of the `pretty` document:
  every `RcDoc::text` piece becomes one or more tokens, every `line()` / `space()` /
  `", "` becomes a `ws` token (mandatory white space), every `line_()` (soft break)
  becomes nothing.  Layout is irrelevant for the parser: every `line_()` sits at a
  `_*` position of the grammar and no token contains a raw new-line (strings are
  escaped; see `Props/C15.lean: escape_no_newline`), and the harness checks on the
  real output that tokenising it gives exactly these tokens (modulo extra `ws`).
* The parser model is a recursive descent over tokens that mirrors the ordered choice
  of the peg rules, `_*` = `skipWs`, `_+` = `reqWs`.  String escapes (`character()`)
  are modelled on characters.  Keyword / type-name / escape tables come from
  `Gen/TextTables.lean` and `Gen/Builtins.lean` (regenerated from the source).
* Modelled behaviour is the one with `proposed_fixes/C15-*.diff` and
  `C20-uplc-parser-unknown-builtin.diff` applied.
No Mathlib, no proofs here.
-/
namespace AikenVerif.Text
open AikenVerif.Gen (Builtin)
open AikenVerif.Gen.TextTables

/-- table entries are char codes -/
def chars (cs : List Nat) : List Char := cs.map Char.ofNat

inductive Token where
  | lpar | rpar | lbrack | rbrack | comma
  | unit                      -- the literal `()`
  | ws                        -- a maximal run of white space and comments
  | word (cs : List Char)     -- maximal run of identifier characters, `+` and `.`
  | hash (cs : List Char)     -- `#` followed by identifier characters
  | str (raw : List Char)     -- string literal, the (still escaped) text between the quotes
  deriving DecidableEq, Repr, Inhabited

-- ------------------------------------------------------------------ characters
/-- `ident()` character class: `['a'..='z' | 'A'..='Z' | '0'..='9' | '_' | '\'' | '~' | '-']` -/
def isIdentChar (c : Char) : Bool :=
  ('a' ≤ c && c ≤ 'z') || ('A' ≤ c && c ≤ 'Z') || ('0' ≤ c && c ≤ '9') || c == '_' || c == '\'' || c == '~' || c == '-'

def isDigit (c : Char) : Bool := '0' ≤ c && c ≤ '9'

/-- a `word` token as an `ident()` -/
def isIdent (w : List Char) : Bool := !w.isEmpty && w.all isIdentChar

/-- a name that survives printing: an `ident()` that does not start with `--` (the grammar's `_` rule
reads `--…` up to the next new-line as a comment, so such a name disappears as soon as the printed
text contains a later line break) -/
def validName (w : List Char) : Bool := isIdent w && !(w.take 2 == ['-', '-'])

-- ------------------------------------------------------------------ numbers
/-- little-endian decimal digits of `n` (`[0]` for 0) -/
def digitsLE (n : Nat) : List Nat :=
  if n < 10 then [n] else (n % 10) :: digitsLE (n / 10)
decreasing_by omega

def digitChar (d : Nat) : Char := Char.ofNat (48 + d)

/-- `n.to_string()` for an unsigned number -/
def natChars (n : Nat) : List Char := (digitsLE n).reverse.map digitChar

/-- `BigInt::to_string` -/
def intChars : Int → List Char
  | .ofNat n => natChars n
  | .negSucc n => '-' :: natChars (n + 1)

/-- value of a big-endian digit string (all characters assumed digits) -/
def digitsVal (cs : List Char) : Nat := cs.foldl (fun acc c => acc * 10 + (c.toNat - 48)) 0

def allDigits (cs : List Char) : Bool := !cs.isEmpty && cs.all isDigit

/-- `decimal()`: `['0'..='9']+` parsed as `usize` (64 bit) -/
def parseDecimal (cs : List Char) : Option Nat :=
  if allDigits cs then
    let v := digitsVal cs
    if v < 2 ^ 64 then some v else none
  else none

/-- `BigUint::from_str_radix(s, 10)` restricted to what the regex lets through (signs and digits) -/
def bigUintParse (s : List Char) : Option Nat :=
  let s := match s with
    | '+' :: '+' :: _ => s
    | '+' :: tail => tail
    | _ => s
  if allDigits s then some (digitsVal s) else none

/-- `BigInt::parse_bytes(s, 10)` -/
def bigIntParse (s : List Char) : Option Int :=
  match s with
  | '-' :: '+' :: _ => (bigUintParse s).map (fun n => - Int.ofNat n)  -- always fails: `-` is no digit
  | '-' :: tail => (bigUintParse tail).map (fun n => - Int.ofNat n)
  | _ => (bigUintParse s).map Int.ofNat

/-- does `w` match `("-"/"+")* ['0'..='9']+` completely? -/
def isNumberWord (w : List Char) : Bool :=
  allDigits (w.dropWhile (fun c => c == '-' || c == '+'))

/-- `big_number()` on a whole word -/
def parseBigNumber (w : List Char) : Option Int :=
  if isNumberWord w then
    match w with
    | '-' :: tail => (bigIntParse tail).map (fun i => - i)
    | _ => bigIntParse w
  else none

/-- `version()`: `decimal "." decimal "." decimal` on a whole word -/
def splitOnDot : List Char → List Char → List (List Char)
  | acc, [] => [acc.reverse]
  | acc, c :: r => if c == '.' then acc.reverse :: splitOnDot [] r else splitOnDot (c :: acc) r

def parseVersion (w : List Char) : Option (Nat × Nat × Nat) :=
  match splitOnDot [] w with
  | [a, b, c] => do
    let a ← parseDecimal a
    let b ← parseDecimal b
    let c ← parseDecimal c
    pure (a, b, c)
  | _ => none

def versionChars (v : Nat × Nat × Nat) : List Char :=
  natChars v.1 ++ '.' :: natChars v.2.1 ++ '.' :: natChars v.2.2

-- ------------------------------------------------------------------ hex
def hexLower (n : Nat) : Char := if n < 10 then Char.ofNat (48 + n) else Char.ofNat (87 + n)

/-- `hex::encode` -/
def hexChars (b : Bytes) : List Char :=
  b.flatMap (fun x => [hexLower (x.toNat / 16), hexLower (x.toNat % 16)])

def hexVal (c : Char) : Option Nat :=
  if '0' ≤ c ∧ c ≤ '9' then some (c.toNat - 48)
  else if 'a' ≤ c ∧ c ≤ 'f' then some (c.toNat - 87)
  else if 'A' ≤ c ∧ c ≤ 'F' then some (c.toNat - 55)
  else none

/-- `hex::decode` -/
def hexDecode : List Char → Option Bytes
  | [] => some []
  | a :: b :: rest =>
    match hexVal a, hexVal b, hexDecode rest with
    | some x, some y, some r => some (UInt8.ofNat (x * 16 + y) :: r)
    | _, _, _ => none
  | [_] => none

-- ------------------------------------------------------------------ string escapes
/-- `std::ascii::escape_default` for a byte -/
def asciiEscapeDefault (c : Nat) : List Char :=
  if c = 9 then ['\\', 't'] else if c = 13 then ['\\', 'r'] else if c = 10 then ['\\', 'n']
  else if c = 39 then ['\\', '\''] else if c = 34 then ['\\', '"'] else if c = 92 then ['\\', '\\']
  else if 32 ≤ c ∧ c ≤ 126 then [Char.ofNat c]
  else ['\\', 'x', hexLower (c / 16), hexLower (c % 16)]

def escapeChar (mode : EscapeMode) (c : Char) : List Char :=
  match mode with
  | .asciiEscapeDefaultElseRaw => if c.toNat < 128 then asciiEscapeDefault c.toNat else [c]
  | .perUtf8Byte => (String.utf8EncodeChar c).flatMap (fun b => asciiEscapeDefault b.toNat)

/-- the text printed between the quotes of a string constant -/
def escapeWith (mode : EscapeMode) (s : List Char) : List Char := s.flatMap (escapeChar mode)

/-- with the escaping found in pretty.rs -/
def escape (s : List Char) : List Char := escapeWith stringEscapeMode s

/-- the simple escapes of `character()`: first arm whose letter matches -/
def simpleEscape (k : Char) : Option Char :=
  (escapeParseArms.find? (fun p => p.1 == k.toNat)).map (fun p => Char.ofNat p.2)

/-- the `"\\x" i:character() i2:character() {? hex::decode … }` alternative after `\x` -/
def hexEscape (rec : List Char → Option (Char × List Char)) (r' : List Char) : Option (Char × List Char) :=
  match rec r' with
  | some (i, r1) =>
    match rec r1 with
    | some (i2, r2) =>
      match hexVal i, hexVal i2 with
      | some x, some y => some (Char.ofNat (x * 16 + y), r2)
      | _, _ => none
    | none => none
  | none => none

/-- ordered choice of `character()` on `c :: r`; `rec` reads the nested characters of `\x` -/
def charStep (rec : List Char → Option (Char × List Char)) (c : Char) (r : List Char) : Option (Char × List Char) :=
  if c = '\\' then
    match r with
    | [] => some ('\\', [])
    | k :: r' =>
      match simpleEscape k with
      | some e => some (e, r')
      | none =>
        match (if k = 'x' then hexEscape rec r' else none) with
        | some res => some res
        | none => some ('\\', r)      -- `[^ '"']` takes the backslash itself
  else if c = '"' then none
  else some (c, r)

/-- `character()`: one (possibly escaped) character of a string literal.  The fuel bounds the
nesting of `\x` (whose two digits are themselves `character()`s). -/
def character : Nat → List Char → Option (Char × List Char)
  | _, [] => none
  | 0, c :: r => charStep (fun _ => none) c r
  | fuel + 1, c :: r => charStep (character fuel) c r

/-- `character()* "\""` after the opening quote: decoded string and what follows the closing quote -/
def unescapeQ : Nat → List Char → Option (List Char × List Char)
  | 0, _ => none
  | fuel + 1, cs =>
    match character cs.length cs with
    | some (c, r) => (unescapeQ fuel r).map (fun p => (c :: p.1, p.2))
    | none =>
      match cs with
      | '"' :: r => some ([], r)
      | _ => none

/-- decode the raw text of a `str` token -/
def unescape (raw : List Char) : Option (List Char) :=
  match unescapeQ (raw.length + 2) (raw ++ ['"']) with
  | some (s, []) => some s
  | _ => none

-- ------------------------------------------------------------------ types
def tyOfAtom : TyAtom → Ty
  | .bool => .bool | .integer => .integer | .string => .string | .bytestring => .bytestring
  | .unit => .unit | .data => .data | .g1 => .g1 | .g2 => .g2 | .ml => .ml

def kwTerm (k : TermKind) : List Char := chars (termDisplay k)
def kwTermP (k : TermKind) : List Char := chars (termParse k)

/-- `Type::to_doc` -/
def printTy : Ty → List Token
  | .bool => [.word (chars (tyDisplay .bool))]
  | .integer => [.word (chars (tyDisplay .integer))]
  | .string => [.word (chars (tyDisplay .string))]
  | .bytestring => [.word (chars (tyDisplay .bytestring))]
  | .unit => [.word (chars (tyDisplay .unit))]
  | .data => [.word (chars (tyDisplay .data))]
  | .g1 => [.word (chars (tyDisplay .g1))]
  | .g2 => [.word (chars (tyDisplay .g2))]
  | .ml => [.word (chars (tyDisplay .ml))]
  | .list t => [.lpar, .word (chars tyListDisplay), .ws] ++ printTy t ++ [.rpar]
  | .pair a b => [.lpar, .word (chars tyPairDisplay), .ws] ++ printTy a ++ [.ws] ++ printTy b ++ [.rpar]

/-- `_*` -/
def skipWs : List Token → List Token
  | .ws :: r => skipWs r
  | r => r

/-- `_+` -/
def reqWs : List Token → Option (List Token)
  | .ws :: r => some (skipWs r)
  | _ => none

def tyAtomOfWord (w : List Char) : Option TyAtom :=
  (tyParseArms.find? (fun p => chars p.1 == w)).map (·.2)

/-- `type_info()` (it starts with `_*` in every alternative) -/
def parseTy : Nat → List Token → Option (Ty × List Token)
  | 0, _ => none
  | fuel + 1, toks =>
    match skipWs toks with
    | .word w :: r => (tyAtomOfWord w).map (fun a => (tyOfAtom a, r))
    | .lpar :: r =>
      match skipWs r with
      | .word w :: r1 =>
        let listAlt : Option (Ty × List Token) :=
          if w = chars tyListParse then
            match reqWs r1 with
            | some r2 =>
              match parseTy fuel r2 with
              | some (t, r3) =>
                match skipWs r3 with
                | .rpar :: r4 => some (.list t, r4)
                | _ => none
              | none => none
            | none => none
          else none
        match listAlt with
        | some res => some res
        | none =>
          if w = chars tyPairParse then
            match reqWs r1 with
            | some r2 =>
              match parseTy fuel r2 with
              | some (a, r3) =>
                match reqWs r3 with
                | some r4 =>
                  match parseTy fuel r4 with
                  | some (b, r5) =>
                    match skipWs r5 with
                    | .rpar :: r6 => some (.pair a b, r6)
                    | _ => none
                  | none => none
                | none => none
              | none => none
            | none => none
          else none
      | _ => none
    | _ => none

-- ------------------------------------------------------------------ data
def kwData (k : DataKind) : List Char := chars (dataDisplay k)

def dataKindOfWord (w : List Char) : Option DataKind :=
  (dataParseArms.find? (fun p => chars p.1 == w)).map (·.2)

/-- separator `", "` -/
def sepTokens : List Token := [.comma, .ws]

mutual
  /-- `Constant::to_doc_list_plutus_data` -/
  def printData : Data → List Token
    | .constr tag fs => [.word (kwData .constr), .ws, .word (natChars tag), .ws, .lbrack] ++ printDataList fs ++ [.rbrack]
    | .map es => [.word (kwData .map), .ws, .lbrack] ++ printDataPairs es ++ [.rbrack]
    | .list xs => [.word (kwData .list), .ws, .lbrack] ++ printDataList xs ++ [.rbrack]
    | .int n => [.word (kwData .int), .ws, .word (intChars n)]
    | .bytes b => [.word (kwData .bytes), .ws, .hash (hexChars b)]
  /-- `RcDoc::intersperse(…, ", ")` -/
  def printDataList : List Data → List Token
    | [] => []
    | [d] => printData d
    | d :: ds => printData d ++ sepTokens ++ printDataList ds
  def printDataPairs : List (Data × Data) → List Token
    | [] => []
    | [(k, v)] => [.lpar] ++ printData k ++ sepTokens ++ printData v ++ [.rpar]
    | (k, v) :: es => [.lpar] ++ printData k ++ sepTokens ++ printData v ++ [.rpar] ++ sepTokens ++ printDataPairs es
end

/-- `comma()` = `_* "," _*` -/
def parseComma (toks : List Token) : Option (List Token) :=
  match skipWs toks with
  | .comma :: r => some (skipWs r)
  | _ => none

mutual
  /-- `data()` (every alternative starts with `_*`) -/
  def parseData : Nat → List Token → Option (Data × List Token)
    | 0, _ => none
    | fuel + 1, toks =>
      match skipWs toks with
      | .word w :: r =>
        match dataKindOfWord w with
        | some .constr =>
          match reqWs r with
          | some (.word tg :: r1) =>
            match parseDecimal tg with
            | some tag =>
              match reqWs r1 with
              | some r2 => (parseDataBracket fuel r2).map (fun p => (.constr tag p.1, p.2))
              | none => none
            | none => none
          | _ => none
        | some .map =>
          match reqWs r with
          | some r1 => (parsePairsBracket fuel r1).map (fun p => (.map p.1, p.2))
          | none => none
        | some .list =>
          match reqWs r with
          | some r1 => (parseDataBracket fuel r1).map (fun p => (.list p.1, p.2))
          | none => none
        | some .int =>
          match reqWs r with
          | some (.word n :: r1) => (parseBigNumber n).map (fun i => (.int i, r1))
          | _ => none
        | some .bytes =>
          match reqWs r with
          | some (.hash h :: r1) => (hexDecode h).map (fun b => (.bytes b, r1))
          | _ => none
        | none => none
      | _ => none
  /-- `plutus_list()` = `"[" _* (data() ** comma()) _* "]"` -/
  def parseDataBracket : Nat → List Token → Option (List Data × List Token)
    | 0, _ => none
    | fuel + 1, toks =>
      match toks with
      | .lbrack :: r =>
        match parseData fuel (skipWs r) with
        | none =>
          match skipWs r with
          | .rbrack :: r1 => some ([], r1)
          | _ => none
        | some (d, r1) =>
          match parseDataMore fuel r1 with
          | some (ds, r2) =>
            match skipWs r2 with
            | .rbrack :: r3 => some (d :: ds, r3)
            | _ => none
          | none => none
      | _ => none
  /-- the `(comma() data())*` tail of `**`; stops (without consuming) where no further item parses -/
  def parseDataMore : Nat → List Token → Option (List Data × List Token)
    | 0, _ => none
    | fuel + 1, toks =>
      match parseComma toks with
      | some r =>
        match parseData fuel r with
        | some (d, r1) => (parseDataMore fuel r1).map (fun p => (d :: p.1, p.2))
        | none => some ([], toks)
      | none => some ([], toks)
  /-- `plutus_key_value_pair()` = `"(" _* data() comma() data() _* ")"` -/
  def parseDataPair : Nat → List Token → Option ((Data × Data) × List Token)
    | 0, _ => none
    | fuel + 1, toks =>
      match toks with
      | .lpar :: r =>
        match parseData fuel (skipWs r) with
        | some (k, r1) =>
          match parseComma r1 with
          | some r2 =>
            match parseData fuel r2 with
            | some (v, r3) =>
              match skipWs r3 with
              | .rpar :: r4 => some ((k, v), r4)
              | _ => none
            | none => none
          | none => none
        | none => none
      | _ => none
  /-- `plutus_key_value_pairs()` -/
  def parsePairsBracket : Nat → List Token → Option (List (Data × Data) × List Token)
    | 0, _ => none
    | fuel + 1, toks =>
      match toks with
      | .lbrack :: r =>
        match parseDataPair fuel (skipWs r) with
        | none =>
          match skipWs r with
          | .rbrack :: r1 => some ([], r1)
          | _ => none
        | some (e, r1) =>
          match parsePairsMore fuel r1 with
          | some (es, r2) =>
            match skipWs r2 with
            | .rbrack :: r3 => some (e :: es, r3)
            | _ => none
          | none => none
      | _ => none
  def parsePairsMore : Nat → List Token → Option (List (Data × Data) × List Token)
    | 0, _ => none
    | fuel + 1, toks =>
      match parseComma toks with
      | some r =>
        match parseDataPair fuel r with
        | some (e, r1) => (parsePairsMore fuel r1).map (fun p => (e :: p.1, p.2))
        | none => some ([], toks)
      | none => some ([], toks)
end

-- ------------------------------------------------------------------ constants
def kwCon (k : ConKind) : List Char := chars (conDisplay k)

def conKindOfWord (w : List Char) : Option ConKind :=
  (conParseArms.find? (fun p => chars p.1 == w)).map (·.2)

def boolOfWord (w : List Char) : Option Bool :=
  (boolParseArms.find? (fun p => chars p.1 == w)).map (·.2)

def boolWord (b : Bool) : List Char := chars (if b then boolDisplayTrue else boolDisplayFalse)

/-- compressed sizes checked first by `Compressable::uncompress` -/
def g1Size : Nat := 48
def g2Size : Nat := 96

/-- `"0x" ident()*` then `hex::decode` on a whole word (BLS element bytes).  Of `blst_p?::uncompress`
only the length check is modelled (`g1Size` / `g2Size`), not the on-curve / in-group check: an element
*is* its compressed bytes. -/
def parseBlsWord (w : List Char) : Option Bytes :=
  match w with
  | '0' :: 'x' :: h => if h.all isIdentChar then hexDecode h else none
  | _ => none

def blsWord (b : Bytes) : List Char := '0' :: 'x' :: hexChars b

mutual
  /-- `Constant::to_doc_list` (a constant inside a list or pair: no type) -/
  def printElem : Const → List Token
    | .integer n => [.word (intChars n)]
    | .bytestring b => [.hash (hexChars b)]
    | .string s => [.str (escape s)]
    | .unit => [.unit]
    | .bool b => [.word (boolWord b)]
    | .list _ xs => [.lbrack] ++ printElems xs ++ [.rbrack]
    | .pair _ _ x y => [.lpar] ++ printElem x ++ sepTokens ++ printElem y ++ [.rpar]
    | .data d => printData d
    | .g1 b => [.word (blsWord b)]
    | .g2 b => [.word (blsWord b)]
    | .ml _ => []     -- the Rust panics here; excluded by `constPrintable`
  def printElems : List Const → List Token
    | [] => []
    | [c] => printElem c
    | c :: cs => printElem c ++ sepTokens ++ printElems cs
end

/-- `Constant::to_doc` (what follows `con`) -/
def printConst : Const → List Token
  | .integer n => [.word (kwCon .integer), .ws, .word (intChars n)]
  | .bytestring b => [.word (kwCon .bytestring), .ws, .hash (hexChars b)]
  | .string s => [.word (kwCon .string), .ws, .str (escape s)]
  | .unit => [.word (kwCon .unit), .ws, .unit]
  | .bool b => [.word (kwCon .bool), .ws, .word (boolWord b)]
  | .list t xs => [.lpar, .word (kwCon .list), .ws] ++ printTy t ++ [.rpar, .ws, .lbrack] ++ printElems xs ++ [.rbrack]
  | .pair a b x y =>
    [.lpar, .word (kwCon .pair), .ws] ++ printTy a ++ [.ws] ++ printTy b ++ [.rpar, .ws, .lpar]
      ++ printElem x ++ sepTokens ++ printElem y ++ [.rpar]
  | .data d => [.word (kwCon .data), .ws, .lpar] ++ printData d ++ [.rpar]
  | .g1 b => [.word (kwCon .g1), .ws, .word (blsWord b)]
  | .g2 b => [.word (kwCon .g2), .ws, .word (blsWord b)]
  | .ml _ => []

mutual
  /-- the printer panics on a `Bls12_381MlResult` value -/
  def constPrintable : Const → Bool
    | .ml _ => false
    | .list _ xs => constsPrintable xs
    | .pair _ _ x y => constPrintable x && constPrintable y
    | _ => true
  def constsPrintable : List Const → Bool
    | [] => true
    | c :: cs => constPrintable c && constsPrintable cs
end

mutual
  /-- `typed_constant(Some(t))`: ordered choice, each alternative checks the expected type last -/
  def parseElem : Nat → Ty → List Token → Option (Const × List Token)
    | 0, _, _ => none
    | fuel + 1, t, toks =>
      match toks with
      | .unit :: r => if t = .unit then some (.unit, r) else none
      | .word w :: r =>
        match boolOfWord w with
        | some b => if t = .bool then some (.bool b, r) else none
        | none =>
          match parseBigNumber w with
          | some n => if t = .integer then some (.integer n, r) else none
          | none =>
            match dataKindOfWord w with
            | some _ =>
              match parseData (fuel + 1) toks with
              | some (d, r1) => if t = .data then some (.data d, r1) else none
              | none => none
            | none =>
              match parseBlsWord w with
              | some b =>
                if b.length = g1Size ∧ t = .g1 then some (.g1 b, r)
                else if b.length = g2Size ∧ t = .g2 then some (.g2 b, r)
                else none
              | none => none
      | .hash h :: r =>
        match hexDecode h with
        | some b => if t = .bytestring then some (.bytestring b, r) else none
        | none => none
      | .str raw :: r =>
        match unescape raw with
        | some s => if t = .string then some (.string s, r) else none
        | none => none
      | .ws :: _ =>
        -- only `data()` accepts leading white space
        match parseData (fuel + 1) toks with
        | some (d, r1) => if t = .data then some (.data d, r1) else none
        | none => none
      | .lbrack :: _ =>
        match t with
        | .list et => (parseElemBracket fuel et toks).map (fun p => (.list et p.1, p.2))
        | _ => none
      | .lpar :: _ =>
        match t with
        | .pair a b => (parseElemPair fuel a b toks).map (fun p => (.pair a b p.1.1 p.1.2, p.2))
        | _ => none
      | _ => none
  /-- `list(Some(t))` = `"[" _* (typed_constant(t) ** comma()) _* "]"` -/
  def parseElemBracket : Nat → Ty → List Token → Option (List Const × List Token)
    | 0, _, _ => none
    | fuel + 1, t, toks =>
      match toks with
      | .lbrack :: r =>
        match parseElem fuel t (skipWs r) with
        | none =>
          match skipWs r with
          | .rbrack :: r1 => some ([], r1)
          | _ => none
        | some (c, r1) =>
          match parseElemMore fuel t r1 with
          | some (cs, r2) =>
            match skipWs r2 with
            | .rbrack :: r3 => some (c :: cs, r3)
            | _ => none
          | none => none
      | _ => none
  def parseElemMore : Nat → Ty → List Token → Option (List Const × List Token)
    | 0, _, _ => none
    | fuel + 1, t, toks =>
      match parseComma toks with
      | some r =>
        match parseElem fuel t r with
        | some (c, r1) => (parseElemMore fuel t r1).map (fun p => (c :: p.1, p.2))
        | none => some ([], toks)
      | none => some ([], toks)
  /-- `pair(Some((a, b)))` = `"(" _* typed_constant(a) comma() typed_constant(b) _* ")"` -/
  def parseElemPair : Nat → Ty → Ty → List Token → Option ((Const × Const) × List Token)
    | 0, _, _, _ => none
    | fuel + 1, a, b, toks =>
      match toks with
      | .lpar :: r =>
        match parseElem fuel a (skipWs r) with
        | some (x, r1) =>
          match parseComma r1 with
          | some r2 =>
            match parseElem fuel b r2 with
            | some (y, r3) =>
              match skipWs r3 with
              | .rpar :: r4 => some ((x, y), r4)
              | _ => none
            | none => none
          | none => none
        | none => none
      | _ => none
end

/-- the alternatives of rule `constant` after `"(" _* "con" _+`, up to (not including) `_* ")"` -/
def parseConst (fuel : Nat) (toks : List Token) : Option (Const × List Token) :=
  match toks with
  | .word w :: r =>
    match conKindOfWord w with
    | some .integer =>
      match reqWs r with
      | some (.word n :: r1) => (parseBigNumber n).map (fun i => (.integer i, r1))
      | _ => none
    | some .bytestring =>
      match reqWs r with
      | some (.hash h :: r1) => (hexDecode h).map (fun b => (.bytestring b, r1))
      | _ => none
    | some .string =>
      match reqWs r with
      | some (.str raw :: r1) => (unescape raw).map (fun s => (.string s, r1))
      | _ => none
    | some .unit =>
      match reqWs r with
      | some (.unit :: r1) => some (.unit, r1)
      | _ => none
    | some .bool =>
      match reqWs r with
      | some (.word b :: r1) => (boolOfWord b).map (fun v => (.bool v, r1))
      | _ => none
    | some .data =>
      match skipWs r with
      | .lpar :: r1 =>
        match parseData fuel (skipWs r1) with
        | some (d, r2) =>
          match skipWs r2 with
          | .rpar :: r3 => some (.data d, r3)
          | _ => none
        | none => none
      | _ => none
    | some .g1 =>
      match reqWs r with
      | some (.word e :: r1) => (parseBlsWord e).bind (fun b => if b.length = g1Size then some (.g1 b, r1) else none)
      | _ => none
    | some .g2 =>
      match reqWs r with
      | some (.word e :: r1) => (parseBlsWord e).bind (fun b => if b.length = g2Size then some (.g2 b, r1) else none)
      | _ => none
    | _ => none
  | .lpar :: r =>
    match skipWs r with
    | .word w :: r1 =>
      match conKindOfWord w with
      | some .list =>
        -- `"(" _* "list" _* type_info _* ")" _+ list(Some(&t))`
        match parseTy fuel r1 with
        | some (t, r2) =>
          match skipWs r2 with
          | .rpar :: r3 =>
            match reqWs r3 with
            | some r4 => (parseElemBracket fuel t r4).map (fun p => (.list t p.1, p.2))
            | none => none
          | _ => none
        | none => none
      | some .pair =>
        -- `"(" _* "pair" _+ type_info _+ type_info _* ")" _+ pair(Some((&l, &r)))`
        match reqWs r1 with
        | some r2 =>
          match parseTy fuel r2 with
          | some (a, r3) =>
            match reqWs r3 with
            | some r4 =>
              match parseTy fuel r4 with
              | some (b, r5) =>
                match skipWs r5 with
                | .rpar :: r6 =>
                  match reqWs r6 with
                  | some r7 => (parseElemPair fuel a b r7).map (fun p => (.pair a b p.1.1 p.1.2, p.2))
                  | none => none
                | _ => none
              | none => none
            | none => none
          | none => none
        | none => none
      | _ => none
    | _ => none
  | _ => none

-- ------------------------------------------------------------------ terms
/-- how a binder is printed (`Binder::text`) -/
class BinderText (β : Type) where
  text : β → List Char

instance : BinderText Name where text n := n.text.toList
instance : BinderText NamedDeBruijn where text n := n.text.toList ++ '_' :: natChars n.index
instance : BinderText DeBruijn where text n := 'i' :: '_' :: natChars n

section printer
variable {β : Type} [BinderText β]

mutual
  /-- `Term::to_doc`, flat -/
  def printTerm : Term β → List Token
    | .var n => [.word (BinderText.text n)]
    | .lam n b => [.lpar, .word (kwTerm .lam), .ws, .word (BinderText.text n), .ws] ++ printTerm b ++ [.rpar]
    | .app f a => [.lbrack, .ws] ++ printTerm f ++ [.ws] ++ printTerm a ++ [.ws, .rbrack]
    | .delay t => [.lpar, .word (kwTerm .delay), .ws] ++ printTerm t ++ [.rpar]
    | .force t => [.lpar, .word (kwTerm .force), .ws] ++ printTerm t ++ [.rpar]
    | .error => [.lpar, .word (kwTerm .error), .rpar]
    | .builtin b => [.lpar, .word (kwTerm .builtin), .ws, .word (chars b.display), .rpar]
    | .const c => [.lpar, .word (kwTerm .con), .ws] ++ printConst c ++ [.rpar]
    | .constr tag fs => [.lpar, .word (kwTerm .constr), .ws, .word (natChars tag)] ++ printTerms fs ++ [.rpar]
    | .case s bs => [.lpar, .word (kwTerm .case), .ws] ++ printTerm s ++ printTerms bs ++ [.rpar]
  /-- `line() ++ intersperse(fields, line())` -/
  def printTerms : List (Term β) → List Token
    | [] => []
    | t :: ts => .ws :: (printTerm t ++ printTerms ts)
end

/-- `Program::to_doc`, flat -/
def printProgramTokens (p : Program β) : List Token :=
  [.lpar, .word (chars programDisplay), .ws, .word (versionChars p.version), .ws] ++ printTerm p.term ++ [.rpar]

mutual
  def termPrintable : Term β → Bool
    | .const c => constPrintable c
    | .lam _ b => termPrintable b
    | .app f a => termPrintable f && termPrintable a
    | .delay t => termPrintable t
    | .force t => termPrintable t
    | .constr _ fs => termsPrintable fs
    | .case s bs => termPrintable s && termsPrintable bs
    | _ => true
  def termsPrintable : List (Term β) → Bool
    | [] => true
    | t :: ts => termPrintable t && termsPrintable ts
end

/-- `Program::to_pretty` up to layout; `none` = the Rust panics (ml-result value) -/
def printProgram (p : Program β) : Option (List Token) :=
  if termPrintable p.term then some (printProgramTokens p) else none

end printer

/-- `parser::interner::Interner`: texts in order of first appearance; the unique is the position -/
abbrev Interner := List (List Char)

def idxOf {α} [DecidableEq α] (a : α) : List α → Option Nat
  | [] => none
  | b :: bs => if a = b then some 0 else (idxOf a bs).map (· + 1)

/-- `Interner::intern` -/
def intern (text : List Char) (st : Interner) : Nat × Interner :=
  match idxOf text st with
  | some i => (i, st)
  | none => (st.length, st ++ [text])

def mkName (text : List Char) (u : Nat) : Name := ⟨String.ofList text, Int.ofNat u⟩

def builtinOfWord (w : List Char) : Option Builtin := Builtin.fromStr (w.map Char.toNat)

/-- left fold of the arguments of `[f a b …]` -/
def applyAll (f : Term Name) : List (Term Name) → Term Name
  | [] => f
  | a :: as => applyAll (.app f a) as

/-- `"(" _* kw` : the tokens after the keyword, if the list starts with `(`, then `kw` -/
def afterKeyword (kw : List Char) (toks : List Token) : Option (List Token) :=
  match toks with
  | .lpar :: r =>
    match skipWs r with
    | .word w :: r1 => if w = kw then some r1 else none
    | _ => none
  | _ => none

abbrev TermRes := Option (Term Name × Interner × List Token)
abbrev TermsRes := Option (List (Term Name) × Interner × List Token)

/-- `constant`: `"(" _* "con" _+ con:(…) _* ")"` -/
def altConst (fuel : Nat) (st : Interner) (toks : List Token) : TermRes :=
  match afterKeyword (kwTermP .con) toks with
  | some r =>
    match reqWs r with
    | some r1 =>
      match parseConst fuel r1 with
      | some (c, r2) =>
        match skipWs r2 with
        | .rpar :: r3 => some (.const c, st, r3)
        | _ => none
      | none => none
    | none => none
  | none => none

/-- `builtin`: `"(" _* "builtin" _+ b:ident() _* ")"` (with the fix: an unknown name is a parse error) -/
def altBuiltin (st : Interner) (toks : List Token) : TermRes :=
  match afterKeyword (kwTermP .builtin) toks with
  | some r =>
    match reqWs r with
    | some (.word w :: r1) =>
      if isIdent w then
        match skipWs r1 with
        | .rpar :: r2 => (builtinOfWord w).map (fun b => (.builtin b, st, r2))
        | _ => none
      else none
    | _ => none
  | none => none

/-- `var`: `n:name(interner)` -/
def altVar (st : Interner) (toks : List Token) : TermRes :=
  match toks with
  | .word w :: r =>
    if isIdent w then some (.var (mkName w (intern w st).1), (intern w st).2, r) else none
  | _ => none

/-- `lambda`: `"(" _* "lam" _+ name _+ term _* ")"` -/
def altLam (rec : Interner → List Token → TermRes) (st : Interner) (toks : List Token) : TermRes :=
  match afterKeyword (kwTermP .lam) toks with
  | some r =>
    match reqWs r with
    | some (.word w :: r1) =>
      if isIdent w then
        match reqWs r1 with
        | some r2 =>
          match rec (intern w st).2 r2 with
          | some (b, st', r3) =>
            match skipWs r3 with
            | .rpar :: r4 => some (.lam (mkName w (intern w st).1) b, st', r4)
            | _ => none
          | none => none
        | none => none
      else none
    | _ => none
  | none => none

/-- `apply`: `"[" _* initial:term _+ terms:(t:term _* { t })+ "]"` -/
def altApply (rec : Interner → List Token → TermRes) (recs : Interner → List Token → TermsRes)
    (st : Interner) (toks : List Token) : TermRes :=
  match toks with
  | .lbrack :: r =>
    match rec st (skipWs r) with
    | some (f, st1, r1) =>
      match reqWs r1 with
      | some r2 =>
        match recs st1 r2 with
        | some (a :: as, st2, .rbrack :: r3) => some (applyAll f (a :: as), st2, r3)
        | _ => none
      | none => none
    | none => none
  | _ => none

/-- `delay` / `force`: `"(" _* kw _* term _* ")"` -/
def altUnary (k : TermKind) (mk : Term Name → Term Name) (rec : Interner → List Token → TermRes)
    (st : Interner) (toks : List Token) : TermRes :=
  match afterKeyword (kwTermP k) toks with
  | some r =>
    match rec st (skipWs r) with
    | some (t, st1, r1) =>
      match skipWs r1 with
      | .rpar :: r2 => some (mk t, st1, r2)
      | _ => none
    | none => none
  | none => none

/-- `error`: `"(" _* "error" _* ")"` -/
def altError (st : Interner) (toks : List Token) : TermRes :=
  match afterKeyword (kwTermP .error) toks with
  | some r =>
    match skipWs r with
    | .rpar :: r1 => some (.error, st, r1)
    | _ => none
  | none => none

/-- `constr`: `"(" _* "constr" _+ tag:decimal() _* fields:(t:term _* { t })* _* ")"` -/
def altConstr (recs : Interner → List Token → TermsRes) (st : Interner) (toks : List Token) : TermRes :=
  match afterKeyword (kwTermP .constr) toks with
  | some r =>
    match reqWs r with
    | some (.word tg :: r1) =>
      -- `decimal()` takes the digits the word starts with; what is left of the word (scanner-less
      -- grammar: `(constr 0x)` = `(constr 0 x)`) is the first thing the field loop sees
      match parseDecimal (tg.takeWhile isDigit) with
      | some tag =>
        match recs st (if (tg.dropWhile isDigit).isEmpty then skipWs r1 else .word (tg.dropWhile isDigit) :: r1) with
        | some (fs, st1, .rpar :: r2) => some (.constr tag fs, st1, r2)
        | _ => none
      | none => none
    | _ => none
  | none => none

/-- `case`: `"(" _* "case" _+ constr:term _* branches:(t:term _* { t })* _* ")"` -/
def altCase (rec : Interner → List Token → TermRes) (recs : Interner → List Token → TermsRes)
    (st : Interner) (toks : List Token) : TermRes :=
  match afterKeyword (kwTermP .case) toks with
  | some r =>
    match reqWs r with
    | some r1 =>
      match rec st r1 with
      | some (s, st1, r2) =>
        match recs st1 (skipWs r2) with
        | some (bs, st2, .rpar :: r3) => some (.case s bs, st2, r3)
        | _ => none
      | none => none
    | none => none
  | none => none

/-- ordered choice -/
def orElse {α} (a b : Option α) : Option α :=
  match a with
  | some x => some x
  | none => b

mutual
  /-- rule `term`: `constant / builtin / var / lambda / apply / delay / force / error / constr / case`.
  Result: term, interner state, rest. -/
  def parseTerm : Nat → Interner → List Token → TermRes
    | 0, _, _ => none
    | fuel + 1, st, toks =>
      orElse (altConst fuel st toks) <|
      orElse (altBuiltin st toks) <|
      orElse (altVar st toks) <|
      orElse (altLam (parseTerm fuel) st toks) <|
      orElse (altApply (parseTerm fuel) (parseTerms fuel) st toks) <|
      orElse (altUnary .delay .delay (parseTerm fuel) st toks) <|
      orElse (altUnary .force .force (parseTerm fuel) st toks) <|
      orElse (altError st toks) <|
      orElse (altConstr (parseTerms fuel) st toks) <|
      altCase (parseTerm fuel) (parseTerms fuel) st toks
  /-- `(t:term _* { t })*` — never fails; the rest has its leading white space skipped -/
  def parseTerms : Nat → Interner → List Token → TermsRes
    | 0, _, _ => none
    | fuel + 1, st, toks =>
      match parseTerm fuel st toks with
      | some (t, st1, r) =>
        match parseTerms fuel st1 (skipWs r) with
        | some (ts, st2, r1) => some (t :: ts, st2, r1)
        | none => none
      | none => some ([], st, toks)
end

/-- rule `program`: `_* "(" _* "program" _+ version _+ term _* ")" _*` then end of input -/
def parseProgramFuel (fuel : Nat) (toks : List Token) : Option (Program Name) :=
  match afterKeyword (chars programParse) (skipWs toks) with
  | some r =>
    match reqWs r with
    | some (.word v :: r1) =>
      match parseVersion v with
      | some ver =>
        match reqWs r1 with
        | some r2 =>
          match parseTerm fuel [] r2 with
          | some (t, _, r3) =>
            match skipWs r3 with
            | .rpar :: r4 =>
              match skipWs r4 with
              | [] => some ⟨ver, t⟩
              | _ => none
            | _ => none
          | none => none
        | none => none
      | none => none
    | _ => none
  | none => none

/-- `parser::program` on tokens; the fuel is the number of tokens (see `Props/C15.lean` for adequacy
on printer output) -/
def parseProgram (toks : List Token) : Option (Program Name) := parseProgramFuel (toks.length + 1) toks

-- ------------------------------------------------------------------ printer with layout
/-- which soft breaks (`line_()`) of the document are rendered as a line break: one decision per
document node, addressed by its path from the root (innermost step first) -/
abbrev Layout := List Nat → Bool

/-- a soft break: white space if the document breaks here, nothing otherwise -/
def soft (b : Bool) : List Token := if b then [.ws] else []

/-- `Type::to_doc` under a layout (`"(list" line type line_ ")"`) -/
def printTyL (w : Layout) : List Nat → Ty → List Token
  | p, .list t => [.lpar, .word (chars tyListDisplay), .ws] ++ printTyL w (0 :: p) t ++ soft (w p) ++ [.rpar]
  | p, .pair a b =>
    [.lpar, .word (chars tyPairDisplay), .ws] ++ printTyL w (0 :: p) a ++ [.ws] ++ printTyL w (1 :: p) b ++ [.rpar]
  | _, t => printTy t

/-- `Constant::to_doc` under a layout (soft breaks only inside the types) -/
def printConstL (w : Layout) (p : List Nat) : Const → List Token
  | .list t xs =>
    [.lpar, .word (kwCon .list), .ws] ++ printTyL w (0 :: p) t ++ [.rpar, .ws, .lbrack] ++ printElems xs ++ [.rbrack]
  | .pair a b x y =>
    [.lpar, .word (kwCon .pair), .ws] ++ printTyL w (0 :: p) a ++ [.ws] ++ printTyL w (1 :: p) b ++ [.rpar, .ws, .lpar]
      ++ printElem x ++ sepTokens ++ printElem y ++ [.rpar]
  | c => printConst c

mutual
  /-- `Term::to_doc` under a layout: a soft break before the closing parenthesis of
  `lam` / `delay` / `force` / `con` / `builtin` / `constr` / `case` -/
  def printTermL (w : Layout) : List Nat → Term Name → List Token
    | _, .var n => [.word (BinderText.text n)]
    | p, .lam n b =>
      [.lpar, .word (kwTerm .lam), .ws, .word (BinderText.text n), .ws] ++ printTermL w (0 :: p) b ++ soft (w p) ++ [.rpar]
    | p, .app f a => [.lbrack, .ws] ++ printTermL w (0 :: p) f ++ [.ws] ++ printTermL w (1 :: p) a ++ [.ws, .rbrack]
    | p, .delay t => [.lpar, .word (kwTerm .delay), .ws] ++ printTermL w (0 :: p) t ++ soft (w p) ++ [.rpar]
    | p, .force t => [.lpar, .word (kwTerm .force), .ws] ++ printTermL w (0 :: p) t ++ soft (w p) ++ [.rpar]
    | _, .error => [.lpar, .word (kwTerm .error), .rpar]
    | p, .builtin b => [.lpar, .word (kwTerm .builtin), .ws, .word (chars b.display)] ++ soft (w p) ++ [.rpar]
    | p, .const c => [.lpar, .word (kwTerm .con), .ws] ++ printConstL w (0 :: p) c ++ soft (w p) ++ [.rpar]
    | p, .constr tag fs =>
      [.lpar, .word (kwTerm .constr), .ws, .word (natChars tag)] ++ printTermsL w p 0 fs ++ soft (w p) ++ [.rpar]
    | p, .case s bs =>
      [.lpar, .word (kwTerm .case), .ws] ++ printTermL w (0 :: p) s ++ printTermsL w p 1 bs ++ soft (w p) ++ [.rpar]
  def printTermsL (w : Layout) : List Nat → Nat → List (Term Name) → List Token
    | _, _, [] => []
    | p, i, t :: ts => .ws :: (printTermL w (i :: p) t ++ printTermsL w p (i + 1) ts)
end

/-- `Program::to_doc` under a layout; `fun _ => false` is the flat rendering `printProgramTokens` -/
def printProgramTokensL (w : Layout) (p : Program Name) : List Token :=
  [.lpar, .word (chars programDisplay), .ws, .word (versionChars p.version), .ws] ++ printTermL w [0] p.term
    ++ soft (w []) ++ [.rpar]

/-- the token's text has no new-line (a `ws` token is layout, not text) -/
def cleanWord (w : List Char) : Bool := !w.contains '\n'

def tokOk : Token → Bool
  | .word w => cleanWord w
  | .hash h => cleanWord h
  | .str raw => cleanWord raw
  | _ => true

def toksOk (l : List Token) : Bool := l.all tokOk

-- ------------------------------------------------------------------ well-formedness (hypotheses of the round trip)
mutual
  /-- constructor tags fit the parser's `u64` -/
  def dataOk : Data → Bool
    | .constr tag fs => decide (tag < 2 ^ 64) && dataListOk fs
    | .map es => dataPairsOk es
    | .list xs => dataListOk xs
    | .int _ => true
    | .bytes _ => true
  def dataListOk : List Data → Bool
    | [] => true
    | d :: ds => dataOk d && dataListOk ds
  def dataPairsOk : List (Data × Data) → Bool
    | [] => true
    | (k, v) :: es => dataOk k && dataOk v && dataPairsOk es
end

mutual
  /-- `constOk t c`: `c` is a well-formed constant of type `t` — no ml-result value (the printer
  panics), BLS elements have their compressed size, list elements and pair components have the declared types (the printer omits the types of
  nested constants, the parser reconstructs them from the outer type), data tags fit `u64`. -/
  def constOk : Ty → Const → Bool
    | .integer, .integer _ => true
    | .bytestring, .bytestring _ => true
    | .string, .string _ => true
    | .unit, .unit => true
    | .bool, .bool _ => true
    | .data, .data d => dataOk d
    | .g1, .g1 b => decide (b.length = g1Size)
    | .g2, .g2 b => decide (b.length = g2Size)
    | .list t, .list t' xs => decide (t = t') && constsOk t xs
    | .pair a b, .pair a' b' x y => decide (a = a') && decide (b = b') && constOk a x && constOk b y
    | _, _ => false
  def constsOk : Ty → List Const → Bool
    | _, [] => true
    | t, c :: cs => constOk t c && constsOk t cs
end

mutual
  /-- constants well-formed, `constr` tags fit `usize`, names are identifiers of the grammar (not starting with `--`) -/
  def termOk : Term Name → Bool
    | .var n => validName n.text.toList
    | .lam n b => validName n.text.toList && termOk b
    | .app f a => termOk f && termOk a
    | .delay t => termOk t
    | .force t => termOk t
    | .error => true
    | .builtin _ => true
    | .const c => constOk c.ty c
    | .constr tag fs => decide (tag < 2 ^ 64) && termsOk fs
    | .case s bs => termOk s && termsOk bs
  def termsOk : List (Term Name) → Bool
    | [] => true
    | t :: ts => termOk t && termsOk ts
end

def programOk (p : Program Name) : Bool :=
  decide (p.version.1 < 2 ^ 64) && decide (p.version.2.1 < 2 ^ 64) && decide (p.version.2.2 < 2 ^ 64) && termOk p.term

-- ------------------------------------------------------------------ names: re-interning and binder resolution
/-- text of a name as the parser sees it -/
def nameChars (n : Name) : List Char := n.text.toList

mutual
  /-- `Interner::term` (parser/interner.rs): every name gets the unique its text is interned to,
  left to right.  This is also what parsing the printed term does to the names. -/
  def relabel : Interner → Term Name → Term Name × Interner
    | st, .var n => (.var (mkName (nameChars n) (intern (nameChars n) st).1), (intern (nameChars n) st).2)
    | st, .lam n b =>
      let r := relabel (intern (nameChars n) st).2 b
      (.lam (mkName (nameChars n) (intern (nameChars n) st).1) r.1, r.2)
    | st, .app f a =>
      let r1 := relabel st f
      let r2 := relabel r1.2 a
      (.app r1.1 r2.1, r2.2)
    | st, .delay t => let r := relabel st t; (.delay r.1, r.2)
    | st, .force t => let r := relabel st t; (.force r.1, r.2)
    | st, .error => (.error, st)
    | st, .builtin b => (.builtin b, st)
    | st, .const c => (.const c, st)
    | st, .constr tag fs => let r := relabelList st fs; (.constr tag r.1, r.2)
    | st, .case s bs =>
      let r1 := relabel st s
      let r2 := relabelList r1.2 bs
      (.case r1.1 r2.1, r2.2)
  def relabelList : Interner → List (Term Name) → List (Term Name) × Interner
    | st, [] => ([], st)
    | st, t :: ts =>
      let r1 := relabel st t
      let r2 := relabelList r1.2 ts
      (r1.1 :: r2.1, r2.2)
end

/-- a resolved variable: de Bruijn index of its binder (0 = innermost), or free (identified by text) -/
inductive Ref where
  | bound (i : Nat)
  | free (text : String)
  deriving DecidableEq, Repr, Inhabited

mutual
  /-- Binder resolution by environment list (innermost binder first): the nameless view of a term,
  where a variable is looked up by `key` (the unique for `Program<Name>`, cf. `Converter::get_index`
  which searches the scopes from the innermost one). -/
  def resolveBy {κ : Type} [DecidableEq κ] (key : Name → κ) : List κ → Term Name → Term Ref
    | env, .var n =>
      match idxOf (key n) env with
      | some i => .var (.bound i)
      | none => .var (.free n.text)
    | env, .lam n b => .lam (.bound 0) (resolveBy key (key n :: env) b)
    | env, .app f a => .app (resolveBy key env f) (resolveBy key env a)
    | env, .delay t => .delay (resolveBy key env t)
    | env, .force t => .force (resolveBy key env t)
    | _, .error => .error
    | _, .builtin b => .builtin b
    | _, .const c => .const c
    | env, .constr tag fs => .constr tag (resolveListBy key env fs)
    | env, .case s bs => .case (resolveBy key env s) (resolveListBy key env bs)
  def resolveListBy {κ : Type} [DecidableEq κ] (key : Name → κ) : List κ → List (Term Name) → List (Term Ref)
    | _, [] => []
    | env, t :: ts => resolveBy key env t :: resolveListBy key env ts
end

/-- the nameless view of a `Term Name`: variables resolved through their `unique` -/
def nameless (t : Term Name) : Term Ref := resolveBy (·.unique) [] t

/-- α-equivalence of named programs: same version, same nameless view -/
def AlphaEq (p q : Program Name) : Prop := p.version = q.version ∧ nameless p.term = nameless q.term

mutual
  /-- `NamesConsistent`: at every variable, looking the binder up by *text* (all the printer emits)
  finds the same binder as looking it up by *unique* (what the program means). -/
  def scopeOk : List Name → Term Name → Bool
    | env, .var n => idxOf (nameChars n) (env.map nameChars) == idxOf n.unique (env.map (·.unique))
    | env, .lam n b => scopeOk (n :: env) b
    | env, .app f a => scopeOk env f && scopeOk env a
    | env, .delay t => scopeOk env t
    | env, .force t => scopeOk env t
    | _, .error => true
    | _, .builtin _ => true
    | _, .const _ => true
    | env, .constr _ fs => scopeOkList env fs
    | env, .case s bs => scopeOk env s && scopeOkList env bs
  def scopeOkList : List Name → List (Term Name) → Bool
    | _, [] => true
    | env, t :: ts => scopeOk env t && scopeOkList env ts
end

def namesConsistent (p : Program Name) : Bool := scopeOk [] p.term

mutual
  /-- every name occurrence (binders and variables), left to right -/
  def names : Term Name → List Name
    | .var n => [n]
    | .lam n b => n :: names b
    | .app f a => names f ++ names a
    | .delay t => names t
    | .force t => names t
    | .error => []
    | .builtin _ => []
    | .const _ => []
    | .constr _ fs => namesList fs
    | .case s bs => names s ++ namesList bs
  def namesList : List (Term Name) → List Name
    | [] => []
    | t :: ts => names t ++ namesList ts
end

/-- the stronger, scope-free condition: over the whole program, text and unique determine each other
(what `debruijn_to_name` produces: text `i_<unique>`) -/
def namesBijective (p : Program Name) : Bool :=
  (names p.term).all (fun n => (names p.term).all (fun m => decide (n.text = m.text ↔ n.unique = m.unique)))

-- ------------------------------------------------------------------ lexer
def isWsChar (c : Char) : Bool := c == ' ' || c == '\n' || c == '\r' || c == '\t'
def isWordChar (c : Char) : Bool := isIdentChar c || c == '+' || c == '.'

/-- drop a comment body up to and including the new-line; `none` if there is no new-line -/
def dropComment : List Char → Option (List Char)
  | [] => none
  | c :: r => if c == '\n' then some r else dropComment r

def pushWs : List Token → List Token
  | .ws :: acc => .ws :: acc
  | acc => .ws :: acc

/-- Tokeniser (accumulator reversed).  It splits text the way the scanner-less peg grammar does on
text whose tokens are not glued together (see notes/C15.md for the cases where a peg literal matches
a proper prefix of a word, e.g. `(delayx)`): white space and `--` comments, `()`, brackets, comma,
string literals (ended as `character()* "\""` ends them), `#…`, words. -/
def lexAux : Nat → List Char → List Token → Option (List Token)
  | 0, _, _ => none
  | _, [], acc => some acc.reverse
  | fuel + 1, c :: r, acc =>
    if isWsChar c then lexAux fuel r (pushWs acc)
    else if c == '-' && r.head? == some '-' && (dropComment r.tail).isSome then
      match dropComment r.tail with
      | some r' => lexAux fuel r' (pushWs acc)
      | none => none
    else if c == '(' then
      match r with
      | ')' :: r' => lexAux fuel r' (.unit :: acc)
      | _ => lexAux fuel r (.lpar :: acc)
    else if c == ')' then lexAux fuel r (.rpar :: acc)
    else if c == '[' then lexAux fuel r (.lbrack :: acc)
    else if c == ']' then lexAux fuel r (.rbrack :: acc)
    else if c == ',' then lexAux fuel r (.comma :: acc)
    else if c == '"' then
      match unescapeQ (r.length + 1) r with
      | some (_, rest) => lexAux fuel rest (.str (r.take (r.length - rest.length - 1)) :: acc)
      | none => none
    else if c == '#' then
      lexAux fuel (r.dropWhile isIdentChar) (.hash (r.takeWhile isIdentChar) :: acc)
    else if isWordChar c then
      lexAux fuel (r.dropWhile isWordChar) (.word (c :: r.takeWhile isWordChar) :: acc)
    else none

def lex (s : List Char) : Option (List Token) := lexAux (s.length + 1) s []

/-- `parser::program(src)` -/
def parseText (s : List Char) : Option (Program Name) := (lex s).bind parseProgram

-- ------------------------------------------------------------------ rendering (driver / tests)
def Token.render : Token → List Char
  | .lpar => ['('] | .rpar => [')'] | .lbrack => ['['] | .rbrack => [']'] | .comma => [',']
  | .unit => ['(', ')'] | .ws => [' '] | .word w => w | .hash h => '#' :: h | .str raw => '"' :: raw ++ ['"']

def renderTokens (ts : List Token) : List Char := ts.flatMap Token.render

end AikenVerif.Text
