import AikenVerif.Gen.Builtins
/-!
M-TERM: the UPLC abstract syntax shared by every UPLC model
(`crates/uplc/src/ast.rs`).  No Mathlib, no proofs: this file is linked into
the native driver.
-/
namespace AikenVerif
open Gen (Builtin)

abbrev Bytes := List UInt8

/-- `ast::Type` -/
inductive Ty where
  | integer | bytestring | string | unit | bool | data | g1 | g2 | ml
  | list (t : Ty)
  | pair (a b : Ty)
  deriving DecidableEq, Repr, Inhabited

/-- `PlutusData` without encoding annotations (the abstract value). -/
inductive Data where
  | constr (tag : Nat) (fields : List Data)
  | map (entries : List (Data × Data))
  | list (items : List Data)
  | int (n : Int)
  | bytes (b : Bytes)
  deriving Repr, Inhabited

/-- `ast::Constant`.  BLS elements are opaque (their compressed bytes). -/
inductive Const where
  | integer (n : Int)
  | bytestring (b : Bytes)
  | string (s : List Char)
  | unit
  | bool (b : Bool)
  | list (t : Ty) (items : List Const)
  | pair (a b : Ty) (x y : Const)
  | data (d : Data)
  | g1 (b : Bytes)
  | g2 (b : Bytes)
  | ml (b : Bytes)
  deriving Repr, Inhabited

/-- `Type::from(&Constant)` (machine.rs) -/
def Const.ty : Const → Ty
  | .integer _ => .integer
  | .bytestring _ => .bytestring
  | .string _ => .string
  | .unit => .unit
  | .bool _ => .bool
  | .list t _ => .list t
  | .pair a b _ _ => .pair a b
  | .data _ => .data
  | .g1 _ => .g1
  | .g2 _ => .g2
  | .ml _ => .ml

/-- `ast::Term<T>`; `β` is the binder/variable representation. -/
inductive Term (β : Type) where
  | var (n : β)
  | lam (n : β) (body : Term β)
  | app (f a : Term β)
  | delay (t : Term β)
  | force (t : Term β)
  | error
  | builtin (b : Builtin)
  | const (c : Const)
  | constr (tag : Nat) (fields : List (Term β))
  | case (scrut : Term β) (branches : List (Term β))
  deriving Repr, Inhabited

/-- `ast::NamedDeBruijn` -/
structure NamedDeBruijn where
  text : String
  index : Nat
  deriving DecidableEq, Repr, Inhabited

/-- `ast::Name` -/
structure Name where
  text : String
  unique : Int
  deriving DecidableEq, Repr, Inhabited

/-- `ast::DeBruijn` -/
abbrev DeBruijn := Nat

/-- `ast::Program<T>` -/
structure Program (β : Type) where
  version : Nat × Nat × Nat
  term : Term β
  deriving Repr, Inhabited

mutual
  /-- number of term nodes -/
  def Term.size {β} : Term β → Nat
    | .var _ | .error | .builtin _ | .const _ => 1
    | .lam _ b => b.size + 1
    | .app f a => f.size + a.size + 1
    | .delay t | .force t => t.size + 1
    | .constr _ fs => Term.sizeList fs + 1
    | .case s bs => s.size + Term.sizeList bs + 1
  def Term.sizeList {β} : List (Term β) → Nat
    | [] => 0
    | t :: ts => t.size + Term.sizeList ts
end

end AikenVerif
