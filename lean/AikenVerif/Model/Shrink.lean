/-!
# M-SHRINK — the property-test shrinker of `crates/aiken-lang/src/test_framework.rs`

Impl model (transliteration) of

* `Cache::get`                       (test_framework.rs:1069)  — longest-common-prefix rule + pruning
* `Counterexample::consider`         (:784)
* `Counterexample::replace`          (:1013)
* `Counterexample::binary_search_replace` (:988)
* `Counterexample::simplify`         (:825) and its six passes
* `Prng::{from_choices, choices}` and the on-chain `Seeded`/`Replayed` cursor protocol (:617-:769)
* `PropertyTest::run_once`'s `keep_counterexample`, `run_n_times`, `TestResult::is_success` (:397, :379, :1131)

over an ARBITRARY deterministic `run : List UInt8 → Status α`.

Conventions: `usize` is `Nat`; `i.overflowing_sub(1)` is "stop when `i = 0`, else `i - 1`";
slicing / indexing out of bounds is the explicit outcome `Res.panic`; every `while`/`loop`
takes a fuel counter and running out is the explicit outcome `Res.outOfFuel`
(`Props/C16.lean` proves neither outcome is reachable).  `u8` arithmetic is `UInt8` (wrapping, i.e.
release-mode Rust; the harness is built with overflow checks so a wrap in the real code would
show up as a panic in the correspondence run).  The `steps` counter and the two `eprintln!` of
`simplify` are not modelled (they are not part of `PropertyTestResult`).  The `u8` returned by
`binary_search_replace` is dropped: no caller uses it.
-/
namespace AikenVerif.Shrink

abbrev Choices := List UInt8

/-- `enum Status<T> { Keep(T), Ignore, Invalid }` -/
inductive Status (α : Type) where
  | keep (v : α)
  | ignore
  | invalid
  deriving Repr, DecidableEq, Inhabited

def Status.isInvalid : Status α → Bool
  | .invalid => true
  | _ => false

/-! ## Orders on choice sequences -/

/-- Rust's `<` on `&[u8]` (lexicographic, a strict prefix is smaller) -/
def lexLt : Choices → Choices → Bool
  | _, [] => false
  | [], _ :: _ => true
  | a :: as, b :: bs => decide (a < b) || (a == b && lexLt as bs)

/-- lexicographic `≤` -/
def lexLe : Choices → Choices → Bool
  | [], _ => true
  | _ :: _, [] => false
  | a :: as, b :: bs => decide (a < b) || (a == b && lexLe as bs)

/-- the order the property speaks about: shorter first, then lexicographic -/
def shortlexLe (a b : Choices) : Bool :=
  decide (a.length < b.length) || (a.length == b.length && lexLe a b)

/-! ## Cache -/

/-- `struct Cache { db: PatriciaMap<Status<T>>, run }`; the map is an association list with
unique keys, `calls` counts invocations of `run` (instrumentation, compared by the harness). -/
structure Cache (α : Type) where
  db : List (Choices × Status α) := []
  calls : Nat := 0
  deriving Repr

/-- `PatriciaMap::get_longest_common_prefix`: the longest stored key that is a prefix of `c` -/
def longestPrefix : List (Choices × Status α) → Choices → Option (Choices × Status α)
  | [], _ => none
  | (k, s) :: rest, c =>
    match longestPrefix rest c with
    | some (k', s') =>
      if k.isPrefixOf c && decide (k'.length < k.length) then some (k, s) else some (k', s')
    | none => if k.isPrefixOf c then some (k, s) else none

/-- the part of `Cache::get` after a miss: call `run`, prune, insert -/
def Cache.miss (run : Choices → Status α) (c : Cache α) (choices : Choices) : Status α × Cache α :=
  let st := run choices
  -- `if status != Status::Invalid { remove every key having `choices` as a prefix }`
  let db₁ := if st.isInvalid then c.db else c.db.filter (fun e => !choices.isPrefixOf e.1)
  -- `self.db.insert(choices, status)` (replaces an existing entry)
  let db₂ := (choices, st) :: db₁.filter (fun e => e.1 != choices)
  (st, { db := db₂, calls := c.calls + 1 })

/-- `Cache::get` -/
def Cache.get (run : Choices → Status α) (c : Cache α) (choices : Choices) : Status α × Cache α :=
  match longestPrefix c.db choices with
  | some (p, st) =>
    -- `if status != Status::Invalid || prefix == choices { return status }`
    if !st.isInvalid || p == choices then (st, c) else c.miss run choices
  | none => c.miss run choices

/-! ## Counterexample -/

/-- `struct Counterexample { value, choices, cache }` -/
structure CE (α : Type) where
  value : α
  choices : Choices
  cache : Cache α := {}
  deriving Repr

/-- outcome of a fuelled loop / partial operation -/
inductive Res (σ : Type) where
  | ok (s : σ)
  | outOfFuel
  | panic
  deriving Repr

def Res.bind : Res σ → (σ → Res τ) → Res τ
  | .ok s, f => f s
  | .outOfFuel, _ => .outOfFuel
  | .panic, _ => .panic

/-- `Counterexample::consider` -/
def consider (run : Choices → Status α) (s : CE α) (cand : Choices) : Bool × CE α :=
  if cand = s.choices then (true, s)
  else
    match s.cache.get run cand with
    | (.keep v, cache) =>
      if decide (cand.length ≤ s.choices.length) || lexLt cand s.choices then
        (true, { value := v, choices := cand, cache := cache })
      else (false, { s with cache := cache })
    | (_, cache) => (false, { s with cache := cache })

/-- the `for (i, v) in ivs { if i >= len { return false }; choices[i] = v }` part of `replace` -/
def applyIvs : Choices → List (Nat × UInt8) → Option Choices
  | cs, [] => some cs
  | cs, (i, v) :: rest => if i ≥ cs.length then none else applyIvs (cs.set i v) rest

/-- `Counterexample::replace` -/
def replace (run : Choices → Status α) (s : CE α) (ivs : List (Nat × UInt8)) : Bool × CE α :=
  match applyIvs s.choices ivs with
  | none => (false, s)
  | some cs => consider run s cs

/-- the `while lo + 1 < hi` loop of `binary_search_replace` -/
def bsLoop (run : Choices → Status α) (f : UInt8 → List (Nat × UInt8)) :
    Nat → UInt8 → UInt8 → CE α → Res (CE α)
  | 0, _, _, _ => .outOfFuel
  | fuel + 1, lo, hi, s =>
    if lo + 1 < hi then
      let mid := lo + (hi - lo) / 2
      match replace run s (f mid) with
      | (true, s₁) => bsLoop run f fuel lo mid s₁
      | (false, s₁) => bsLoop run f fuel mid hi s₁
    else .ok s

/-- `Counterexample::binary_search_replace` -/
def binarySearchReplace (run : Choices → Status α) (f : UInt8 → List (Nat × UInt8))
    (F : Nat) (lo hi : UInt8) (s : CE α) : Res (CE α) :=
  match replace run s (f lo) with
  | (true, s₁) => .ok s₁
  | (false, s₁) => bsLoop run f F lo hi s₁

/-! ### pass 1: delete chunks of size `k` (with the "decrement the previous choice" retry) -/

/-- `[&self.choices[..i], if j < len { &self.choices[j..] } else { &[] }].concat()` -/
def deleteCand (cs : Choices) (i k : Nat) : Choices :=
  cs.take i ++ (if i + k < cs.length then cs.drop (i + k) else [])

/-- `while !underflow { … }` for one value of `k`; `i` is the loop variable -/
def deleteLoop (run : Choices → Status α) (k : Nat) : Nat → Nat → CE α → Res (CE α)
  | 0, _, _ => .outOfFuel
  | fuel + 1, i, s =>
    if i ≥ s.choices.length then
      -- `(i, underflow) = i.overflowing_sub(1); continue`
      if i = 0 then .ok s else deleteLoop run k fuel (i - 1) s
    else
      let cand := deleteCand s.choices i k
      match consider run s cand with
      | (true, s₁) => deleteLoop run k fuel i s₁
      | (false, s₁) =>
        if i > 0 then
          match cand[i - 1]? with
          | none => .panic
          | some b =>
            if b > 0 then
              match consider run s₁ (cand.set (i - 1) (b - 1)) with
              | (true, s₂) =>
                -- `i += 1` then `overflowing_sub(1)`
                deleteLoop run k fuel i s₂
              | (false, s₂) => deleteLoop run k fuel (i - 1) s₂
            else deleteLoop run k fuel (i - 1) s₁
        else .ok s₁

def deletePass (run : Choices → Status α) (F k : Nat) (s : CE α) : Res (CE α) :=
  -- `if len < k { (0, true) } else { (len - k, false) }`
  if s.choices.length < k then .ok s else deleteLoop run k F (s.choices.length - k) s

/-! ### pass 2: zero chunks of size `k` -/

def zeroIvs (i k : Nat) : List (Nat × UInt8) := (List.range' (i - k) k).map (fun j => (j, 0))

def zeroLoop (run : Choices → Status α) (k : Nat) : Nat → Nat → CE α → Res (CE α)
  | 0, _, _ => .outOfFuel
  | fuel + 1, i, s =>
    if i ≥ k then
      match replace run s (zeroIvs i k) with
      | (true, s₁) => zeroLoop run k fuel (i - k) s₁
      | (false, s₁) => zeroLoop run k fuel (i - 1) s₁
    else .ok s

def zeroPass (run : Choices → Status α) (F k : Nat) (s : CE α) : Res (CE α) :=
  zeroLoop run k F s.choices.length s

/-! ### pass 3: minimise each choice by binary search -/

def minLoop (run : Choices → Status α) (F : Nat) : Nat → Nat → CE α → Res (CE α)
  | 0, _, _ => .outOfFuel
  | fuel + 1, i, s =>
    match s.choices[i]? with
    | none => .panic
    | some hi =>
      match binarySearchReplace run (fun v => [(i, v)]) F 0 hi s with
      | .ok s₁ => if i = 0 then .ok s₁ else minLoop run F fuel (i - 1) s₁
      | e => e

def minPass (run : Choices → Status α) (F : Nat) (s : CE α) : Res (CE α) :=
  if s.choices.length = 0 then .panic else minLoop run F F (s.choices.length - 1) s

/-! ### pass 4: sort chunks -/

def insertSorted (x : UInt8) : Choices → Choices
  | [] => [x]
  | y :: ys => if x ≤ y then x :: y :: ys else y :: insertSorted x ys

/-- `.sorted()` of itertools on `u8` -/
def sortAsc : Choices → Choices
  | [] => []
  | x :: xs => insertSorted x (sortAsc xs)

def sortIvs (cs : Choices) (i k : Nat) : List (Nat × UInt8) :=
  (List.range' (i - k) k).zip (sortAsc ((cs.drop (i - k)).take k))

def sortLoop (run : Choices → Status α) (k : Nat) : Nat → Nat → CE α → Res (CE α)
  | 0, _, _ => .outOfFuel
  | fuel + 1, i, s =>
    if i ≥ k then
      -- `self.choices[from..to]` panics when `to > len`
      if i > s.choices.length then .panic
      else sortLoop run k fuel (i - 1) (replace run s (sortIvs s.choices i k)).2
    else .ok s

def sortPass (run : Choices → Status α) (F k : Nat) (s : CE α) : Res (CE α) :=
  if s.choices.length = 0 then .panic else sortLoop run k F (s.choices.length - 1) s

/-! ### pass 5: swap / redistribute nearby pairs -/

def pairIvs (i j : Nat) (iv jv : UInt8) : UInt8 → List (Nat × UInt8) :=
  fun v => [(i, v), (j, jv + (iv - v))]

def pairLoop (run : Choices → Status α) (F k : Nat) : Nat → Nat → CE α → Res (CE α)
  | 0, _, _ => .outOfFuel
  | fuel + 1, j, s =>
    if j ≥ k then
      let i := j - k
      match s.choices[i]?, s.choices[j]? with
      | some ci, some cj =>
        let s₁ := if ci > cj then (replace run s [(i, cj), (j, ci)]).2 else s
        match s₁.choices[i]?, s₁.choices[j]? with
        | some iv, some jv =>
          let r :=
            if iv > 0 && jv ≤ 255 - iv then binarySearchReplace run (pairIvs i j iv jv) F 0 iv s₁
            else .ok s₁
          match r with
          | .ok s₂ => pairLoop run F k fuel (j - 1) s₂
          | e => e
        | _, _ => .panic
      | _, _ => .panic
    else .ok s

def pairPass (run : Choices → Status α) (F k : Nat) (s : CE α) : Res (CE α) :=
  if s.choices.length = 0 then .panic else pairLoop run F k F (s.choices.length - 1) s

/-! ### one iteration of the outer `loop`, and `simplify` -/

def onePass (run : Choices → Status α) (F : Nat) (s : CE α) : Res (CE α) :=
  (deletePass run F 8 s).bind fun s =>
  (deletePass run F 4 s).bind fun s =>
  (deletePass run F 2 s).bind fun s =>
  (deletePass run F 1 s).bind fun s =>
  if s.choices.isEmpty then .ok s
  else
    (zeroPass run F 8 s).bind fun s =>
    (zeroPass run F 4 s).bind fun s =>
    (zeroPass run F 2 s).bind fun s =>
    (minPass run F s).bind fun s =>
    (sortPass run F 8 s).bind fun s =>
    (sortPass run F 4 s).bind fun s =>
    (sortPass run F 2 s).bind fun s =>
    (pairPass run F 2 s).bind fun s =>
    pairPass run F 1 s

def simplifyLoop (run : Choices → Status α) (F : Nat) : Nat → CE α → Res (CE α)
  | 0, _ => .outOfFuel
  | fuel + 1, s =>
    match onePass run F s with
    | .ok s₁ => if s.choices = s₁.choices then .ok s₁ else simplifyLoop run F fuel s₁
    | e => e

/-- `Counterexample::simplify`; `F` is the fuel given to every loop (outer and inner) -/
def simplify (run : Choices → Status α) (F : Nat) (s : CE α) : Res (CE α) :=
  simplifyLoop run F F s

/-- rank of a choice sequence in shortlex order: number of sequences strictly below it -/
def shortlexRank : Choices → Nat
  | [] => 0
  | c :: cs => 256 ^ cs.length + c.toNat * 256 ^ cs.length + (shortlexRank cs)

/-- the fuel for which `simplify` is proved not to run out -/
def fuelBound (c : Choices) : Nat := shortlexRank c + 2 * c.length + 300

/-! ## The PRNG protocol (`Prng`, and the on-chain side of `Seeded` / `Replayed`) -/

/-- the hash chain of a seeded PRNG: `byte seed = seed[0]`, `next seed = blake2b_256 seed` -/
structure SeedSys where
  σ : Type
  byte : σ → UInt8
  next : σ → σ

/-- `enum Prng { Seeded { choices (newest first), uplc (seed) }, Replayed { cursor, choices (reversed) } }`
(what the on-chain value holds) -/
inductive Prng (S : SeedSys) where
  | seeded (seed : S.σ) (choices : Choices)
  | replayed (cursor : Nat) (rev : Choices)

/-- `Prng::from_choices`: cursor = len, bytes reversed -/
def Prng.fromChoices {S : SeedSys} (cs : Choices) : Prng S := .replayed cs.length cs.reverse

/-- `Prng::choices` of a seeded PRNG: `choices.reverse()` -/
def Prng.choices {S : SeedSys} : Prng S → Choices
  | .seeded _ cs => cs.reverse
  | .replayed _ rev => rev

/-- one draw, as the on-chain primitive fuzzer does it (`None` when the replay is exhausted) -/
def Prng.draw {S : SeedSys} : Prng S → Option (UInt8 × Prng S)
  | .seeded seed cs => some (S.byte seed, .seeded (S.next seed) (S.byte seed :: cs))
  | .replayed cursor rev =>
    if cursor ≥ 1 then
      match rev[cursor - 1]? with
      | some b => some (b, .replayed (cursor - 1) rev)
      | none => none
    else none

/-- a fuzzer that touches the PRNG only by drawing from it -/
inductive Gen (α : Type) where
  | done (r : Option α)
  | read (k : UInt8 → Gen α)

/-- `Prng::sample` for such a fuzzer -/
def Gen.sample {S : SeedSys} : Gen α → Prng S → Option (Prng S × α)
  | .done none, _ => none
  | .done (some a), p => some (p, a)
  | .read k, p =>
    match p.draw with
    | none => none
    | some (b, p') => (k b).sample p'

/-- replay of a choice list by a `Gen` (list view, used to state the link) -/
def Gen.replay : Gen α → Choices → Option α
  | .done r, _ => r
  | .read _, [] => none
  | .read k, b :: cs => (k b).replay cs

/-- the closure handed to `Cache::new` in `run_once` -/
def runOf (S : SeedSys) (g : Gen α) (keep : α → Bool) : Choices → Status α := fun cs =>
  match g.sample (Prng.fromChoices (S := S) cs) with
  | none => .invalid
  | some (_, a) => if keep a then .keep a else .ignore

/-! ## Verdicts -/

inductive OnTestFailure where
  | failImmediately      -- `test t(..) { .. }`
  | succeedImmediately   -- `test t(..) fail once { .. }`
  | succeedEventually    -- `test t(..) fail { .. }`
  deriving Repr, DecidableEq

/-- `keep_counterexample` of `run_once` -/
def keepCounterexample : OnTestFailure → (isFailure : Bool) → Bool
  | .failImmediately, f => f
  | .succeedImmediately, f => f
  | .succeedEventually, f => !f

/-- `TestResult::is_success` for a property test whose fuzzer did not crash -/
def isSuccess : OnTestFailure → (hasCounterexample : Bool) → Bool
  | .failImmediately, c => !c
  | .succeedEventually, c => !c
  | .succeedImmediately, c => c

/-- `run_n_times` over the per-iteration outcomes (`true` = the property failed on that sample):
returns (has a counterexample, iterations executed) -/
def runNTimes (otf : OnTestFailure) : List Bool → Bool × Nat
  | [] => (false, 0)
  | f :: rest =>
    if keepCounterexample otf f then (true, 1)
    else let (c, n) := runNTimes otf rest; (c, n + 1)

/-- what the documentation says a test with this expectation means -/
def verdictSpec : OnTestFailure → List Bool → Bool
  | .failImmediately, fs => fs.all (fun f => !f)       -- passes iff no sample fails
  | .succeedEventually, fs => fs.all (fun f => f)      -- `fail`: passes iff every sample fails
  | .succeedImmediately, fs => fs.any (fun f => f)     -- `fail once`: passes iff some sample fails

/-! ## `PropertyTest::run` / `run_n_times` / `run_once` over the modelled pieces -/

/-- `as_prng` in `Prng::from_result`: "Clear choices between seeded runs" -/
def Prng.cleared {S : SeedSys} : Prng S → Prng S
  | .seeded seed _ => .seeded seed []
  | p => p

/-- what `PropertyTest::run` reports (`first` = the first failing case found, before `simplify`) -/
inductive RunResult (α : Type) where
  | pass (iterations : Nat)
  | counterexample (choices : Choices) (value : α) (iterations : Nat) (first : Choices)
  | illFormed            -- `.expect("A seeded PRNG returned 'None' …")`
  | outOfFuel
  | panic

/-- `run_n_times` + `run_once`: `n` remaining iterations, `done` executed so far.  `fails a` is
`eval(a).failed(..)`.  The closure given to `Cache::new` is `runOf` with "kept" as the predicate. -/
def propertyRun (S : SeedSys) (g : Gen α) (fails : α → Bool) (otf : OnTestFailure) :
    Nat → Nat → Prng S → RunResult α
  | 0, done, _ => .pass done
  | n + 1, done, prng =>
    match g.sample prng with
    | none => .illFormed
    | some (prng', a) =>
      if keepCounterexample otf (fails a) then
        let c₀ := prng'.choices
        -- `if !counterexample.choices.is_empty() { counterexample.simplify() }`
        if c₀.isEmpty then .counterexample c₀ a (done + 1) c₀
        else
          match simplify (runOf S g (fun a => keepCounterexample otf (fails a))) (fuelBound c₀)
              { value := a, choices := c₀ } with
          | .ok s => .counterexample s.choices s.value (done + 1) c₀
          | .outOfFuel => .outOfFuel
          | .panic => .panic
      else propertyRun S g fails otf n (done + 1) prng'.cleared

/-- `Prng::from_seed` -/
def Prng.fromSeed {S : SeedSys} (seed : S.σ) : Prng S := .seeded seed []

end AikenVerif.Shrink
