/-!
# List-length dispatch of a compiled `when` (C07, run-time side)

Impl model of the two places that decide which sub-matrix of clauses handles a list of a
given length:

* `TreeGen::do_build_tree` (gen_uplc/decision_tree.rs): the fold that splits the rows of the
  selected list column into a default matrix and one matrix per `CaseTest::List(n)` /
  `CaseTest::ListWithTail(n)`, in the order the cases first appear (`split`);
* `CodeGenerator::handle_decision_tree`, `DecisionTree::ListSwitch` (gen_uplc.rs): which of
  these matrices is used for a list of length `L` (`dispatchFixed`: cases picked by length,
  as in proposed_fixes/C07-list-tail-case-order.diff; `dispatchUnfixed`: `tail_cases.last()` and
  "first tail case with i ≤ index", the code before the fix).

A row is abstracted to the `CaseTest` of its pattern in the column and its clause index.
-/
namespace AikenVerif.ListSwitch

/-- `CaseTest` on a list column -/
inductive LCase where
  | wild
  | list (n : Nat)
  | tail (n : Nat)
  deriving DecidableEq, Repr, Inhabited

/-- does a list of length `L` fit the pattern shape -/
def LCase.admits : LCase → Nat → Bool
  | .wild, _ => true
  | .list n, L => decide (n = L)
  | .tail n, L => decide (n ≤ L)

abbrev Row := LCase × Nat
abbrev Cases := List (LCase × List Nat)

/-- `if let Some(entry) = case_matrices.find(case) { entry.push(row) } else
{ rows = default_matrix.clone(); rows.push(row); case_matrices.push((case, rows)) }` -/
def addTo (c : LCase) (r : Nat) (dflt : List Nat) : Cases → Cases
  | [] => [(c, dflt ++ [r])]
  | (c', rs) :: rest => if c' = c then (c', rs ++ [r]) :: rest else (c', rs) :: addTo c r dflt rest

/-- longest `[a, b, c]` pattern (no tail), `None` if there is none -/
def longestNoTail : List Row → Option Nat
  | [] => none
  | (.list n, _) :: rs => (match longestNoTail rs with | some m => some (max n m) | none => some n)
  | _ :: rs => longestNoTail rs

/-- longest `[a, b, ..]` pattern -/
def longestWithTail : List Row → Option Nat
  | [] => none
  | (.tail n, _) :: rs => (match longestWithTail rs with | some m => some (max n m) | none => some n)
  | _ :: rs => longestWithTail rs

/-- `for elem_count in from..=to` -/
def upto (frm to : Nat) : List Nat := List.range' frm (to + 1 - frm)

/-- one iteration of the fold over the rows -/
def step (noTail withTail : Option Nat) (st : List Nat × Cases) (row : Row) : List Nat × Cases :=
  match row.1 with
  | .wild => (st.1 ++ [row.2], st.2.map (fun c => (c.1, c.2 ++ [row.2])))
  | .list n => (st.1, addTo (.list n) row.2 st.1 st.2)
  | .tail t =>
    let cs1 :=
      match noTail with
      | some m => (upto t m).foldl (fun cs k => addTo (.list k) row.2 st.1 cs) st.2
      | none => st.2
    let cs2 :=
      match withTail with
      | some m => (upto t m).foldl (fun cs k => addTo (.tail k) row.2 st.1 cs) cs1
      | none => cs1
    (st.1, cs2)

/-- default matrix and case matrices (rows by clause index), as `do_build_tree` produces them -/
def split (rows : List Row) : List Nat × Cases :=
  rows.foldl (step (longestNoTail rows) (longestWithTail rows)) ([], [])

def isTail : LCase → Bool
  | .tail _ => true
  | _ => false

def tailLen : LCase → Nat
  | .tail n => n
  | _ => 0

/-- `longest_pattern` of `handle_decision_tree` -/
def longestPattern (cs : Cases) : Nat :=
  cs.foldl (fun longest c =>
    match c.1 with
    | .list i => if longest < i then i else longest
    | .tail i => if longest < i then i - 1 else longest
    | .wild => longest) 0

/-- `Iterator::max_by_key` (the last maximal element) over the tail cases -/
def maxTail : Cases → Option (LCase × List Nat)
  | [] => none
  | c :: cs =>
    match maxTail cs with
    | some b => if tailLen c.1 > tailLen b.1 then some c else some b
    | none => some c

def findList (L : Nat) : Cases → Option (LCase × List Nat)
  | [] => none
  | c :: cs => if c.1 = .list L then some c else findList L cs

/-- fixed: exact case, else the longest tail case that still fits, else the default matrix;
lists longer than every tested length go to the longest tail case -/
def dispatchFixed (rows : List Row) (L : Nat) : List Nat :=
  let (dflt, cs) := split rows
  let tails := cs.filter (fun c => isTail c.1)
  if L ≤ longestPattern cs then
    match findList L cs with
    | some c => c.2
    | none =>
      match maxTail (tails.filter (fun c => tailLen c.1 ≤ L)) with
      | some c => c.2
      | none => dflt
  else
    match maxTail tails with
    | some c => c.2
    | none => dflt

/-- the selection before the fix: `cases.chain(tail_cases).find(List(i) => i == index,
ListWithTail(i) => i <= index)` and `tail_cases.last()` -/
def dispatchUnfixed (rows : List Row) (L : Nat) : List Nat :=
  let (dflt, cs) := split rows
  let lists := cs.filter (fun c => !isTail c.1)
  let tails := cs.filter (fun c => isTail c.1)
  if L ≤ longestPattern cs then
    match (lists ++ tails).find? (fun c =>
      match c.1 with
      | .list i => decide (i = L)
      | .tail i => decide (i ≤ L)
      | .wild => false) with
    | some c => c.2
    | none => dflt
  else
    match tails.getLast? with
    | some c => c.2
    | none => dflt

end AikenVerif.ListSwitch
