import AikenVerif.Model.Value
/-!
M-BUILTIN (impl model): `DefaultFunction::call` of `machine/runtime.rs`, builtin by
builtin, with the Rust partial operations as explicit `panic` outcomes.
Cryptographic builtins (hashes, signatures, BLS) and `serialiseData` answer
`unmodelled`.  Total, no Mathlib.
-/
namespace AikenVerif
open Gen (Builtin)

namespace Bytes'

/-- lexicographic `<` on byte vectors (Rust `Vec<u8>: Ord`) -/
def lt : Bytes → Bytes → Bool
  | [], [] => false
  | [], _ :: _ => true
  | _ :: _, [] => false
  | a :: as, b :: bs => if a < b then true else if b < a then false else lt as bs

def le (a b : Bytes) : Bool := !lt b a

/-- big-endian bit list of one byte -/
def byteBits (b : UInt8) : List Bool :=
  [7, 6, 5, 4, 3, 2, 1, 0].map (fun i => (b.toNat >>> i) % 2 == 1)

def toBits (bs : Bytes) : List Bool := bs.flatMap byteBits

def bitsToNat (bits : List Bool) : Nat := bits.foldl (fun acc b => 2 * acc + (if b then 1 else 0)) 0

/-- regroup a bit list (length a multiple of 8) into bytes -/
def ofBits : List Bool → Bytes
  | a :: b :: c :: d :: e :: f :: g :: h :: rest =>
    UInt8.ofNat (bitsToNat [a, b, c, d, e, f, g, h]) :: ofBits rest
  | _ => []

/-- `BigInt::from_bytes_be(Plus, ·)` -/
def toNatBE (bs : Bytes) : Nat := bs.foldl (fun acc b => 256 * acc + b.toNat) 0

/-- little-endian minimal bytes of a natural (`[]` for 0) -/
def ofNatLE (n : Nat) : Bytes :=
  if h : n = 0 then [] else UInt8.ofNat (n % 256) :: ofNatLE (n / 256)
termination_by n
decreasing_by omega

/-- `BigInt::to_bytes_be` of a positive number -/
def ofNatBE (n : Nat) : Bytes := (ofNatLE n).reverse

def popCount (bs : Bytes) : Nat := (toBits bs).countP id

end Bytes'

/-- strict UTF-8 decoding (`String::from_utf8`): no overlong forms, no surrogates, ≤ U+10FFFF -/
def utf8Decode : Bytes → Option (List Char)
  | [] => some []
  | b0 :: rest =>
    let n0 := b0.toNat
    let cont (b : UInt8) : Bool := 0x80 ≤ b.toNat && b.toNat ≤ 0xBF
    if n0 < 0x80 then (utf8Decode rest).map (Char.ofNat n0 :: ·)
    else if 0xC2 ≤ n0 && n0 ≤ 0xDF then
      match rest with
      | b1 :: r =>
        if cont b1 then (utf8Decode r).map (Char.ofNat ((n0 - 0xC0) * 64 + (b1.toNat - 0x80)) :: ·) else none
      | _ => none
    else if 0xE0 ≤ n0 && n0 ≤ 0xEF then
      match rest with
      | b1 :: b2 :: r =>
        let cp := (n0 - 0xE0) * 4096 + (b1.toNat - 0x80) * 64 + (b2.toNat - 0x80)
        if cont b1 && cont b2 && 0x800 ≤ cp && !(0xD800 ≤ cp && cp ≤ 0xDFFF) then
          (utf8Decode r).map (Char.ofNat cp :: ·) else none
      | _ => none
    else if 0xF0 ≤ n0 && n0 ≤ 0xF4 then
      match rest with
      | b1 :: b2 :: b3 :: r =>
        let cp := (n0 - 0xF0) * 262144 + (b1.toNat - 0x80) * 4096 + (b2.toNat - 0x80) * 64 + (b3.toNat - 0x80)
        if cont b1 && cont b2 && cont b3 && 0x10000 ≤ cp && cp ≤ 0x10FFFF then
          (utf8Decode r).map (Char.ofNat cp :: ·) else none
      | _ => none
    else none

def utf8Encode (s : List Char) : Bytes := s.flatMap String.utf8EncodeChar

mutual
  /-- structural equality of `Data` (`PlutusData: PartialEq`, encoding-insensitive) -/
  def Data.beq : Data → Data → Bool
    | .constr t fs, .constr t' fs' => t == t' && Data.beqList fs fs'
    | .map es, .map es' => Data.beqPairs es es'
    | .list xs, .list ys => Data.beqList xs ys
    | .int n, .int m => n == m
    | .bytes a, .bytes b => a == b
    | _, _ => false
  def Data.beqList : List Data → List Data → Bool
    | [], [] => true
    | x :: xs, y :: ys => Data.beq x y && Data.beqList xs ys
    | _, _ => false
  def Data.beqPairs : List (Data × Data) → List (Data × Data) → Bool
    | [], [] => true
    | (k, v) :: xs, (k', v') :: ys => Data.beq k k' && Data.beq v v' && Data.beqPairs xs ys
    | _, _ => false
end

/-- `x.try_into::<usize/u64>()` -/
def fitsU64 (n : Int) : Bool := 0 ≤ n && n < 18446744073709551616
def fitsI64 (n : Int) : Bool := -9223372036854775808 ≤ n && n ≤ 9223372036854775807
def fitsI128 (n : Int) : Bool :=
  -170141183460469231731687303715884105728 ≤ n && n ≤ 170141183460469231731687303715884105727

/-- all items of a `list data` constant, `unreachable!()` otherwise -/
def dataItems : List Const → Res (List Data)
  | [] => .ok []
  | .data d :: rest => do let r ← dataItems rest; pure (d :: r)
  | _ :: _ => .panic

def pairItems : List Const → Res (List (Data × Data))
  | [] => .ok []
  | .pair .data .data (.data k) (.data v) :: rest => do let r ← pairItems rest; pure ((k, v) :: r)
  | _ :: _ => .panic

/-- `writeBits` loop: sequential, first out-of-range index aborts -/
def writeBitsLoop (set : Bool) : List Const → Bytes → Res Bytes
  | [], bytes => .ok bytes
  | .integer idx :: rest, bytes =>
    if idx < 0 || idx ≥ (bytes.length * 8 : Nat) then .err
    else
      let byteIndex := idx.toNat / 8
      let bitOffset := idx.toNat % 8
      let flipped := bytes.length - 1 - byteIndex
      let mask : UInt8 := UInt8.ofNat (1 <<< bitOffset)
      let bytes' := bytes.modify flipped (fun b => if set then b ||| mask else b &&& (~~~ mask))
      writeBitsLoop set rest bytes'
  | _ :: _, _ => .panic

/-- zip two byte strings; the longer tail is kept (`pad = true`) or dropped -/
def zipBytes (f : UInt8 → UInt8 → UInt8) (pad : Bool) : Bytes → Bytes → Bytes
  | a :: as, b :: bs => f a b :: zipBytes f pad as bs
  | [], bs => if pad then bs else []
  | as, [] => if pad then as else []

def lowestSetBit (b : UInt8) : Option Nat :=
  [0, 1, 2, 3, 4, 5, 6, 7].find? (fun i => (b.toNat >>> i) % 2 == 1)

/-- `findFirstSetBit`: bytes scanned from the END, index = bit + 8 * byte position -/
def findFirstSet : List UInt8 → Nat → Int
  | [], _ => -1
  | b :: rest, i =>
    match lowestSetBit b with
    | some k => (k + 8 * i : Nat)
    | none => findFirstSet rest (i + 1)

/-- modular exponentiation by squaring (`BigInt::modpow`, non-negative exponent, modulus > 1) -/
def powMod (b e m acc : Nat) : Nat :=
  if h : e = 0 then acc
  else powMod (b * b % m) (e / 2) m (if e % 2 = 1 then acc * b % m else acc)
termination_by e
decreasing_by omega

/-- the extended-Euclid loop of `modular_inverse` -/
def invLoop (fuel : Nat) (t newT r newR : Int) : Int × Int :=
  match fuel with
  | 0 => (t, r)
  | fuel + 1 =>
    if newR = 0 then (t, r)
    else
      let q := r.tdiv newR
      invLoop fuel newT (t - q * newT) newR (r - q * newR)

def modularInverse (base modulus : Int) : Option Int :=
  let (t, r) := invLoop (modulus.toNat + 2) 0 1 modulus (base.fmod modulus)
  if r ≠ 1 then none else some (if t < 0 then t + modulus else t)

def expModBound : Int := 2 ^ 8191

def expMod (base exponent modulus : Int) : Res Int :=
  if modulus ≤ 0 || modulus > expModBound - 1 then .err
  else if modulus = 1 then .ok 0
  else if base = 0 && exponent < 0 then .err
  else if base < -expModBound || base > expModBound - 1 || exponent < -expModBound || exponent > expModBound - 1 then .err
  else if exponent < 0 then
    match modularInverse base modulus with
    | none => .err
    | some inv => .ok (powMod (inv.toNat % modulus.toNat) (-exponent).toNat modulus.toNat 1)
  else .ok (powMod ((base.fmod modulus).toNat) exponent.toNat modulus.toNat 1)

def consRangeChecks : Sem → Bool
  | .C | .E => true
  | _ => false

/-- what a builtin returns: a constant it computed, or one of its arguments unchanged -/
inductive BOut where
  | con (c : Const)
  | arg (i : Nat)
  deriving Inhabited

def getArgB (args : List Value) (i : Nat) : Res Value :=
  match args[i]? with
  | some v => .ok v
  | none => .panic

open Value in
/-- `DefaultFunction::call(semantics, args, traces)` (traces not modelled), returning either a
computed constant or the position of the argument that is passed through.  `args` has exactly
`arity` elements when called by the machine; indexing past the end is a Rust panic. -/
def callBuiltinCore (sem : Sem) (b : Builtin) (args : List Value) : Res BOut :=
  let arg (i : Nat) : Res Value := getArgB args i
  let ret (i : Nat) : Res BOut := (getArgB args i).bind (fun _ => .ok (.arg i))
  match b with
  | .addInteger => do let x ← (← arg 0).unwrapInteger; let y ← (← arg 1).unwrapInteger; pure (.con (.integer (x + y)))
  | .subtractInteger => do let x ← (← arg 0).unwrapInteger; let y ← (← arg 1).unwrapInteger; pure (.con (.integer (x - y)))
  | .multiplyInteger => do let x ← (← arg 0).unwrapInteger; let y ← (← arg 1).unwrapInteger; pure (.con (.integer (x * y)))
  | .divideInteger => do
    let x ← (← arg 0).unwrapInteger; let y ← (← arg 1).unwrapInteger
    if y = 0 then .err else pure (.con (.integer (x.fdiv y)))
  | .quotientInteger => do
    let x ← (← arg 0).unwrapInteger; let y ← (← arg 1).unwrapInteger
    if y = 0 then .err else pure (.con (.integer (x.tdiv y)))
  | .remainderInteger => do
    let x ← (← arg 0).unwrapInteger; let y ← (← arg 1).unwrapInteger
    if y = 0 then .err else pure (.con (.integer (x.tmod y)))
  | .modInteger => do
    let x ← (← arg 0).unwrapInteger; let y ← (← arg 1).unwrapInteger
    if y = 0 then .err else pure (.con (.integer (x.fmod y)))
  | .equalsInteger => do let x ← (← arg 0).unwrapInteger; let y ← (← arg 1).unwrapInteger; pure (.con (.bool (x == y)))
  | .lessThanInteger => do let x ← (← arg 0).unwrapInteger; let y ← (← arg 1).unwrapInteger; pure (.con (.bool (x < y)))
  | .lessThanEqualsInteger => do let x ← (← arg 0).unwrapInteger; let y ← (← arg 1).unwrapInteger; pure (.con (.bool (x ≤ y)))
  | .appendByteString => do let x ← (← arg 0).unwrapByteString; let y ← (← arg 1).unwrapByteString; pure (.con (.bytestring (x ++ y)))
  | .consByteString => do
    let x ← (← arg 0).unwrapInteger; let y ← (← arg 1).unwrapByteString
    if consRangeChecks sem then
      if x > 255 || x < 0 then .err else pure (.con (.bytestring (UInt8.ofNat x.toNat :: y)))
    else pure (.con (.bytestring (UInt8.ofNat (x.fmod 256).toNat :: y)))
  | .sliceByteString => do
    let s ← (← arg 0).unwrapInteger; let k ← (← arg 1).unwrapInteger; let bs ← (← arg 2).unwrapByteString
    -- negative → 0; beyond `usize` saturates (fix: D3)
    pure (.con (.bytestring ((bs.drop s.toNat).take k.toNat)))
  | .lengthOfByteString => do let x ← (← arg 0).unwrapByteString; pure (.con (.integer x.length))
  | .indexByteString => do
    let bs ← (← arg 0).unwrapByteString; let i ← (← arg 1).unwrapInteger
    if 0 ≤ i && i < (bs.length : Int) then
      match bs[i.toNat]? with
      | some x => pure (.con (.integer x.toNat))
      | none => .panic
    else .err
  | .equalsByteString => do let x ← (← arg 0).unwrapByteString; let y ← (← arg 1).unwrapByteString; pure (.con (.bool (x == y)))
  | .lessThanByteString => do let x ← (← arg 0).unwrapByteString; let y ← (← arg 1).unwrapByteString; pure (.con (.bool (Bytes'.lt x y)))
  | .lessThanEqualsByteString => do let x ← (← arg 0).unwrapByteString; let y ← (← arg 1).unwrapByteString; pure (.con (.bool (Bytes'.le x y)))
  | .appendString => do let x ← (← arg 0).unwrapString; let y ← (← arg 1).unwrapString; pure (.con (.string (x ++ y)))
  | .equalsString => do let x ← (← arg 0).unwrapString; let y ← (← arg 1).unwrapString; pure (.con (.bool (x == y)))
  | .encodeUtf8 => do let x ← (← arg 0).unwrapString; pure (.con (.bytestring (utf8Encode x)))
  | .decodeUtf8 => do
    let x ← (← arg 0).unwrapByteString
    match utf8Decode x with
    | some s => pure (.con (.string s))
    | none => .err
  | .ifThenElse => do let c ← (← arg 0).unwrapBool; if c then ret 1 else ret 2
  | .chooseUnit => do let _ ← (← arg 0).unwrapUnit; ret 1
  | .trace => do let _ ← (← arg 0).unwrapString; ret 1
  | .fstPair => do let (_, _, x, _) ← (← arg 0).unwrapPair; pure (.con x)
  | .sndPair => do let (_, _, _, y) ← (← arg 0).unwrapPair; pure (.con y)
  | .chooseList => do let (_, xs) ← (← arg 0).unwrapList; if xs.isEmpty then ret 1 else ret 2
  | .mkCons => do
    let item ← (← arg 0).unwrapConstant
    let (t, xs) ← (← arg 1).unwrapList
    if t ≠ item.ty then .err else pure (.con (.list t (item :: xs)))
  | .headList => do
    let (_, xs) ← (← arg 0).unwrapList
    match xs with
    | [] => .err
    | x :: _ => pure (.con x)
  | .tailList => do
    let (t, xs) ← (← arg 0).unwrapList
    match xs with
    | [] => .err
    | _ :: r => pure (.con (.list t r))
  | .nullList => do let (_, xs) ← (← arg 0).unwrapList; pure (.con (.bool xs.isEmpty))
  | .chooseData => do
    let d ← (← arg 0).unwrapData
    match d with
    | .constr _ _ => ret 1
    | .map _ => ret 2
    | .list _ => ret 3
    | .int _ => ret 4
    | .bytes _ => ret 5
  | .constrData => do
    let i ← (← arg 0).unwrapInteger
    let l ← (← arg 1).unwrapDataList
    let ds ← dataItems l
    -- a constructor index outside u64 cannot be represented: error (fix: D3)
    if fitsU64 i then pure (.con (.data (.constr i.toNat ds))) else .err
  | .mapData => do
    let (t, xs) ← (← arg 0).unwrapList
    if t ≠ .pair .data .data then .err
    else do let es ← pairItems xs; pure (.con (.data (.map es)))
  | .listData => do let l ← (← arg 0).unwrapDataList; let ds ← dataItems l; pure (.con (.data (.list ds)))
  | .iData => do let i ← (← arg 0).unwrapInteger; pure (.con (.data (.int i)))
  | .bData => do let x ← (← arg 0).unwrapByteString; pure (.con (.data (.bytes x)))
  | .unConstrData => do
    match ← arg 0 with
    | .con (.data (.constr t fs)) => pure (.con (.pair .integer (.list .data) (.integer t) (.list .data (fs.map .data))))
    | _ => .err
  | .unMapData => do
    match ← arg 0 with
    | .con (.data (.map es)) =>
      pure (.con (.list (.pair .data .data) (es.map (fun (k, v) => .pair .data .data (.data k) (.data v)))))
    | _ => .err
  | .unListData => do
    match ← arg 0 with
    | .con (.data (.list xs)) => pure (.con (.list .data (xs.map .data)))
    | _ => .err
  | .unIData => do
    match ← arg 0 with
    | .con (.data (.int n)) => pure (.con (.integer n))
    | _ => .err
  | .unBData => do
    match ← arg 0 with
    | .con (.data (.bytes x)) => pure (.con (.bytestring x))
    | _ => .err
  | .equalsData => do let x ← (← arg 0).unwrapData; let y ← (← arg 1).unwrapData; pure (.con (.bool (Data.beq x y)))
  | .mkPairData => do let x ← (← arg 0).unwrapData; let y ← (← arg 1).unwrapData; pure (.con (.pair .data .data (.data x) (.data y)))
  | .mkNilData => do let _ ← (← arg 0).unwrapUnit; pure (.con (.list .data []))
  | .mkNilPairData => do let _ ← (← arg 0).unwrapUnit; pure (.con (.list (.pair .data .data) []))
  | .integerToByteString => do
    let be ← (← arg 0).unwrapBool; let size ← (← arg 1).unwrapInteger; let input ← (← arg 2).unwrapInteger
    if size = 0 && input.natAbs.log2 ≥ 8 * 8192 && input ≠ 0 then .err
    else if input < 0 then .err
    else if !fitsU64 size then .panic
    else
      let sz := size.toNat
      if input = 0 then pure (.con (.bytestring (List.replicate sz 0)))
      else
        let le := Bytes'.ofNatLE input.toNat
        if size ≠ 0 && le.length > sz then .err
        else if sz > 0 then
          let pad := List.replicate (sz - le.length) (0 : UInt8)
          pure (.con (.bytestring (if be then pad ++ le.reverse else le ++ pad)))
        else pure (.con (.bytestring (if be then le.reverse else le)))
  | .byteStringToInteger => do
    let be ← (← arg 0).unwrapBool; let bs ← (← arg 1).unwrapByteString
    pure (.con (.integer (Bytes'.toNatBE (if be then bs else bs.reverse))))
  | .andByteString => do
    let pad ← (← arg 0).unwrapBool; let x ← (← arg 1).unwrapByteString; let y ← (← arg 2).unwrapByteString
    pure (.con (.bytestring (zipBytes (· &&& ·) pad x y)))
  | .orByteString => do
    let pad ← (← arg 0).unwrapBool; let x ← (← arg 1).unwrapByteString; let y ← (← arg 2).unwrapByteString
    pure (.con (.bytestring (zipBytes (· ||| ·) pad x y)))
  | .xorByteString => do
    let pad ← (← arg 0).unwrapBool; let x ← (← arg 1).unwrapByteString; let y ← (← arg 2).unwrapByteString
    pure (.con (.bytestring (zipBytes (· ^^^ ·) pad x y)))
  | .complementByteString => do let x ← (← arg 0).unwrapByteString; pure (.con (.bytestring (x.map (· ^^^ 255))))
  | .readBit => do
    let bs ← (← arg 0).unwrapByteString; let i ← (← arg 1).unwrapInteger
    if bs.isEmpty then .err
    else if i < 0 || i ≥ (bs.length * 8 : Nat) then .err
    else
      match bs[bs.length - 1 - i.toNat / 8]? with
      | some byte => pure (.con (.bool ((byte.toNat >>> (i.toNat % 8)) % 2 == 1)))
      | none => .panic
  | .writeBits => do
    let bs ← (← arg 0).unwrapByteString; let idxs ← (← arg 1).unwrapIntList; let set ← (← arg 2).unwrapBool
    let r ← writeBitsLoop set idxs bs
    pure (.con (.bytestring r))
  | .replicateByte => do
    let size ← (← arg 0).unwrapInteger; let byte ← (← arg 1).unwrapInteger
    if !fitsU64 size then .panic
    else if byte < 0 || byte > 255 then .err
    else pure (.con (.bytestring (List.replicate size.toNat (UInt8.ofNat byte.toNat))))
  | .shiftByteString => do
    let bs ← (← arg 0).unwrapByteString; let sh ← (← arg 1).unwrapInteger
    if sem == .E && !fitsI64 sh then .err
    else if (bs.length * 8 : Nat) ≤ sh.natAbs then pure (.con (.bytestring (List.replicate bs.length 0)))
    else
      let bits := Bytes'.toBits bs
      let n := sh.natAbs
      let bits' := if sh ≥ 0 then bits.drop n ++ List.replicate n false
                   else List.replicate n false ++ bits.take (bits.length - n)
      pure (.con (.bytestring (Bytes'.ofBits bits')))
  | .rotateByteString => do
    let bs ← (← arg 0).unwrapByteString; let sh ← (← arg 1).unwrapInteger
    if sem == .E && !fitsI64 sh then .err
    else if bs.isEmpty then pure (.con (.bytestring bs))
    else
      let bits := Bytes'.toBits bs
      let n := (sh.fmod (bs.length * 8 : Nat)).toNat
      pure (.con (.bytestring (Bytes'.ofBits (bits.drop n ++ bits.take n))))
  | .countSetBits => do let bs ← (← arg 0).unwrapByteString; pure (.con (.integer (Bytes'.popCount bs)))
  | .findFirstSetBit => do let bs ← (← arg 0).unwrapByteString; pure (.con (.integer (findFirstSet bs.reverse 0)))
  | .expModInteger => do
    let x ← (← arg 0).unwrapInteger; let e ← (← arg 1).unwrapInteger; let m ← (← arg 2).unwrapInteger
    let r ← expMod x e m
    pure (.con (.integer r))
  | .dropList => do
    let n ← (← arg 0).unwrapInteger
    let (t, xs) ← (← arg 1).unwrapList
    pure (.con (.list t (if n ≤ 0 then xs else xs.drop n.toNat)))
  | .sha2_256 | .sha3_256 | .blake2b_256 | .keccak_256 | .blake2b_224 | .ripemd_160
  | .verifyEd25519Signature | .verifyEcdsaSecp256k1Signature | .verifySchnorrSecp256k1Signature
  | .serialiseData
  | .bls12_381_G1_Add | .bls12_381_G1_Neg | .bls12_381_G1_ScalarMul | .bls12_381_G1_Equal
  | .bls12_381_G1_Compress | .bls12_381_G1_Uncompress | .bls12_381_G1_HashToGroup
  | .bls12_381_G2_Add | .bls12_381_G2_Neg | .bls12_381_G2_ScalarMul | .bls12_381_G2_Equal
  | .bls12_381_G2_Compress | .bls12_381_G2_Uncompress | .bls12_381_G2_HashToGroup
  | .bls12_381_MillerLoop | .bls12_381_MulMlResult | .bls12_381_FinalVerify
  | .bls12_381_G1_MultiScalarMul | .bls12_381_G2_MultiScalarMul => .unmodelled

/-- `DefaultFunction::call` -/
def callBuiltin (sem : Sem) (b : Builtin) (args : List Value) : Res Value :=
  (callBuiltinCore sem b args).bind fun
    | .con c => .ok (.con c)
    | .arg i => getArgB args i

end AikenVerif
