import AikenVerif.Model.Term
/-!
M-DB: name ⇄ de Bruijn conversions (`crates/uplc/src/debruijn.rs`,
`debruijn/bimap.rs`, the `TryFrom`/`From` impls of `ast.rs`) and the
`CodeGenInterner` (`optimize/interner.rs`).

* **impl model**: `Conv` mirrors `Converter` field by field.  `levels : Vec<BiMap>`
  is stored *last element first* (`levelsRev`), so `push` is `cons`, `pop` is
  `tail`, `levels.iter().rev()` is the list itself and `levels[i]` is
  `levelsRev[len - 1 - i]` (out of bounds = the Rust index panic, an explicit
  `Err.panic` outcome here).  A `HashMap` is an association list with
  insert-replaces / remove / get.  `usize` subtractions that would underflow are
  `Err.panic`.  The two name→index functions of the Rust differ only in how the
  output binder is built, the two index→name functions only in where the text
  comes from; the model is one function with that piece as a parameter and is
  instantiated once per Rust function.
* index→name has a flag `fixed`: `false` is the code as it stands in `/repo`
  (`declare_binder` without removal, binder named through `get_unique` of its own
  index), `true` is the behaviour after `proposed_fixes/C11-debruijn-to-name-scope.diff`
  (binder named by the unique it declares; `remove_unique` after `end_scope`).
* **spec model**: resolution against a plain list of enclosing binders
  (innermost first); a variable is `1 +` the position of the innermost binder
  with its unique; binder `k` (pre-order) of a de Bruijn term is named `k`.

No Mathlib; everything is total and structurally recursive.
-/
namespace AikenVerif.Db

/-- `debruijn::Error`, plus `panic` for Rust's implicit failure modes
(index out of bounds, `usize` underflow, `expect`). -/
inductive Err where
  | freeUnique (n : Name)
  | freeIndex (i : Nat)
  | panic (what : String)
  deriving Repr, DecidableEq

-- ---------------------------------------------------------------- HashMap
section HashMap
variable {κ ν : Type} [DecidableEq κ]

/-- `HashMap::get` -/
def hmGet (k : κ) : List (κ × ν) → Option ν
  | [] => none
  | (k', v) :: m => if k' = k then some v else hmGet k m

/-- `HashMap::remove` -/
def hmRemove (k : κ) : List (κ × ν) → List (κ × ν)
  | [] => []
  | (k', v) :: m => if k' = k then hmRemove k m else (k', v) :: hmRemove k m

/-- `HashMap::insert` (replaces) -/
def hmInsert (k : κ) (v : ν) (m : List (κ × ν)) : List (κ × ν) := (k, v) :: hmRemove k m

end HashMap

-- ---------------------------------------------------------------- BiMap (bimap.rs)
/-- `bimap::BiMap { left: HashMap<Unique, Level>, right: HashMap<Level, Unique> }` -/
structure BiMap where
  left : List (Int × Nat)
  right : List (Nat × Int)
  deriving Repr

def BiMap.new : BiMap := ⟨[], []⟩
/-- `BiMap::insert` -/
def BiMap.insert (b : BiMap) (unique : Int) (level : Nat) : BiMap :=
  ⟨hmInsert unique level b.left, hmInsert level unique b.right⟩
/-- `BiMap::remove` -/
def BiMap.remove (b : BiMap) (unique : Int) (level : Nat) : BiMap :=
  ⟨hmRemove unique b.left, hmRemove level b.right⟩
/-- `BiMap::get` -/
def BiMap.get (b : BiMap) (unique : Int) : Option Nat := hmGet unique b.left
/-- `BiMap::get_right` -/
def BiMap.getRight (b : BiMap) (level : Nat) : Option Int := hmGet level b.right

-- ---------------------------------------------------------------- Converter
/-- `Converter { current_level, levels, current_unique }`; `levelsRev` is
`levels` last-element-first. -/
structure Conv where
  currentLevel : Nat
  levelsRev : List BiMap
  currentUnique : Int
  deriving Repr

/-- `Converter::new` -/
def Conv.new : Conv := ⟨0, [BiMap.new], 0⟩

/-- `&mut v[i]` followed by an update, for a `Vec` stored last-element-first:
position `len - 1 - i`; `none` = index out of bounds. -/
def vecUpdate {α : Type} (f : α → α) (vRev : List α) (i : Nat) : Option (List α) :=
  if i < vRev.length then some (vRev.modify (vRev.length - 1 - i) f) else none

/-- `get_index`: the loop body over `levels.iter().rev()` -/
def scanLeft (unique : Int) : List BiMap → Option Nat
  | [] => none
  | b :: bs =>
    match b.get unique with
    | some l => some l
    | none => scanLeft unique bs

/-- `Converter::get_index` -/
def getIndex (s : Conv) (n : Name) : Except Err Nat :=
  match scanLeft n.unique s.levelsRev with
  | some found =>
    if found ≤ s.currentLevel then .ok (s.currentLevel - found)
    else .error (.panic "current_level - found_level underflows")
  | none => .error (.freeUnique n)

/-- `get_unique`: the loop over `levels.iter().rev()`, `checked_sub` inside the loop -/
def scanRight (cur index : Nat) : List BiMap → Except Err Int
  | [] => .error (.freeIndex index)
  | b :: bs =>
    if index ≤ cur then
      match b.getRight (cur - index) with
      | some u => .ok u
      | none => scanRight cur index bs
    else .error (.freeIndex index)

/-- `Converter::get_unique` -/
def getUnique (s : Conv) (index : Nat) : Except Err Int :=
  scanRight s.currentLevel index s.levelsRev

/-- `Converter::declare_unique` -/
def declareUnique (s : Conv) (unique : Int) : Except Err Conv :=
  match vecUpdate (fun b => b.insert unique s.currentLevel) s.levelsRev s.currentLevel with
  | some ls => .ok { s with levelsRev := ls }
  | none => .error (.panic "levels[current_level] out of bounds")

/-- `Converter::remove_unique` -/
def removeUnique (s : Conv) (unique : Int) : Except Err Conv :=
  match vecUpdate (fun b => b.remove unique s.currentLevel) s.levelsRev s.currentLevel with
  | some ls => .ok { s with levelsRev := ls }
  | none => .error (.panic "levels[current_level] out of bounds")

/-- `Converter::declare_binder`; also returns the unique it declared (the
unpatched caller ignores it, the patched `declare_binder` returns it). -/
def declareBinder (s : Conv) : Except Err (Conv × Int) :=
  match vecUpdate (fun b => b.insert s.currentUnique s.currentLevel) s.levelsRev s.currentLevel with
  | some ls => .ok ({ s with levelsRev := ls, currentUnique := s.currentUnique + 1 }, s.currentUnique)
  | none => .error (.panic "levels[current_level] out of bounds")

/-- `Converter::start_scope` -/
def startScope (s : Conv) : Conv :=
  { s with currentLevel := s.currentLevel + 1, levelsRev := BiMap.new :: s.levelsRev }

/-- `Converter::end_scope` (`Vec::pop` on an empty vector is not a panic) -/
def endScope (s : Conv) : Except Err Conv :=
  if 0 < s.currentLevel then
    .ok { s with currentLevel := s.currentLevel - 1, levelsRev := s.levelsRev.tail }
  else .error (.panic "current_level - 1 underflows")

-- ---------------------------------------------------------------- name → index
section NameTo
variable {β : Type} (mk : String → Nat → β)

mutual
  /-- `Converter::name_to_named_debruijn` (`mk text index = NamedDeBruijn{text,index}`) and
  `Converter::name_to_debruijn` (`mk _ index = index`). -/
  def nameTo : Term Name → Conv → Except Err (Term β × Conv)
    | .var n, s => do
      let i ← getIndex s n
      pure (.var (mk n.text i), s)
    | .delay t, s => do
      let (t', s') ← nameTo t s
      pure (.delay t', s')
    | .lam n body, s => do
      let s1 ← declareUnique s n.unique
      let i ← getIndex s1 n
      let s2 := startScope s1
      let (body', s3) ← nameTo body s2
      let s4 ← endScope s3
      let s5 ← removeUnique s4 n.unique
      pure (.lam (mk n.text i) body', s5)
    | .app f a, s => do
      let (f', s1) ← nameTo f s
      let (a', s2) ← nameTo a s1
      pure (.app f' a', s2)
    | .const c, s => pure (.const c, s)
    | .force t, s => do
      let (t', s') ← nameTo t s
      pure (.force t', s')
    | .error, s => pure (.error, s)
    | .builtin b, s => pure (.builtin b, s)
    | .constr tag fs, s => do
      let (fs', s') ← nameToList fs s
      pure (.constr tag fs', s')
    | .case c bs, s => do
      let (c', s1) ← nameTo c s
      let (bs', s2) ← nameToList bs s1
      pure (.case c' bs', s2)
  /-- `fields.iter().map(|f| self.…(f)).collect::<Result<_, _>>()?` : left to right, stops at the first error -/
  def nameToList : List (Term Name) → Conv → Except Err (List (Term β) × Conv)
    | [], s => pure ([], s)
    | t :: ts, s => do
      let (t', s1) ← nameTo t s
      let (ts', s2) ← nameToList ts s1
      pure (t' :: ts', s2)
end

end NameTo

/-- `TryFrom<Term<Name>> for Term<NamedDeBruijn>` -/
def nameToNamedDb (t : Term Name) : Except Err (Term NamedDeBruijn) :=
  (nameTo (fun text i => (⟨text, i⟩ : NamedDeBruijn)) t Conv.new).map (·.1)

/-- `TryFrom<Term<Name>> for Term<DeBruijn>` -/
def nameToDb (t : Term Name) : Except Err (Term DeBruijn) :=
  (nameTo (fun _ i => (i : DeBruijn)) t Conv.new).map (·.1)

-- ---------------------------------------------------------------- index → name
section ToName
variable {β : Type} (fixed : Bool) (idx : β → Nat) (txt : β → Int → String)

mutual
  /-- `Converter::named_debruijn_to_name` (`idx = .index`, `txt n _ = n.text`) and
  `Converter::debruijn_to_name` (`idx = id`, `txt _ u = "i_{u}"`). -/
  def toName : Term β → Conv → Except Err (Term Name × Conv)
    | .var n, s => do
      let u ← getUnique s (idx n)
      pure (.var ⟨txt n u, u⟩, s)
    | .delay t, s => do
      let (t', s') ← toName t s
      pure (.delay t', s')
    | .lam n body, s => do
      let (s1, declared) ← declareBinder s
      let u ← if fixed then pure declared else getUnique s1 (idx n)
      let s2 := startScope s1
      let (body', s3) ← toName body s2
      let s4 ← endScope s3
      let s5 ← if fixed then removeUnique s4 u else pure s4
      pure (.lam ⟨txt n u, u⟩ body', s5)
    | .app f a, s => do
      let (f', s1) ← toName f s
      let (a', s2) ← toName a s1
      pure (.app f' a', s2)
    | .const c, s => pure (.const c, s)
    | .force t, s => do
      let (t', s') ← toName t s
      pure (.force t', s')
    | .error, s => pure (.error, s)
    | .builtin b, s => pure (.builtin b, s)
    | .constr tag fs, s => do
      let (fs', s') ← toNameList fs s
      pure (.constr tag fs', s')
    | .case c bs, s => do
      let (c', s1) ← toName c s
      let (bs', s2) ← toNameList bs s1
      pure (.case c' bs', s2)
  def toNameList : List (Term β) → Conv → Except Err (List (Term Name) × Conv)
    | [], s => pure ([], s)
    | t :: ts, s => do
      let (t', s1) ← toName t s
      let (ts', s2) ← toNameList ts s1
      pure (t' :: ts', s2)
end

end ToName

/-- `format!("i_{unique}")` -/
def dbText (_ : DeBruijn) (u : Int) : String := "i_" ++ toString u
def namedText (n : NamedDeBruijn) (_ : Int) : String := n.text

/-- `TryFrom<Term<DeBruijn>> for Term<Name>` after the proposed fix -/
def dbToName (t : Term DeBruijn) : Except Err (Term Name) :=
  (toName true id dbText t Conv.new).map (·.1)
/-- `TryFrom<Term<NamedDeBruijn>> for Term<Name>` after the proposed fix -/
def namedDbToName (t : Term NamedDeBruijn) : Except Err (Term Name) :=
  (toName true NamedDeBruijn.index namedText t Conv.new).map (·.1)
/-- the same two entry points as the code stands in `/repo` (unpatched) -/
def dbToNameOrig (t : Term DeBruijn) : Except Err (Term Name) :=
  (toName false id dbText t Conv.new).map (·.1)
def namedDbToNameOrig (t : Term NamedDeBruijn) : Except Err (Term Name) :=
  (toName false NamedDeBruijn.index namedText t Conv.new).map (·.1)

-- ---------------------------------------------------------------- projections
mutual
  /-- the shape of `named_debruijn_to_debruijn`, `debruijn_to_named_debruijn`,
  `fake_named_debruijn_to_named_debruijn`, `named_debruijn_to_fake_named_debruijn`:
  apply `f` to every binder and variable. -/
  def mapBinders {β γ : Type} (f : β → γ) : Term β → Term γ
    | .var n => .var (f n)
    | .delay t => .delay (mapBinders f t)
    | .lam n b => .lam (f n) (mapBinders f b)
    | .app g a => .app (mapBinders f g) (mapBinders f a)
    | .const c => .const c
    | .force t => .force (mapBinders f t)
    | .error => .error
    | .builtin b => .builtin b
    | .constr tag fs => .constr tag (mapBindersList f fs)
    | .case c bs => .case (mapBinders f c) (mapBindersList f bs)
  def mapBindersList {β γ : Type} (f : β → γ) : List (Term β) → List (Term γ)
    | [] => []
    | t :: ts => mapBinders f t :: mapBindersList f ts
end

/-- `From<Term<NamedDeBruijn>> for Term<DeBruijn>` -/
def namedDbToDb (t : Term NamedDeBruijn) : Term DeBruijn := mapBinders (·.index) t
/-- `From<Term<DeBruijn>> for Term<NamedDeBruijn>` (text `"i"`) -/
def dbToNamedDb (t : Term DeBruijn) : Term NamedDeBruijn := mapBinders (fun i => ⟨"i", i⟩) t

-- ---------------------------------------------------------------- spec
/-- position (1-based, innermost binder first) of the innermost enclosing binder
whose unique is `u` -/
def resolve : List Int → Int → Option Nat
  | [], _ => none
  | v :: env, u => if v = u then some 1 else (resolve env u).map (· + 1)

section SpecNameTo
variable {β : Type} (mk : String → Nat → β)
mutual
  /-- spec of name→index: a variable becomes its binder's position, a binder gets index 0,
  the first (left-to-right) variable without a binder is reported -/
  def specNameTo (env : List Int) : Term Name → Except Err (Term β)
    | .var n =>
      match resolve env n.unique with
      | some i => .ok (.var (mk n.text i))
      | none => .error (.freeUnique n)
    | .delay t => do pure (.delay (← specNameTo env t))
    | .lam n body => do pure (.lam (mk n.text 0) (← specNameTo (n.unique :: env) body))
    | .app f a => do
      let f' ← specNameTo env f
      let a' ← specNameTo env a
      pure (.app f' a')
    | .const c => pure (.const c)
    | .force t => do pure (.force (← specNameTo env t))
    | .error => pure .error
    | .builtin b => pure (.builtin b)
    | .constr tag fs => do pure (.constr tag (← specNameToList env fs))
    | .case c bs => do
      let c' ← specNameTo env c
      let bs' ← specNameToList env bs
      pure (.case c' bs')
  def specNameToList (env : List Int) : List (Term Name) → Except Err (List (Term β))
    | [] => pure []
    | t :: ts => do
      let t' ← specNameTo env t
      let ts' ← specNameToList env ts
      pure (t' :: ts')
end
end SpecNameTo

section SpecToName
variable {β : Type} (idx : β → Nat) (txt : β → Int → String)
mutual
  /-- spec of index→name: `env` = uniques of the enclosing binders (innermost first),
  `c` = number of binders met so far (pre-order); binder number `k` is named `k`,
  variable `i ≥ 1` gets the name of the `i`-th enclosing binder, anything else is free. -/
  def specToName (env : List Int) (c : Int) : Term β → Except Err (Term Name × Int)
    | .var n =>
      match idx n with
      | 0 => .error (.freeIndex 0)
      | i + 1 =>
        match env[i]? with
        | some u => .ok (.var ⟨txt n u, u⟩, c)
        | none => .error (.freeIndex (i + 1))
    | .delay t => do
      let (t', c') ← specToName env c t
      pure (.delay t', c')
    | .lam n body => do
      let (b', c') ← specToName (c :: env) (c + 1) body
      pure (.lam ⟨txt n c, c⟩ b', c')
    | .app f a => do
      let (f', c1) ← specToName env c f
      let (a', c2) ← specToName env c1 a
      pure (.app f' a', c2)
    | .const k => pure (.const k, c)
    | .force t => do
      let (t', c') ← specToName env c t
      pure (.force t', c')
    | .error => pure (.error, c)
    | .builtin b => pure (.builtin b, c)
    | .constr tag fs => do
      let (fs', c') ← specToNameList env c fs
      pure (.constr tag fs', c')
    | .case s bs => do
      let (s', c1) ← specToName env c s
      let (bs', c2) ← specToNameList env c1 bs
      pure (.case s' bs', c2)
  def specToNameList (env : List Int) (c : Int) : List (Term β) → Except Err (List (Term Name) × Int)
    | [] => pure ([], c)
    | t :: ts => do
      let (t', c1) ← specToName env c t
      let (ts', c2) ← specToNameList env c1 ts
      pure (t' :: ts', c2)
end
end SpecToName

-- ---------------------------------------------------------------- scoping predicates
mutual
  /-- free variable occurrences of a named term, left to right -/
  def freeOccs (env : List Int) : Term Name → List Name
    | .var n => if n.unique ∈ env then [] else [n]
    | .delay t | .force t => freeOccs env t
    | .lam n b => freeOccs (n.unique :: env) b
    | .app f a => freeOccs env f ++ freeOccs env a
    | .const _ | .error | .builtin _ => []
    | .constr _ fs => freeOccsList env fs
    | .case c bs => freeOccs env c ++ freeOccsList env bs
  def freeOccsList (env : List Int) : List (Term Name) → List Name
    | [] => []
    | t :: ts => freeOccs env t ++ freeOccsList env ts
end

section
variable {β : Type} (idx : β → Nat)
mutual
  /-- every variable index `i` of an index term under `depth` binders satisfies `1 ≤ i ≤ depth + (binders in between)` -/
  def closedI (depth : Nat) : Term β → Bool
    | .var n => 1 ≤ idx n && idx n ≤ depth
    | .delay t | .force t => closedI depth t
    | .lam _ b => closedI (depth + 1) b
    | .app f a => closedI depth f && closedI depth a
    | .const _ | .error | .builtin _ => true
    | .constr _ fs => closedIList depth fs
    | .case c bs => closedI depth c && closedIList depth bs
  def closedIList (depth : Nat) : List (Term β) → Bool
    | [] => true
    | t :: ts => closedI depth t && closedIList depth ts
end
mutual
  /-- every binder carries index 0 (what the flat decoder, the parser pipeline and
  name→index produce) -/
  def bindersZero : Term β → Bool
    | .var _ => true
    | .delay t | .force t => bindersZero t
    | .lam n b => idx n == 0 && bindersZero b
    | .app f a => bindersZero f && bindersZero a
    | .const _ | .error | .builtin _ => true
    | .constr _ fs => bindersZeroList fs
    | .case c bs => bindersZero c && bindersZeroList bs
  def bindersZeroList : List (Term β) → Bool
    | [] => true
    | t :: ts => bindersZero t && bindersZeroList ts
end
end

section
variable {β γ : Type} (g : β → Nat → γ) (idx : β → Nat)
mutual
  /-- forget what a binder's own index says (it carries no information): binder `n ↦ g n 0`,
  variable `n ↦ g n (idx n)` -/
  def normBinders : Term β → Term γ
    | .var n => .var (g n (idx n))
    | .delay t => .delay (normBinders t)
    | .lam n b => .lam (g n 0) (normBinders b)
    | .app f a => .app (normBinders f) (normBinders a)
    | .const c => .const c
    | .force t => .force (normBinders t)
    | .error => .error
    | .builtin b => .builtin b
    | .constr tag fs => .constr tag (normBindersList fs)
    | .case c bs => .case (normBinders c) (normBindersList bs)
  def normBindersList : List (Term β) → List (Term γ)
    | [] => []
    | t :: ts => normBinders t :: normBindersList ts
end
end

/-- a de Bruijn term with every binder's index set to 0 -/
def zeroBinders (t : Term DeBruijn) : Term DeBruijn := normBinders (fun _ i => i) id t
/-- the index skeleton of a named-de-Bruijn term (binder indices 0) -/
def zeroBindersNamed (t : Term NamedDeBruijn) : Term NamedDeBruijn :=
  normBinders (fun n i => ⟨n.text, i⟩) NamedDeBruijn.index t

-- ---------------------------------------------------------------- alpha-equivalence (spec)
mutual
  /-- alpha-equivalence of named terms under the binder environments `e1`, `e2`
  (innermost first): binding is by unique, texts are ignored; a bound variable must
  refer to the binder at the same position, a free one must be the same unique. -/
  inductive AlphaEq : List Int → List Int → Term Name → Term Name → Prop
    | var {e1 e2 a b} : resolve e1 a.unique = resolve e2 b.unique →
        (resolve e1 a.unique = none → a.unique = b.unique) → AlphaEq e1 e2 (.var a) (.var b)
    | lam {e1 e2 a b x y} : AlphaEq (a.unique :: e1) (b.unique :: e2) x y → AlphaEq e1 e2 (.lam a x) (.lam b y)
    | app {e1 e2 f g x y} : AlphaEq e1 e2 f g → AlphaEq e1 e2 x y → AlphaEq e1 e2 (.app f x) (.app g y)
    | delay {e1 e2 x y} : AlphaEq e1 e2 x y → AlphaEq e1 e2 (.delay x) (.delay y)
    | force {e1 e2 x y} : AlphaEq e1 e2 x y → AlphaEq e1 e2 (.force x) (.force y)
    | error {e1 e2} : AlphaEq e1 e2 .error .error
    | builtin {e1 e2 b} : AlphaEq e1 e2 (.builtin b) (.builtin b)
    | const {e1 e2 c} : AlphaEq e1 e2 (.const c) (.const c)
    | constr {e1 e2 tag xs ys} : AlphaEqL e1 e2 xs ys → AlphaEq e1 e2 (.constr tag xs) (.constr tag ys)
    | case {e1 e2 x y xs ys} : AlphaEq e1 e2 x y → AlphaEqL e1 e2 xs ys → AlphaEq e1 e2 (.case x xs) (.case y ys)
  inductive AlphaEqL : List Int → List Int → List (Term Name) → List (Term Name) → Prop
    | nil {e1 e2} : AlphaEqL e1 e2 [] []
    | cons {e1 e2 x y xs ys} : AlphaEq e1 e2 x y → AlphaEqL e1 e2 xs ys → AlphaEqL e1 e2 (x :: xs) (y :: ys)
end

/-- `c` is larger than every unique in scope and the uniques in scope are distinct
(the situation of index→name, which hands out `c, c+1, …`) -/
def Fresh (env : List Int) (c : Int) : Prop := env.Nodup ∧ ∀ u ∈ env, u < c

-- ---------------------------------------------------------------- CodeGenInterner (optimize/interner.rs)
/-- `CodeGenInterner { identifiers: HashMap<InternKey, Vec<Unique>>, current }`;
`InternKey = (name, previous_unique)`; each `Vec<Unique>` is stored last-element-first
(`push` = cons, `last` = head, `pop` = tail). -/
structure Interner where
  identifiers : List ((String × Int) × List Int)
  current : Int
  deriving Repr

def Interner.new : Interner := ⟨[], 0⟩

/-- `fresh_unique` -/
def Interner.fresh (s : Interner) : Int × Interner := (s.current, { s with current := s.current + 1 })

/-- `bind`: `identifiers.entry(key).or_default().push(fresh)` -/
def Interner.bind (s : Interner) (key : String × Int) : Int × Interner :=
  let (u, s1) := s.fresh
  let stack := match hmGet key s1.identifiers with
    | some st => st
    | none => []
  (u, { s1 with identifiers := hmInsert key (u :: stack) s1.identifiers })

/-- `lookup` -/
def Interner.lookup (s : Interner) (key : String × Int) : Int × Interner :=
  match hmGet key s.identifiers with
  | some (u :: _) => (u, s)
  | _ => s.fresh

/-- `unbind` (the two `expect`s are panics) -/
def Interner.unbind (s : Interner) (key : String × Int) : Except Err Interner :=
  match hmGet key s.identifiers with
  | none => .error (.panic "missing binder during interning")
  | some [] => .error (.panic "empty binder stack during interning")
  | some (_ :: rest) =>
    if rest.isEmpty then .ok { s with identifiers := hmRemove key s.identifiers }
    else .ok { s with identifiers := hmInsert key rest s.identifiers }

mutual
  /-- `CodeGenInterner::term` -/
  def internTerm : Term Name → Interner → Except Err (Term Name × Interner)
    | .var n, s =>
      let (u, s') := s.lookup (n.text, n.unique)
      pure (.var ⟨n.text, u⟩, s')
    | .delay t, s => do
      let (t', s') ← internTerm t s
      pure (.delay t', s')
    | .lam n body, s => do
      let (u, s1) := s.bind (n.text, n.unique)
      let (body', s2) ← internTerm body s1
      let s3 ← s2.unbind (n.text, n.unique)
      pure (.lam ⟨n.text, u⟩ body', s3)
    | .app f a, s => do
      let (f', s1) ← internTerm f s
      let (a', s2) ← internTerm a s1
      pure (.app f' a', s2)
    | .const c, s => pure (.const c, s)
    | .force t, s => do
      let (t', s') ← internTerm t s
      pure (.force t', s')
    | .error, s => pure (.error, s)
    | .builtin b, s => pure (.builtin b, s)
    | .constr tag fs, s => do
      let (fs', s') ← internList fs s
      pure (.constr tag fs', s')
    | .case c bs, s => do
      let (c', s1) ← internTerm c s
      let (bs', s2) ← internList bs s1
      pure (.case c' bs', s2)
  def internList : List (Term Name) → Interner → Except Err (List (Term Name) × Interner)
    | [], s => pure ([], s)
    | t :: ts, s => do
      let (t', s1) ← internTerm t s
      let (ts', s2) ← internList ts s1
      pure (t' :: ts', s2)
end

/-- `CodeGenInterner::new().program(&mut p)` on the term -/
def intern (t : Term Name) : Except Err (Term Name) := (internTerm t Interner.new).map (·.1)

section ByKey
variable {κ : Type} [DecidableEq κ]
/-- binder resolution by an arbitrary key of the name (the interners' notion of "same variable") -/
def resolveKey : List κ → κ → Option Nat
  | [], _ => none
  | v :: env, k => if v = k then some 1 else (resolveKey env k).map (· + 1)

variable (key : Name → κ)
mutual
  /-- spec: the de Bruijn form of a named term when binding is decided by `key n` instead of
  `n.unique` (`key n = (n.text, n.unique)` for `CodeGenInterner`, `key n = n.text` for the parser) -/
  def specByKey (env : List κ) : Term Name → Except Err (Term DeBruijn)
    | .var n =>
      match resolveKey env (key n) with
      | some i => .ok (.var i)
      | none => .error (.freeUnique n)
    | .delay t => do pure (.delay (← specByKey env t))
    | .lam n body => do pure (.lam 0 (← specByKey (key n :: env) body))
    | .app f a => do
      let f' ← specByKey env f
      let a' ← specByKey env a
      pure (.app f' a')
    | .const c => pure (.const c)
    | .force t => do pure (.force (← specByKey env t))
    | .error => pure .error
    | .builtin b => pure (.builtin b)
    | .constr tag fs => do pure (.constr tag (← specByKeyList env fs))
    | .case c bs => do
      let c' ← specByKey env c
      let bs' ← specByKeyList env bs
      pure (.case c' bs')
  def specByKeyList (env : List κ) : List (Term Name) → Except Err (List (Term DeBruijn))
    | [] => pure []
    | t :: ts => do
      let t' ← specByKey env t
      let ts' ← specByKeyList env ts
      pure (t' :: ts')
end
end ByKey

-- ---------------------------------------------------------------- parser Interner (parser/interner.rs)
/-- `parser::interner::Interner { identifiers: HashMap<String, Unique>, current }` -/
structure PInterner where
  identifiers : List (String × Int)
  current : Int
  deriving Repr

def PInterner.new : PInterner := ⟨[], 0⟩

/-- `Interner::intern` -/
def PInterner.intern (s : PInterner) (text : String) : Int × PInterner :=
  match hmGet text s.identifiers with
  | some u => (u, s)
  | none => (s.current, ⟨hmInsert text s.current s.identifiers, s.current + 1⟩)

mutual
  /-- `parser::interner::Interner::term` -/
  def pinternTerm : Term Name → PInterner → Term Name × PInterner
    | .var n, s => let (u, s') := s.intern n.text; (.var ⟨n.text, u⟩, s')
    | .delay t, s => let (t', s') := pinternTerm t s; (.delay t', s')
    | .lam n body, s =>
      let (u, s1) := s.intern n.text
      let (body', s2) := pinternTerm body s1
      (.lam ⟨n.text, u⟩ body', s2)
    | .app f a, s =>
      let (f', s1) := pinternTerm f s
      let (a', s2) := pinternTerm a s1
      (.app f' a', s2)
    | .const c, s => (.const c, s)
    | .force t, s => let (t', s') := pinternTerm t s; (.force t', s')
    | .error, s => (.error, s)
    | .builtin b, s => (.builtin b, s)
    | .constr tag fs, s => let (fs', s') := pinternList fs s; (.constr tag fs', s')
    | .case c bs, s =>
      let (c', s1) := pinternTerm c s
      let (bs', s2) := pinternList bs s1
      (.case c' bs', s2)
  def pinternList : List (Term Name) → PInterner → List (Term Name) × PInterner
    | [], s => ([], s)
    | t :: ts, s =>
      let (t', s1) := pinternTerm t s
      let (ts', s2) := pinternList ts s1
      (t' :: ts', s2)
end

def pintern (t : Term Name) : Term Name := (pinternTerm t PInterner.new).1

end AikenVerif.Db
