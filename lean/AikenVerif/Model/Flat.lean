import AikenVerif.Model.Term
import AikenVerif.Gen.FlatTags
/-!
M-FLAT: bit-level model of the flat codec used for UPLC programs
(`crates/uplc/src/flat.rs` on top of `pallas-codec-0.35.0/src/flat/`).

* A bit stream is a `List Bool`, most significant bit of each byte first.
* **Encoders** are functions `Enc = Nat → Bits`: the argument is the number of
  bits already written (pallas' `Encoder{buffer, used_bits}`: `n = 8·len + used_bits`),
  the result the bits appended.  Only `filler` looks at the argument.
* **Decoders** are functions `Dec α = S → Res (α × S)` over the state
  `S = ⟨n, bs⟩` (`n` bits consumed so far = `8·pos + used_bits`, `bs` the bits
  that remain).  Outcomes: `ok`, `err` (any `de::Error`), `panic` (the Rust code
  would panic: index out of range, shift overflow — dev profile) and `fuel`
  (the model's loop bound was hit; `Props/C20` proves it never is).
* `Mode.impl` describes pallas-codec 0.35 as linked today (`Decoder::word`
  shifts by `7·i` without a check, `Decoder::bool` indexes the buffer without a
  check); `Mode.fixed` describes the decoder after
  `proposed_fixes/C20-flat-decoder-guards.diff` (both are errors).
* Tag numbers and widths are **not** written here: they come from
  `Gen/FlatTags.lean`, regenerated from `flat.rs` on every run (encode arms and
  decode arms separately).
* `Data` constants: the CBOR codec of `PlutusData` is a parameter
  (`DataCodec`); the driver instantiates it with the *opaque* codec that
  carries the CBOR bytes themselves as `Data.bytes` (see `notes/C08.md`).

No Mathlib; no proofs.  Linked into the native driver.
-/
namespace AikenVerif.Flat
open AikenVerif.Gen (Builtin)
open AikenVerif.Gen.FlatTags

abbrev Bits := List Bool

-- ------------------------------------------------------------------ bits
/-- the low `k` bits of `v`, most significant first (`Encoder::bits(k, v)`) -/
def natBits : Nat → Nat → Bits
  | 0, _ => []
  | k + 1, v => decide (v / 2 ^ k % 2 = 1) :: natBits k v

/-- value of a bit list read most-significant-first -/
def bitsNat : Bits → Nat
  | [] => 0
  | b :: bs => b.toNat * 2 ^ bs.length + bitsNat bs

def byteBits (b : UInt8) : Bits := natBits 8 b.toNat
def bitsOfBytes (bs : Bytes) : Bits := bs.flatMap byteBits

/-- whole bytes of a bit list (an incomplete last group is dropped; encoders
always end on a byte boundary — `Props/C08.programBits_aligned`) -/
def bytesOfBits : Bits → Bytes
  | b7 :: b6 :: b5 :: b4 :: b3 :: b2 :: b1 :: b0 :: rest =>
    UInt8.ofNat (bitsNat [b7, b6, b5, b4, b3, b2, b1, b0]) :: bytesOfBits rest
  | _ => []

-- ------------------------------------------------------------------ encoders
/-- an encoder: bits appended, given how many were written before -/
abbrev Enc := Nat → Bits

/-- run `e₁`, then `e₂` at the advanced position -/
def Enc.seq (e₁ e₂ : Enc) : Enc := fun n => e₁ n ++ e₂ (n + (e₁ n).length)
infixr:65 " ⊕ " => Enc.seq

/-- bits that do not depend on the position -/
def Enc.lit (b : Bits) : Enc := fun _ => b

/-- `Encoder::filler`: zeros up to the last bit of the current byte, then a 1
(a whole `0x01` byte when already aligned) -/
def fillerE : Enc := fun n => List.replicate (7 - n % 8) false ++ [true]

/-- `Encoder::word` / `big_word`: 7-bit groups, least significant group first,
bit 7 of each group = "more follows" -/
def wordBits (w : Nat) : Bits :=
  if w < 128 then natBits 8 w else natBits 8 (128 + w % 128) ++ wordBits (w / 128)
termination_by w
decreasing_by omega

/-- zig-zag (`ZigZag for BigInt` / `isize`): 0,-1,1,-2,… ↦ 0,1,2,3,… -/
def zigzag : Int → Nat
  | .ofNat n => 2 * n
  | .negSucc n => 2 * n + 1

def unzigzag (w : Nat) : Int :=
  if w % 2 = 0 then .ofNat (w / 2) else .negSucc (w / 2)

/-- `Encoder::write_blk`: chunks of at most 255 bytes, each preceded by its
length, then a 0 byte -/
def blockBits (b : Bytes) : Bits :=
  if _h : b = [] then natBits 8 0
  else natBits 8 (min 255 b.length) ++ bitsOfBytes (b.take 255) ++ blockBits (b.drop 255)
termination_by b.length
decreasing_by
  have : b.length ≠ 0 := fun h0 => _h (List.eq_nil_of_length_eq_zero h0)
  simp only [List.length_drop]; omega

/-- `Encoder::bytes`: filler to the byte boundary, then the blocks -/
def bytesE (b : Bytes) : Enc := fillerE ⊕ Enc.lit (blockBits b)

def utf8Enc (s : String) : Bytes := s.toUTF8.data.toList
def utf8Dec (b : Bytes) : Option String := String.fromUTF8? (ByteArray.mk b.toArray)

/-- `Encoder::encode_list_with`: a 1 bit before every item, a 0 bit at the end -/
def listE {α : Type} (e : α → Enc) : List α → Enc
  | [] => Enc.lit [false]
  | x :: xs => Enc.lit [true] ⊕ e x ⊕ listE e xs

/-- `encode_constant(tags)`: list of `CONST_TAG_WIDTH`-bit tags -/
def tagListE (tags : List Nat) : Enc := listE (fun t => Enc.lit (natBits constTagWidth t)) tags

-- ------------------------------------------------------------------ types
def tyCtor : Ty → TyCtor
  | .integer => .integer | .bytestring => .byteString | .string => .string
  | .unit => .unit | .bool => .bool | .data => .data
  | .g1 => .g1 | .g2 => .g2 | .ml => .ml
  | .list _ => .list | .pair _ _ => .pair

/-- `encode_type` -/
def tyTags : Ty → List Nat
  | .list t => typeEncTags .list ++ tyTags t
  | .pair a b => typeEncTags .pair ++ tyTags a ++ tyTags b
  | .integer => typeEncTags .integer | .bytestring => typeEncTags .byteString
  | .string => typeEncTags .string | .unit => typeEncTags .unit | .bool => typeEncTags .bool
  | .data => typeEncTags .data | .g1 => typeEncTags .g1 | .g2 => typeEncTags .g2
  | .ml => typeEncTags .ml

/-- tag list written by `impl Encode for Constant` for a constant of type `t` -/
def constTags : Ty → List Nat
  | .list t => constEncTags .list ++ tyTags t
  | .pair a b => constEncTags .pair ++ tyTags a ++ tyTags b
  | t => constEncTags (tyCtor t)

/-- `stripPrefix p xs = some r` iff `xs = p ++ r` -/
def stripPrefix : List Nat → List Nat → Option (List Nat)
  | [], xs => some xs
  | _ :: _, [] => none
  | p :: ps, x :: xs => if p = x then stripPrefix ps xs else none

/-- first arm of `decode_type` whose tag path the tags start with -/
def matchTypeArm : List (List Nat × TyCtor) → List Nat → Option (TyCtor × List Nat)
  | [], _ => none
  | (p, c) :: arms, tags =>
    match stripPrefix p tags with
    | some r => some (c, r)
    | none => matchTypeArm arms tags

/-- outcome of a decoder -/
inductive Res (α : Type) where
  | ok (v : α)
  | err
  | panic
  | fuel
  deriving Repr, Inhabited

/-- `decode_type` on the tag list (fuel: one unit per type constructor; the
length of the list always suffices) -/
def decTy : Nat → List Nat → Res (Ty × List Nat)
  | 0, _ => .fuel
  | f + 1, tags =>
    match matchTypeArm typeDecArms tags with
    | none => .err
    | some (.integer, r) => .ok (.integer, r)
    | some (.byteString, r) => .ok (.bytestring, r)
    | some (.string, r) => .ok (.string, r)
    | some (.unit, r) => .ok (.unit, r)
    | some (.bool, r) => .ok (.bool, r)
    | some (.data, r) => .ok (.data, r)
    | some (.g1, r) => .ok (.g1, r)
    | some (.g2, r) => .ok (.g2, r)
    | some (.ml, r) => .ok (.ml, r)
    | some (.list, r) =>
      match decTy f r with
      | .ok (t, r') => .ok (.list t, r')
      | .err => .err | .panic => .panic | .fuel => .fuel
    | some (.pair, r) =>
      match decTy f r with
      | .ok (a, r') =>
        match decTy f r' with
        | .ok (b, r'') => .ok (.pair a b, r'')
        | .err => .err | .panic => .panic | .fuel => .fuel
      | .err => .err | .panic => .panic | .fuel => .fuel

/-- first arm of `impl Decode for Constant` matching the whole tag list
(`exact` arms need equality, `rest @ ..` arms a prefix) -/
def matchConstArm : List (List Nat × Bool × Option TyCtor) → List Nat → Option (Option TyCtor × List Nat)
  | [], _ => none
  | (p, open_, c) :: arms, tags =>
    match stripPrefix p tags with
    | some r => if open_ || r.isEmpty then some (c, r) else matchConstArm arms tags
    | none => matchConstArm arms tags

/-- the type a constant's tag list denotes (`impl Decode for Constant`, the
part before any payload is read).  Tags left over after the element types of a
list/pair are ignored by the code, and so here. -/
def decConstTy (tags : List Nat) : Res Ty :=
  match matchConstArm constDecArms tags with
  | none => .err
  | some (none, _) => .err       -- arms that only return `Err` (BLS)
  | some (some .integer, _) => .ok .integer
  | some (some .byteString, _) => .ok .bytestring
  | some (some .string, _) => .ok .string
  | some (some .unit, _) => .ok .unit
  | some (some .bool, _) => .ok .bool
  | some (some .data, _) => .ok .data
  | some (some .g1, _) => .ok .g1
  | some (some .g2, _) => .ok .g2
  | some (some .ml, _) => .ok .ml
  | some (some .list, r) =>
    match decTy (r.length + 1) r with
    | .ok (t, _) => .ok (.list t)
    | .err => .err | .panic => .panic | .fuel => .fuel
  | some (some .pair, r) =>
    match decTy (r.length + 1) r with
    | .ok (a, r') =>
      match decTy (r'.length + 1) r' with
      | .ok (b, _) => .ok (.pair a b)
      | .err => .err | .panic => .panic | .fuel => .fuel
    | .err => .err | .panic => .panic | .fuel => .fuel

-- ------------------------------------------------------------------ decoders
/-- which decoder is described -/
inductive Mode where
  | impl    -- pallas-codec 0.35 as linked by the unchanged tree
  | fixed   -- after proposed_fixes/C20-flat-decoder-guards.diff
  deriving DecidableEq, Repr, Inhabited

/-- decoder state: bits consumed (`8·pos + used_bits`) and bits remaining -/
structure S where
  n : Nat
  bs : Bits
  deriving Repr, Inhabited

abbrev Dec (α : Type) := S → Res (α × S)

def Dec.pure {α : Type} (v : α) : Dec α := fun s => .ok (v, s)

def Dec.bind {α β : Type} (d : Dec α) (f : α → Dec β) : Dec β := fun s =>
  match d s with
  | .ok (v, s') => f v s'
  | .err => .err
  | .panic => .panic
  | .fuel => .fuel

def Dec.fail {α : Type} : Dec α := fun _ => .err
def Dec.panic {α : Type} : Dec α := fun _ => .panic

/-- `Decoder::bits8(k)` for `k ≤ 8`: `NotEnoughBits` when fewer remain -/
def decBits (k : Nat) : Dec Nat := fun s =>
  if s.bs.length < k then .err else .ok (bitsNat (s.bs.take k), ⟨s.n + k, s.bs.drop k⟩)

/-- `Decoder::bit()`: checked (`EndOfBuffer`) -/
def decBit : Dec Bool := fun s =>
  match s.bs with
  | [] => .err
  | b :: r => .ok (b, ⟨s.n + 1, r⟩)

/-- `bool::decode`.  impl: `Decoder::bool()` reads `buffer[pos]` unchecked, so at
the end of the buffer it panics; fixed: `bits8(1)` -/
def decBool (m : Mode) : Dec Bool := fun s =>
  match s.bs with
  | [] => match m with | .impl => .panic | .fixed => .err
  | b :: r => .ok (b, ⟨s.n + 1, r⟩)

/-- `Decoder::filler`: skip 0 bits up to and including the first 1 bit -/
def decFillerBits : Nat → Bits → Res (Unit × S)
  | _, [] => .err
  | n, true :: r => .ok ((), ⟨n + 1, r⟩)
  | n, false :: r => decFillerBits (n + 1) r

def decFiller : Dec Unit := fun s => decFillerBits s.n s.bs

/-- width of `usize` on the platforms aiken ships for -/
def usizeBits : Nat := 64

/-- `Decoder::word` (`usize`), group `i`, accumulated value `acc`.
impl: `final_word |= (word7 as usize) << shl` with `shl = 7·i`: panics (overflow
check) once `shl ≥ 64`, silently drops high bits at `shl = 63`.
fixed: both cases are errors. -/
def decWordGo (m : Mode) : Nat → Nat → Nat → Dec Nat
  | 0, _, _ => fun _ => .fuel
  | f + 1, i, acc => (decBits 8).bind fun w8 =>
    let w7 := w8 % 128
    if usizeBits ≤ 7 * i then
      (match m with | .impl => Dec.panic | .fixed => Dec.fail)
    else if m = .fixed ∧ 2 ^ usizeBits ≤ w7 * 2 ^ (7 * i) then Dec.fail
    else
      let acc' := acc + (w7 * 2 ^ (7 * i)) % 2 ^ usizeBits
      if w8 < 128 then Dec.pure acc' else decWordGo m f (i + 1) acc'

/-- eleven groups always reach the overflow arm -/
def decWord (m : Mode) : Dec Nat := decWordGo m 11 0 0

/-- `isize::decode` = `word()?.zigzag()` -/
def decInt64 (m : Mode) : Dec Int := (decWord m).bind fun w => Dec.pure (unzigzag w)

/-- `Decoder::big_word` (no width, so no overflow) -/
def decBigWordGo : Nat → Dec Nat
  | 0 => fun _ => .fuel
  | f + 1 => (decBits 8).bind fun w8 =>
    if w8 < 128 then Dec.pure w8
    else (decBigWordGo f).bind fun hi => Dec.pure (w8 % 128 + 128 * hi)

def decBigWord : Dec Nat := fun s => decBigWordGo (s.bs.length / 8 + 1) s

def decBigInt : Dec Int := decBigWord.bind fun w => Dec.pure (unzigzag w)

/-- the block loop of `Decoder::byte_array` (after the alignment check) -/
def decBlocksGo : Nat → Dec Bytes
  | 0 => fun _ => .fuel
  | f + 1 => (decBits 8).bind fun len => fun s =>
    if len = 0 then .ok ([], s)
    else if s.bs.length < 8 * (len + 1) then .err     -- ensure_bytes(blk_len + 1)
    else
      match decBlocksGo f ⟨s.n + 8 * len, s.bs.drop (8 * len)⟩ with
      | .ok (more, s') => .ok (bytesOfBits (s.bs.take (8 * len)) ++ more, s')
      | .err => .err | .panic => .panic | .fuel => .fuel

/-- `Decoder::bytes`: filler, then `byte_array` (`BufferNotByteAligned` unless
the filler ended on a byte boundary) -/
def decBytes : Dec Bytes := decFiller.bind fun _ => fun s =>
  if s.n % 8 ≠ 0 then .err else decBlocksGo (s.bs.length / 8 + 1) s

def decUtf8 : Dec String := decBytes.bind fun b =>
  match utf8Dec b with
  | some s => Dec.pure s
  | none => Dec.fail

/-- `Decoder::decode_list_with`: `while self.bit()? { push(f(self)?) }` -/
def decList {α : Type} (f : Dec α) : Nat → Dec (List α)
  | 0 => fun _ => .fuel
  | k + 1 => decBit.bind fun b =>
    if b then f.bind fun x => (decList f k).bind fun xs => Dec.pure (x :: xs)
    else Dec.pure []

/-- `decode_constant`: list of `CONST_TAG_WIDTH`-bit tags -/
def decTagList : Dec (List Nat) := fun s => decList (decBits constTagWidth) (s.bs.length + 1) s

-- ------------------------------------------------------------------ Data codec (parameter)
/-- CBOR codec of `PlutusData` (`encode_fragment` / `decode_fragment`) -/
structure DataCodec where
  enc : Data → Bytes
  dec : Bytes → Option Data

/-- the codec used by the driver: a `Data` constant is carried as its CBOR
bytes (`Data.bytes cbor`); nothing is known about the bytes -/
def DataCodec.opaque : DataCodec where
  enc | .bytes b => b | _ => []
  dec b := some (.bytes b)

-- ------------------------------------------------------------------ constants
mutual
  /-- `encode_constant_value` (BLS values: nothing — the encoder fails, see `encodableC`) -/
  def valE (cd : DataCodec) : Const → Enc
    | .integer i => Enc.lit (wordBits (zigzag i))
    | .bytestring b => bytesE b
    | .string s => bytesE (utf8Enc (String.ofList s))
    | .unit => Enc.lit []
    | .bool b => Enc.lit [b]
    | .list _ xs => valListE cd xs
    | .pair _ _ x y => valE cd x ⊕ valE cd y
    | .data d => bytesE (cd.enc d)
    | .g1 _ => Enc.lit [] | .g2 _ => Enc.lit [] | .ml _ => Enc.lit []
  def valListE (cd : DataCodec) : List Const → Enc
    | [] => Enc.lit [false]
    | x :: xs => Enc.lit [true] ⊕ valE cd x ⊕ valListE cd xs
end

/-- `impl Encode for Constant`: tag list of the type, then the value -/
def constE (cd : DataCodec) (c : Const) : Enc := tagListE (constTags c.ty) ⊕ valE cd c

mutual
  /-- the encoder returns `Err` for BLS values wherever they occur (`constEncodable` is generated) -/
  def encodableC : Const → Bool
    | .list _ xs => encodableCs xs
    | .pair _ _ x y => encodableC x && encodableC y
    | .g1 _ => constEncodable .g1 | .g2 _ => constEncodable .g2 | .ml _ => constEncodable .ml
    | .integer _ => constEncodable .integer | .bytestring _ => constEncodable .byteString
    | .string _ => constEncodable .string | .unit => constEncodable .unit
    | .bool _ => constEncodable .bool | .data _ => constEncodable .data
  def encodableCs : List Const → Bool
    | [] => true
    | x :: xs => encodableC x && encodableCs xs
end

/-- `decode_constant_value` by type -/
def decVal (cd : DataCodec) (m : Mode) : Ty → Dec Const
  | .integer => decBigInt.bind fun i => Dec.pure (.integer i)
  | .bytestring => decBytes.bind fun b => Dec.pure (.bytestring b)
  | .string => decUtf8.bind fun s => Dec.pure (.string s.toList)
  | .unit => Dec.pure .unit
  | .bool => (decBool m).bind fun b => Dec.pure (.bool b)
  | .list t => fun s => ((decList (decVal cd m t) (s.bs.length + 1)).bind fun xs => Dec.pure (.list t xs)) s
  | .pair a b => (decVal cd m a).bind fun x => (decVal cd m b).bind fun y => Dec.pure (.pair a b x y)
  | .data => decBytes.bind fun b =>
    match cd.dec b with
    | some d => Dec.pure (.data d)
    | none => Dec.fail
  | .g1 => decBytes.bind fun _ => Dec.fail     -- uncompress, then "not supported"
  | .g2 => decBytes.bind fun _ => Dec.fail
  | .ml => Dec.fail

/-- `impl Decode for Constant` -/
def decConst (cd : DataCodec) (m : Mode) : Dec Const := decTagList.bind fun tags =>
  match decConstTy tags with
  | .ok t => decVal cd m t
  | .err => Dec.fail
  | .panic => Dec.panic
  | .fuel => fun _ => .fuel

-- ------------------------------------------------------------------ binders
/-- how a binder representation is written and read (`trait Binder` + `Encode`/`Decode`) -/
class FlatBinder (β : Type) where
  varE : β → Enc                  -- `Encode::encode` (variables)
  binderE : β → Enc               -- `binder_encode` (lambda parameters)
  decVar : Mode → Dec β           -- `Decode::decode`
  decBinder : Mode → Dec β        -- `binder_decode`
  /-- what can be written and read back: machine-width fields in range -/
  wfVar : β → Bool
  wfBinder : β → Bool

/-- `DeBruijn`: the index as a word; the lambda parameter is **not written** and read back as 0 -/
instance : FlatBinder DeBruijn where
  varE i := Enc.lit (wordBits i)
  binderE _ := Enc.lit []
  decVar m := decWord m
  decBinder _ := Dec.pure 0
  wfVar i := i < 2 ^ usizeBits
  wfBinder i := i == 0

def namedDeBruijnE (x : NamedDeBruijn) : Enc := bytesE (utf8Enc x.text) ⊕ Enc.lit (wordBits x.index)
def decNamedDeBruijn (m : Mode) : Dec NamedDeBruijn :=
  decUtf8.bind fun t => (decWord m).bind fun i => Dec.pure ⟨t, i⟩

/-- `NamedDeBruijn`: text, then index — for variables and parameters alike -/
instance : FlatBinder NamedDeBruijn where
  varE := namedDeBruijnE
  binderE := namedDeBruijnE
  decVar := decNamedDeBruijn
  decBinder := decNamedDeBruijn
  wfVar x := x.index < 2 ^ usizeBits
  wfBinder x := x.index < 2 ^ usizeBits

def nameE (x : Name) : Enc := bytesE (utf8Enc x.text) ⊕ Enc.lit (wordBits (zigzag x.unique))
def decName (m : Mode) : Dec Name :=
  decUtf8.bind fun t => (decInt64 m).bind fun u => Dec.pure ⟨t, u⟩

/-- `unique` is an `isize` -/
def fitsIsize (u : Int) : Bool := decide (-(2 ^ 63 : Int) ≤ u) && decide (u < 2 ^ 63)

/-- `Name`: text, then zig-zagged unique -/
instance : FlatBinder Name where
  varE := nameE
  binderE := nameE
  decVar := decName
  decBinder := decName
  wfVar x := fitsIsize x.unique
  wfBinder x := fitsIsize x.unique

-- ------------------------------------------------------------------ terms
def termTagE (c : TermCtor) : Enc := Enc.lit (natBits termTagWidth (termEncTag c))

/-- `DefaultFunction::encode`: `bits(BUILTIN_TAG_WIDTH, self as u8)` -/
def builtinE (b : Builtin) : Enc := Enc.lit (natBits builtinTagWidth b.tag)

/-- `DefaultFunction::decode`: `bits8(BUILTIN_TAG_WIDTH)?.try_into()` -/
def decBuiltin : Dec Builtin := (decBits builtinTagWidth).bind fun t =>
  match Builtin.ofTag t with
  | some b => Dec.pure b
  | none => Dec.fail

section
variable {β : Type} [FlatBinder β]

mutual
  /-- `impl Encode for Term<T>` -/
  def termE (cd : DataCodec) : Term β → Enc
    | .var x => termTagE .var ⊕ FlatBinder.varE x
    | .delay t => termTagE .delay ⊕ termE cd t
    | .lam x b => termTagE .lambda ⊕ FlatBinder.binderE x ⊕ termE cd b
    | .app f a => termTagE .apply ⊕ termE cd f ⊕ termE cd a
    | .const c => termTagE .constant ⊕ constE cd c
    | .force t => termTagE .force ⊕ termE cd t
    | .error => termTagE .error
    | .builtin b => termTagE .builtin ⊕ builtinE b
    | .constr k fs => termTagE .constr ⊕ Enc.lit (wordBits k) ⊕ termListE cd fs
    | .case s bs => termTagE .case ⊕ termE cd s ⊕ termListE cd bs
  def termListE (cd : DataCodec) : List (Term β) → Enc
    | [] => Enc.lit [false]
    | t :: ts => Enc.lit [true] ⊕ termE cd t ⊕ termListE cd ts
end

/-- constructor a term tag decodes to (`Term::decode_debug`, the decoder
`Program::decode` uses) -/
def termCtorOfTag (t : Nat) : Option TermCtor :=
  (termDecDebugArms.find? (fun p => p.1 == t)).map (·.2)

/-- `Term::decode_debug` (fuel: one unit per nested call and per list item;
the number of remaining bits + 1 always suffices — `Props/C20`) -/
def decTerm (cd : DataCodec) (m : Mode) : Nat → Dec (Term β)
  | 0 => fun _ => .fuel
  | f + 1 => (decBits termTagWidth).bind fun tag =>
    match termCtorOfTag tag with
    | none => Dec.fail
    | some .var => (FlatBinder.decVar m).bind fun x => Dec.pure (.var x)
    | some .delay => (decTerm cd m f).bind fun t => Dec.pure (.delay t)
    | some .lambda => (FlatBinder.decBinder m).bind fun x => (decTerm cd m f).bind fun b => Dec.pure (.lam x b)
    | some .apply => (decTerm cd m f).bind fun g => (decTerm cd m f).bind fun a => Dec.pure (.app g a)
    | some .constant => (decConst cd m).bind fun c => Dec.pure (.const c)
    | some .force => (decTerm cd m f).bind fun t => Dec.pure (.force t)
    | some .error => Dec.pure .error
    | some .builtin => decBuiltin.bind fun b => Dec.pure (.builtin b)
    | some .constr => (decWord m).bind fun k => (decList (decTerm cd m f) f).bind fun fs => Dec.pure (.constr k fs)
    | some .case => (decTerm cd m f).bind fun s => (decList (decTerm cd m f) f).bind fun bs => Dec.pure (.case s bs)

mutual
  def encodableT : Term β → Bool
    | .const c => encodableC c
    | .lam _ b => encodableT b
    | .app f a => encodableT f && encodableT a
    | .delay t => encodableT t
    | .force t => encodableT t
    | .constr _ fs => encodableTs fs
    | .case s bs => encodableT s && encodableTs bs
    | .var _ => true | .error => true | .builtin _ => true
  def encodableTs : List (Term β) → Bool
    | [] => true
    | t :: ts => encodableT t && encodableTs ts
end

-- ------------------------------------------------------------------ programs
/-- `impl Encode for Program<T>` followed by the final filler of `flat::encode` -/
def programE (cd : DataCodec) (p : Program β) : Enc :=
  Enc.lit (wordBits p.version.1) ⊕ Enc.lit (wordBits p.version.2.1) ⊕ Enc.lit (wordBits p.version.2.2)
    ⊕ termE cd p.term ⊕ fillerE

def programBits (cd : DataCodec) (p : Program β) : Bits := programE cd p 0

/-- `Program::to_flat` (`none` = `Err`: a BLS constant occurs) -/
def toFlat (cd : DataCodec) (p : Program β) : Option Bytes :=
  if encodableT p.term then some (bytesOfBits (programBits cd p)) else none

/-- `impl Decode for Program<T>` followed by the filler of `flat::decode` -/
def decProgram (cd : DataCodec) (m : Mode) : Dec (Program β) := fun s =>
  ((decWord m).bind fun a => (decWord m).bind fun b => (decWord m).bind fun c =>
    (decTerm cd m (s.bs.length + 1)).bind fun t => decFiller.bind fun _ => Dec.pure ⟨(a, b, c), t⟩) s

/-- `Program::from_flat`: bytes after the final filler are ignored -/
def fromFlat (cd : DataCodec) (m : Mode) (bytes : Bytes) : Res (Program β) :=
  match decProgram cd m ⟨0, bitsOfBytes bytes⟩ with
  | .ok (p, _) => .ok p
  | .err => .err | .panic => .panic | .fuel => .fuel

end

end AikenVerif.Flat
