import AikenVerif.Model.Term
/-!
M-CBOR (the part C08 needs): the CBOR *byte-string wrapper* of a script —
`Program::to_cbor` = `minicbor::Encoder::bytes(flat)`, `Program::from_cbor` =
`minicbor::Decoder::bytes()` — and hex.

NOT modelled here: the CBOR encoding of `PlutusData` (the flat model takes it as
a parameter, `Flat.DataCodec`).
-/
namespace AikenVerif.Cbor

/-- big-endian bytes of `v`, `k` of them -/
def beBytes : Nat → Nat → Bytes
  | 0, _ => []
  | k + 1, v => UInt8.ofNat (v / 256 ^ k % 256) :: beBytes k v

def beNat : Bytes → Nat
  | [] => 0
  | b :: bs => b.toNat * 256 ^ bs.length + beNat bs

/-- CBOR head of major type `mt` with argument `v` in the shortest form
(`minicbor::Encoder::type_len`) -/
def head (mt : Nat) (v : Nat) : Bytes :=
  if v < 24 then [UInt8.ofNat (mt * 32 + v)]
  else if v < 2 ^ 8 then UInt8.ofNat (mt * 32 + 24) :: beBytes 1 v
  else if v < 2 ^ 16 then UInt8.ofNat (mt * 32 + 25) :: beBytes 2 v
  else if v < 2 ^ 32 then UInt8.ofNat (mt * 32 + 26) :: beBytes 4 v
  else UInt8.ofNat (mt * 32 + 27) :: beBytes 8 v

/-- `Encoder::bytes`: definite-length byte string -/
def wrapBytes (b : Bytes) : Bytes := head 2 b.length ++ b

/-- `Decoder::bytes()`: a definite-length byte string (any head width, not only
the shortest); whatever follows it is ignored; `none` = `Err` -/
def unwrapBytes : Bytes → Option Bytes
  | [] => none
  | h :: rest =>
    if h.toNat / 32 ≠ 2 then none
    else
      let info := h.toNat % 32
      let k := if info < 24 then some 0 else if info = 24 then some 1 else if info = 25 then some 2
               else if info = 26 then some 4 else if info = 27 then some 8 else none
      match k with
      | none => none
      | some k =>
        if rest.length < k then none
        else
          let len := if info < 24 then info else beNat (rest.take k)
          let body := rest.drop k
          if body.length < len then none else some (body.take len)

end AikenVerif.Cbor
