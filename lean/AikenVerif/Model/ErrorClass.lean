import AikenVerif.Gen.Errors
/-!
Classification of `uplc::machine::Error` for C06 ("well-typed programs cannot go wrong").
The enum is GENERATED from `machine/error.rs`; the classification below is a total match
on it, so a variant added to the Rust enum makes this file fail to compile until it is
classified.  The harness asks the driver (`errclass <Variant>`) — it has no table of its own.
-/
namespace AikenVerif
open Gen

inductive ErrClass where
  /-- the machine got stuck on a malformed / ill-typed program: what C06 forbids -/
  | structural
  /-- a failure the source program asks for: `error`, partial builtin, failed Data cast -/
  | requested
  /-- the budget ran out -/
  | budget
  deriving DecidableEq, Repr, Inhabited

def ErrClass.name : ErrClass → String
  | .structural => "structural"
  | .requested => "requested"
  | .budget => "budget"

/-- which failures a type-checked program may end with -/
def classify : MachineError → ErrClass
  | .outOfExError => .budget
  -- the machine's own invariants / malformed terms
  | .invalidStepKind => .structural
  | .openTermEvaluated => .structural              -- unbound variable
  | .nonPolymorphicInstantiation => .structural    -- forcing a non-delayed value
  | .nonFunctionalApplication => .structural       -- applying a non-function
  | .nonConstrScrutinized => .structural           -- `case` on a non-constructor
  | .missingCaseBranch => .structural
  | .typeMismatch => .structural                   -- builtin received a constant of the wrong type
  | .listTypeMismatch => .structural
  | .pairTypeMismatch => .structural
  | .unexpectedBuiltinTermArgument => .structural  -- missing force
  | .builtinTermArgumentExpected => .structural    -- extra force
  | .notAConstant => .structural                   -- builtin received a function / delay
  | .machineNeverReachedDone => .structural
  -- requested: `fail` / `todo` / failed `expect` lower to the error term
  | .evaluationFailure => .requested
  -- requested: partial builtins and failed Data casts
  | .emptyList => .requested                       -- head/tail of [] (list patterns under `expect`)
  | .deserialisationError => .requested            -- unIData / unBData / unListData / … on other Data
  | .divideByZero => .requested
  | .integerToByteStringNegativeSize => .requested
  | .replicateByteNegativeSize => .requested
  | .integerToByteStringNegativeInput => .requested
  | .integerToByteStringSizeTooBig => .requested
  | .replicateByteSizeTooBig => .requested
  | .integerToByteStringSizeTooSmall => .requested
  | .utf8 => .requested
  | .byteStringOutOfBounds => .requested
  | .byteStringConsNotAByte => .requested
  | .expModIntegerNoInverse => .requested
  | .unexpectedEd25519PublicKeyLength => .requested
  | .unexpectedEd25519SignatureLength => .requested
  | .overflowError => .requested
  | .outsideNaturalBounds => .requested
  | .outsideByteBounds => .requested
  | .readBitOutOfBounds => .requested
  | .writeBitsOutOfBounds => .requested
  | .emptyByteArray => .requested
  | .blst => .requested
  | .hashToCurveDstTooBig => .requested
  | .msmScalarOutOfBounds => .requested
  | .secp256k1 => .requested
  | .k256Error => .requested

/-- `errclass <RustVariantName>` -/
def classifyName (s : String) : String :=
  match MachineError.ofRustName s with
  | some e => (classify e).name
  | none => "unknown-variant"

end AikenVerif
