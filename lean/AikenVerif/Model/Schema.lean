import AikenVerif.Model.Term
/-!
M-SCHEMA (C12, C18, C20): how an Aiken type looks as Plutus `Data`, three times.

* `schemaOf` / `collect` / `prune` / `replaceS` / `publish` — impl model of the blueprint
  generator: `Annotated::<Schema>::from_type`, `Data::from_data_type`
  (crates/aiken-project/src/blueprint/schema.rs), `Definitions::register`,
  `prune_orphan_pairs`, `replace_pairs_with_data_lists` (definitions.rs).
* `vData` / `vSchema` / `validate` — impl model of `Parameter::validate`,
  `validate_schema`, `validate_data` (parameter.rs).  The boolean `fixed` selects between
  the code as it is (`panic!("fields length different")`) and the proposed repair
  (a schema mismatch).
* `inh` / `inhabits` — what the compiled `expect _: T = d` accepts
  (`CodeGenerator::expect_type_assign`, `unknown_data_to_type`, `list_access_to_uplc`):
  exact constructor index, exact field count, element-wise.
* `encode` — a typed value as `Data` (`convert_type_to_data`, constructor records).

No Mathlib, no proofs here: the file is linked into the native driver.
-/
namespace AikenVerif.Blueprint

-- ------------------------------------------------------------------ types
mutual
  /-- serialisable Aiken types.  `adt n args` is entry `n` of the declaration table applied
  to `args`; `var i` is the `i`-th type parameter of the enclosing declaration. -/
  inductive ATy where
    | int | bytes | bool | void | data | ordering | never
    | list (t : ATy)
    | pair (a b : ATy)
    | option (t : ATy)
    | tuple (ts : ATys)
    | adt (n : Nat) (args : ATys)
    | var (i : Nat)
    deriving DecidableEq, Repr
  inductive ATys where
    | nil
    | cons (t : ATy) (ts : ATys)
    deriving DecidableEq, Repr
end

instance : Inhabited ATy := ⟨.data⟩

def ATys.toList : ATys → List ATy
  | .nil => []
  | .cons t ts => t :: ts.toList

def ATys.ofList : List ATy → ATys
  | [] => .nil
  | t :: ts => .cons t (ATys.ofList ts)

/-- a constructor of a data-type declaration; `tag` is an explicit `@tag(n)` -/
structure Ctor where
  tag : Option Nat
  fields : List ATy
  deriving Repr

/-- `TypedDataType`: `asList` is the `@list` decorator (single-constructor record) -/
structure DataType where
  arity : Nat
  ctors : List Ctor
  asList : Bool
  deriving Repr

abbrev Decls := List DataType

/-- constructor index: the `@tag` if present, the declaration position otherwise
(`.find_map(Tag).unwrap_or(index)` in both `from_data_type` and `expect_type_assign`) -/
def ctorIndex (pos : Nat) (c : Ctor) : Nat :=
  match c.tag with
  | some t => t
  | none => pos

/-- `(index, field types)` of every constructor, in declaration order -/
def ctorTable : Nat → List Ctor → List (Nat × List ATy)
  | _, [] => []
  | pos, c :: cs => (ctorIndex pos c, c.fields) :: ctorTable (pos + 1) cs

mutual
  /-- instantiate type parameters (`collect_type_parameters` + the `Generic` case of
  `do_from_type`; `find_and_replace_generics` in the code generator).  A parameter
  without an argument stands for `Data`, as in the code. -/
  def ATy.subst (args : List ATy) : ATy → ATy
    | .list t => .list (t.subst args)
    | .pair a b => .pair (a.subst args) (b.subst args)
    | .option t => .option (t.subst args)
    | .tuple ts => .tuple (ts.subst args)
    | .adt n as => .adt n (as.subst args)
    | .var i => match args[i]? with
      | some t => t
      | none => .data
    | t => t
  def ATys.subst (args : List ATy) : ATys → ATys
    | .nil => .nil
    | .cons t ts => .cons (t.subst args) (ts.subst args)
end

/-- how `adt n args` is laid out as data -/
inductive Shape where
  | undeclared
  /-- `@list` single-constructor record: a plain list of the fields -/
  | record (fields : List ATy)
  /-- `(index, field types)` per constructor, arguments substituted -/
  | variants (cs : List (Nat × List ATy))
  deriving Repr

def adtShape (decls : Decls) (n : Nat) (args : ATys) : Shape :=
  match decls[n]? with
  | none => .undeclared
  | some dt =>
    match dt.asList, (ctorTable 0 dt.ctors).map (fun c => (c.1, c.2.map (ATy.subst args.toList))) with
    | true, [c] => .record c.2
    | _, cs => .variants cs

-- ------------------------------------------------------------------ schemas
/-- `Declaration<T>`; a reference is the (closed) type it was registered for —
`Reference::from_type` renders exactly that type. -/
inductive Decl (α : Type) where
  | ref (k : ATy)
  | inline (s : α)
  deriving Repr

/-- `blueprint::schema::Data` (`Items::One` = `list`, `Items::Many` = `tuple`) -/
inductive DSchema where
  | integer | bytes | opaque
  | list (item : Decl DSchema)
  | tuple (items : List (Decl DSchema))
  | map (k v : Decl DSchema)
  | anyOf (ctors : List (Nat × List (Decl DSchema)))
  deriving Repr

/-- `blueprint::schema::Schema` -/
inductive Schema where
  | unit | boolean | integer | bytes | string
  | pair (l r : Decl Schema)
  | list (item : Decl Schema)
  | tuple (items : List (Decl Schema))
  | data (d : DSchema)
  deriving Repr

instance : Inhabited DSchema := ⟨.opaque⟩
instance : Inhabited Schema := ⟨.data .opaque⟩

/-- `Definitions<Annotated<Schema>>` (titles and descriptions carry no meaning for validation) -/
abbrev Table := List (ATy × Schema)

def Table.get (tbl : Table) (k : ATy) : Option Schema :=
  match tbl with
  | [] => none
  | (k', s) :: rest => if k' = k then some s else Table.get rest k

def refs (ts : List ATy) : List (Decl DSchema) := ts.map Decl.ref

/-- the body of the `register` closure for one type: `do_from_type` / `from_data_type`.
Every child is a reference.  `none` = the generator reports an error. -/
def schemaOf (decls : Decls) : ATy → Option Schema
  | .int => some (.data .integer)
  | .bytes => some (.data .bytes)
  | .data => some (.data .opaque)
  | .bool => some (.data (.anyOf [(0, []), (1, [])]))
  | .void => some (.data (.anyOf [(0, [])]))
  | .ordering => some (.data (.anyOf [(0, []), (1, []), (2, [])]))
  | .never => some (.data (.anyOf [(1, [])]))
  | .option t => some (.data (.anyOf [(0, [.ref t]), (1, [])]))
  -- "Lists of 2-tuples are treated as Maps": the element's definition is a `Schema::Pair`
  | .list (.pair a b) => some (.data (.map (.ref a) (.ref b)))
  | .list t => some (.data (.list (.ref t)))
  | .pair a b => some (.pair (.ref a) (.ref b))
  | .tuple ts => some (.data (.tuple (refs ts.toList)))
  | .adt n args =>
    match adtShape decls n args with
    | .undeclared => none
    | .record fs => some (.data (.tuple (refs fs)))
    | .variants cs => some (.data (.anyOf (cs.map (fun c => (c.1, refs c.2)))))
  | .var _ => none

/-- the types `do_from_type` is called on while building the schema of `T` -/
def childTypes (decls : Decls) : ATy → List ATy
  | .option t => [t]
  | .list (.pair a b) => [.pair a b, a, b]
  | .list t => [t]
  | .pair a b => [a, b]
  | .tuple ts => ts.toList
  | .adt n args =>
    match adtShape decls n args with
    | .undeclared => []
    | .record fs => fs
    | .variants cs => cs.flatMap (·.2)
  | _ => []

/-- `Definitions::register` driven by `from_type`: every reachable type is registered once
(mark-and-insert).  The work-list order differs from the code's depth-first order, the
resulting map does not. `none`: an error, or out of fuel. -/
def collect (decls : Decls) : Nat → List ATy → Table → Option Table
  | _, [], seen => some seen
  | 0, _ :: _, _ => none
  | fuel + 1, t :: rest, seen =>
    match seen.get t with
    | some _ => collect decls fuel rest seen
    | none =>
      match schemaOf decls t with
      | none => none
      | some s => collect decls fuel (childTypes decls t ++ rest) ((t, s) :: seen)

def declRefs {α : Type} : Decl α → List ATy
  | .ref k => [k]
  | .inline _ => []

/-- references made directly by a schema (all that the generator produces) -/
def Schema.refs : Schema → List ATy
  | .pair l r => declRefs l ++ declRefs r
  | .list i => declRefs i
  | .tuple is => is.flatMap declRefs
  | .data (.list i) => declRefs i
  | .data (.tuple is) => is.flatMap declRefs
  | .data (.map k v) => declRefs k ++ declRefs v
  | .data (.anyOf cs) => cs.flatMap (fun c => c.2.flatMap declRefs)
  | _ => []

def Schema.isPair : Schema → Bool
  | .pair _ _ => true
  | _ => false

/-- one round of `prune_orphan_pairs`: drop every `Pair` definition that neither another
remaining definition nor a parameter refers to -/
def pruneStep (params : List ATy) (tbl : Table) : Table :=
  tbl.filter (fun e => !e.2.isPair || params.contains e.1 || tbl.any (fun e' => e'.2.refs.contains e.1))

/-- "repeatedly remove pairs definitions that aren't used" -/
def prune (params : List ATy) : Nat → Table → Table
  | 0, tbl => tbl
  | n + 1, tbl => prune params n (pruneStep params tbl)

mutual
  /-- `schema_to_data` of `replace_pairs_with_data_lists` -/
  def replaceS : Schema → DSchema
    | .unit => .anyOf [(0, [])]
    | .boolean => .anyOf [(0, []), (1, [])]
    | .integer => .integer
    | .bytes => .bytes
    | .string => .bytes
    | .pair l r => .tuple [replaceD l, replaceD r]
    | .list i => .list (replaceD i)
    | .tuple is => .tuple (replaceDs is)
    | .data d => d
  def replaceD : Decl Schema → Decl DSchema
    | .ref k => .ref k
    | .inline s => .inline (replaceS s)
  def replaceDs : List (Decl Schema) → List (Decl DSchema)
    | [] => []
    | d :: ds => replaceD d :: replaceDs ds
end

def replaceAll (tbl : Table) : Table := tbl.map (fun e => (e.1, .data (replaceS e.2)))

/-- the definitions published for a validator whose interface types are `params`:
`from_type` for each, `prune_orphan_pairs`, `replace_pairs_with_data_lists`
(`Validator::create_validator_blueprint`) -/
def publish (decls : Decls) (fuel : Nat) (params : List ATy) : Option Table :=
  match collect decls fuel params [] with
  | none => none
  | some raw => some (replaceAll (prune params raw.length raw))

/-- the published one-level schema of a type -/
def pubSchema (decls : Decls) (t : ATy) : Option DSchema :=
  (schemaOf decls t).map replaceS

-- ------------------------------------------------------------------ validation
inductive Outcome where
  | ok
  | mismatch      -- `Error::SchemaMismatch` / `TupleItemsMismatch`
  | unresolved    -- `Error::UnresolvedSchemaReference`
  | panic         -- the process dies
  | outOfFuel     -- artefact of the model (never reached with `size d + 1` fuel)
  deriving DecidableEq, Repr

def Outcome.render : Outcome → String
  | .ok => "ok" | .mismatch => "mismatch" | .unresolved => "unresolved"
  | .panic => "panic" | .outOfFuel => "out-of-fuel"

/-- `for x in xs { f(x)?; } Ok(())` -/
def allOk {α : Type} (f : α → Outcome) : List α → Outcome
  | [] => .ok
  | x :: xs => match f x with
    | .ok => allOk f xs
    | e => e

/-- `for (s, x) in zip(ss, xs) { f(s, x)?; } Ok(())`, the lengths having been compared before -/
def zipOk {σ α : Type} (f : σ → α → Outcome) : List σ → List α → Outcome
  | s :: ss, x :: xs => match f s x with
    | .ok => zipOk f ss xs
    | e => e
  | _, _ => .ok

def Outcome.andThen (a : Outcome) (b : Outcome) : Outcome :=
  match a with
  | .ok => b
  | e => e

/-- `Declaration<Data>::schema(definitions)` -/
def resolveD (tbl : Table) : Decl DSchema → Option DSchema
  | .inline s => some s
  | .ref k => match tbl.get k with
    | some (.data d) => some d
    | _ => none

/-- `Declaration<Schema>::schema(definitions)` -/
def resolveS (tbl : Table) : Decl Schema → Option Schema
  | .inline s => some s
  | .ref k => tbl.get k

def resolveAll (tbl : Table) : List (Decl DSchema) → Option (List DSchema)
  | [] => some []
  | d :: ds => match resolveD tbl d with
    | none => none
    | some s => match resolveAll tbl ds with
      | none => none
      | some ss => some (s :: ss)

def resolveCtors (tbl : Table) : List (Nat × List (Decl DSchema)) → Option (List (Nat × List DSchema))
  | [] => some []
  | (i, fs) :: cs => match resolveAll tbl fs with
    | none => none
    | some ss => match resolveCtors tbl cs with
      | none => none
      | some rest => some ((i, ss) :: rest)

/-- the constructor loop of `validate_data`: the first constructor whose index is the
datum's wins; a different number of fields is `lenMismatch` -/
def ctorLoop {σ : Type} (lenMismatch : Outcome) (f : σ → Data → Outcome)
    (tag : Nat) (fields : List Data) : List (Nat × List σ) → Outcome
  | [] => .mismatch
  | (i, ss) :: rest =>
    if i = tag then
      if ss.length ≠ fields.length then lenMismatch else zipOk f ss fields
    else ctorLoop lenMismatch f tag fields rest

def lenOutcome (fixed : Bool) : Outcome := if fixed then .mismatch else .panic

/-- `validate_data`.  `fixed = false` is the code as it stands. -/
def vData (fixed : Bool) (tbl : Table) : Nat → DSchema → Data → Outcome
  | 0, _, _ => .outOfFuel
  | _ + 1, .opaque, _ => .ok
  | _ + 1, .integer, .int _ => .ok
  | _ + 1, .integer, _ => .mismatch
  | _ + 1, .bytes, .bytes _ => .ok
  | _ + 1, .bytes, _ => .mismatch
  | fuel + 1, .list item, .list xs =>
    match resolveD tbl item with
    | none => .unresolved
    | some s => allOk (fun x => vData fixed tbl fuel s x) xs
  | _ + 1, .list _, _ => .mismatch
  | fuel + 1, .tuple items, .list xs =>
    match resolveAll tbl items with
    | none => .unresolved
    | some ss =>
      if xs.length ≠ ss.length then .mismatch
      else zipOk (fun s x => vData fixed tbl fuel s x) ss xs
  | _ + 1, .tuple _, _ => .mismatch
  | fuel + 1, .map k v, .map es =>
    match resolveD tbl k with
    | none => .unresolved
    | some ks => match resolveD tbl v with
      | none => .unresolved
      | some vs =>
        allOk (fun e => (vData fixed tbl fuel ks e.1).andThen (vData fixed tbl fuel vs e.2)) es
  | _ + 1, .map _ _, _ => .mismatch
  | fuel + 1, .anyOf ctors, d =>
    match resolveCtors tbl ctors with
    | none => .unresolved
    | some cs => match d with
      | .constr tag fields =>
        ctorLoop (lenOutcome fixed) (fun s x => vData fixed tbl fuel s x) tag fields cs
      | _ => .mismatch

/-- `validate_schema` on a constant.  (`Validator::apply` always passes `Constant::Data`.) -/
def vSchema (fixed : Bool) (tbl : Table) : Nat → Schema → Const → Outcome
  | 0, _, _ => .outOfFuel
  | fuel + 1, .data ds, .data d => vData fixed tbl fuel ds d
  | _ + 1, .data (.anyOf ctors), _ =>
    match resolveCtors tbl ctors with
    | none => .unresolved
    | some _ => .mismatch
  | _ + 1, .data _, _ => .mismatch
  | _ + 1, .unit, .unit => .ok
  | _ + 1, .unit, _ => .mismatch
  | _ + 1, .boolean, .bool _ => .ok
  | _ + 1, .boolean, _ => .mismatch
  | _ + 1, .integer, .integer _ => .ok
  | _ + 1, .integer, _ => .mismatch
  | _ + 1, .bytes, .bytestring _ => .ok
  | _ + 1, .bytes, _ => .mismatch
  | _ + 1, .string, .string _ => .ok
  | _ + 1, .string, _ => .mismatch
  | fuel + 1, .pair l r, .pair _ _ x y =>
    match resolveS tbl l with
    | none => .unresolved
    | some ls => (vSchema fixed tbl fuel ls x).andThen
      (match resolveS tbl r with
       | none => .unresolved
       | some rs => vSchema fixed tbl fuel rs y)
  | _ + 1, .pair _ _, _ => .mismatch
  | fuel + 1, .list item, .list _ xs =>
    match resolveS tbl item with
    | none => .unresolved
    | some s => allOk (fun x => vSchema fixed tbl fuel s x) xs
  | _ + 1, .list _, _ => .mismatch
  | fuel + 1, .tuple items, .list _ xs =>
    match items.mapM (resolveS tbl) with
    | none => .unresolved
    | some ss =>
      if xs.length ≠ ss.length then .mismatch
      else zipOk (fun s x => vSchema fixed tbl fuel s x) ss xs
  | _ + 1, .tuple _, _ => .mismatch

mutual
  def dsize : Data → Nat
    | .constr _ fs => dsizeList fs + 1
    | .map es => dsizePairs es + 1
    | .list xs => dsizeList xs + 1
    | .int _ => 1
    | .bytes _ => 1
  def dsizeList : List Data → Nat
    | [] => 0
    | x :: xs => dsize x + dsizeList xs + 1
  def dsizePairs : List (Data × Data) → Nat
    | [] => 0
    | (k, v) :: es => dsize k + dsize v + dsizePairs es + 1
end

/-- `Parameter::validate(definitions, Constant::Data d)` with enough fuel -/
def validate (fixed : Bool) (tbl : Table) (param : Decl Schema) (d : Data) : Outcome :=
  match resolveS tbl param with
  | none => .unresolved
  | some s => vSchema fixed tbl (dsize d + 2) s (.data d)

/-- the code as it stands -/
def conforms (tbl : Table) (param : Decl Schema) (d : Data) : Outcome := validate false tbl param d
/-- with the proposed repair (proposed_fixes/C12-fields-length.diff) -/
def conformsFixed (tbl : Table) (param : Decl Schema) (d : Data) : Outcome := validate true tbl param d

-- ------------------------------------------------------------------ expect
/-- what the compiled `expect _: T = d` does on `d` (`ok` = continues, `mismatch` = script error).
`T` is closed. -/
def inh (decls : Decls) : Nat → ATy → Data → Outcome
  | 0, _, _ => .outOfFuel
  | _ + 1, .data, _ => .ok
  | _ + 1, .int, .int _ => .ok
  | _ + 1, .int, _ => .mismatch
  | _ + 1, .bytes, .bytes _ => .ok
  | _ + 1, .bytes, _ => .mismatch
  -- `unwrap_bool_or`: no fields, index < 2
  | _ + 1, .bool, .constr tag fields =>
    ctorLoop .mismatch (fun (_ : ATy) (_ : Data) => Outcome.ok) tag fields [(0, []), (1, [])]
  | _ + 1, .bool, _ => .mismatch
  -- `unwrap_void_or`: index 0, no fields
  | _ + 1, .void, .constr tag fields =>
    ctorLoop .mismatch (fun (_ : ATy) (_ : Data) => Outcome.ok) tag fields [(0, [])]
  | _ + 1, .void, _ => .mismatch
  | _ + 1, .ordering, .constr tag fields =>
    ctorLoop .mismatch (fun (_ : ATy) (_ : Data) => Outcome.ok) tag fields [(0, []), (1, []), (2, [])]
  | _ + 1, .ordering, _ => .mismatch
  -- `Never`: the place-holder constructor 0 is skipped
  | _ + 1, .never, .constr tag fields =>
    ctorLoop .mismatch (fun (_ : ATy) (_ : Data) => Outcome.ok) tag fields [(1, [])]
  | _ + 1, .never, _ => .mismatch
  | fuel + 1, .option t, .constr tag fields =>
    ctorLoop .mismatch (fun t x => inh decls fuel t x) tag fields [(0, [t]), (1, [])]
  | _ + 1, .option _, _ => .mismatch
  -- `tipo.is_map()`: unMapData, then both components of every entry
  | fuel + 1, .list (.pair a b), .map es =>
    allOk (fun e => (inh decls fuel a e.1).andThen (inh decls fuel b e.2)) es
  | _ + 1, .list (.pair _ _), _ => .mismatch
  | fuel + 1, .list t, .list xs => allOk (fun x => inh decls fuel t x) xs
  | _ + 1, .list _, _ => .mismatch
  -- `tuple_access` with `is_expect`: exact length
  | fuel + 1, .tuple ts, .list xs =>
    if xs.length ≠ ts.toList.length then .mismatch
    else zipOk (fun t x => inh decls fuel t x) ts.toList xs
  | _ + 1, .tuple _, _ => .mismatch
  -- `unwrap_pair_or` / `unknown_data_to_type`: a list of exactly two
  | fuel + 1, .pair a b, .list xs =>
    if xs.length ≠ 2 then .mismatch
    else zipOk (fun t x => inh decls fuel t x) [a, b] xs
  | _ + 1, .pair _ _, _ => .mismatch
  | fuel + 1, .adt n args, d =>
    match adtShape decls n args with
    | .undeclared => .mismatch
    | .record fs =>
      match d with
      | .list xs =>
        if xs.length ≠ fs.length then .mismatch
        else zipOk (fun t x => inh decls fuel t x) fs xs
      | _ => .mismatch
    | .variants cs =>
      match d with
      | .constr tag fields => ctorLoop .mismatch (fun t x => inh decls fuel t x) tag fields cs
      | _ => .mismatch
  | _ + 1, .var _, _ => .mismatch

def inhabits (decls : Decls) (t : ATy) (d : Data) : Bool :=
  inh decls (dsize d + 1) t d == .ok

-- ------------------------------------------------------------------ values
/-- typed values (before serialisation) -/
inductive Val where
  | int (n : Int)
  | bytes (b : Bytes)
  | bool (b : Bool)
  | void
  | data (d : Data)
  | ordering (n : Nat)
  | never
  | list (xs : List Val)
  | tuple (xs : List Val)
  | pair (a b : Val)
  | some (v : Val)
  | none
  | con (pos : Nat) (fields : List Val)
  deriving Repr, Inhabited

def mapOpt {α β : Type} (f : α → Option β) : List α → Option (List β)
  | [] => some []
  | x :: xs => match f x with
    | none => none
    | some y => match mapOpt f xs with
      | none => none
      | some ys => some (y :: ys)

def zipOpt {σ α β : Type} (f : σ → α → Option β) : List σ → List α → Option (List β)
  | [], [] => some []
  | s :: ss, x :: xs => match f s x with
    | none => none
    | some y => match zipOpt f ss xs with
      | none => none
      | some ys => some (y :: ys)
  | _, _ => none

/-- serialise a value at a (closed) type; `none` = the value does not have that type
(or out of fuel).  `let d: Data = v` in Aiken. -/
def encode (decls : Decls) : Nat → ATy → Val → Option Data
  | 0, _, _ => none
  | _ + 1, .int, .int n => some (.int n)
  | _ + 1, .bytes, .bytes b => some (.bytes b)
  | _ + 1, .bool, .bool b => some (.constr (if b then 1 else 0) [])
  | _ + 1, .void, .void => some (.constr 0 [])
  | _ + 1, .data, .data d => some d
  | _ + 1, .ordering, .ordering n => if n < 3 then some (.constr n []) else none
  | _ + 1, .never, .never => some (.constr 1 [])
  | fuel + 1, .option t, .some v => (encode decls fuel t v).map (fun d => .constr 0 [d])
  | _ + 1, .option _, .none => some (.constr 1 [])
  | fuel + 1, .list (.pair a b), .list vs =>
    (mapOpt (fun v => match v with
      | .pair x y => match encode decls fuel a x, encode decls fuel b y with
        | some k, some w => some (k, w)
        | _, _ => none
      | _ => none) vs).map Data.map
  | fuel + 1, .list t, .list vs => (mapOpt (fun v => encode decls fuel t v) vs).map Data.list
  | fuel + 1, .tuple ts, .tuple vs => (zipOpt (fun t v => encode decls fuel t v) ts.toList vs).map Data.list
  | fuel + 1, .pair a b, .pair x y =>
    match encode decls fuel a x, encode decls fuel b y with
    | some k, some w => some (.list [k, w])
    | _, _ => none
  | fuel + 1, .adt n args, .con pos vs =>
    match adtShape decls n args with
    | .undeclared => none
    | .record fs =>
      if pos = 0 then (zipOpt (fun t v => encode decls fuel t v) fs vs).map Data.list else none
    | .variants cs =>
      match cs[pos]? with
      | none => none
      | some (i, fs) => (zipOpt (fun t v => encode decls fuel t v) fs vs).map (Data.constr i)
  | _ + 1, _, _ => none

-- ------------------------------------------------------------------ constructor tags
/-- `Data::constr(ix, _)` (crates/uplc/src/ast.rs): the CBOR tag and `any_constructor` -/
def constrTag (ix : Nat) : Nat × Option Nat :=
  if ix < 7 then (121 + ix, none)
  else if ix < 128 then (1280 + ix - 7, none)
  else (102, some ix)

/-- how the machine reads a `Constr` back (`unConstrData`: `any_constructor` if present,
else the compact ranges); `none` = not a constructor tag -/
def indexOfTag (tag : Nat) (any : Option Nat) : Option Nat :=
  match any with
  | some ix => some ix
  | none =>
    if 121 ≤ tag ∧ tag ≤ 127 then some (tag - 121)
    else if 1280 ≤ tag ∧ tag ≤ 1400 then some (tag - 1280 + 7)
    else none

end AikenVerif.Blueprint
