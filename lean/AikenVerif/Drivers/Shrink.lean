import AikenVerif.Model.Shrink
import AikenVerif.Model.Wire
/-!
driver `shrink` (C16): runs the model's `simplify` on an interpreted description of a `run`
function and an initial choice sequence.

request : `shrink <id> <fuzzer-spec> <prop-spec> <#hex choices>`
reply   : `ok <#hex choices> <v1,v2,…|-> <run calls> <cache size>` | `fuel` | `panic` | `bad-request`

The same family is implemented in `harness/src/c16.rs` (keep the two in sync):

fuzzer-spec (choices → `None` (= `Status::Invalid`) or a list of naturals)
  `const:v`        consumes nothing, value `[v]`
  `bytes:n`        first `n` choices; `None` when fewer
  `lenlist:m`      first choice `b`, then `b % m` further choices (data-dependent length)
  `flaglist:cap`   repeat: flag; odd flag and fewer than `cap` elements → one element; else stop
  `strict:n:bound` like `bytes:n`, but `None` when one of them is `> bound`
  `cursor`         looks at the replay cursor: `[len, first choice…]` (NOT prefix-stable)
  `exact:n`        `None` unless exactly `n` choices are supplied (NOT prefix-stable)
  `hash:salt`      an arbitrary function of the whole sequence: status by a hash (NOT prefix-stable)
prop-spec (list of naturals → does the property fail, i.e. is the value kept)
  `sumge:t` `summod:m:r` `anyge:t` `lenge:n` `unsorted` `hashlt:salt:m:r` `always` `never`
-/
namespace AikenVerif.Drivers.Shrink
open AikenVerif AikenVerif.Shrink

inductive FSpec where
  | const (v : Nat) | bytes (n : Nat) | lenlist (m : Nat) | flaglist (cap : Nat)
  | strict (n bound : Nat) | cursor | exact (n : Nat) | hash (salt : Nat)

inductive PSpec where
  | sumge (t : Nat) | summod (m r : Nat) | anyge (t : Nat) | lenge (n : Nat) | unsorted
  | hashlt (salt m r : Nat) | always | never

def polyHash (salt : Nat) (xs : List Nat) : Nat :=
  xs.foldl (fun h x => (h * 31 + x + 7) % 65521) (salt % 65521)

def flagList (cap : Nat) : Nat → List Nat → List Nat → Option (List Nat)
  | 0, _, _ => none
  | _ + 1, [], _ => none
  | fuel + 1, f :: rest, acc =>
    if f % 2 == 1 && acc.length < cap then
      match rest with
      | [] => none
      | e :: rest' => flagList cap fuel rest' (e :: acc)
    else some acc.reverse

def fuzz (f : FSpec) (cs : List Nat) : Option (List Nat) :=
  match f with
  | .const v => some [v]
  | .bytes n => if cs.length ≥ n then some (cs.take n) else none
  | .lenlist m =>
    match cs with
    | [] => none
    | b :: rest => let n := b % m; if rest.length ≥ n then some (rest.take n) else none
  | .flaglist cap => flagList cap (cs.length + 1) cs []
  | .strict n bound =>
    if cs.length ≥ n then (if (cs.take n).all (· ≤ bound) then some (cs.take n) else none) else none
  | .cursor => some (cs.length :: cs.take 1)
  | .exact n => if cs.length == n then some cs else none
  | .hash _ => some cs

def sorted : List Nat → Bool
  | a :: b :: rest => a ≤ b && sorted (b :: rest)
  | _ => true

def fails (p : PSpec) (v : List Nat) : Bool :=
  match p with
  | .sumge t => v.foldl (· + ·) 0 ≥ t
  | .summod m r => v.foldl (· + ·) 0 % m == r
  | .anyge t => v.any (· ≥ t)
  | .lenge n => v.length ≥ n
  | .unsorted => !sorted v
  | .hashlt salt m r => polyHash salt v % m < r
  | .always => true
  | .never => false

def runOfSpec (f : FSpec) (p : PSpec) (cs : Choices) : Status (List Nat) :=
  let ns := cs.map (·.toNat)
  match f with
  | .hash salt =>
    let h := polyHash salt ns
    if h % 4 == 0 then .invalid else if h % 4 == 1 then .ignore else .keep [h]
  | _ =>
    match fuzz f ns with
    | none => .invalid
    | some v => if fails p v then .keep v else .ignore

def nats (xs : List String) : Option (List Nat) := xs.mapM (·.toNat?)

def parseF (s : String) : Option FSpec :=
  match s.splitOn ":" with
  | ["const", v] => .const <$> v.toNat?
  | ["bytes", n] => .bytes <$> n.toNat?
  | ["lenlist", m] => .lenlist <$> m.toNat?
  | ["flaglist", c] => .flaglist <$> c.toNat?
  | ["strict", n, b] => .strict <$> n.toNat? <*> b.toNat?
  | ["cursor"] => some .cursor
  | ["exact", n] => .exact <$> n.toNat?
  | ["hash", s] => .hash <$> s.toNat?
  | _ => none

def parseP (s : String) : Option PSpec :=
  match s.splitOn ":" with
  | ["sumge", t] => .sumge <$> t.toNat?
  | ["summod", m, r] => .summod <$> m.toNat? <*> r.toNat?
  | ["anyge", t] => .anyge <$> t.toNat?
  | ["lenge", n] => .lenge <$> n.toNat?
  | ["unsorted"] => some .unsorted
  | ["hashlt", s, m, r] => .hashlt <$> s.toNat? <*> m.toNat? <*> r.toNat?
  | ["always"] => some .always
  | ["never"] => some .never
  | _ => none

def showValue (v : List Nat) : String :=
  if v.isEmpty then "-" else ",".intercalate (v.map toString)

/-- the value a non-failing start is given (the harness uses the same) -/
def sentinel : List Nat := [999999]

def handle (args : List String) : String :=
  match args with
  | [fs, ps, hex] =>
    match parseF fs, parseP ps, Wire.bytesOfHex hex with
    | some f, some p, some c₀ =>
      if (match f with | .lenlist 0 => true | _ => false) ||
         (match p with | .summod 0 _ => true | .hashlt _ 0 _ => true | _ => false) then "bad-request"
      else
      let run := runOfSpec f p
      let v₀ := match run c₀ with | .keep v => v | _ => sentinel
      match simplify run (fuelBound c₀) { value := v₀, choices := c₀ } with
      | .ok s =>
        s!"ok {Wire.hexOfBytes s.choices} {showValue s.value} {s.cache.calls} {s.cache.db.length}"
      | .outOfFuel => "fuel"
      | .panic => "panic"
    | _, _, _ => "bad-request"
  | _ => "bad-request"

end AikenVerif.Drivers.Shrink
