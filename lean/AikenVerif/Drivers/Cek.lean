import AikenVerif.Model.Wire
import AikenVerif.Model.Cek
import AikenVerif.Model.Spec
import AikenVerif.Model.CostSpecTable
/-! driver `cek` / `costmodel`: the CEK impl model on wire-format terms (C03, C04, C05, C10). -/
namespace AikenVerif.Drivers.Cek
open AikenVerif Gen

/-- `(name value)` field of a struct rendered from Rust `Debug` -/
def field (name : String) : List Sexp → Option Sexp
  | [] => none
  | .list [.atom n, v] :: rest => if n == name then some v else field name rest
  | _ :: rest => field name rest

def num (name : String) (fs : List Sexp) : Option Int :=
  match field name fs with
  | some (.atom s) => s.toInt?
  | _ => none

def atomInt : Sexp → Option Int
  | .atom s => s.toInt?
  | _ => none

def quadXYFields (fs : List Sexp) : Option (Int × Int × Int × Int × Int × Int × Int) := do
  pure (← num "minimum" fs, ← num "coeff_00" fs, ← num "coeff_10" fs, ← num "coeff_01" fs,
        ← num "coeff_20" fs, ← num "coeff_11" fs, ← num "coeff_02" fs)

def parseCost1 : Sexp → Option Cost1
  | .list [.atom "ConstantCost", c] => .const <$> atomInt c
  | .list [.atom "LinearCost", .list (.atom "LinearSize" :: fs)] => do
    pure (.linear (← num "intercept" fs) (← num "slope" fs))
  | .list [.atom "QuadraticCost", .list (.atom "QuadraticFunction" :: fs)] => do
    pure (.quadratic (← num "coeff_0" fs) (← num "coeff_1" fs) (← num "coeff_2" fs))
  | _ => none

partial def parseCost2 : Sexp → Option Cost2
  | .list [.atom "ConstantCost", c] => .const <$> atomInt c
  | .list [.atom "LinearInX", .list (.atom "LinearSize" :: fs)] => do pure (.linearInX (← num "intercept" fs) (← num "slope" fs))
  | .list [.atom "LinearInY", .list (.atom "LinearSize" :: fs)] => do pure (.linearInY (← num "intercept" fs) (← num "slope" fs))
  | .list [.atom "LinearInY2", .list (.atom "SubtractedSizes" :: fs)] => do
    pure (.linearInY2 (← num "intercept" fs) (← num "slope" fs) (← num "minimum" fs))
  | .list [.atom "LinearInXAndY", .list (.atom "TwoVariableLinearSize" :: fs)] => do
    pure (.linearInXAndY (← num "intercept" fs) (← num "slope1" fs) (← num "slope2" fs))
  | .list [.atom "WithInteractionInXAndY", .list (.atom "TwoVariableWithInteractionSize" :: fs)] => do
    pure (.withInteraction (← num "coeff_00" fs) (← num "coeff_10" fs) (← num "coeff_01" fs) (← num "coeff_11" fs))
  | .list [.atom "AddedSizes", .list (.atom "AddedSizes" :: fs)] => do pure (.addedSizes (← num "intercept" fs) (← num "slope" fs))
  | .list [.atom "SubtractedSizes", .list (.atom "SubtractedSizes" :: fs)] => do
    pure (.subtractedSizes (← num "intercept" fs) (← num "slope" fs) (← num "minimum" fs))
  | .list [.atom "MultipliedSizes", .list (.atom "MultipliedSizes" :: fs)] => do pure (.multipliedSizes (← num "intercept" fs) (← num "slope" fs))
  | .list [.atom "MinSize", .list (.atom "MinSize" :: fs)] => do pure (.minSize (← num "intercept" fs) (← num "slope" fs))
  | .list [.atom "MaxSize", .list (.atom "MaxSize" :: fs)] => do pure (.maxSize (← num "intercept" fs) (← num "slope" fs))
  | .list [.atom "LinearOnDiagonal", .list (.atom "ConstantOrLinear" :: fs)] => do
    pure (.linearOnDiagonal (← num "constant" fs) (← num "intercept" fs) (← num "slope" fs))
  | .list [.atom "ConstAboveDiagonal", .list (.atom "ConstantOrTwoArguments" :: fs)] => do
    pure (.constAboveDiagonal (← num "constant" fs) (← parseCost2 (← field "model" fs)))
  | .list [.atom "AboveAndBelowDiagonal", .list (.atom "ConstantOrTwoArguments" :: fs)] => do
    pure (.aboveAndBelowDiagonal (← num "constant" fs) (← parseCost2 (← field "model" fs)))
  | .list [.atom "ConstBelowDiagonal", .list (.atom "ConstantOrTwoArguments" :: fs)] => do
    pure (.constBelowDiagonal (← num "constant" fs) (← parseCost2 (← field "model" fs)))
  | .list [.atom "QuadraticInY", .list (.atom "QuadraticFunction" :: fs)] => do
    pure (.quadraticInY (← num "coeff_0" fs) (← num "coeff_1" fs) (← num "coeff_2" fs))
  | .list [.atom "QuadraticInXAndY", .list (.atom "TwoArgumentsQuadraticFunction" :: fs)] => do
    let (mn, a, b, c, d, e, f) ← quadXYFields fs
    pure (.quadraticInXAndY mn a b c d e f)
  | .list [.atom "ConstAboveDiagonalIntoQuadraticXAndY", k, .list (.atom "TwoArgumentsQuadraticFunction" :: fs)] => do
    let (mn, a, b, c, d, e, f) ← quadXYFields fs
    pure (.constAboveDiagonalIntoQuadratic (← atomInt k) mn a b c d e f)
  | _ => none

def parseCost3 : Sexp → Option Cost3
  | .list [.atom "ConstantCost", c] => .const <$> atomInt c
  | .list [.atom "AddedSizes", .list (.atom "AddedSizes" :: fs)] => do pure (.addedSizes (← num "intercept" fs) (← num "slope" fs))
  | .list [.atom "LinearInX", .list (.atom "LinearSize" :: fs)] => do pure (.linearInX (← num "intercept" fs) (← num "slope" fs))
  | .list [.atom "LinearInY", .list (.atom "LinearSize" :: fs)] => do pure (.linearInY (← num "intercept" fs) (← num "slope" fs))
  | .list [.atom "LinearInZ", .list (.atom "LinearSize" :: fs)] => do pure (.linearInZ (← num "intercept" fs) (← num "slope" fs))
  | .list [.atom "QuadraticInZ", .list (.atom "QuadraticFunction" :: fs)] => do
    pure (.quadraticInZ (← num "coeff_0" fs) (← num "coeff_1" fs) (← num "coeff_2" fs))
  | .list [.atom "ExpModCost", .list (.atom "ExpModCostingFunction" :: fs)] => do
    pure (.expMod (← num "coefficient_00" fs) (← num "coefficient_11" fs) (← num "coefficient_12" fs))
  | .list [.atom "LiteralInYorLinearInZ", .list (.atom "LinearSize" :: fs)] => do
    pure (.literalInYorLinearInZ (← num "intercept" fs) (← num "slope" fs))
  | .list [.atom "LinearInMaxYZ", .list (.atom "LinearSize" :: fs)] => do pure (.linearInMaxYZ (← num "intercept" fs) (← num "slope" fs))
  | .list [.atom "LinearInYandZ", .list (.atom "TwoVariableLinearSize" :: fs)] => do
    pure (.linearInYandZ (← num "intercept" fs) (← num "slope1" fs) (← num "slope2" fs))
  | _ => none

def parseCost4 : Sexp → Option Cost4
  | .list [.atom "ConstantCost", c] => .const <$> atomInt c
  | .list [.atom "LinearInU", .list (.atom "LinearSize" :: fs)] => do pure (.linearInU (← num "intercept" fs) (← num "slope" fs))
  | _ => none

/-- the arity of a costing function is the number of measured arguments in the generated table -/
def parseCostFun (arity : Nat) (s : Sexp) : Option CostFun :=
  match arity with
  | 1 => .one <$> parseCost1 s
  | 2 => .two <$> parseCost2 s
  | 3 => .three <$> parseCost3 s
  | 4 => .four <$> parseCost4 s
  | 6 => match s with
    | .list [.atom "ConstantCost", c] => .six <$> atomInt c
    | _ => none
  | _ => none

def parseBudget : Sexp → Option ExBudget
  | .list (.atom "ExBudget" :: fs) => do pure ⟨← num "mem" fs, ← num "cpu" fs⟩
  | _ => none

def parseCostModel (s : Sexp) : Option CostModel :=
  match s with
  | .list (.atom "CostModel" :: fs) => do
    let mc ← field "machine_costs" fs
    let bc ← field "builtin_costs" fs
    let machine ← (match mc with
      | .list (.atom "MachineCosts" :: ms) => ms.mapM (fun m => match m with
        | .list [.atom n, b] => do pure (n, ← parseBudget b)
        | _ => none)
      | _ => none)
    let bfields ← (match bc with
      | .list (.atom "BuiltinCosts" :: bs) => some bs
      | _ => none)
    -- one entry per builtin of the generated table; fields no builtin refers to are ignored
    let builtin ← Builtin.all.mapM (fun b => do
      let spec := costSpec b
      let cf ← field spec.memField bfields
      match cf with
      | .list (.atom "CostingFun" :: cfs) => do
        let m ← parseCostFun spec.memArgs.length (← field "mem" cfs)
        let c ← parseCostFun spec.cpuArgs.length (← field "cpu" cfs)
        pure (spec.memField, m, c)
      | _ => none)
    pure ⟨machine, builtin⟩
  | _ => none

def semOfString : String → Option Sem
  | "A" => some .A | "B" => some .B | "C" => some .C | "D" => some .D | "E" => some .E
  | _ => none

/-- `cek <sem> <slippage> <mem> <cpu> <fuel> <term…>` -/
def handleCek (cm : Option CostModel) (args : List String) : String :=
  match cm, args with
  | some cm, sem :: slip :: mem :: cpu :: fuel :: rest =>
    match semOfString sem, slip.toNat?, mem.toInt?, cpu.toInt?, fuel.toNat?,
          (Wire.termOfWire (" ".intercalate rest) : Option NTerm) with
    | some sem, some slip, some mem, some cpu, some fuel, some t =>
      match run ⟨cm, sem, slip⟩ fuel ⟨mem, cpu⟩ t with
      | .done a r => s!"ok {Wire.termToWire r} {a.budget.mem} {a.budget.cpu}"
      | .fail => "fail"
      | .oob => "oob"
      | .panic => "panic"
      | .unmodelled => "unmodelled"
      | .outOfFuel => "nofuel"
    | _, _, _, _, _, _ => "bad-request"
  | none, _ => "no-costmodel"
  | _, _ => "bad-request"

/-- `spec <sem> <fuel> <term…>`: the specification's machine (no budget) -/
def handleSpec (args : List String) : String :=
  match args with
  | sem :: fuel :: rest =>
    match semOfString sem, fuel.toNat?, (Wire.termOfWire (" ".intercalate rest) : Option NTerm) with
    | some sem, some fuel, some t =>
      match Spec.run sem (denotation sem) fuel t with
      | .done r => s!"ok {Wire.termToWire r}"
      | .fail => "fail"
      | .other => "unmodelled"
      | .outOfFuel => "nofuel"
    | _, _, _ => "bad-request"
  | _ => "bad-request"

/-- a closed argument given on the wire: a constant, or any other term standing for a non-constant value -/
def argValue : NTerm → Value
  | .const c => .con c
  | .delay t => .delay t []
  | .lam n b => .lam n b []
  | t => .delay t []

/-- `bcost <spec|impl> <sem> <RustName> <arg terms…>`: cost of one builtin call under the SPEC recipe
(`Spec.costSpecOf`) or the recipe regenerated from the source (`Gen.costSpec`) -/
def handleBCost (cm : Option CostModel) (args : List String) : String :=
  match cm, args with
  | some cm, which :: sem :: name :: rest =>
    match semOfString sem, Builtin.ofRustName name, Sexp.parseAll (" ".intercalate rest) with
    | some sem, some b, some sexps =>
      match sexps.mapM (fun sx => (Wire.termOfSexp sx : Option NTerm)) with
      | some ts =>
        let vals := ts.map argValue
        let r := if which == "spec" then builtinCostWith (Spec.costSpecOf b) cm sem b vals
                 else builtinCost cm sem b vals
        match r with
        | .ok c => s!"ok {c.mem} {c.cpu}"
        | .err => "err"
        | .panic => "panic"
        | .unmodelled => "unmodelled"
      | none => "bad-request"
    | _, _, _ => "bad-request"
  | none, _ => "no-costmodel"
  | _, _ => "bad-request"

def handleCostModel (args : List String) : Option CostModel × String :=
  match Sexp.parse (" ".intercalate args) with
  | some s => match parseCostModel s with
    | some cm => (some cm, "ok")
    | none => (none, "bad-costmodel")
  | none => (none, "bad-sexp")

/-- `costpos`: does the installed cost model pass the two decidable checks (`stepsPositive`,
`builtinsNonneg`) from which `posCosts_of_checks` derives the hypothesis of `cek_terminates` and of
C05's `budget_suffices`? -/
def handleCostPos : Option CostModel → String
  | some cm => if stepsPositive cm && builtinsNonneg cm then "pos" else "nonpos"
  | none => "no-costmodel"

end AikenVerif.Drivers.Cek
