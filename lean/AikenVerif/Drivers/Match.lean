import AikenVerif.Model.Wire
import AikenVerif.Model.Match
import AikenVerif.Model.ListSwitch
/-!
driver `match` (C07).  Fields are s-expressions (re-joined from the argument list):

  ty   ::= I | B | (T n)
  sig  ::= ( decl* )          decl ::= ( ctor* )       ctor ::= (c ty*)       -- c : constructor number
  pat  ::= _ | (i n) | (b #hex) | (K c t pat*)        -- t : type number, alts are taken from sig[t]
  spat ::= _ | (v x) | (as x spat) | (i n) | (b #hex) | (K c t spat*)
  val  ::= (i n) | (b #hex) | (V c val*)

requests
  `check sig (pat*)`        → `ok` | `redundant i` | `notexhaustive (pat*)`
  `useful sig (row*) row`   → `true` | `false`          (row ::= (pat*))
  `missing sig (row*) n`    → `(row*)`
  `first sig (spat*) val`   → `none` | `some i ((x val)*)`
  `tree k sig (pat*) val`   → `none` | `some i`   decision tree built with column heuristic number k
  `listswitch fixed|unfixed (shape*) L` → `(i*)`  clause indexes of the sub-matrix a list of length L is
                              dispatched to; shape ::= _ | (l n) | (t n)   (wildcard, `[n items]`, `[n items, ..]`)
-/
namespace AikenVerif.Drivers.Match
open AikenVerif AikenVerif.Match

def tyOf : Sexp → Option Match.Ty
  | .atom "I" => some .int
  | .atom "B" => some .bytes
  | .list [.atom "T", .atom n] => n.toNat?.map .data
  | _ => none

def ctorOf : Sexp → Option (Nat × List Match.Ty)
  | .list (.atom c :: tys) => do
    let c ← c.toNat?
    let tys ← tys.mapM tyOf
    pure (c, tys)
  | _ => none

def sigOf : Sexp → Option Sig
  | .list ds => ds.mapM (fun d => match d with
    | .list cs => cs.mapM ctorOf
    | _ => none)
  | _ => none

def litOf : Sexp → Option Lit
  | .list [.atom "i", .atom n] => n.toInt?.map .int
  | .list [.atom "b", .atom h] => (Wire.bytesOfHex h).map (fun b => .bytes (b.map (·.toNat)))
  | _ => none

partial def patOf (sg : Sig) : Sexp → Option Pat
  | .atom "_" => some .wild
  | .list (.atom "K" :: .atom c :: .atom t :: args) => do
    let c ← c.toNat?
    let t ← t.toNat?
    let d ← sg[t]?
    let args ← args.mapM (patOf sg)
    pure (.ctor c (declAlts d) args)
  | s => (litOf s).map .lit

partial def spatOf (sg : Sig) : Sexp → Option SPat
  | .atom "_" => some .discard
  | .list [.atom "v", .atom x] => x.toNat?.map .var
  | .list [.atom "as", .atom x, p] => do
    let x ← x.toNat?
    let p ← spatOf sg p
    pure (.as_ x p)
  | .list (.atom "K" :: .atom c :: .atom t :: args) => do
    let c ← c.toNat?
    let t ← t.toNat?
    let d ← sg[t]?
    let args ← args.mapM (spatOf sg)
    pure (.ctor c (declAlts d) args)
  | s => (litOf s).map .lit

partial def valOf : Sexp → Option Val
  | .list (.atom "V" :: .atom c :: args) => do
    let c ← c.toNat?
    let args ← args.mapM valOf
    pure (.ctor c args)
  | s => (litOf s).map .lit

def hexOfNats (b : List Nat) : String :=
  String.ofList ('#' :: b.flatMap (fun x => [Wire.hexDigit (x / 16), Wire.hexDigit (x % 16)]))

def litTo : Lit → Sexp
  | .int i => .list [.atom "i", .atom (toString i)]
  | .bytes b => .list [.atom "b", .atom (hexOfNats b)]

/-- type number of a constructor pattern, recovered from its `alts` -/
def tyIndex (sg : Sig) (alts : Alts) : String :=
  match sg.findIdx? (fun d => declAlts d == alts) with
  | some i => toString i
  | none => "?"

partial def patTo (sg : Sig) : Pat → Sexp
  | .wild => .atom "_"
  | .lit l => litTo l
  | .ctor c alts args => .list (.atom "K" :: .atom (toString c) :: .atom (tyIndex sg alts) :: args.map (patTo sg))

partial def valTo : Val → Sexp
  | .lit l => litTo l
  | .ctor c args => .list (.atom "V" :: .atom (toString c) :: args.map valTo)

def rowOf (sg : Sig) : Sexp → Option Row
  | .list ps => ps.mapM (patOf sg)
  | _ => none

def rowsOf (sg : Sig) : Sexp → Option Matrix
  | .list rs => rs.mapM (rowOf sg)
  | _ => none

def resultTo (sg : Sig) : CheckResult → String
  | .ok => "ok"
  | .redundant i => "redundant " ++ toString i
  | .notExhaustive ms => "notexhaustive " ++ (Sexp.list (ms.map (patTo sg))).render

/-- a few column heuristics for `tree` (the theorem covers every function) -/
def heuristic (k : Nat) (M : IMatrix) : Nat :=
  let width := (M.head?.map (·.2.length)).getD 0
  match k % 4 with
  | 0 => 0
  | 1 => width - 1
  | 2 => -- column with the most non-wildcards
    let score (j : Nat) := (M.filter (fun r => match r.2[j]? with | some .wild => false | some _ => true | none => false)).length
    (List.range width).foldl (fun best j => if score j > score best then j else best) 0
  | _ => (k / 4 + IMatrix.nodes M) % (width + 1)

def shapeOf : Sexp → Option ListSwitch.LCase
  | .atom "_" => some .wild
  | .list [.atom "l", .atom n] => n.toNat?.map .list
  | .list [.atom "t", .atom n] => n.toNat?.map .tail
  | _ => none

def handle (args : List String) : String :=
  match Sexp.parseAll (" ".intercalate args) with
  | some [.atom "listswitch", .atom which, .list shapes, .atom l] =>
    match shapes.mapM shapeOf, l.toNat? with
    | some ss, some l =>
      let rows : List ListSwitch.Row := ss.zipIdx
      let out := if which == "fixed" then ListSwitch.dispatchFixed rows l else ListSwitch.dispatchUnfixed rows l
      "(" ++ " ".intercalate (out.map toString) ++ ")"
    | _, _ => "bad-request"
  | some [.atom "check", sg, .list ps] =>
    match sigOf sg with
    | some sg => match ps.mapM (patOf sg) with
      | some cs => resultTo sg (checkExhaustive cs)
      | none => "bad-request"
    | none => "bad-request"
  | some [.atom "useful", sg, rows, row] =>
    match sigOf sg with
    | some sg => match rowsOf sg rows, rowOf sg row with
      | some M, some v => toString (isUseful M v)
      | _, _ => "bad-request"
    | none => "bad-request"
  | some [.atom "missing", sg, rows, .atom n] =>
    match sigOf sg, n.toNat? with
    | some sg, some n => match rowsOf sg rows with
      | some M => (Sexp.list ((collectMissing M n).map (fun r => .list (r.map (patTo sg))))).render
      | none => "bad-request"
    | _, _ => "bad-request"
  | some [.atom "first", sg, .list ps, v] =>
    match sigOf sg with
    | some sg => match ps.mapM (spatOf sg), valOf v with
      | some cs, some x =>
        match firstBind cs x with
        | none => "none"
        | some (i, bs) =>
          "some " ++ toString i ++ " " ++
            (Sexp.list (bs.map (fun b => .list [.atom (toString b.1), valTo b.2]))).render
      | _, _ => "bad-request"
    | none => "bad-request"
  | some [.atom "tree", .atom k, sg, .list ps, v] =>
    match sigOf sg, k.toNat? with
    | some sg, some k => match ps.mapM (patOf sg), valOf v with
      | some cs, some x =>
        match evalTree (buildClauses (heuristic k) cs) [x] with
        | none => "none"
        | some i => "some " ++ toString i
      | _, _ => "bad-request"
    | _, _ => "bad-request"
  | _ => "bad-request"

end AikenVerif.Drivers.Match
