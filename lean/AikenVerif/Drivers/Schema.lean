import AikenVerif.Model.Wire
import AikenVerif.Model.Apply
/-!
driver `schema` / `validate` / `vraw` / `inhabits` / `encode` / `tag` / `apply` (C12, C18):
the executable definitions of `Model/Schema.lean` and `Model/Apply.lean` on wire input.

Wire forms (s-expressions, see harness/src/c12.rs):
* type   `i b bo vo da or ne (li T) (pa A B) (op T) (tu T…) (ad n T…) (va i)`
* decls  `((arity asList (tag|- T…)…)…)`
* schema `integer bytes opaque (list D) (tuple D…) (map D D) (anyOf (i D…)…)`
         `#unit #boolean #integer #bytes #string (#pair D D) (#list D) (#tuple D…)`, `D = (ref T) | (inl S)`
* value  `(i n) (b #hex) (bo 0|1) vo (da DATA) (or n) ne (li V…) (tu V…) (pa V V) (so V) no (co pos V…)`
-/
namespace AikenVerif.Drivers.Schema
open AikenVerif AikenVerif.Blueprint AikenVerif.Apply

def fuel : Nat := 100000

partial def tyOf : Sexp → Option ATy
  | .atom "i" => some .int | .atom "b" => some .bytes | .atom "bo" => some .bool
  | .atom "vo" => some .void | .atom "da" => some .data | .atom "or" => some .ordering
  | .atom "ne" => some .never
  | .list [.atom "li", t] => .list <$> tyOf t
  | .list [.atom "pa", a, b] => do pure (.pair (← tyOf a) (← tyOf b))
  | .list [.atom "op", t] => .option <$> tyOf t
  | .list (.atom "tu" :: ts) => do pure (.tuple (ATys.ofList (← ts.mapM tyOf)))
  | .list (.atom "ad" :: .atom n :: ts) => do pure (.adt (← n.toNat?) (ATys.ofList (← ts.mapM tyOf)))
  | .list [.atom "va", .atom i] => .var <$> i.toNat?
  | _ => none

def ctorOf : Sexp → Option Ctor
  | .list (.atom tag :: fs) => do
    let t ← if tag == "-" then some none else some <$> tag.toNat?
    pure ⟨t, ← fs.mapM tyOf⟩
  | _ => none

def declsOf : Sexp → Option Decls
  | .list ds => ds.mapM (fun d => match d with
    | .list (.atom ar :: .atom al :: cs) => do
      pure ⟨← ar.toNat?, ← cs.mapM ctorOf, al == "1"⟩
    | _ => none)
  | _ => none

def tysOf : Sexp → Option (List ATy)
  | .list ts => ts.mapM tyOf
  | _ => none

partial def keyOf : ATy → String
  | .int => "Int" | .bytes => "ByteArray" | .bool => "Bool" | .void => "Void" | .data => "Data"
  | .ordering => "Ordering" | .never => "Never"
  | .list t => "List<" ++ keyOf t ++ ">"
  | .pair a b => "Pair<" ++ keyOf a ++ "," ++ keyOf b ++ ">"
  | .option t => "Option<" ++ keyOf t ++ ">"
  -- `Reference::from_type` wraps the element list twice (`Tuple<{}>` around `from_types`' `<…>`)
  | .tuple ts => "Tuple<<" ++ ",".intercalate (ts.toList.map keyOf) ++ ">>"
  | .adt n args =>
    "test_module/T" ++ toString n ++
      (if args.toList.isEmpty then "" else "<" ++ ",".intercalate (args.toList.map keyOf) ++ ">")
  | .var i => "?" ++ toString i

mutual
  partial def renderD : DSchema → String
    | .integer => "integer" | .bytes => "bytes" | .opaque => "opaque"
    | .list i => "list(" ++ renderDeclD i ++ ")"
    | .tuple is => "tuple(" ++ ",".intercalate (is.map renderDeclD) ++ ")"
    | .map k v => "map(" ++ renderDeclD k ++ "," ++ renderDeclD v ++ ")"
    | .anyOf cs => "anyOf(" ++ ",".intercalate (cs.map (fun c =>
        toString c.1 ++ "[" ++ ",".intercalate (c.2.map renderDeclD) ++ "]")) ++ ")"
  partial def renderDeclD : Decl DSchema → String
    | .ref k => "ref:" ++ keyOf k
    | .inline s => "inl:" ++ renderD s
end

mutual
  partial def renderS : Schema → String
    | .unit => "#unit" | .boolean => "#boolean" | .integer => "#integer" | .bytes => "#bytes"
    | .string => "#string"
    | .pair l r => "#pair(" ++ renderDeclS l ++ "," ++ renderDeclS r ++ ")"
    | .list i => "#list(" ++ renderDeclS i ++ ")"
    | .tuple is => "#tuple(" ++ ",".intercalate (is.map renderDeclS) ++ ")"
    | .data d => renderD d
  partial def renderDeclS : Decl Schema → String
    | .ref k => "ref:" ++ keyOf k
    | .inline s => "inl:" ++ renderS s
end

def renderTable (tbl : Table) : String :=
  ";".intercalate (tbl.map (fun e => keyOf e.1 ++ "=" ++ renderS e.2))

mutual
  partial def dschemaOf : Sexp → Option DSchema
    | .atom "integer" => some .integer | .atom "bytes" => some .bytes | .atom "opaque" => some .opaque
    | .list [.atom "list", d] => .list <$> declDOf d
    | .list (.atom "tuple" :: ds) => .tuple <$> ds.mapM declDOf
    | .list [.atom "map", k, v] => do pure (.map (← declDOf k) (← declDOf v))
    | .list (.atom "anyOf" :: cs) => .anyOf <$> cs.mapM (fun c => match c with
      | .list (.atom i :: fs) => do pure ((← i.toNat?), (← fs.mapM declDOf))
      | _ => none)
    | _ => none
  partial def declDOf : Sexp → Option (Decl DSchema)
    | .list [.atom "ref", t] => .ref <$> tyOf t
    | .list [.atom "inl", s] => .inline <$> dschemaOf s
    | _ => none
end

mutual
  partial def schemaOfSexp : Sexp → Option Schema
    | .atom "#unit" => some .unit | .atom "#boolean" => some .boolean
    | .atom "#integer" => some .integer | .atom "#bytes" => some .bytes | .atom "#string" => some .string
    | .list [.atom "#pair", l, r] => do pure (.pair (← declSOf l) (← declSOf r))
    | .list [.atom "#list", i] => .list <$> declSOf i
    | .list (.atom "#tuple" :: is) => .tuple <$> is.mapM declSOf
    | s => .data <$> dschemaOf s
  partial def declSOf : Sexp → Option (Decl Schema)
    | .list [.atom "ref", t] => .ref <$> tyOf t
    | .list [.atom "inl", s] => .inline <$> schemaOfSexp s
    | _ => none
end

def tableOf : Sexp → Option Table
  | .list es => es.mapM (fun e => match e with
    | .list [k, s] => do pure ((← tyOf k), (← schemaOfSexp s))
    | _ => none)
  | _ => none

partial def valOf : Sexp → Option Val
  | .list [.atom "i", .atom n] => .int <$> n.toInt?
  | .list [.atom "b", .atom h] => .bytes <$> Wire.bytesOfHex h
  | .list [.atom "bo", .atom b] => some (.bool (b == "1"))
  | .atom "vo" => some .void
  | .list [.atom "da", d] => .data <$> Wire.dataOfSexp d
  | .list [.atom "or", .atom n] => .ordering <$> n.toNat?
  | .atom "ne" => some .never
  | .list (.atom "li" :: vs) => .list <$> vs.mapM valOf
  | .list (.atom "tu" :: vs) => .tuple <$> vs.mapM valOf
  | .list [.atom "pa", a, b] => do pure (.pair (← valOf a) (← valOf b))
  | .list [.atom "so", v] => .some <$> valOf v
  | .atom "no" => some .none
  | .list (.atom "co" :: .atom p :: vs) => do pure (.con (← p.toNat?) (← vs.mapM valOf))
  | _ => none

def opOf : Sexp → Option Op
  | .list [.atom "a", d] => .apply <$> Wire.dataOfSexp d
  | .atom "r" => some .reload
  | _ => none

/-- the driver's codec: programs travel as themselves; the "hash" is the language tag and the
wire text of the term (injective), so `reload` is the identity exactly when the real codec
round-trips -/
def wireCodec : Codec (Program DeBruijn) (Nat × String) :=
  { ser := id, de := some,
    hash := fun l p => ((match l with | .v1 => 1 | .v2 => 2 | .v3 => 3), Wire.termToWire p.term) }

def runHistory (fixed : Bool) (tbl : Table) (v : Validator) (ops : List Op) : List String × Validator :=
  ops.foldl (fun (acc : List String × Validator) op =>
    match op with
    | .apply d =>
      match apply fixed tbl acc.2 d with
      | .ok v' => (acc.1 ++ ["ok"], v')
      | .noParameters => (acc.1 ++ ["no-parameters"], acc.2)
      | .rejected why => (acc.1 ++ [why.render], acc.2)
      | .panic => (acc.1 ++ ["panic"], acc.2)
    | .reload =>
      match load wireCodec (save wireCodec acc.2) with
      | some v' => (acc.1 ++ ["reloaded"], v')
      | none => (acc.1 ++ ["reload-failed"], acc.2)) ([], v)

def handle (cmd : String) (args : List String) : String :=
  match Sexp.parseAll (" ".intercalate args) with
  | none => "bad-request"
  | some xs =>
    match cmd, xs with
    -- raw `from_type` definitions
    | "schemaraw", [ds, ps] =>
      match declsOf ds, tysOf ps with
      | some decls, some params =>
        match collect decls fuel params [] with
        | some tbl => "ok " ++ renderTable tbl
        | none => "error"
      | _, _ => "bad-request"
    -- published definitions
    | "schema", [ds, ps] =>
      match declsOf ds, tysOf ps with
      | some decls, some params =>
        match publish decls fuel params with
        | some tbl => "ok " ++ renderTable tbl
        | none => "error"
      | _, _ => "bad-request"
    -- `Parameter::validate` against the published definitions
    | "validate", [.atom fx, ds, ps, .atom ix, d] =>
      match declsOf ds, tysOf ps, ix.toNat?, Wire.dataOfSexp d with
      | some decls, some params, some i, some dat =>
        match publish decls fuel params, params[i]? with
        | some tbl, some t => (validate (fx == "1") tbl (.ref t) dat).render
        | _, _ => "error"
      | _, _, _, _ => "bad-request"
    -- `Parameter::validate` against a hand-written table
    | "vraw", [.atom fx, tb, p, d] =>
      match tableOf tb, declSOf p, Wire.dataOfSexp d with
      | some tbl, some param, some dat => (validate (fx == "1") tbl param dat).render
      | _, _, _ => "bad-request"
    | "inhabits", [ds, t, d] =>
      match declsOf ds, tyOf t, Wire.dataOfSexp d with
      | some decls, some ty, some dat => if inhabits decls ty dat then "ok" else "mismatch"
      | _, _, _ => "bad-request"
    | "encode", [ds, t, v] =>
      match declsOf ds, tyOf t, valOf v with
      | some decls, some ty, some val =>
        match encode decls fuel ty val with
        | some d => "ok " ++ (Wire.dataToSexp d).render
        | none => "ill-typed"
      | _, _, _ => "bad-request"
    | "tag", [.atom ix] =>
      match ix.toNat? with
      | some i =>
        let r := constrTag i
        toString r.1 ++ " " ++ (match r.2 with | some a => toString a | none => "-")
      | none => "bad-request"
    -- history of applications on a hand-written table
    | "apply", .atom fx :: tb :: .list ps :: .atom lang :: term :: ops =>
      match tableOf tb, ps.mapM declSOf, (Wire.termOfSexp term : Option (Term DeBruijn)), ops.mapM opOf with
      | some tbl, some params, some t, some os =>
        let l : Lang := if lang == "1" then .v1 else if lang == "2" then .v2 else .v3
        let v : Validator := ⟨params, l, ⟨(1, 1, 0), t⟩⟩
        let (outs, v') := runHistory (fx == "1") tbl v os
        ",".intercalate outs ++ " " ++ toString v'.params.length ++ " " ++
          (match v'.lang with | .v1 => "1" | .v2 => "2" | .v3 => "3") ++ " " ++
          Wire.termToWire v'.program.term
      | _, _, _, _ => "bad-request"
    -- history of applications on the published table of a generated validator
    | "applyp", .atom fx :: ds :: ps :: .atom lang :: term :: ops =>
      match declsOf ds, tysOf ps, (Wire.termOfSexp term : Option (Term DeBruijn)), ops.mapM opOf with
      | some decls, some params, some t, some os =>
        match publish decls fuel params with
        | none => "error"
        | some tbl =>
          let l : Lang := if lang == "1" then .v1 else if lang == "2" then .v2 else .v3
          let v : Validator := ⟨params.map Decl.ref, l, ⟨(1, 1, 0), t⟩⟩
          let (outs, v') := runHistory (fx == "1") tbl v os
          ",".intercalate outs ++ " " ++ toString v'.params.length ++ " " ++
            (match v'.lang with | .v1 => "1" | .v2 => "2" | .v3 => "3") ++ " " ++
            Wire.termToWire v'.program.term
      | _, _, _, _ => "bad-request"
    | _, _ => "bad-request"

end AikenVerif.Drivers.Schema
