import AikenVerif.Model.Wire
import AikenVerif.Model.DeBruijn
/-! driver `db`: the name ⇄ de Bruijn conversion models and the interner model (C11). -/
namespace AikenVerif.Drivers.DeBruijn
open AikenVerif AikenVerif.Db Wire

def showErr : Err → String
  | .freeUnique n => "err free-unique " ++ hexOfString n.text ++ " " ++ toString n.unique
  | .freeIndex i => "err free-index " ++ toString i
  | .panic _ => "err panic"

def reply {β : Type} [WireBinder β] : Except Err (Term β) → String
  | .ok t => "ok " ++ termToWire t
  | .error e => showErr e

/-- requests (the term is the rest of the line, in wire format):
  `n2nd <Term Name>`  `n2d <Term Name>`                     name → index (both Rust functions)
  `nd2n <Term NamedDeBruijn>`  `d2n <Term DeBruijn>`         index → name, behaviour after the proposed fix
  `nd2n-orig …`  `d2n-orig …`                                index → name, as the code stands
  `nd2d <Term NamedDeBruijn>`  `d2nd <Term DeBruijn>`        projections
  `intern <Term Name>`                                       `CodeGenInterner::program`
  `pintern <Term Name>`                                      `parser::interner::Interner::program` -/
def handle (args : List String) : String :=
  match args with
  | op :: rest =>
    let w := " ".intercalate rest
    match op with
    | "n2nd" => match (termOfWire w : Option (Term Name)) with
      | some t => reply (nameToNamedDb t) | none => "bad-request"
    | "n2d" => match (termOfWire w : Option (Term Name)) with
      | some t => reply (nameToDb t) | none => "bad-request"
    | "nd2n" => match (termOfWire w : Option (Term NamedDeBruijn)) with
      | some t => reply (namedDbToName t) | none => "bad-request"
    | "d2n" => match (termOfWire w : Option (Term DeBruijn)) with
      | some t => reply (dbToName t) | none => "bad-request"
    | "nd2n-orig" => match (termOfWire w : Option (Term NamedDeBruijn)) with
      | some t => reply (namedDbToNameOrig t) | none => "bad-request"
    | "d2n-orig" => match (termOfWire w : Option (Term DeBruijn)) with
      | some t => reply (dbToNameOrig t) | none => "bad-request"
    | "nd2d" => match (termOfWire w : Option (Term NamedDeBruijn)) with
      | some t => "ok " ++ termToWire (namedDbToDb t) | none => "bad-request"
    | "d2nd" => match (termOfWire w : Option (Term DeBruijn)) with
      | some t => "ok " ++ termToWire (dbToNamedDb t) | none => "bad-request"
    | "intern" => match (termOfWire w : Option (Term Name)) with
      | some t => reply (intern t) | none => "bad-request"
    | "pintern" => match (termOfWire w : Option (Term Name)) with
      | some t => "ok " ++ termToWire (pintern t) | none => "bad-request"
    | _ => "bad-request"
  | _ => "bad-request"

end AikenVerif.Drivers.DeBruijn
