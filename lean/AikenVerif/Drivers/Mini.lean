import AikenVerif.Model.Wire
import AikenVerif.Model.Mini
import AikenVerif.Model.ErrorClass
/-!
driver `mini <mode> <fuel> (prog (adts …) (fn (x…) body)…) (calls (f v…)…)`:
the MiniAiken source semantics on each call; reply `out₁ | out₂ | …` with
`ok <value>` / `abort` / `nofuel` / `stuck`.  Parsing lambda-lifts `(lam (x…) body)`.
I/O glue only (`partial` allowed); no theorem depends on this file.
-/
namespace AikenVerif.Drivers.Mini
open AikenVerif AikenVerif.Mini

abbrev Lams := Array (List Nat × Expr)
abbrev PM := StateT Lams Option

def failP {α} : PM α := fun _ => none
def liftO {α} (o : Option α) : PM α := fun s => o.map (·, s)

def natAtom : Sexp → Option Nat
  | .atom s => s.toNat?
  | _ => none

partial def tyOf : Sexp → Option MTy
  | .atom "int" => some .int | .atom "bool" => some .bool | .atom "bytes" => some .bytes
  | .atom "void" => some .void | .atom "str" => some .str | .atom "data" => some .data
  | .atom "fn" => some .fn
  | .list [.atom "list", t] => .list <$> tyOf t
  | .list [.atom "opt", t] => .opt <$> tyOf t
  | .list (.atom "tup" :: ts) => .tup <$> ts.mapM tyOf
  | .list [.atom "adt", .atom i] => .adt <$> i.toNat?
  | _ => none

partial def patOf : Sexp → Option Pat
  | .atom "_" => some .wild
  | .list [.atom "pv", .atom x] => .var <$> x.toNat?
  | .list [.atom "pi", .atom n] => .int <$> n.toInt?
  | .list [.atom "pbs", .atom h] => .bytes <$> Wire.bytesOfHex h
  | .list [.atom "pb", .atom "1"] => some (.bool true)
  | .list [.atom "pb", .atom "0"] => some (.bool false)
  | .list (.atom "pc" :: .atom tag :: ps) => do pure (.con (← tag.toNat?) (← ps.mapM patOf))
  | .list (.atom "pt" :: ps) => .tuple <$> ps.mapM patOf
  | .list [.atom "pl", .list ps, tail] => do
    let ps ← ps.mapM patOf
    let t ← (match tail with
      | .atom "-" => some Pat.nil
      | t => patOf t)
    pure (ps.foldr Pat.cons t)
  | _ => none

def binOf : String → Option BinOp
  | "add" => some .add | "sub" => some .sub | "mul" => some .mul | "div" => some .div | "mod" => some .mod
  | "lt" => some .lt | "le" => some .le | "gt" => some .gt | "ge" => some .ge | "eq" => some .eq | "ne" => some .ne
  | "cons" => some .cons | "append" => some .append | "index" => some .index
  | _ => none

mutual
  partial def exprOf : Sexp → PM Expr
    | .list [.atom "i", .atom n] => liftO ((fun n => .lit (.int n)) <$> n.toInt?)
    | .list [.atom "b", .atom "1"] => pure (.lit (.bool true))
    | .list [.atom "b", .atom "0"] => pure (.lit (.bool false))
    | .list [.atom "bs", .atom h] => liftO ((fun b => .lit (.bytes b)) <$> Wire.bytesOfHex h)
    | .atom "u" => pure (.lit .unit)
    | .list [.atom "st", .atom h] => liftO ((fun s => .lit (.str s)) <$> Wire.stringOfHex h)
    | .list [.atom "v", .atom x] => liftO (.var <$> x.toNat?)
    | .list [.atom "let", .atom x, .atom used, a, b] => do pure (.letE (← liftO x.toNat?) (used != "0") (← exprOf a) (← exprOf b))
    | .list [.atom "if", c, t, f] => do pure (.ite (← exprOf c) (← exprOf t) (← exprOf f))
    | .list [.atom "and", a, b] => do pure (.and (← exprOf a) (← exprOf b))
    | .list [.atom "or", a, b] => do pure (.or (← exprOf a) (← exprOf b))
    | .list [.atom "un", .atom "neg", a] => do pure (.un .neg (← exprOf a))
    | .list [.atom "un", .atom "not", a] => do pure (.un .not (← exprOf a))
    | .list [.atom "un", .atom "len", a] => do pure (.un .len (← exprOf a))
    | .list [.atom "fld", .atom i, a] => do pure (.un (.field (← liftO i.toNat?)) (← exprOf a))
    | .list [.atom "tix", .atom i, a] => do pure (.un (.tupIdx (← liftO i.toNat?)) (← exprOf a))
    | .list [.atom "todata", _, a] => do pure (.un .toData (← exprOf a))
    | .list [.atom "fromdata", t, a] => do pure (.un (.fromData (← liftO (tyOf t))) (← exprOf a))
    | .list [.atom "bin", .atom op, a, b] => do pure (.bin (← liftO (binOf op)) (← exprOf a) (← exprOf b))
    | .list (.atom "tup" :: es) => do pure (.tuple (← exprsOf es))
    | .list (.atom "lst" :: es) => do pure (.list (← exprsOf es))
    | .list (.atom "con" :: .atom tag :: es) => do pure (.con (← liftO tag.toNat?) (← exprsOf es))
    | .list (.atom "call" :: .atom f :: es) => do pure (.call (← liftO f.toNat?) (← exprsOf es))
    | .list [.atom "lam", .list xs, body] => do
      let xs ← liftO (xs.mapM natAtom)
      let b ← exprOf body
      let lams ← get
      set (lams.push (xs, b))
      pure (.lam lams.size)
    | .list (.atom "app" :: f :: es) => do pure (.app (← exprOf f) (← exprsOf es))
    | .list [.atom "fn", .atom f] => liftO (.fnref <$> f.toNat?)
    | .list (.atom "when" :: s :: cs) => do
      let s ← exprOf s
      let cs ← clausesOf cs
      pure (.when s cs)
    | .atom "fail" => pure (.fail false)
    | .atom "todo" => pure (.fail true)
    | .list [.atom "expect", p, a, b] => do pure (.expect (← liftO (patOf p)) (← exprOf a) (← exprOf b))
    | .list [.atom "trace", l, .list args, b] => do pure (.trace (← exprOf l) (← exprsOf args) (← exprOf b))
    | .list [.atom "tif", a] => do pure (.traceIfFalse (← exprOf a))
    | _ => failP
  partial def exprsOf : List Sexp → PM (List Expr)
    | [] => pure []
    | e :: es => do
      let x ← exprOf e
      let xs ← exprsOf es
      pure (x :: xs)
  partial def clausesOf : List Sexp → PM (List (Pat × Expr))
    | [] => pure []
    | .list [p, b] :: cs => do
      let p ← liftO (patOf p)
      let b ← exprOf b
      let rest ← clausesOf cs
      pure ((p, b) :: rest)
    | _ => failP
end

partial def fnsOf : List Sexp → PM (List (List Nat × Expr))
  | [] => pure []
  | .list [.atom "fn", .list xs, body] :: rest => do
    let xs ← liftO (xs.mapM natAtom)
    let b ← exprOf body
    let fs ← fnsOf rest
    pure ((xs, b) :: fs)
  | _ => failP

def adtsOf (ss : List Sexp) : Option (List (List (List MTy))) :=
  ss.mapM fun
    | .list ctors => ctors.mapM fun
      | .list tys => tys.mapM tyOf
      | _ => none
    | _ => none

def progOf : Sexp → Option Mini.Program
  | .list (.atom "prog" :: .list (.atom "adts" :: adts) :: fns) => do
    let adts ← adtsOf adts
    let (fs, lams) ← (fnsOf fns).run #[]
    pure ⟨adts, fs, lams.toList⟩
  | _ => none

partial def valOf : Sexp → Option Val
  | .list [.atom "i", .atom n] => .int <$> n.toInt?
  | .list [.atom "b", .atom "1"] => some (.bool true)
  | .list [.atom "b", .atom "0"] => some (.bool false)
  | .list [.atom "bs", .atom h] => .bytes <$> Wire.bytesOfHex h
  | .atom "u" => some .unit
  | .list [.atom "st", .atom h] => .str <$> Wire.stringOfHex h
  | .list (.atom "l" :: vs) => .list <$> vs.mapM valOf
  | .list (.atom "t" :: vs) => .tuple <$> vs.mapM valOf
  | .list (.atom "k" :: .atom tag :: vs) => do pure (.con (← tag.toNat?) (← vs.mapM valOf))
  | _ => none

partial def valToSexp : Val → Sexp
  | .int n => .list [.atom "i", .atom (toString n)]
  | .bool b => .list [.atom "b", .atom (if b then "1" else "0")]
  | .bytes b => .list [.atom "bs", .atom (Wire.hexOfBytes b)]
  | .unit => .atom "u"
  | .str s => .list [.atom "st", .atom (Wire.hexOfString s)]
  | .list vs => .list (.atom "l" :: vs.map valToSexp)
  | .tuple vs => .list (.atom "t" :: vs.map valToSexp)
  | .con tag vs => .list (.atom "k" :: .atom (toString tag) :: vs.map valToSexp)
  | .clo _ _ => .atom "<fn>"
  | .fn _ => .atom "<fn>"
  | .data d => .list [.atom "da", Wire.dataToSexp d]

def modeOf : String → Option Mode
  | "silent" => some .silent | "compact" => some .compact | "verbose" => some .verbose
  | _ => none

def renderOutcome : Outcome Val → String
  | .val v => "ok " ++ (valToSexp v).render
  | .abort => "abort"
  | .outOfFuel => "nofuel"
  | .stuck => "stuck"

def handle (args : List String) : String :=
  match args with
  | mode :: fuel :: rest =>
    match modeOf mode, fuel.toNat?, Sexp.parseAll (" ".intercalate rest) with
    | some m, some fuel, some [prog, .list (.atom "calls" :: calls)] =>
      match progOf prog with
      | some P =>
        let outs := calls.map fun
          | .list (.atom f :: vs) =>
            match f.toNat?, vs.mapM valOf with
            | some f, some vs =>
              let r := runCall P m fuel f vs
              renderOutcome (result r) ++ (if r.2.isEmpty then "" else s!" traces={r.2.length}")
            | _, _ => "bad-call"
          | _ => "bad-call"
        " | ".intercalate outs
      | none => "bad-program"
    | _, _, _ => "bad-request"
  | _ => "bad-request"

/-- `errclass <Variant>…`: the generated-enum classification of `machine::Error` variants (C06) -/
def handleErrClass (args : List String) : String :=
  " ".intercalate (args.map classifyName)

end AikenVerif.Drivers.Mini
