import AikenVerif.Model.Wire
import AikenVerif.Model.Flat
import AikenVerif.Model.Cbor
/-! driver `flat-enc` / `flat-dec` / `cbor-wrap` / `cbor-unwrap` (C08, C20).

`Data` constants travel as `(da (B #<cbor bytes>))` — the opaque codec. -/
namespace AikenVerif.Drivers.Flat
open AikenVerif Flat Wire

def cd : DataCodec := DataCodec.opaque

def encReply {β : Type} [FlatBinder β] [WireBinder β] (v : List String) (w : String) : String :=
  match v.map String.toNat?, (termOfWire w : Option (Term β)) with
  | [some a, some b, some c], some t =>
    match toFlat cd (⟨(a, b, c), t⟩ : Program β) with
    | some bytes => "ok " ++ hexOfBytes bytes
    | none => "err"
  | _, _ => "bad-request"

def decReply {β : Type} [FlatBinder β] [WireBinder β] (m : Mode) (h : String) : String :=
  match bytesOfHex h with
  | none => "bad-request"
  | some bytes =>
    match (fromFlat cd m bytes : Res (Program β)) with
    | .ok p => s!"ok {p.version.1} {p.version.2.1} {p.version.2.2} " ++ termToWire p.term
    | .err => "err"
    | .panic => "panic"
    | .fuel => "fuel"

def modeOf : String → Option Mode
  | "impl" => some .impl
  | "fixed" => some .fixed
  | _ => none

/-- requests:
  `enc <db|ndb|name> <major> <minor> <patch> <wire term…>` → `ok #<flat bytes>` | `err`
  `dec <db|ndb|name> <impl|fixed> #<bytes>`                → `ok <major> <minor> <patch> <wire term>` | `err` | `panic`
  `cbor-wrap #<bytes>` → `ok #<cbor>` ; `cbor-unwrap #<bytes>` → `ok #<payload>` | `err` -/
def handle (args : List String) : String :=
  match args with
  | "enc" :: form :: a :: b :: c :: rest =>
    let w := " ".intercalate rest
    match form with
    | "db" => encReply (β := DeBruijn) [a, b, c] w
    | "ndb" => encReply (β := NamedDeBruijn) [a, b, c] w
    | "name" => encReply (β := Name) [a, b, c] w
    | _ => "bad-request"
  | ["dec", form, mode, h] =>
    match modeOf mode with
    | none => "bad-request"
    | some m =>
      match form with
      | "db" => decReply (β := DeBruijn) m h
      | "ndb" => decReply (β := NamedDeBruijn) m h
      | "name" => decReply (β := Name) m h
      | _ => "bad-request"
  | ["cbor-wrap", h] =>
    match bytesOfHex h with
    | some b => "ok " ++ hexOfBytes (Cbor.wrapBytes b)
    | none => "bad-request"
  | ["cbor-unwrap", h] =>
    match bytesOfHex h with
    | some b => match Cbor.unwrapBytes b with
      | some p => "ok " ++ hexOfBytes p
      | none => "err"
    | none => "bad-request"
  | _ => "bad-request"

end AikenVerif.Drivers.Flat
