import AikenVerif.Model.Iso
/-! driver `iso`: the audit of C17 on heaps measured by the `run_runnables` hook.

request  `iso <id> <test>*` — one token per test: `-` (no allocation) or
`addr:strong:refs,addr:strong:refs,…` (every allocation of the test once:
address, strong count read from the allocation, references to it found inside
the same test).

reply    `ok <tests> <allocations>`            `Iso.isoCheck` is true
         `shared <addr>`                       smallest address that occurs twice
         `external <test-index> <addr> <strong> <refs>`   first allocation with a holder outside its test
         `bad-request`
-/
namespace AikenVerif.Drivers.Iso
open AikenVerif.Iso

def parseAlloc (s : String) : Option Alloc :=
  match s.splitOn ":" with
  | [a, st, r] =>
    match a.toNat?, st.toNat?, r.toNat? with
    | some a, some st, some r => some ⟨a, st, r⟩
    | _, _, _ => none
  | _ => none

def parseTest (s : String) : Option TestHeap :=
  if s == "-" then some [] else (s.splitOn ",").mapM parseAlloc

/-- first adjacent equal pair of a sorted list -/
def firstDup : List Nat → Option Nat
  | a :: b :: rest => if a == b then some a else firstDup (b :: rest)
  | _ => none

def firstExternal (ts : List TestHeap) : Option (Nat × Alloc) :=
  (ts.zipIdx.findSome? (fun (t, i) => (t.find? (fun al => !(al.strong == al.refs))).map (fun al => (i, al))))

def handle (args : List String) : String :=
  match args.mapM parseTest with
  | none => "bad-request"
  | some ts =>
    if isoCheck ts then
      "ok " ++ toString ts.length ++ " " ++ toString (ts.foldl (fun n t => n + t.length) 0)
    else
      match firstDup ((ts.flatMap TestHeap.addrs).mergeSort (fun a b => a ≤ b)) with
      | some a => "shared " ++ toString a
      | none =>
        match firstExternal ts with
        | some (i, al) =>
          "external " ++ toString i ++ " " ++ toString al.addr ++ " " ++ toString al.strong ++ " " ++ toString al.refs
        | none => "inconsistent"

end AikenVerif.Drivers.Iso
