import AikenVerif.Model.Prec
/-! driver `prec-print` / `prec-parse`: the operator-precedence model (C13).

Tree syntax (one whitespace-free field): `a<n>` atom, `n(<e>)` `!e`, `m(<e>)` `-e`,
`b<RustBinOpName>(<l>,<r>)`, `p(<l>,<r>)` (pipeline fold step, see Model/Prec.lean).
Token strings: fields separated by blanks: `a<n>`, `(`, `)`, `!`, `|>`, and the operator symbols. -/
namespace AikenVerif.Drivers.Prec
open AikenVerif.Prec AikenVerif.Gen.Prec

def showTree : Expr → String
  | .atom n => "a" ++ toString n
  | .un .not e => "n(" ++ showTree e ++ ")"
  | .un .negate e => "m(" ++ showTree e ++ ")"
  | .bin op l r => "b" ++ op.rustName ++ "(" ++ showTree l ++ "," ++ showTree r ++ ")"
  | .pipe l r => "p(" ++ showTree l ++ "," ++ showTree r ++ ")"

def takeWhileC (p : Char → Bool) : List Char → List Char × List Char
  | [] => ([], [])
  | c :: cs => if p c then let (a, b) := takeWhileC p cs; (c :: a, b) else ([], c :: cs)

partial def readTree : List Char → Option (Expr × List Char)
  | 'a' :: cs =>
    let (ds, rest) := takeWhileC Char.isDigit cs
    (String.ofList ds).toNat?.map fun n => (.atom n, rest)
  | 'n' :: '(' :: cs => do
    let (e, rest) ← readTree cs
    match rest with | ')' :: r => some (.un .not e, r) | _ => none
  | 'm' :: '(' :: cs => do
    let (e, rest) ← readTree cs
    match rest with | ')' :: r => some (.un .negate e, r) | _ => none
  | 'p' :: '(' :: cs => do
    let (l, rest) ← readTree cs
    match rest with
    | ',' :: r1 => do
      let (r, rest2) ← readTree r1
      match rest2 with | ')' :: r2 => some (.pipe l r, r2) | _ => none
    | _ => none
  | 'b' :: cs => do
    let (nm, rest0) := takeWhileC Char.isAlpha cs
    let op ← BinOp.ofRustName (String.ofList nm)
    match rest0 with
    | '(' :: r0 => do
      let (l, rest) ← readTree r0
      match rest with
      | ',' :: r1 => do
        let (r, rest2) ← readTree r1
        match rest2 with | ')' :: r2 => some (.bin op l r, r2) | _ => none
      | _ => none
    | _ => none
  | _ => none

def showTok : Tok → String
  | .atom n => "a" ++ toString n
  | .lparen => "("
  | .rparen => ")"
  | .bang => "!"
  | .op b => b.symbol
  | .pipe => "|>"

def readTok (s : String) : Option Tok :=
  match s with
  | "(" => some .lparen
  | ")" => some .rparen
  | "!" => some .bang
  | "|>" => some .pipe
  | _ =>
    match BinOp.all.find? (fun b => b.symbol == s) with
    | some b => some (.op b)
    | none =>
      match s.toList with
      | 'a' :: ds => (String.ofList ds).toNat?.map Tok.atom
      | _ => none

/-- requests: `print <tree>` → `ok <tokens…>`; `parse <tok> <tok> …` → `some <tree>` | `none`;
    `roundtrip <tree>` → what `parse (print e)` gives -/
def handle (args : List String) : String :=
  match args with
  | ["print", t] =>
    match readTree t.toList with
    | some (e, []) => "ok " ++ " ".intercalate ((print e).map showTok)
    | _ => "bad-request"
  | ["roundtrip", t] =>
    match readTree t.toList with
    | some (e, []) => match parse (print e) with
      | some e' => "some " ++ showTree e'
      | none => "none"
    | _ => "bad-request"
  | "parse" :: toks =>
    match toks.mapM readTok with
    | some ts => match parse ts with
      | some e => "some " ++ showTree e
      | none => "none"
    | none => "bad-request"
  | _ => "bad-request"

end AikenVerif.Drivers.Prec
