import AikenVerif.Model.Wire
/-! driver `names`: the generated builtin name/tag tables (C15, C08). -/
namespace AikenVerif.Drivers.Names
open AikenVerif Gen

def strOfCodes (cs : List Nat) : String := String.ofList (cs.map Char.ofNat)
def codesOfStr (s : String) : List Nat := s.toList.map Char.toNat

/-- requests:
  `display <RustName>`          → the printed name
  `fromstr <hex of utf8 name>`  → `some <RustName>` | `none`
  `roundtrip <RustName>`        → what `fromStr (display b)` gives
  `tag <RustName>` / `oftag <n>` -/
def handle (args : List String) : String :=
  match args with
  | ["display", n] =>
    match Builtin.ofRustName n with
    | some b => "ok " ++ strOfCodes b.display
    | none => "bad-request"
  | ["fromstr", h] =>
    match Wire.stringOfHex h with
    | some s => match Builtin.fromStr (codesOfStr s) with
      | some b => "some " ++ b.rustName
      | none => "none"
    | none => "bad-request"
  | ["roundtrip", n] =>
    match Builtin.ofRustName n with
    | some b => match Builtin.fromStr b.display with
      | some b' => "some " ++ b'.rustName
      | none => "none"
    | none => "bad-request"
  | ["tag", n] =>
    match Builtin.ofRustName n with
    | some b => "ok " ++ toString b.tag
    | none => "bad-request"
  | ["oftag", n] =>
    match n.toNat? with
    | some k => match Builtin.ofTag k with
      | some b => "some " ++ b.rustName
      | none => "none"
    | none => "bad-request"
  | _ => "bad-request"

end AikenVerif.Drivers.Names
