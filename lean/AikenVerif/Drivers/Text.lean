import AikenVerif.Model.Wire
import AikenVerif.Model.Text
/-! driver `text-print` / `text-parse`: the UPLC text printer / parser model (C15, C20). -/
namespace AikenVerif.Drivers.Text
open AikenVerif AikenVerif.Text

/-- canonical one-line rendering of a token list (the harness's own lexer produces the same) -/
def tokenStr : Token → String
  | .lpar => "(" | .rpar => ")" | .lbrack => "[" | .rbrack => "]" | .comma => "," | .unit => "()"
  | .ws => "_"
  | .word w => "w:" ++ String.ofList w
  | .hash h => "#" ++ String.ofList h
  | .str raw => "s:" ++ Wire.hexOfString (String.ofList raw)

def tokensStr (ts : List Token) : String := " ".intercalate (ts.map tokenStr)

def printAs (β : Type) [Wire.WireBinder β] [BinderText β] (ver : Nat × Nat × Nat) (wire : String) : String :=
  match (Wire.termOfWire wire : Option (Term β)) with
  | some t =>
    match printProgram (⟨ver, t⟩ : Program β) with
    | some ts => "ok " ++ tokensStr ts
    | none => "panic"
  | none => "bad-request"

/-- requests:
  `text-print <name|ndb|db> <major> <minor> <patch> <wire term…>` → `ok <tokens>` | `panic`
  `text-parse <#hex of utf-8 text>`                              → `ok <major> <minor> <patch> <wire term>` | `err`
  `text-lex <#hex of utf-8 text>`                                → `ok <tokens>` | `err` -/
def handlePrint (args : List String) : String :=
  match args with
  | mode :: a :: b :: c :: rest =>
    match a.toNat?, b.toNat?, c.toNat? with
    | some a, some b, some c =>
      let wire := " ".intercalate rest
      match mode with
      | "name" => printAs Name (a, b, c) wire
      | "ndb" => printAs NamedDeBruijn (a, b, c) wire
      | "db" => printAs DeBruijn (a, b, c) wire
      | _ => "bad-request"
    | _, _, _ => "bad-request"
  | _ => "bad-request"

def handleParse (args : List String) : String :=
  match args with
  | [h] =>
    match Wire.stringOfHex h with
    | some s =>
      match parseText s.toList with
      | some p => s!"ok {p.version.1} {p.version.2.1} {p.version.2.2} " ++ Wire.termToWire p.term
      | none => "err"
    | none => "bad-request"
  | _ => "bad-request"

def handleLex (args : List String) : String :=
  match args with
  | [h] =>
    match Wire.stringOfHex h with
    | some s =>
      match lex s.toList with
      | some ts => "ok " ++ tokensStr ts
      | none => "err"
    | none => "bad-request"
  | _ => "bad-request"

end AikenVerif.Drivers.Text
