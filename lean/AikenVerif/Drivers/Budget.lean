import AikenVerif.Model.Budget
/-! driver `budget`: the redeemer loop and the small tables of `Model/Budget.lean` (C19). -/
namespace AikenVerif.Drivers.Budget
open AikenVerif.Budget

/-- what one redeemer would do, as far as the loop can see it:
`stage <code>` — a non-machine error at the named stage;
`run lang cost res` — the script runs; under an unlimited budget it costs `cost` and ends in
`res` (`none` = the script itself fails after spending `cost`). -/
inductive Outcome where
  | stage (code : String)
  /-- the script (of this language) is found; whether it runs is up to the later stages -/
  | found (lang : Lang) (late : String)
  | run (lang : Lang) (cost : ExBudget) (res : Option ResultKind)

/-- machine errors: `true` = out of budget, `false` = the script failed -/
abbrev MErr := Bool

def parseLang : String → Option Lang
  | "v1" => some .v1 | "v2" => some .v2 | "v3" => some .v3 | _ => none

def parseKind : String → Option (Option ResultKind)
  | "unit" => some (some .unit) | "true" => some (some .boolTrue) | "other" => some (some .other)
  | "fail" => some none | _ => none

/-- `stage:<code>` | `found:<lang>[:txinfo|decode]` | `run:<lang>:<cpu>:<mem>:<unit|true|other|fail>` -/
def parseOutcome (s : String) : Option Outcome :=
  match s.splitOn ":" with
  | ["stage", code] => some (.stage code)
  | ["found", l] => (parseLang l).map (.found · "")
  | ["found", l, late] => (parseLang l).map (.found · late)
  | ["run", l, c, m, k] =>
    match parseLang l, c.toInt?, m.toInt?, parseKind k with
    | some l, some c, some m, some k => some (.run l ⟨c, m⟩ k)
    | _, _, _, _ => none
  | _ => none

def findErr : String → Option (TxErr MErr)
  | "missing-script-for-redeemer" => some .missingScriptForRedeemer
  | "missing-script" => some .missingRequiredScript
  | "missing-datum" => some .missingRequiredDatum
  | "missing-inline-datum-or-hash" => some .missingRequiredInlineDatumOrHash
  | "input-not-found" => some .resolvedInputNotFound
  | "non-script" => some .nonScript
  | _ => none

/-- the stages of `evalRedeemer` for abstract outcomes; `cms` = which languages have a cost
model (`none` = no cost models passed at all) -/
def stages (cms : Option (Bool × Bool × Bool)) : Stages Outcome Outcome Unit Unit Outcome MErr where
  findScript o :=
    match o with
    | .stage code =>
      match findErr code with
      | some e => .error e
      | none => .ok ((.v3, o), none)
    | .found lang _ => .ok ((lang, o), none)
    | .run lang _ _ => .ok ((lang, o), none)
  costModel lang :=
    match cms with
    | none => .ok none
    | some (a, b, c) =>
      let present := match lang with | .v1 => a | .v2 => b | .v3 => c
      if present then .ok (some []) else .error .costModelNotFound
  context _ o _ :=
    match o with
    | .stage "txinfo" => .error .txInfo
    | .found _ "txinfo" => .error .txInfo
    | _ => .ok ()
  decode o :=
    match o with
    | .stage "decode" => .error .decode
    | .found _ "decode" => .error .decode
    | _ => .ok o
  run _ _ prog _ _ _ _ b :=
    match prog with
    | .run _ cost res =>
      if cost ≤ b then ⟨cost, match res with | some k => .ok k | none => .error false⟩
      else ⟨b, .error true⟩
    | _ => ⟨ExBudget.zero, .error false⟩

def errClass : TxErr MErr → String
  | .missingScriptForRedeemer => "missing-script-for-redeemer"
  | .missingRequiredScript => "missing-script"
  | .missingRequiredDatum => "missing-datum"
  | .missingRequiredInlineDatumOrHash => "missing-inline-datum-or-hash"
  | .resolvedInputNotFound => "input-not-found"
  | .nonScript => "non-script"
  | .costModelNotFound => "cost-model-not-found"
  | .txInfo => "txinfo"
  | .decode => "decode"
  | .machine true _ => "oob"
  | .machine false _ => "machine"
  | .invalidResult _ => "invalid-result"

def showBudget (b : ExBudget) : String := toString b.cpu ++ ":" ++ toString b.mem

def parseCms : String → Option (Option (Bool × Bool × Bool))
  | "none" => some none
  | s =>
    match s.toList with
    | [a, b, c] => some (some (a == 'p', b == 'p', c == 'p'))
    | _ => none

def parseCrit : String → Option Criterion
  | "legacy" => some .legacy | "fixed" => some .fixed | _ => none

def parseAll {α : Type} (f : String → Option α) : List String → Option (List α)
  | [] => some []
  | x :: xs => match f x, parseAll f xs with
    | some a, some as => some (a :: as)
    | _, _ => none

def parsePair (s : String) : Option (Nat × Nat) :=
  match s.splitOn ":" with
  | [a, b] => match a.toNat?, b.toNat? with
    | some a, some b => some (a, b)
    | _, _ => none
  | _ => none

def parseTag : String → Option Tag
  | "spend" => some .spend | "mint" => some .mint | "cert" => some .cert
  | "reward" => some .reward | "vote" => some .vote | "propose" => some .propose | _ => none

def showTag : Tag → String
  | .spend => "spend" | .mint => "mint" | .cert => "cert"
  | .reward => "reward" | .vote => "vote" | .propose => "propose"

def parseKey (s : String) : Option (Tag × Nat) :=
  match s.splitOn ":" with
  | [a, b] => match parseTag a, b.toNat? with
    | some a, some b => some (a, b)
    | _, _ => none
  | _ => none

def showArg : Arg → String
  | .datum => "datum" | .redeemer => "redeemer" | .context => "context"

/-- requests:
  `default`                                               → `<cpu>:<mem>` of `ExBudget::default()`
  `loop <judge:legacy|fixed> <budget:legacy|fixed> <cms> <p1|nop1|p1fail> <cpu|-> <mem|-> <outcome>*`
        (`<cms>` = `none` | three of `p`/`n` for v1 v2 v3; budget `- -` = `initial_budget: None`;
         `nored` as the only outcome = no redeemers field)
        → `ok <cpu>:<mem>,…` | `err phase-one` | `err <index> <class>`
  `failed <lang> <allow:0|1> <unit|true|other|fail>`      → `true|false`   (`EvalResult::failed`)
  `args <lang> <hasdatum:0|1>`                            → `datum,redeemer,context`
  `sort-inputs <txid-as-decimal>:<index> …`               → sorted, same syntax
  `sort-redeemers <tag>:<index> …`                        → sorted, same syntax -/
def handle (args : List String) : String :=
  match args with
  | ["default"] => showBudget ExBudget.default
  | "loop" :: crit :: critB :: cms :: p1 :: cpu :: mem :: outs =>
    let budget : Option (Option ExBudget) :=
      if cpu == "-" && mem == "-" then some none
      else match cpu.toInt?, mem.toInt? with
        | some c, some m => some (some ⟨c, m⟩)
        | _, _ => none
    let reds : Option (Option (List Outcome)) :=
      if outs == ["nored"] then some none else (parseAll parseOutcome outs).map some
    let phase : Option (Bool × Except (TxErr MErr) Unit) :=
      match p1 with
      | "p1" => some (true, .ok ())
      | "nop1" => some (false, .ok ())
      | "p1fail" => some (true, .error .missingRequiredScript)
      | _ => none
    match parseCrit crit, parseCrit critB, parseCms cms, budget, reds, phase with
    | some crit, some critB, some cms, some budget, some reds, some (rp, p1) =>
      match evalPhaseTwo (evalRedeemer crit critB (stages cms)) ⟨reds, rp, p1, budget⟩ with
      | .ok us => "ok " ++ ",".intercalate ((units us).map showBudget)
      | .error (.phaseOne _) => "err phase-one"
      | .error (.redeemer i e) => "err " ++ toString i ++ " " ++ errClass e
    | _, _, _, _, _, _ => "bad-request"
  | ["failed", lang, allow, kind] =>
    match parseLang lang, parseKind kind with
    | some lang, some k =>
      let run : Run MErr := ⟨ExBudget.zero, match k with | some k => .ok k | none => .error false⟩
      toString (run.failed (allow == "1") lang)
    | _, _ => "bad-request"
  | ["args", lang, d] =>
    match parseLang lang with
    | some lang => ",".intercalate ((selectArgs lang.ctxVersion (d == "1")).map showArg)
    | none => "bad-request"
  | "sort-inputs" :: xs =>
    match parseAll parsePair xs with
    | some l => " ".intercalate ((sortInputs l).map (fun p => toString p.1 ++ ":" ++ toString p.2))
    | none => "bad-request"
  | "sort-redeemers" :: xs =>
    match parseAll parseKey xs with
    | some l => " ".intercalate ((sortRedeemerKeys l).map (fun p => showTag p.1 ++ ":" ++ toString p.2))
    | none => "bad-request"
  | _ => "bad-request"

end AikenVerif.Drivers.Budget
