def hello := "world"
