import AikenVerif.Drivers.Names
import AikenVerif.Drivers.Match
/-!
Native driver: line protocol.  Each request line is
  `<sub-command> <case-id> <fields…>`
and each reply line is `<case-id> <reply>`.  One process serves every model.
-/
open AikenVerif

def dispatch (sub : String) (args : List String) : String :=
  match sub with
  | "names" => Drivers.Names.handle args
  | "match" => Drivers.Match.handle args
  | _ => "unknown-subcommand"

partial def loop (h : IO.FS.Stream) (out : IO.FS.Stream) : IO Unit := do
  let line ← h.getLine
  if line.isEmpty then return ()
  let ws := (line.trimAscii.toString.splitOn " ").filter (· ≠ "")
  match ws with
  | sub :: id :: rest => out.putStrLn (id ++ " " ++ dispatch sub rest)
  | _ => out.putStrLn "? bad-line"
  loop h out

def main : IO Unit := do
  let out ← IO.getStdout
  loop (← IO.getStdin) out
  out.flush
