import AikenVerif.Drivers.Names
import AikenVerif.Drivers.Cek
import AikenVerif.Drivers.Shrink
import AikenVerif.Drivers.Flat
import AikenVerif.Drivers.DeBruijn
import AikenVerif.Drivers.Schema
import AikenVerif.Drivers.Budget
import AikenVerif.Drivers.Prec
import AikenVerif.Drivers.Text
import AikenVerif.Drivers.Match
import AikenVerif.Drivers.Iso
import AikenVerif.Drivers.Mini
/-!
Native driver: line protocol.  Each request line is
  `<sub-command> <case-id> <fields…>`
and each reply line is `<case-id> <reply>`.  One process serves every model.
The only state is the cost model installed by `costmodel`.
-/
open AikenVerif

structure DriverState where
  costModel : Option CostModel := none

def dispatch (st : DriverState) (sub : String) (args : List String) : DriverState × String :=
  match sub with
  | "names" => (st, Drivers.Names.handle args)
  | "costmodel" =>
    let (cm, reply) := Drivers.Cek.handleCostModel args
    ({ st with costModel := cm }, reply)
  | "cek" => (st, Drivers.Cek.handleCek st.costModel args)
  | "spec" => (st, Drivers.Cek.handleSpec args)
  | "bcost" => (st, Drivers.Cek.handleBCost st.costModel args)
  | "costpos" => (st, Drivers.Cek.handleCostPos st.costModel)
  | "shrink" => (st, Drivers.Shrink.handle args)
  | "flat" => (st, Drivers.Flat.handle args)
  | "db" => (st, Drivers.DeBruijn.handle args)
  | "schema" | "schemaraw" | "validate" | "vraw" | "inhabits" | "encode" | "tag" | "apply" | "applyp" =>
    (st, Drivers.Schema.handle sub args)
  | "budget" => (st, Drivers.Budget.handle args)
  | "prec" => (st, Drivers.Prec.handle args)
  | "text-print" => (st, Drivers.Text.handlePrint args)
  | "text-parse" => (st, Drivers.Text.handleParse args)
  | "text-lex" => (st, Drivers.Text.handleLex args)
  | "match" => (st, Drivers.Match.handle args)
  | "iso" => (st, Drivers.Iso.handle args)
  | "mini" => (st, Drivers.Mini.handle args)
  | "errclass" => (st, Drivers.Mini.handleErrClass args)
  | _ => (st, "unknown-subcommand")

partial def loop (h : IO.FS.Stream) (out : IO.FS.Stream) (st : DriverState) : IO Unit := do
  let line ← h.getLine
  if line.isEmpty then return ()
  let ws := (line.trimAscii.toString.splitOn " ").filter (· ≠ "")
  match ws with
  | sub :: id :: rest =>
    let (st', reply) := dispatch st sub rest
    out.putStrLn (id ++ " " ++ reply)
    loop h out st'
  | _ =>
    out.putStrLn "? bad-line"
    loop h out st

def main : IO Unit := do
  let out ← IO.getStdout
  loop (← IO.getStdin) out {}
  out.flush
