//! Generator of Aiken source modules over the surface grammar (C13 validation).
//! Text only: whether a generated module parses is decided by the real parser;
//! unparseable ones are counted and skipped.
use crate::prng::Prng;
use std::collections::BTreeMap;

pub struct G<'a> {
    pub rng: &'a mut Prng,
    pub ncomment: usize,
    pub comments: bool,
    /// adversarial profile: keyword expressions (if/when/fn/blocks/fail) and arbitrary parenthesised
    /// expressions also as operands, chain heads and `?` subjects; record constructors with labelled
    /// capture holes; comments between imports
    pub adversarial: bool,
    /// which grammar features the module uses (input distribution)
    pub feats: BTreeMap<&'static str, u64>,
}

const NAMES: [&str; 10] = ["a", "b", "c", "x", "y", "foo", "bar_baz", "n1", "acc", "list_of"];
const UPNAMES: [&str; 7] = ["Foo", "Bar", "Some", "None", "Baz", "True", "Thing2"];
const FIELDS: [&str; 5] = ["i", "b", "owner", "value", "x"];
const INTS: [&str; 11] = [
    "0", "1", "42", "1_000_000", "0xff", "0x0F", "123456789012345678901234567890", "1_000", "0x0", "999", "0xDEADbeef",
];
const BYTES: [&str; 12] = [
    "\"\"", "\"foo\"", "#\"\"", "#\"00ff\"", "#\"DEADbeef\"", "#[]", "#[1, 2, 255]", "#[0xff, 0x00]", "\"caf\\\"e\"",
    "\"tab\\there\"", "#[ 1,2 ,3 ]", "\"é✓\"",
];
const STRINGS: [&str; 7] = ["@\"\"", "@\"hello\"", "@\"a\\nb\"", "@\"q\\\"uote\"", "@\"tab\\t\"", "@\"é✓\"", "@\"back\\\\slash\""];
const BINOPS: [&str; 13] = ["&&", "||", "==", "!=", "<", "<=", ">=", ">", "+", "-", "*", "/", "%"];
const COMMENT_TEXT: [&str; 6] = [" plain", "no-space", " with // slashes", "", " trailing space ", " unicode é"];

impl<'a> G<'a> {
    pub fn new(rng: &'a mut Prng, comments: bool) -> Self {
        G { rng, ncomment: 0, comments, adversarial: false, feats: BTreeMap::new() }
    }
    fn f(&mut self, k: &'static str) {
        *self.feats.entry(k).or_insert(0) += 1;
    }
    fn pick(&mut self, xs: &[&str]) -> String {
        xs[self.rng.below(xs.len())].to_string()
    }
    fn name(&mut self) -> String {
        self.pick(&NAMES)
    }
    /// a comment line to put at the start of a line (or nothing)
    fn cmt(&mut self) -> String {
        if !self.comments || !self.rng.chance(1, 5) {
            return String::new();
        }
        self.ncomment += 1;
        self.f("comment");
        let t = self.pick(&COMMENT_TEXT);
        format!("//{} c{}\n", t, self.ncomment)
    }
    fn doc(&mut self) -> String {
        if !self.comments || !self.rng.chance(1, 4) {
            return String::new();
        }
        self.ncomment += 1;
        self.f("doc-comment");
        let n = 1 + self.rng.below(2);
        (0..n).map(|i| format!("/// doc {} line {}\n", self.ncomment, i)).collect()
    }

    pub fn annotation(&mut self, d: usize) -> String {
        if d == 0 {
            return self.pick(&["Int", "ByteArray", "Bool", "Data", "a", "String", "Void"]);
        }
        match self.rng.below(9) {
            0 => format!("List<{}>", self.annotation(d - 1)),
            1 => format!("Option<{}>", self.annotation(d - 1)),
            2 => format!("({}, {})", self.annotation(d - 1), self.annotation(d - 1)),
            3 => format!("Pair<{}, {}>", self.annotation(d - 1), self.annotation(d - 1)),
            4 => format!("fn({}) -> {}", self.annotation(d - 1), self.annotation(d - 1)),
            5 => "mod.Thing".to_string(),
            6 => format!("Foo<{}, {}>", self.annotation(d - 1), self.annotation(0)),
            _ => self.annotation(0),
        }
    }

    pub fn pattern(&mut self, d: usize) -> String {
        if d == 0 {
            return match self.rng.below(6) {
                0 => "_".into(),
                1 => "_ignored".into(),
                2 => self.pick(&INTS),
                3 => self.pick(&["None", "True", "False", "Void"]),
                _ => self.name(),
            };
        }
        self.f("pattern-compound");
        match self.rng.below(12) {
            0 => format!("Some({})", self.pattern(d - 1)),
            1 => format!("Foo({}, {})", self.pattern(d - 1), self.pattern(d - 1)),
            2 => format!("Foo {{ i: {}, b }}", self.pattern(d - 1)),
            3 => format!("Foo {{ i, .. }}", ),
            4 => "Foo(..)".to_string(),
            5 => format!("mod.Bar({})", self.pattern(d - 1)),
            6 => format!("({}, {})", self.pattern(d - 1), self.pattern(d - 1)),
            7 => format!("Pair({}, {})", self.pattern(d - 1), self.pattern(d - 1)),
            8 => format!("[{}, ..{}]", self.pattern(d - 1), self.pick(&["rest", "_"])),
            9 => self.pick(&["[]", "[x]", "[x, y]", "[_, ..]"]),
            10 => format!("{} as whole", self.pattern(d - 1)),
            _ => self.pick(&["#\"00ff\"", "\"foo\"", "Foo { i: 1, .. }", "Foo { .. }"]),
        }
    }

    fn atom(&mut self) -> String {
        match self.rng.below(12) {
            0 | 1 => self.pick(&INTS),
            2 => {
                self.f("bytearray-literal");
                self.pick(&BYTES)
            }
            3 => {
                self.f("string-literal");
                self.pick(&STRINGS)
            }
            4 => self.pick(&UPNAMES),
            5 => self.pick(&["mod.value", "mod.Thing", "a.b.c", "foo.1st", "x.2nd.1st"]),
            6 => self.pick(&["[]", "Void", "False"]),
            _ => self.name(),
        }
    }

    fn args(&mut self, d: usize, n: usize) -> String {
        (0..n).map(|_| self.expr(d)).collect::<Vec<_>>().join(", ")
    }

    pub fn expr(&mut self, d: usize) -> String {
        self.expr_k(d, true)
    }

    /// an expression in operand position (binary/unary operand, chain head, condition, subject)
    fn operand(&mut self, d: usize) -> String {
        let adv = self.adversarial;
        self.expr_k(d, adv)
    }

    fn expr_k(&mut self, d: usize, allow_kw: bool) -> String {
        if d == 0 {
            return self.atom();
        }
        let d1 = d - 1;
        let mut choice = self.rng.below(40);
        if !allow_kw && matches!(choice, 22..=31) {
            choice = self.rng.below(22);
        }
        if !self.adversarial && matches!(choice, 13 | 31) {
            choice = 14;
        }
        match choice {
            0..=5 => {
                self.f("binop");
                let op = self.pick(&BINOPS);
                let (l, r) = (self.operand(d1), self.operand(d1));
                match self.rng.below(4) {
                    0 => format!("({l}) {op} {r}"),
                    1 => format!("{l} {op} ({r})"),
                    _ => format!("{l} {op} {r}"),
                }
            }
            6 => {
                self.f("unop");
                let e = self.operand(d1);
                let op = self.pick(&["!", "-"]);
                if self.rng.chance(1, 2) { format!("{op}({e})") } else { format!("{op}{e}") }
            }
            7..=8 => {
                self.f("pipeline");
                let n = 1 + self.rng.below(3);
                let mut s = self.operand(d1);
                let nl = self.rng.chance(1, 2);
                for _ in 0..n {
                    let c = if nl { self.cmt() } else { String::new() };
                    let stage = match self.rng.below(5) {
                        0 | 1 => format!("{}({}, _)", self.name(), self.expr(d1)),
                        2 => format!("mod.{}({})", self.name(), self.expr(d1)),
                        3 if self.adversarial => format!("({})", self.expr(d1)),
                        _ => self.name(),
                    };
                    s = format!("{s}{}{c}|> {stage}", if nl { "\n" } else { " " });
                }
                s
            }
            9..=10 => {
                self.f("call");
                let n = self.rng.below(4);
                format!("{}({})", self.pick(&["foo", "mod.bar", "x", "Some", "list.map"]), self.args(d1, n))
            }
            11 => {
                self.f("call-labelled");
                format!("foo(x: {}, y: {})", self.expr(d1), self.expr(d1))
            }
            12 => {
                self.f("capture");
                match self.rng.below(4) {
                    0 => format!("foo(_, {})", self.expr(d1)),
                    1 => format!("foo({}, _)", self.expr(d1)),
                    2 => format!("Foo(_, {})", self.expr(d1)),
                    _ => format!("mod.foo({}, _, {})", self.expr(d1), self.expr(d1)),
                }
            }
            13 => {
                self.f("record-capture");
                match self.rng.below(3) {
                    0 => format!("Foo {{ i: _, b: {} }}", self.expr(d1)),
                    1 => format!("Foo {{ i: {}, b: _ }}", self.expr(d1)),
                    _ => format!("mod.Foo {{ i: _ }}"),
                }
            }
            14..=15 => {
                self.f("record");
                match self.rng.below(8) {
                    // comments in front of PUNNED fields (`i`, and `b: b`, which the formatter puns)
                    6 => format!("Foo {{\n{}i,\n{}b: {},\n}}", self.cmt(), self.cmt(), self.expr(d1)),
                    7 => format!("Foo {{\n{}i: {},\n{}b: b,\n}}", self.cmt(), self.expr(d1), self.cmt()),
                    0 => format!("Foo {{ i: {}, b: {} }}", self.expr(d1), self.expr(d1)),
                    1 => "Foo { i, b }".to_string(),
                    2 => format!("Foo {{ i, b: {} }}", self.expr(d1)),
                    3 => format!("mod.Foo {{ i: {} }}", self.expr(d1)),
                    4 => format!("Foo({}, {})", self.expr(d1), self.expr(d1)),
                    _ => format!("Foo {{\n{}i: {},\n{}b: {},\n}}", self.cmt(), self.expr(d1), self.cmt(), self.expr(d1)),
                }
            }
            16 => {
                self.f("record-update");
                match self.rng.below(5) {
                    3 => format!("Foo {{\n..x,\n{}i,\n}}", self.cmt()),
                    4 => format!("Foo {{\n..x,\n{}i: {},\n{}b,\n}}", self.cmt(), self.expr(d1), self.cmt()),
                    0 => format!("Foo {{ ..x, i: {} }}", self.expr(d1)),
                    1 => "Foo { ..x, i }".to_string(),
                    _ => format!("mod.Foo {{ ..foo(x), i: {}, b: {} }}", self.expr(d1), self.expr(d1)),
                }
            }
            17 => {
                self.f("tuple-pair");
                if self.rng.chance(1, 2) { format!("({}, {})", self.expr(d1), self.expr(d1)) } else { format!("Pair({}, {})", self.expr(d1), self.expr(d1)) }
            }
            18..=19 => {
                self.f("list");
                match self.rng.below(4) {
                    0 => format!("[{}]", self.args(d1, 2)),
                    1 => format!("[{}, ..{}]", self.expr(d1), self.name()),
                    2 => {
                        let n = 2 + self.rng.below(3);
                        let items: String = (0..n).map(|_| format!("{}{},\n", self.cmt(), self.expr(d1))).collect();
                        format!("[\n{items}]")
                    }
                    _ => format!("[{}]", self.args(0, 5)),
                }
            }
            20 => {
                self.f("field-access");
                if self.adversarial {
                    match self.rng.below(4) {
                        0 => format!("({}).{}", self.expr(d1), self.pick(&FIELDS)),
                        1 => format!("({}).1st", self.expr(d1)),
                        2 => format!("({})({})", self.expr(d1), self.expr(d1)),
                        _ => format!("{}.{}", self.name(), self.pick(&FIELDS)),
                    }
                } else {
                    match self.rng.below(4) {
                        0 => format!("{}({}).{}", self.name(), self.expr(d1), self.pick(&FIELDS)),
                        1 => format!("({}, {}).1st", self.expr(d1), self.expr(d1)),
                        2 => format!("{}.{}({})", self.name(), self.pick(&FIELDS), self.expr(d1)),
                        _ => format!("{}.{}", self.name(), self.pick(&FIELDS)),
                    }
                }
            }
            21 => {
                self.f("trace-if-false");
                if self.adversarial && self.rng.chance(1, 3) {
                    format!("({})?", self.expr(d1))
                } else if self.rng.chance(1, 2) {
                    format!("{}({})?", self.name(), self.expr(d1))
                } else {
                    format!("{}?", self.name())
                }
            }
            22..=23 => {
                self.f("if");
                match self.rng.below(8) {
                    // `is` with an explicit DISCARD pattern (the short form `if x is Foo` means "bind x", not "_"),
                    // with a named discard, with another variable, and in an `else if` position
                    4 => format!("if {} is _: Foo {{\n{}\n}} else {{\n{}\n}}", self.name(), self.sequence(d1), self.sequence(d1)),
                    5 => format!("if {} is _other: Foo {{\n{}\n}} else {{\n{}\n}}", self.operand(d1), self.sequence(d1), self.sequence(d1)),
                    6 => format!("if {} is {}: Foo {{\n{}\n}} else {{\n{}\n}}", self.name(), self.name(), self.sequence(d1), self.sequence(d1)),
                    7 => format!(
                        "if {} {{\n{}\n}} else if {} is _: mod.Bar {{\n{}\n}} else if {} is Foo {{\n{}\n}} else {{\n{}\n}}",
                        self.operand(d1), self.sequence(d1), self.name(), self.sequence(d1), self.name(), self.sequence(d1), self.sequence(d1)
                    ),
                    0 => format!("if {} {{\n{}\n}} else {{\n{}\n}}", self.operand(d1), self.sequence(d1), self.sequence(d1)),
                    1 => format!(
                        "if {} {{\n{}\n}} else if {} {{\n{}\n}} else {{\n{}\n}}",
                        self.operand(d1), self.sequence(d1), self.operand(d1), self.sequence(d1), self.sequence(d1)
                    ),
                    2 => format!("if {} is Foo {{\n{}\n}} else {{\n{}\n}}", self.name(), self.sequence(d1), self.sequence(d1)),
                    _ => format!("if {} is {}: Foo {{\n{}\n}} else {{\n{}\n}}", self.operand(d1), self.pattern(1), self.sequence(d1), self.sequence(d1)),
                }
            }
            24..=26 => {
                self.f("when");
                let n = 1 + self.rng.below(3);
                let mut s = format!("when {} is {{\n", self.operand(d1));
                for _ in 0..n {
                    s += &self.cmt();
                    let pd = self.rng.below(3);
                    let p = self.pattern(pd);
                    let alt = if self.rng.chance(1, 4) { format!(" | {}", self.pattern(1)) } else { String::new() };
                    let body = match self.rng.below(3) {
                        0 => format!("{{\n{}\n}}", self.sequence(d1)),
                        _ => self.expr(d1),
                    };
                    s += &format!("{p}{alt} -> {body}\n");
                }
                s += &self.cmt();
                s += "_ -> fail\n}";
                s
            }
            27 => {
                self.f("and-or-chain");
                let kw = self.pick(&["and", "or"]);
                let n = 2 + self.rng.below(2);
                let items: String = (0..n).map(|_| format!("{}{},\n", self.cmt(), self.expr(d1))).collect();
                format!("{kw} {{\n{items}}}")
            }
            28..=29 => {
                self.f("anonymous-fn");
                match self.rng.below(4) {
                    0 => format!("fn(x) {{ {} }}", self.expr(d1)),
                    1 => format!("fn(x: {}, _y) -> {} {{\n{}\n}}", self.annotation(1), self.annotation(1), self.sequence(d1)),
                    2 => format!("foo(a, {}, b)", self.pick(&[">", "+", "==", "&&", "-", "<="])),
                    _ => format!("fn() {{\n{}\n}}", self.sequence(d1)),
                }
            }
            30 => {
                self.f("block");
                format!("{{\n{}\n}}", self.sequence(d1))
            }
            31 => {
                // `fail` / `todo` standing as an operand (only possible inside parentheses)
                self.f("paren-fail-operand");
                match self.rng.below(3) {
                    0 => format!("({}) {} {}", self.pick(&["fail", "todo", "todo @\"x\""]), self.pick(&BINOPS), self.expr(d1)),
                    1 => format!("{} {} ({})", self.expr(d1), self.pick(&BINOPS), self.pick(&["fail", "todo"])),
                    _ => format!("-({})", self.pick(&["fail", "todo"])),
                }
            }
            _ => self.atom(),
        }
    }

    /// statements then a final expression, one per line
    pub fn sequence(&mut self, d: usize) -> String {
        let n = self.rng.below(3);
        let mut s = String::new();
        for _ in 0..n {
            s += &self.cmt();
            if self.rng.chance(1, 6) {
                s += "\n";
            }
            let d1 = d.saturating_sub(1);
            s += &match self.rng.below(11) {
                0..=2 => {
                    self.f("let");
                    let pd = self.rng.below(2);
                    format!("let {} = {}\n", self.pattern(pd), self.expr(d1))
                }
                3 => {
                    self.f("let-annotated");
                    format!("let {}: {} = {}\n", self.name(), self.annotation(1), self.expr(d1))
                }
                4..=5 => {
                    self.f("expect");
                    match self.rng.below(3) {
                        0 => format!("expect {} = {}\n", self.pattern(1), self.expr(d1)),
                        1 => format!("expect {}: {} = {}\n", self.pattern(1), self.annotation(1), self.expr(d1)),
                        _ => format!("expect {}\n", self.expr(d1)),
                    }
                }
                6 => {
                    self.f("backpassing");
                    match self.rng.below(2) {
                        0 => format!("let {} <- foo({})\n", self.name(), self.expr(d1)),
                        _ => format!("let {}, {} <- mod.bar\n", self.name(), self.pattern(1)),
                    }
                }
                7..=8 => {
                    self.f("trace");
                    match self.rng.below(4) {
                        0 => format!("trace {}\n", self.pick(&STRINGS)),
                        1 => format!("trace {}: {}, {}\n", self.pick(&STRINGS), self.operand(d1), self.expr(0)),
                        2 => format!("trace {}\n", self.name()),
                        _ if self.adversarial => format!("trace ({})\n", self.expr(d1)),
                        _ => format!("trace {}\n", self.pick(&STRINGS)),
                    }
                }
                _ => format!("{}\n", self.expr(d1)),
            };
        }
        s += &self.cmt();
        if self.rng.chance(1, 8) {
            self.f("fail-todo");
            s += &match self.rng.below(5) {
                0 => format!("fail {}", self.pick(&STRINGS)),
                1 => format!("todo {}", self.pick(&STRINGS)),
                2 => format!("fail {}", self.name()),
                3 => "fail".to_string(),
                _ => "todo".to_string(),
            };
        } else {
            s += &self.expr(d);
        }
        s
    }

    fn fn_args(&mut self) -> String {
        let n = self.rng.below(4);
        (0..n)
            .map(|i| match self.rng.below(4) {
                0 => format!("arg{i}: {}", self.annotation(1)),
                1 => format!("_unused{i}"),
                2 => format!("label{i} arg{i}: {}", self.annotation(1)),
                _ => format!("arg{i}"),
            })
            .collect::<Vec<_>>()
            .join(", ")
    }

    pub fn definition(&mut self, idx: usize, d: usize) -> String {
        let mut s = String::new();
        s += &self.cmt();
        s += &self.doc();
        match self.rng.below(14) {
            0..=4 => {
                self.f("def-fn");
                let p = if self.rng.chance(1, 3) { "pub " } else { "" };
                let ret = if self.rng.chance(1, 2) { format!(" -> {}", self.annotation(1)) } else { String::new() };
                s += &format!("{p}fn f{idx}({}){ret} {{\n{}\n}}\n", self.fn_args(), self.sequence(d));
            }
            5 => {
                self.f("def-test");
                match self.rng.below(4) {
                    0 => s += &format!("test t{idx}() {{\n{}\n}}\n", self.sequence(d)),
                    1 => s += &format!("test t{idx}() fail {{\n{}\n}}\n", self.sequence(d)),
                    2 => s += &format!("test t{idx}(x via fuzz.int()) {{\n{}\n}}\n", self.sequence(d)),
                    _ => s += &format!("test t{idx}(x: Int via mod.thing) fail once {{\n{}\n}}\n", self.sequence(d)),
                }
            }
            6 => {
                self.f("def-const");
                let p = if self.rng.chance(1, 2) { "pub " } else { "" };
                let ann = if self.rng.chance(1, 2) { format!(": {}", self.annotation(1)) } else { String::new() };
                s += &format!("{p}const k{idx}{ann} = {}\n", self.expr(d.min(2)));
            }
            7..=8 => {
                self.f("def-type");
                let p = self.pick(&["", "pub ", "pub opaque "]);
                let params = self.pick(&["", "<a>", "<a, b>"]);
                let mut body = String::new();
                let n = 1 + self.rng.below(3);
                for c in 0..n {
                    body += &self.cmt();
                    body += &self.doc();
                    if self.rng.chance(1, 5) {
                        self.f("decorator");
                        body += &format!("@tag({})\n", self.pick(&["1", "0x0a", "12"]));
                    }
                    match self.rng.below(3) {
                        0 => body += &format!("C{idx}x{c}\n"),
                        1 => body += &format!("C{idx}x{c}({}, {})\n", self.annotation(1), self.annotation(1)),
                        _ => {
                            body += &format!("C{idx}x{c} {{\n");
                            for fld in 0..1 + self.rng.below(3) {
                                body += &self.cmt();
                                body += &self.doc();
                                body += &format!("fld{fld}: {},\n", self.annotation(1));
                            }
                            body += "}\n";
                        }
                    }
                }
                if self.rng.chance(1, 6) {
                    self.f("decorator");
                    s += "@list\n";
                    s += &format!("{p}type T{idx}{params} {{\nT{idx} {{ fa: Int, fb: ByteArray }}\n}}\n");
                } else {
                    s += &format!("{p}type T{idx}{params} {{\n{body}}}\n");
                }
            }
            9 => {
                self.f("def-type-alias");
                s += &format!("{}type A{idx} = {}\n", self.pick(&["", "pub "]), self.annotation(2));
            }
            10 => {
                self.f("def-record-shorthand");
                s += &format!("type R{idx} {{\n{}fa: Int,\n{}fb: {},\n}}\n", self.cmt(), self.doc(), self.annotation(1));
            }
            11..=12 => {
                self.f("def-validator");
                let params = if self.rng.chance(1, 2) { format!("(p: {})", self.annotation(1)) } else { String::new() };
                let mut body = String::new();
                body += &self.cmt();
                body += &self.doc();
                body += &format!("spend(datum: Option<Data>, redeemer, _ref, self) {{\n{}\n}}\n", self.sequence(d));
                if self.rng.chance(1, 2) {
                    body += &self.cmt();
                    body += &format!("mint(_r: Data, policy_id, tx) -> Bool {{\n{}\n}}\n", self.sequence(d));
                }
                if self.rng.chance(1, 2) {
                    body += &self.cmt();
                    body += "else(_) {\nfail\n}\n";
                }
                s += &format!("validator v{idx}{params} {{\n{body}}}\n");
            }
            _ => {
                self.f("def-bench");
                s += &format!("bench b{idx}(x via mod.sampler) {{\n{}\n}}\n", self.sequence(d));
            }
        }
        s
    }

    pub fn module(&mut self, ndefs: usize, depth: usize) -> String {
        let mut s = String::new();
        if self.comments && self.rng.chance(1, 4) {
            self.f("module-comment");
            s += "//// module comment one\n//// and two\n\n";
        }
        let nuse = self.rng.below(3);
        for _ in 0..nuse {
            self.f("use");
            if self.adversarial {
                s += &self.cmt();
            }
            s += &self.pick(&[
                "use aiken/list\n", "use aiken/collection/dict.{Dict, from_list}\n", "use cardano/transaction as tx\n",
                "use mod.{Thing, value as v}\n", "use aiken/list\nuse aiken/list.{map}\n", "use a/b/c.{}\n",
            ]);
        }
        for i in 0..ndefs {
            s += "\n";
            s += &self.definition(i, depth);
        }
        if self.comments && self.rng.chance(1, 5) {
            self.f("comment-at-eof");
            s += "\n// last words";
            if self.rng.chance(1, 2) {
                s += "\n";
            }
        }
        s
    }
}
