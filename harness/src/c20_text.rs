//! C20 (UPLC text share): arbitrary / mutated / truncated text through the real
//! `uplc::parser::program` must give `Ok` or `Err` — never a panic, a hang or a stack overflow
//! on modest input.  (The flat / CBOR / Aiken-source shares of C20 live elsewhere.)
use crate::c15::{self, Gen, Tok};
use crate::prng::Prng;
use crate::report::{guarded, Report};
use crate::Ctx;
use serde_json::json;
use std::sync::mpsc;
use std::time::Duration;

#[derive(Debug)]
enum Outcome {
    Ok,
    Err,
    Panic(String),
    Hang,
}

struct Worker {
    tx: mpsc::Sender<String>,
    rx: mpsc::Receiver<Outcome>,
}

fn spawn_worker() -> Worker {
    let (tx, wrx) = mpsc::channel::<String>();
    let (wtx, rx) = mpsc::channel::<Outcome>();
    std::thread::Builder::new()
        .stack_size(64 << 20)
        .spawn(move || {
            while let Ok(text) = wrx.recv() {
                let out = match guarded(move || uplc::parser::program(&text).map(|_| ())) {
                    Ok(Ok(())) => Outcome::Ok,
                    Ok(Err(_)) => Outcome::Err,
                    Err(m) => Outcome::Panic(m),
                };
                if wtx.send(out).is_err() {
                    break;
                }
            }
        })
        .unwrap();
    Worker { tx, rx }
}

fn garbage(rng: &mut Prng) -> String {
    const PIECES: [&str; 36] = [
        "(", ")", "[", "]", ",", "()", " ", "\n", "--", "\"", "\\", "\\x", "#", "0x", "program", "1.0.0", "lam", "x", "con", "integer",
        "builtin", "fooBar", "addInteger", "(builtin ", "(con data (", "Constr", "I", "B #", "list", "pair", "99999999999999999999999",
        "-", "+", "\u{e9}", "\u{0}", "string \"",
    ];
    let n = rng.below(30);
    let mut s = String::new();
    if rng.chance(2, 3) {
        s.push_str("(program 1.0.0 ");
    }
    for _ in 0..n {
        s.push_str(*rng.pick(&PIECES));
        if rng.chance(1, 2) {
            s.push(' ');
        }
    }
    if rng.chance(1, 2) {
        s.push(')');
    }
    s
}

fn char_mutate(text: &str, rng: &mut Prng) -> String {
    let mut cs: Vec<char> = text.chars().collect();
    for _ in 0..1 + rng.below(3) {
        if cs.is_empty() {
            break;
        }
        let i = rng.below(cs.len());
        match rng.below(6) {
            0 => {
                cs.remove(i);
            }
            1 => cs.insert(i, *rng.pick(&['(', ')', '[', ']', '"', '\\', '#', ',', '-', '+', ' ', 'x', '0', '\u{e9}', '\n'])),
            2 => cs[i] = *rng.pick(&['(', ')', '"', '\\', 'z', '9', ' ']),
            3 => cs.truncate(i),
            4 => {
                let j = rng.below(cs.len());
                cs.swap(i, j)
            }
            _ => {
                let c = cs[i];
                cs.insert(i, c)
            }
        }
    }
    cs.into_iter().collect()
}

pub fn run(ctx: &Ctx) -> Report {
    let mut rep = Report::new(
        "c20-uplc-text",
        "fuzzing of uplc::parser::program under catch_unwind + watchdog: directed malformed texts, character- and token-level \
         mutations/truncations of printer output, random garbage, deep nesting in a child process. Non-trivial = distinct text",
    );
    let n = crate::arg_usize("--n", if ctx.thorough { 60000 } else { 6000 });
    let mut rng = Prng::new(ctx.seed ^ 0xC20);
    let mut g = Gen::new(ctx.seed);
    let mut texts: Vec<(String, String)> = vec![]; // (stable key or "", text)
    for (k, t) in [
        ("unknown-builtin", "(program 1.0.0 (builtin fooBar))"),
        ("old-builtin-name", "(program 1.0.0 (builtin verifySignature))"),
        ("empty", ""),
        ("only-open", "("),
        ("huge-version", "(program 99999999999999999999999.0.0 (error))"),
        ("huge-constr-tag", "(program 1.0.0 (constr 99999999999999999999999))"),
        ("huge-data-tag", "(program 1.0.0 (con data (Constr 99999999999999999999999 [])))"),
        ("bad-hex-escape", "(program 1.0.0 (con string \"\\xzz\"))"),
        ("trailing-backslash", "(program 1.0.0 (con string \"\\"),
        ("odd-hex", "(program 1.0.0 (con bytestring #abc))"),
        ("bad-g1", "(program 1.0.0 (con bls12_381_G1_element 0xdead))"),
        ("unterminated-comment", "(program 1.0.0 (error)) --"),
        ("sign-only", "(program 1.0.0 (con integer -))"),
        ("many-signs", "(program 1.0.0 (con integer +-+-5))"),
        ("non-utf8-like", "(program 1.0.0 (con string \"\\xff\\xfe\"))"),
        ("list-type-mismatch", "(program 1.0.0 (con (list integer) [True]))"),
        ("pair-missing", "(program 1.0.0 (con (pair integer bool) (1)))"),
        ("apply-one", "(program 1.0.0 [x])"),
        ("nul", "(program 1.0.0 \u{0})"),
    ] {
        texts.push((k.to_string(), t.to_string()));
    }
    for i in 0..n {
        let p = g.program(true);
        let pretty = match guarded(move || p.to_pretty()) {
            Ok(s) => s,
            Err(_) => continue,
        };
        let t = match i % 4 {
            0 => char_mutate(&pretty, &mut rng),
            1 => {
                let k = rng.below(pretty.chars().count() + 1);
                pretty.chars().take(k).collect()
            }
            2 => match c15::lex(&pretty) {
                Some(ts) => {
                    let mut v: Vec<Tok> = ts;
                    if !v.is_empty() {
                        let a = rng.below(v.len());
                        let b = rng.below(v.len());
                        v.swap(a, b);
                        if rng.chance(1, 2) {
                            v.remove(a.min(v.len() - 1));
                        }
                    }
                    v.iter().map(|t| t.render()).collect::<Vec<_>>().join("")
                }
                None => pretty.clone(),
            },
            _ => garbage(&mut rng),
        };
        texts.push((String::new(), t));
    }

    let mut worker = spawn_worker();
    for (k, t) in &texts {
        if !rep.nontrivial.insert(t.clone()) {
            continue;
        }
        rep.evaluations += 1;
        worker.tx.send(t.clone()).unwrap();
        let out = match worker.rx.recv_timeout(Duration::from_secs(10)) {
            Ok(o) => o,
            Err(_) => {
                worker = spawn_worker();
                Outcome::Hang
            }
        };
        let key = if k.is_empty() { c15::short_key(t) } else { k.clone() };
        match out {
            Outcome::Ok => rep.count("accepted"),
            Outcome::Err => rep.count("rejected"),
            Outcome::Panic(m) => {
                rep.count("panic");
                rep.fail(&format!("uplc-text:panic:{key}"), "uplc::parser::program panics", json!({"text": t}), json!({"panic": m}));
            }
            Outcome::Hang => {
                rep.count("hang");
                rep.fail(&format!("uplc-text:hang:{key}"), "uplc::parser::program did not return within 10 s", json!({"text": t}), json!({}));
            }
        }
        if rep.samples.len() < 6 && !k.is_empty() {
            rep.sample(json!({"text": t}));
        }
    }

    // deep nesting, each probe in a child process with the default 8 MiB main-thread stack
    let exe = std::env::current_exe().unwrap();
    for kind in ["delay", "apply", "list-type", "data-list"] {
        let mut deepest_ok = 0;
        for depth in [50usize, 200, 500, 1000, 3000, 10000] {
            let st = std::process::Command::new(&exe)
                .args(["c20-uplc-text-probe", "--depth", &depth.to_string(), "--kind-index", &kind_index(kind).to_string()])
                .stdout(std::process::Stdio::null())
                .stderr(std::process::Stdio::null())
                .status();
            rep.evaluations += 1;
            match st {
                Ok(s) if s.success() || s.code() == Some(3) => deepest_ok = depth,
                Ok(s) => {
                    rep.count(&format!("nesting-{kind}-dies-at-{depth}"));
                    if depth <= 500 {
                        rep.fail(
                            &format!("uplc-text:stack:{kind}:{depth}"),
                            "parser overflows the stack / aborts on modest nesting",
                            json!({"kind": kind, "depth": depth, "text_bytes": nested(kind, depth).len()}),
                            json!({"status": format!("{:?}", s)}),
                        );
                    }
                    break;
                }
                Err(_) => break,
            }
        }
        rep.notes.push(format!("nesting {kind}: deepest probe that returned normally = {deepest_ok}"));
    }
    rep
}

fn kind_index(k: &str) -> usize {
    ["delay", "apply", "list-type", "data-list"].iter().position(|x| *x == k).unwrap()
}

fn nested(kind: &str, depth: usize) -> String {
    match kind {
        "delay" => format!("(program 1.0.0 {}(error){})", "(delay ".repeat(depth), ")".repeat(depth)),
        "apply" => format!("(program 1.0.0 {}x{})", "[ x ".repeat(depth), " ]".repeat(depth)),
        "list-type" => format!("(program 1.0.0 (con {}integer{} []))", "(list ".repeat(depth), ")".repeat(depth)),
        _ => format!("(program 1.0.0 (con data ({}I 1{})))", "List [".repeat(depth), "]".repeat(depth)),
    }
}

/// child-process probe: parse one deeply nested text on the main thread
pub fn probe() -> ! {
    let depth = crate::arg_usize("--depth", 10);
    let kind = ["delay", "apply", "list-type", "data-list"][crate::arg_usize("--kind-index", 0) % 4];
    let text = nested(kind, depth);
    let r = uplc::parser::program(&text);
    std::process::exit(if r.is_ok() { 0 } else { 3 })
}
