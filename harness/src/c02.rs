//! C02 — the optimiser never changes what compiler output computes.
//! Translation validation: for every program the real code generator emits (hook in
//! `CodeGenerator::finalize`), the pre- and the post-optimisation program are evaluated on
//! the same arguments by the real machine (and by the Lean specification machine for
//! attribution); the public optimiser phases are also applied one by one under `guarded`.
use crate::comp::{self, Out};
use crate::mini::{self, GenCfg, Module, V};
use crate::report::{guarded, Report};
use crate::{driver, wire, Ctx};
use aiken_lang::ast::{Definition, Tracing};
use pallas_primitives::alonzo::PlutusData;
use serde_json::json;
use std::panic::AssertUnwindSafe;
use uplc::ast::{Name, Program};

/// key of the known finding `split_body_lambda` (see known_findings.jsonl)
pub const AFTERWARDS_KEY: &str = "c02:afterwards-moves-failing-argument-under-lambda";

pub const PHASES: [&str; 7] =
    ["run_once_pass", "multi_pass*", "builtin_curry_reducer", "multi_pass", "builtin_curry_reducer#2", "multi_pass*#2", "clean_up_no_inlines+afterwards"];

fn multi_pass_fix(mut p: Program<Name>) -> Program<Name> {
    // `optimize_repeatedly`: until the node count is stable
    let mut prev = 0usize;
    loop {
        let (q, cx) = p.multi_pass();
        p = q;
        if cx.node_count == prev {
            return p;
        }
        prev = cx.node_count;
    }
}

/// the pipeline of `aiken_optimize_and_intern`, phase by phase; `Err((phase, panic message))`
pub fn phases(pre: &Program<Name>) -> Vec<Result<Program<Name>, (usize, String)>> {
    let mut out = vec![];
    let mut cur = pre.clone();
    for i in 0..PHASES.len() {
        let c = cur.clone();
        let r = guarded(AssertUnwindSafe(move || match i {
            0 => c.run_once_pass(),
            1 | 5 => multi_pass_fix(c),
            2 | 4 => c.builtin_curry_reducer(),
            3 => c.multi_pass().0,
            _ => c.clean_up_no_inlines().afterwards(),
        }));
        match r {
            Ok(p) => {
                cur = p.clone();
                out.push(Ok(p));
            }
            Err(msg) => {
                out.push(Err((i, msg)));
                break;
            }
        }
    }
    out
}

/// first phase after which the outcome on `args` differs from the pre-optimisation outcome
pub fn attribute(raw_pre: &Program<Name>, args: &[PlutusData], want: &str) -> String {
    for (i, r) in phases(raw_pre).into_iter().enumerate() {
        match r {
            Err((_, msg)) => return format!("{} panicked: {}", PHASES[i], msg),
            Ok(p) => {
                let o = comp::eval(&comp::evaluable_pre(&p), args).canonical();
                if o != want && o != "budget" {
                    return format!("{} changes the outcome to {}", PHASES[i], short(&o));
                }
            }
        }
    }
    "no single phase reproduces it (phases applied separately agree)".into()
}

fn short(s: &str) -> String {
    s.chars().take(120).collect()
}

pub struct SpecReq {
    pub key: String,
    pub request: String,
    pub real: String,
}

/// what the Lean specification machine should answer for a real outcome
fn spec_expect(o: &Out) -> Option<String> {
    match o {
        Out::Const(c) => Some(format!("ok (c {})", wire::constant(c))),
        Out::Fail(..) => Some("fail".into()),
        _ => None,
    }
}

/// compare one (pre, post) pair on one argument vector
#[allow(clippy::too_many_arguments)]
pub fn compare_pair(
    rep: &mut Report,
    specs: &mut Vec<SpecReq>,
    key: &str,
    replay: serde_json::Value,
    raw_pre: &Program<Name>,
    post: &Program<Name>,
    args: &[PlutusData],
    want_spec: bool,
) -> (Out, Out) {
    let pre = &comp::evaluable_pre(raw_pre);
    let a = comp::eval(pre, args);
    let b = comp::eval(post, args);
    rep.evaluations += 2;
    rep.count(&format!("outcome-pre:{}", a.class()));
    rep.count(&format!("outcome-post:{}", b.class()));
    let (ca, cb) = (a.canonical(), b.canonical());
    if matches!(a, Out::Panic(_)) || matches!(b, Out::Panic(_)) {
        rep.fail(&format!("{}:machine-panic", key), "the machine panicked on compiler output", replay.clone(), json!({"pre": ca, "post": cb, "panic": format!("{:?} / {:?}", a, b)}));
    } else if ca == "budget" || cb == "budget" {
        rep.count("inconclusive-budget");
    } else if matches!((&a, &b), (Out::Term(_), Out::Term(_))) {
        // both return a function / delayed term: optimised and unoptimised closures are not comparable
        rep.count("both-return-non-constant-not-compared");
    } else if ca != cb {
        let why = attribute(raw_pre, args, &ca);
        let repaired = matches!(&a, Out::Fail(v, t) if v == "TypeMismatch" && t.contains("Data)")) && why.starts_with("clean_up_no_inlines+afterwards");
        if why.starts_with("clean_up_no_inlines+afterwards") && ca == "abort" && !repaired {
            // `split_body_lambda` (phase `afterwards`) turns `[(lam a (lam b body)) ARG]` into
            // `(lam b [(lam a body) ARG])`: ARG is no longer evaluated when the function is built, only
            // when (and every time) it is called.  No small safe patch: known finding, one key.
            rep.count("known:afterwards-moves-argument-under-lambda");
            comp::fail_shared(
                rep,
                AFTERWARDS_KEY,
                "the optimiser's last phase moves the evaluation of a failing argument under a lambda: the unoptimised program aborts, the optimised one returns",
                replay.clone(),
                json!({"pre": short(&ca), "post": short(&cb), "attribution": why, "case": key}),
            );
            return (a, b);
        }
        if repaired {
            // the generator hands `list data` to a builtin that takes a typed list (writeBits, multiScalarMul);
            // only the optimiser's `afterwards` phase makes the program well-typed
            rep.fail(
                &format!("{}:pre-optimisation-program-ill-typed-list", key),
                "the pre-optimisation program fails with a builtin type mismatch that only the optimiser's last phase repairs",
                replay.clone(),
                json!({"pre": format!("{:?}", a), "post": short(&cb), "attribution": why}),
            );
            return (a, b);
        }
        if comp::cast_check_removed(&a, &b) {
            rep.count("known:optimiser-cancels-data-cast-check");
            comp::fail_shared(
                rep,
                &format!("c02:{}", comp::CAST_KEY_SUFFIX),
                "the optimiser cancels <x>Data(un<X>Data d): the unoptimised program fails in the un<X>Data shape check (what `expect n: T = d` compiles to), the optimised one returns",
                replay.clone(),
                json!({"pre": format!("{:?}", a).chars().take(200).collect::<String>(), "post": short(&cb), "attribution": why, "case": key}),
            );
            return (a, b);
        }
        rep.fail(
            &format!("{}:optimiser-changes-result", key),
            "pre- and post-optimisation programs evaluate differently",
            replay.clone(),
            json!({"pre": short(&ca), "post": short(&cb), "attribution": why,
                   "pre_program": short(&wire::term(&comp::applied_term(pre, args).unwrap_or(uplc::ast::Term::Error))),
                   "post_program": short(&wire::term(&comp::applied_term(post, args).unwrap_or(uplc::ast::Term::Error)))}),
        );
    } else {
        rep.nontrivial.insert(format!("{}|{}", key, short(&ca)));
    }
    if want_spec {
        for (which, prog, out) in [("pre", pre, &a), ("post", post, &b)] {
            if let (Some(exp), Ok(t)) = (spec_expect(out), comp::applied_term(prog, args)) {
                let w = wire::term(&t);
                if w.len() < 60_000 {
                    specs.push(SpecReq { key: format!("{}:{}", key, which), request: format!("spec E 3000000 {}", w), real: exp });
                }
            }
        }
    }
    (a, b)
}

/// run the collected requests through `driver spec`; the Lean specification machine must
/// agree with the real machine on both programs (this attributes a difference to the
/// optimiser rather than to the evaluator)
pub fn run_specs(rep: &mut Report, specs: &[SpecReq]) {
    let reqs: Vec<String> = specs.iter().map(|s| s.request.clone()).collect();
    let replies = driver::run(&reqs);
    for (s, r) in specs.iter().zip(replies.iter()) {
        rep.evaluations += 1;
        if r == "unmodelled" || r == "nofuel" {
            rep.count(&format!("lean-spec:{}", r));
        } else if *r == s.real {
            rep.count("lean-spec:agrees-with-real-machine");
        } else {
            rep.disagree(&format!("{}:lean-spec", s.key), &short(&s.request), &short(&s.real), &short(r));
        }
    }
}

fn value_args(m: &Module, f: usize, args: &[V]) -> Vec<PlutusData> {
    m.fns[f].params.iter().zip(args.iter()).map(|((_, t), v)| mini::to_data(t, v, &m.adts)).collect()
}

fn optimiser_panic(rep: &mut Report, key: &str, replay: serde_json::Value, msg: &str, pre: Option<&Program<Name>>) {
    let attribution = match pre {
        None => "the generator panicked before the optimiser ran".to_string(),
        Some(p) => match phases(p).into_iter().last() {
            Some(Err((i, m))) => format!("{} panicked: {}", PHASES[i], m),
            _ => "phases applied separately do not panic".to_string(),
        },
    };
    let what = if pre.is_some() { "the optimiser crashed on compiler output" } else { "the code generator crashed on a type-checked program" };
    rep.fail(key, what, replay, json!({"panic": msg, "attribution": attribution}));
}

/// one generated module: every entry function, `n_args` argument vectors each
fn one_generated(seed: u64, idx: u64, n_args: usize, spec_quota: usize) -> (Report, Vec<SpecReq>) {
    let mut rep = Report::new("c02", "");
    let mut specs = vec![];
    let p = comp::prepare(seed, idx, None);
    for (k, v) in &p.counts {
        *rep.distribution.entry(format!("construct:{}", k)).or_insert(0) += v;
    }
    let (sname, tracing) = comp::settings()[(idx % 9) as usize].clone();
    rep.count(&format!("tracing:{}", sname));
    let ch = match comp::check(&p.src, tracing) {
        Ok(c) => c,
        Err(e) => {
            rep.count(if e.starts_with("panic") { "module-checker-panic" } else { "module-rejected-by-checker" });
            if rep.notes.len() < 2 {
                rep.notes.push(format!("module {} not accepted: {}", idx, short(&e)));
            }
            return (rep, specs);
        }
    };
    rep.count("module-accepted");
    let mut r = crate::prng::Prng::new(seed ^ (idx.wrapping_mul(0x9E37_79B9)) ^ 0x5151);
    for (fi, f) in p.module.fns.iter().enumerate() {
        if !f.entry || fi < mini::N_PRELUDE {
            continue;
        }
        let key = format!("gen:seed={}:module={}:fn={}:{}", seed, idx, f.name, sname);
        let (post, pre) = comp::compile_keep_pre(&ch, &f.name, tracing);
        let replay = json!({"source": p.src, "function": f.name, "tracing": sname});
        let post = match post {
            Ok(x) => x,
            Err(msg) => {
                rep.count("compile-panic");
                optimiser_panic(&mut rep, &format!("{}:compile-panic", key), replay, &msg, pre.as_ref());
                continue;
            }
        };
        let pre = pre.expect("hook");
        rep.count("program-pairs");
        let (nodes, markers) = term_stats(&pre.term);
        rep.count(&format!("pre-size-{}-nodes", size_bucket(nodes)));
        rep.count(&format!("no-inline-annotations-{}", if markers > 0 { "present" } else { "absent" }));
        let argsets = mini::gen_args(&mut r, &p.module, fi, n_args);
        rep.count(&format!("inputs-per-program-{}", argsets.len()));
        for (ai, args) in argsets.iter().enumerate() {
            let data = value_args(&p.module, fi, args);
            let argw: Vec<String> = args.iter().map(|a| a.wire()).collect();
            let mut rp = replay.clone();
            rp["arguments"] = json!(argw);
            let want_spec = specs.len() < spec_quota && ai < 2;
            compare_pair(&mut rep, &mut specs, &format!("{}:args={}", key, argw.join(",")), rp, &pre, &post, &data, want_spec);
        }
    }
    (rep, specs)
}

fn size_bucket(n: usize) -> &'static str {
    match n {
        0..=99 => "<100",
        100..=999 => "100-1k",
        1000..=9999 => "1k-10k",
        _ => ">=10k",
    }
}

/// (number of term nodes, number of `__no_inline__` annotation nodes)
fn term_stats(t: &uplc::ast::Term<Name>) -> (usize, usize) {
    use uplc::ast::Term;
    match t {
        Term::Lambda { parameter_name, body } => {
            let (n, m) = term_stats(body);
            (n + 1, m + usize::from(parameter_name.text == "__no_inline__"))
        }
        Term::Apply { function, argument } => {
            let (a, b) = term_stats(function);
            let (c, d) = term_stats(argument);
            (a + c + 1, b + d)
        }
        Term::Delay(b) | Term::Force(b) => {
            let (n, m) = term_stats(b);
            (n + 1, m)
        }
        Term::Constr { fields, .. } => fields.iter().map(term_stats).fold((1, 0), |(a, b), (c, d)| (a + c, b + d)),
        Term::Case { constr, branches } => {
            let (a, b) = term_stats(constr);
            branches.iter().map(term_stats).fold((a + 1, b), |(a, b), (c, d)| (a + c, b + d))
        }
        _ => (1, 0),
    }
}

/// every zero-argument function / test of a hand-written or repository module
pub fn one_source(rep: &mut Report, specs: &mut Vec<SpecReq>, label: &str, src: &str, tracing: (&'static str, Tracing), want_spec: bool) {
    let ch = match comp::check(src, tracing.1) {
        Ok(c) => c,
        Err(e) => {
            rep.count(if e.starts_with("panic") { "source-checker-panic" } else { "source-skipped-not-standalone" });
            let _ = e;
            return;
        }
    };
    rep.count("source-accepted");
    let mut names: Vec<(String, bool)> = vec![];
    for def in ch.module.ast.definitions() {
        match def {
            Definition::Fn(f) if f.arguments.is_empty() => names.push((f.name.clone(), false)),
            Definition::Test(f) if f.arguments.is_empty() => names.push((f.name.clone(), true)),
            _ => {}
        }
    }
    for (name, is_test) in names {
        let key = format!("{}:{}:{}", label, name, tracing.0);
        let _ = aiken_lang::gen_uplc::verif_hooks::drain_pre_optimisation();
        let r = guarded(AssertUnwindSafe(|| {
            let mut generator = ch.proj.new_generator(tracing.1);
            for def in ch.module.ast.definitions() {
                match def {
                    Definition::Fn(f) if !is_test && f.name == name => return Some(generator.generate_raw(&f.body, &[], crate::aik::MODULE)),
                    Definition::Test(f) if is_test && f.name == name => return Some(generator.generate_raw(&f.body, &[], crate::aik::MODULE)),
                    _ => {}
                }
            }
            None
        }));
        let pre = aiken_lang::gen_uplc::verif_hooks::drain_pre_optimisation().pop();
        let replay = json!({"source": src, "function": name, "tracing": tracing.0, "origin": label});
        match r {
            Err(msg) => {
                rep.count("compile-panic");
                optimiser_panic(rep, &format!("{}:compile-panic", key), replay, &msg, pre.as_ref());
            }
            Ok(None) => {}
            Ok(Some(post)) => {
                if let Some(pre) = pre {
                    rep.count("program-pairs");
                    compare_pair(rep, specs, &key, replay, &pre, &post, &[], want_spec);
                }
            }
        }
    }
}


// ------------------------------------------------------------------ 2b. pass-directed templates
/// Sources shaped after what each optimiser pass looks for, with the interesting operands as
/// PARAMETERS (so nothing is folded away before the pass runs):
///  * `curry`: a two-argument builtin applied to the same constant at three or more sites, the
///    constant on either side (what `builtin_curry_reducer` hoists) — every non-commutative builtin;
///  * `cast`: a Data constant at a boundary value cast back with `expect` (what `cast_data_reducer`
///    folds), the constant chosen by a parameter so that both branches survive;
///  * `once`: a value used exactly once under a delayed branch / lambda (what the inliner moves).
pub fn templates() -> Vec<(String, String, Vec<Vec<PlutusData>>)> {
    use pallas_primitives::alonzo::{BigInt as PBigInt, PlutusData as PD};
    fn int(n: i128) -> PD {
        PD::BigInt(PBigInt::Int((n as i64).into()))
    }
    fn big(s: &str) -> PD {
        // through the real conversion used by the toolchain
        let n: num_bigint::BigInt = s.parse().unwrap();
        PD::BigInt(uplc::machine::value::to_pallas_bigint(&n))
    }
    fn bytes(b: &[u8]) -> PD {
        PD::BoundedBytes(b.to_vec().into())
    }
    let mut out = vec![];
    let int_args: Vec<Vec<PD>> = vec![
        vec![int(9), int(10)],
        vec![int(-7), int(2)],
        vec![int(7), int(-2)],
        vec![int(0), int(5)],
        vec![int(1), int(1)],
        vec![big("18446744073709551616"), int(-3)],
        vec![int(-1), big("-18446744073709551617")],
    ];
    let int_ops_int = ["divide_integer", "mod_integer", "quotient_integer", "remainder_integer", "subtract_integer", "add_integer", "multiply_integer"];
    let int_ops_bool = ["less_than_integer", "less_than_equals_integer", "equals_integer"];
    for k in ["3", "-3", "1", "0", "2", "18446744073709551616"] {
        for op in int_ops_int.iter().chain(int_ops_bool.iter()) {
            let src = format!(
                "use aiken/builtin\n\npub fn f(x: Int, y: Int) {{\n  let a = builtin.{op}(x, {k})\n  let b = builtin.{op}(y, {k})\n  let c = builtin.{op}(x + y, {k})\n  let d = builtin.{op}({k}, x)\n  let e = builtin.{op}({k}, y)\n  let g = builtin.{op}({k}, x - y)\n  [a, b, c, d, e, g]\n}}\n"
            );
            out.push((format!("template/curry/{}/{}", op, k), src, int_args.clone()));
        }
        // the operators of the language, which the code generator lowers to the same builtins
        for (name, op) in [("div", "/"), ("mod", "%"), ("sub", "-"), ("lt", "<"), ("le", "<="), ("gt", ">"), ("ge", ">=")] {
            let src = format!(
                "pub fn f(x: Int, y: Int) {{\n  let a = x {op} {k}\n  let b = y {op} {k}\n  let c = (x + y) {op} {k}\n  let d = {k} {op} x\n  let e = {k} {op} y\n  let g = {k} {op} (x - y)\n  [a, b, c, d, e, g]\n}}\n"
            );
            out.push((format!("template/curry-op/{}/{}", name, k), src, int_args.clone()));
        }
    }
    let bs_args: Vec<Vec<PD>> = vec![
        vec![bytes(b""), bytes(b"\x01")],
        vec![bytes(b"ab"), bytes(b"b")],
        vec![bytes(b"\xff\x00"), bytes(b"\xff")],
        vec![bytes(b"abc"), bytes(b"abd")],
    ];
    for k in ["#\"\"", "#\"ab\"", "#\"6162\"", "#\"ff\""] {
        for op in ["append_bytearray", "less_than_bytearray", "less_than_equals_bytearray", "equals_bytearray"] {
            let src = format!(
                "use aiken/builtin\n\npub fn f(x: ByteArray, y: ByteArray) {{\n  let a = builtin.{op}(x, {k})\n  let b = builtin.{op}(y, {k})\n  let c = builtin.{op}(builtin.append_bytearray(x, y), {k})\n  let d = builtin.{op}({k}, x)\n  let e = builtin.{op}({k}, y)\n  let g = builtin.{op}({k}, builtin.append_bytearray(y, x))\n  [a, b, c, d, e, g]\n}}\n"
            );
            out.push((format!("template/curry/{}/{}", op, k), src, bs_args.clone()));
        }
    }
    for k in ["0", "1", "2", "-1", "255", "256"] {
        for op in ["index_bytearray", "cons_bytearray"] {
            let (ca, cb) = if op == "index_bytearray" { ("x", k) } else { (k, "x") };
            let (da, db) = if op == "index_bytearray" { ("y", k) } else { (k, "y") };
            let src = format!(
                "use aiken/builtin\n\npub fn f(x: ByteArray, y: ByteArray) {{\n  let a = builtin.{op}({ca}, {cb})\n  let b = builtin.{op}({da}, {db})\n  let c = builtin.{op}({ca}, {cb})\n  let d = builtin.{op}({da}, {db})\n  (a, b, c, d)\n}}\n"
            );
            out.push((format!("template/curry/{}/{}", op, k), src, bs_args.clone()));
        }
        let src = format!(
            "use aiken/builtin\n\npub fn f(x: ByteArray, y: ByteArray) {{\n  let a = builtin.slice_bytearray({k}, 1, x)\n  let b = builtin.slice_bytearray({k}, 1, y)\n  let c = builtin.slice_bytearray(1, {k}, x)\n  let d = builtin.slice_bytearray(1, {k}, y)\n  let e = builtin.slice_bytearray({k}, 1, builtin.append_bytearray(x, y))\n  let g = builtin.slice_bytearray(1, {k}, builtin.append_bytearray(x, y))\n  [a, b, c, d, e, g]\n}}\n"
        );
        out.push((format!("template/curry/slice_bytearray/{}", k), src, bs_args.clone()));
    }
    // Data constants cast back
    let sel: Vec<Vec<PD>> = vec![vec![int(0)], vec![int(1)], vec![int(2)]];
    let int_consts = ["0", "-1", "9223372036854775807", "-9223372036854775808", "18446744073709551615", "18446744073709551616", "-18446744073709551616", "-18446744073709551617", "-100000000000000000000000", "340282366920938463463374607431768211456"];
    for (i, k) in int_consts.iter().enumerate() {
        let k2 = int_consts[(i + 3) % int_consts.len()];
        let src = format!(
            "pub fn f(x: Int) {{\n  let d: Data = {k}\n  expect i: Int = d\n  let e: Data =\n    if x == 0 {{\n      {k}\n    }} else {{\n      {k2}\n    }}\n  expect j: Int = e\n  let l: Data = [{k}, {k2}]\n  expect m: List<Int> = l\n  [i, j, i - j, ..m]\n}}\n"
        );
        out.push((format!("template/cast/int/{}", k), src, sel.clone()));
        let src = format!(
            "pub fn f(x: Int) {{\n  let d: Data = Some({k})\n  expect Some(i): Option<Int> = d\n  let t: Data = ({k}, #\"ab\")\n  expect (a, b): (Int, ByteArray) = t\n  if x == 0 {{\n    i == {k} && a == {k} && b == #\"ab\"\n  }} else {{\n    i + a == {k} + {k}\n  }}\n}}\n"
        );
        out.push((format!("template/cast/nested/{}", k), src, sel.clone()));
    }
    for k in ["#\"\"", "#\"ab\"", "\"hello\""] {
        let src = format!(
            "pub fn f(x: Int) {{\n  let d: Data = {k}\n  expect b: ByteArray = d\n  let l: Data = [{k}, {k}]\n  expect m: List<ByteArray> = l\n  if x == 0 {{\n    [b, ..m]\n  }} else {{\n    m\n  }}\n}}\n"
        );
        out.push((format!("template/cast/bytes/{}", k), src, sel.clone()));
    }
    // wrong casts must keep failing
    for (k, t) in [("1", "ByteArray"), ("#\"ab\"", "Int"), ("[1]", "Int"), ("1", "List<Int>"), ("Some(1)", "Int"), ("18446744073709551616", "ByteArray")] {
        let src = format!("pub fn f(x: Int) {{\n  let d: Data = {k}\n  if x == 0 {{\n    expect _i: {t} = d\n    True\n  }} else {{\n    False\n  }}\n}}\n");
        out.push((format!("template/cast/wrong/{}-as-{}", k, t), src, sel.clone()));
    }
    // single-use values under delayed branches and lambdas
    for (name, expr) in [("div0", "1 / x"), ("fail", "if x == 3 {\n      fail\n    } else {\n      1 / x\n    }"), ("head", "builtin.head_list(xs)"), ("expect", "{\n      expect [h, ..] = xs\n      h\n    }")] {
        let src = format!(
            "use aiken/builtin\n\nfn pick(c: Bool, a: Int, b: Int) -> Int {{\n  if c {{\n    a\n  }} else {{\n    b\n  }}\n}}\n\npub fn f(x: Int) {{\n  let xs: List<Int> =\n    if x > 1 {{\n      [x]\n    }} else {{\n      []\n    }}\n  let v = {expr}\n  let w = pick(x > 0, 7, v)\n  let g = fn(u: Int) {{ u + v }}\n  if x > 5 {{\n    g(w)\n  }} else {{\n    w\n  }}\n}}\n"
        );
        out.push((format!("template/once/{}", name), src, vec![vec![int(0)], vec![int(1)], vec![int(2)], vec![int(6)], vec![int(-1)]]));
    }
    out
}

/// directed UPLC terms for the substitution side condition of `lambda_reducer` / `inline_reducer`:
/// `[(lam x BODY) ARG]` where evaluating ARG forces a thunk `d` that fails exactly when the integer
/// argument is 0, and BODY never evaluates `x` (it occurs under a delay / a lambda / not at all).
/// `d` occurs more than once, so it is not itself inlined.  Every public phase of the optimiser
/// must leave the outcome on n = 0, 1, 2 unchanged (Lean: `substituted_arg_is_value` says why only
/// value-shaped arguments may be substituted; this stream looks for the concrete failing input when
/// the generated arm table of `lambda_reducer` stops satisfying it).
fn uplc_directed_stream(rep: &mut Report) {
    let bodies = [
        ("x-under-delay", "[(lam z (con integer 1)) (delay [x d])]"),
        ("x-under-lambda", "[(lam z (con integer 1)) (lam y [x d])]"),
        ("x-unused", "[(lam z (con integer 1)) d]"),
        ("x-in-untaken-branch", "(force [(force (builtin ifThenElse)) (con bool True) (delay (con integer 1)) (delay [x d])])"),
    ];
    let args = [
        ("force-var", "(force d)"),
        ("force-force-delay-var", "(force (force (delay d)))"),
        ("apply-forcer", "[(lam u (force u)) d]"),
        // no `constr` / `case` here: the code generator hands none to `multi_pass` (whose reducers
        // are `todo!()` on them), so such terms are outside "compiler output"
        ("builtin-on-forced", "[(builtin addInteger) (con integer 1) (force d)]"),
    ];
    for (bn, body) in bodies {
        for (an, arg) in args {
            let text = format!(
                "(program 1.1.0 (lam n [(lam d [(lam x {body}) {arg}]) (delay [(builtin divideInteger) (con integer 1) [(builtin unIData) n]])]))"
            );
            let key = format!("uplc-directed/{}/{}", bn, an);
            let pre = match uplc::parser::program(&text) {
                Ok(p) => p,
                Err(e) => {
                    rep.notes.push(format!("{key}: harness term does not parse: {e:?}"));
                    rep.count("uplc-directed:harness-term-does-not-parse-not-listed");
                    continue;
                }
            };
            for n in [0i64, 1, 2] {
                let a = vec![PlutusData::BigInt(pallas_primitives::alonzo::BigInt::Int((n as i64).into()))];
                let want = comp::eval(&pre, &a).canonical();
                rep.evaluations += 1;
                rep.count(&format!("uplc-directed:outcome:{}", if want == "abort" { "abort" } else { "value" }));
                let verdict = attribute(&pre, &a, &want);
                if !verdict.starts_with("no single phase") {
                    rep.fail(
                        &format!("{key}:n={n}"),
                        "an optimiser phase changes what a directed UPLC term computes",
                        json!({"program": text, "argument": n}),
                        json!({"unoptimised": want, "attribution": verdict}),
                    );
                }
            }
        }
    }
}

fn template_stream(rep: &mut Report, specs: &mut Vec<SpecReq>) {
    let all = templates();
    rep.count_n("template-sources", all.len() as u64);
    let results = comp::par_map(all.len() as u64, 14, |i| {
        let (label, src, argsets) = &all[i as usize];
        let mut rep = Report::new("c02", "");
        let mut specs = vec![];
        for s in [comp::settings()[0].clone(), comp::settings()[2].clone()] {
            let ch = match comp::check(src, s.1) {
                Ok(c) => c,
                Err(e) => {
                    rep.count(if e.starts_with("panic") { "template-checker-panic" } else { "template-rejected-by-checker" });
                    if rep.notes.len() < 3 {
                        rep.notes.push(format!("{} not accepted: {}", label, short(&e)));
                    }
                    continue;
                }
            };
            rep.count("template-accepted");
            let key = format!("{}:{}", label, s.0);
            let (post, pre) = comp::compile_keep_pre(&ch, "f", s.1);
            let replay = json!({"source": src, "function": "f", "tracing": s.0, "origin": label});
            let post = match post {
                Ok(x) => x,
                Err(msg) => {
                    rep.count("compile-panic");
                    optimiser_panic(&mut rep, &format!("{}:compile-panic", key), replay, &msg, pre.as_ref());
                    continue;
                }
            };
            let pre = match pre {
                Some(p) => p,
                None => continue,
            };
            rep.count("program-pairs");
            for (ai, args) in argsets.iter().enumerate() {
                let mut rp = replay.clone();
                rp["arguments"] = json!(args.iter().map(|a| format!("{:?}", a)).collect::<Vec<_>>());
                let before = rep.property_failures.len();
                compare_pair(&mut rep, &mut specs, &key, rp, &pre, &post, args, ai == 0 && i % 7 == 0);
                if rep.property_failures.len() > before {
                    break; // one witness per (template, setting)
                }
            }
        }
        (rep, specs)
    });
    for (r, s) in results {
        comp::merge(rep, r);
        specs.extend(s);
    }
}

fn ak_files(dir: &std::path::Path, out: &mut Vec<std::path::PathBuf>) {
    if let Ok(rd) = std::fs::read_dir(dir) {
        let mut entries: Vec<_> = rd.filter_map(|e| e.ok()).map(|e| e.path()).collect();
        entries.sort();
        for p in entries {
            if p.is_dir() {
                if p.file_name().map(|n| n == "build" || n == "target").unwrap_or(false) {
                    continue;
                }
                ak_files(&p, out);
            } else if p.extension().map(|e| e == "ak").unwrap_or(false) {
                out.push(p);
            }
        }
    }
}

pub fn root() -> String {
    std::env::var("VERIF_ROOT").unwrap_or_else(|_| "/verif".into())
}

pub fn run(ctx: &Ctx) -> Report {
    let mut rep = Report::new(
        "c02",
        "distinct (program pair, arguments, common outcome) on which pre- and post-optimisation programs were both evaluated and agree",
    );
    let n_modules: u64 = comp::arg_u64("--modules").unwrap_or(if ctx.thorough { 2500 } else { 260 });
    let n_args: usize = comp::arg_u64("--inputs").unwrap_or(if ctx.thorough { 12 } else { 6 }) as usize;
    let mut specs: Vec<SpecReq> = vec![];

    // 1. corpus of hand-shaped modules first (constant folding at every boundary, throwing
    //    arguments under delay, shadowing, non-commutative builtins with a constant on either side)
    let mut files = vec![];
    ak_files(std::path::Path::new(&format!("{}/corpus/C02", root())), &mut files);
    for f in &files {
        let src = std::fs::read_to_string(f).unwrap_or_default();
        let label = format!("corpus/{}", f.file_stem().unwrap().to_string_lossy());
        for s in [comp::settings()[0].clone(), comp::settings()[2].clone()] {
            one_source(&mut rep, &mut specs, &label, &src, s, true);
        }
    }
    rep.count(&format!("corpus-files-{}", files.len()));

    // 1b. pass-directed templates with parameters
    template_stream(&mut rep, &mut specs);
    uplc_directed_stream(&mut rep);

    // 2. repository sources that type-check standalone (examples/, benchmarks/)
    let mut repo_files = vec![];
    for d in ["examples", "benchmarks"] {
        ak_files(std::path::Path::new(&format!("{}/repo/{}", root(), d)), &mut repo_files);
    }
    let results = comp::par_map(repo_files.len() as u64, 12, |i| {
        let f = &repo_files[i as usize];
        let mut rep = Report::new("c02", "");
        let mut specs = vec![];
        let src = std::fs::read_to_string(f).unwrap_or_default();
        let rel = f.to_string_lossy().to_string();
        let label = format!("repo/{}", rel.split("/repo/").last().unwrap_or(&rel));
        one_source(&mut rep, &mut specs, &label, &src, comp::settings()[2].clone(), false);
        (rep, specs)
    });
    for (r, s) in results {
        comp::merge(&mut rep, r);
        specs.extend(s);
    }

    // 3. generated MiniAiken modules
    let seed = ctx.seed;
    let spec_quota = if ctx.thorough { 3 } else { 2 };
    let results = comp::par_map(n_modules, 14, |i| one_generated(seed, i, n_args, if i < 3000 { spec_quota } else { 0 }));
    for (r, s) in results {
        comp::merge(&mut rep, r);
        specs.extend(s);
    }
    rep.count(&format!("generated-modules-{}", n_modules));

    // 4. the Lean specification machine on a share of the programs
    run_specs(&mut rep, &specs);
    rep.notes.push("budget exhaustion on either side is inconclusive (counted, not compared)".into());
    rep
}

/// `c02-show <seed> <module index>`: print a generated module (debugging aid)
pub fn show(ctx: &Ctx) -> Report {
    let idx = comp::arg_u64("--module").unwrap_or(0);
    let p = comp::prepare(ctx.seed, idx, None);
    println!("{}", p.src);
    println!("// wire: {}", p.module.wire());
    match comp::check(&p.src, Tracing::verbose()) {
        Ok(_) => println!("// accepted"),
        Err(e) => println!("// NOT accepted: {}", e),
    }
    let _ = GenCfg::default();
    Report::new("c02-show", "")
}

/// `c02-one --file F --fn NAME`: print the pre/post programs of one function and how they evaluate
pub fn one(_ctx: &Ctx) -> Report {
    let args: Vec<String> = std::env::args().collect();
    let get = |n: &str| args.iter().position(|a| a == n).and_then(|i| args.get(i + 1)).cloned();
    let src = std::fs::read_to_string(get("--file").expect("--file")).expect("read");
    let name = get("--fn").expect("--fn");
    let tracing = comp::settings()[comp::arg_u64("--setting").unwrap_or(2) as usize].clone();
    let ch = comp::check(&src, tracing.1).expect("check");
    let _ = aiken_lang::gen_uplc::verif_hooks::drain_pre_optimisation();
    let mut generator = ch.proj.new_generator(tracing.1);
    let mut post = None;
    for def in ch.module.ast.definitions() {
        match def {
            Definition::Fn(f) if f.name == name => post = Some(generator.generate_raw(&f.body, &f.arguments, crate::aik::MODULE)),
            Definition::Test(f) if f.name == name => post = Some(generator.generate_raw(&f.body, &[], crate::aik::MODULE)),
            _ => {}
        }
    }
    let post = post.expect("no such function");
    let raw = aiken_lang::gen_uplc::verif_hooks::drain_pre_optimisation().pop().expect("hook");
    println!("PRE (raw):\n{}\n", raw.to_pretty());
    let pre = comp::evaluable_pre(&raw);
    println!("POST:\n{}\n", post.to_pretty());
    println!("pre  -> {:?}", comp::eval(&pre, &[]));
    println!("post -> {:?}", comp::eval(&post, &[]));
    for (i, r) in phases(&raw).into_iter().enumerate() {
        match r {
            Ok(p) => println!("after {:32} -> {}", PHASES[i], comp::eval(&comp::evaluable_pre(&p), &[]).canonical()),
            Err((_, m)) => println!("after {:32} PANIC {}", PHASES[i], m),
        }
    }
    if std::env::var("VERIF_TRACE_PASSES").is_ok() {
        let mut cur = raw.clone().run_once_pass();
        println!("after run_once_pass:\n{}\n", cur.to_pretty());
        for i in 0..6 {
            cur = cur.multi_pass().0;
            println!("after multi_pass #{} -> {}:\n{}\n", i + 1, comp::eval(&comp::evaluable_pre(&cur), &[]).canonical(), cur.to_pretty());
        }
    }
    if std::env::var("VERIF_TRACE_LAST").is_ok() {
        let mut cur = raw.clone();
        for r in phases(&raw).into_iter().take(6) {
            if let Ok(p) = r {
                cur = p;
            }
        }
        println!("before clean_up:\n{}\n", cur.to_pretty());
        let c = cur.clean_up_no_inlines();
        println!("after clean_up_no_inlines -> {}:\n{}\n", comp::eval(&comp::evaluable_pre(&c), &[]).canonical(), c.to_pretty());
        let a = c.afterwards();
        println!("after afterwards -> {}:\n{}\n", comp::eval(&comp::evaluable_pre(&a), &[]).canonical(), a.to_pretty());
    }
    Report::new("c02-one", "")
}
