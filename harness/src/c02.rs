//! C02 — the optimiser never changes what compiler output computes.
//! Translation validation: for every program the real code generator emits (hook in
//! `CodeGenerator::finalize`), the pre- and the post-optimisation program are evaluated on
//! the same arguments by the real machine (and by the Lean specification machine for
//! attribution); the public optimiser phases are also applied one by one under `guarded`.
use crate::comp::{self, Out};
use crate::mini::{self, GenCfg, Module, V};
use crate::report::{guarded, Report};
use crate::{driver, wire, Ctx};
use aiken_lang::ast::{Definition, Tracing};
use pallas_primitives::alonzo::PlutusData;
use serde_json::json;
use std::panic::AssertUnwindSafe;
use uplc::ast::{Name, Program};

/// key of the known finding `split_body_lambda` (see known_findings.jsonl)
pub const AFTERWARDS_KEY: &str = "c02:afterwards-moves-failing-argument-under-lambda";

pub const PHASES: [&str; 7] =
    ["run_once_pass", "multi_pass*", "builtin_curry_reducer", "multi_pass", "builtin_curry_reducer#2", "multi_pass*#2", "clean_up_no_inlines+afterwards"];

fn multi_pass_fix(mut p: Program<Name>) -> Program<Name> {
    // `optimize_repeatedly`: until the node count is stable
    let mut prev = 0usize;
    loop {
        let (q, cx) = p.multi_pass();
        p = q;
        if cx.node_count == prev {
            return p;
        }
        prev = cx.node_count;
    }
}

/// the pipeline of `aiken_optimize_and_intern`, phase by phase; `Err((phase, panic message))`
pub fn phases(pre: &Program<Name>) -> Vec<Result<Program<Name>, (usize, String)>> {
    let mut out = vec![];
    let mut cur = pre.clone();
    for i in 0..PHASES.len() {
        let c = cur.clone();
        let r = guarded(AssertUnwindSafe(move || match i {
            0 => c.run_once_pass(),
            1 | 5 => multi_pass_fix(c),
            2 | 4 => c.builtin_curry_reducer(),
            3 => c.multi_pass().0,
            _ => c.clean_up_no_inlines().afterwards(),
        }));
        match r {
            Ok(p) => {
                cur = p.clone();
                out.push(Ok(p));
            }
            Err(msg) => {
                out.push(Err((i, msg)));
                break;
            }
        }
    }
    out
}

/// first phase after which the outcome on `args` differs from the pre-optimisation outcome
pub fn attribute(raw_pre: &Program<Name>, args: &[PlutusData], want: &str) -> String {
    for (i, r) in phases(raw_pre).into_iter().enumerate() {
        match r {
            Err((_, msg)) => return format!("{} panicked: {}", PHASES[i], msg),
            Ok(p) => {
                let o = comp::eval(&comp::evaluable_pre(&p), args).canonical();
                if o != want && o != "budget" {
                    return format!("{} changes the outcome to {}", PHASES[i], short(&o));
                }
            }
        }
    }
    "no single phase reproduces it (phases applied separately agree)".into()
}

fn short(s: &str) -> String {
    s.chars().take(120).collect()
}

pub struct SpecReq {
    pub key: String,
    pub request: String,
    pub real: String,
}

/// what the Lean specification machine should answer for a real outcome
fn spec_expect(o: &Out) -> Option<String> {
    match o {
        Out::Const(c) => Some(format!("ok (c {})", wire::constant(c))),
        Out::Fail(..) => Some("fail".into()),
        _ => None,
    }
}

/// compare one (pre, post) pair on one argument vector
#[allow(clippy::too_many_arguments)]
pub fn compare_pair(
    rep: &mut Report,
    specs: &mut Vec<SpecReq>,
    key: &str,
    replay: serde_json::Value,
    raw_pre: &Program<Name>,
    post: &Program<Name>,
    args: &[PlutusData],
    want_spec: bool,
) -> (Out, Out) {
    let pre = &comp::evaluable_pre(raw_pre);
    let a = comp::eval(pre, args);
    let b = comp::eval(post, args);
    rep.evaluations += 2;
    rep.count(&format!("outcome-pre:{}", a.class()));
    rep.count(&format!("outcome-post:{}", b.class()));
    let (ca, cb) = (a.canonical(), b.canonical());
    if matches!(a, Out::Panic(_)) || matches!(b, Out::Panic(_)) {
        rep.fail(&format!("{}:machine-panic", key), "the machine panicked on compiler output", replay.clone(), json!({"pre": ca, "post": cb, "panic": format!("{:?} / {:?}", a, b)}));
    } else if ca == "budget" || cb == "budget" {
        rep.count("inconclusive-budget");
    } else if matches!((&a, &b), (Out::Term(_), Out::Term(_))) {
        // both return a function / delayed term: optimised and unoptimised closures are not comparable
        rep.count("both-return-non-constant-not-compared");
    } else if ca != cb {
        let why = attribute(raw_pre, args, &ca);
        let repaired = matches!(&a, Out::Fail(v, t) if v == "TypeMismatch" && t.contains("Data)")) && why.starts_with("clean_up_no_inlines+afterwards");
        if why.starts_with("clean_up_no_inlines+afterwards") && ca == "abort" && !repaired {
            // `split_body_lambda` (phase `afterwards`) turns `[(lam a (lam b body)) ARG]` into
            // `(lam b [(lam a body) ARG])`: ARG is no longer evaluated when the function is built, only
            // when (and every time) it is called.  No small safe patch: known finding, one key.
            rep.count("known:afterwards-moves-argument-under-lambda");
            comp::fail_shared(
                rep,
                AFTERWARDS_KEY,
                "the optimiser's last phase moves the evaluation of a failing argument under a lambda: the unoptimised program aborts, the optimised one returns",
                replay.clone(),
                json!({"pre": short(&ca), "post": short(&cb), "attribution": why, "case": key}),
            );
            return (a, b);
        }
        if repaired {
            // the generator hands `list data` to a builtin that takes a typed list (writeBits, multiScalarMul);
            // only the optimiser's `afterwards` phase makes the program well-typed
            rep.fail(
                &format!("{}:pre-optimisation-program-ill-typed-list", key),
                "the pre-optimisation program fails with a builtin type mismatch that only the optimiser's last phase repairs",
                replay.clone(),
                json!({"pre": format!("{:?}", a), "post": short(&cb), "attribution": why}),
            );
            return (a, b);
        }
        if comp::cast_check_removed(&a, &b) {
            rep.count("known:optimiser-cancels-data-cast-check");
            comp::fail_shared(
                rep,
                &format!("c02:{}", comp::CAST_KEY_SUFFIX),
                "the optimiser cancels <x>Data(un<X>Data d): the unoptimised program fails in the un<X>Data shape check (what `expect n: T = d` compiles to), the optimised one returns",
                replay.clone(),
                json!({"pre": format!("{:?}", a).chars().take(200).collect::<String>(), "post": short(&cb), "attribution": why, "case": key}),
            );
            return (a, b);
        }
        rep.fail(
            &format!("{}:optimiser-changes-result", key),
            "pre- and post-optimisation programs evaluate differently",
            replay.clone(),
            json!({"pre": short(&ca), "post": short(&cb), "attribution": why,
                   "pre_program": short(&wire::term(&comp::applied_term(pre, args).unwrap_or(uplc::ast::Term::Error))),
                   "post_program": short(&wire::term(&comp::applied_term(post, args).unwrap_or(uplc::ast::Term::Error)))}),
        );
    } else {
        rep.nontrivial.insert(format!("{}|{}", key, short(&ca)));
    }
    if want_spec {
        for (which, prog, out) in [("pre", pre, &a), ("post", post, &b)] {
            if let (Some(exp), Ok(t)) = (spec_expect(out), comp::applied_term(prog, args)) {
                let w = wire::term(&t);
                if w.len() < 60_000 {
                    specs.push(SpecReq { key: format!("{}:{}", key, which), request: format!("spec E 3000000 {}", w), real: exp });
                }
            }
        }
    }
    (a, b)
}

/// run the collected requests through `driver spec`; the Lean specification machine must
/// agree with the real machine on both programs (this attributes a difference to the
/// optimiser rather than to the evaluator)
pub fn run_specs(rep: &mut Report, specs: &[SpecReq]) {
    let reqs: Vec<String> = specs.iter().map(|s| s.request.clone()).collect();
    let replies = driver::run(&reqs);
    for (s, r) in specs.iter().zip(replies.iter()) {
        rep.evaluations += 1;
        if r == "unmodelled" || r == "nofuel" {
            rep.count(&format!("lean-spec:{}", r));
        } else if *r == s.real {
            rep.count("lean-spec:agrees-with-real-machine");
        } else {
            rep.disagree(&format!("{}:lean-spec", s.key), &short(&s.request), &short(&s.real), &short(r));
        }
    }
}

fn value_args(m: &Module, f: usize, args: &[V]) -> Vec<PlutusData> {
    m.fns[f].params.iter().zip(args.iter()).map(|((_, t), v)| mini::to_data(t, v, &m.adts)).collect()
}

fn optimiser_panic(rep: &mut Report, key: &str, replay: serde_json::Value, msg: &str, pre: Option<&Program<Name>>) {
    let attribution = match pre {
        None => "the generator panicked before the optimiser ran".to_string(),
        Some(p) => match phases(p).into_iter().last() {
            Some(Err((i, m))) => format!("{} panicked: {}", PHASES[i], m),
            _ => "phases applied separately do not panic".to_string(),
        },
    };
    let what = if pre.is_some() { "the optimiser crashed on compiler output" } else { "the code generator crashed on a type-checked program" };
    rep.fail(key, what, replay, json!({"panic": msg, "attribution": attribution}));
}

/// one generated module: every entry function, `n_args` argument vectors each
fn one_generated(seed: u64, idx: u64, n_args: usize, spec_quota: usize) -> (Report, Vec<SpecReq>) {
    let mut rep = Report::new("c02", "");
    let mut specs = vec![];
    let p = comp::prepare(seed, idx, None);
    for (k, v) in &p.counts {
        *rep.distribution.entry(format!("construct:{}", k)).or_insert(0) += v;
    }
    let (sname, tracing) = comp::settings()[(idx % 9) as usize].clone();
    rep.count(&format!("tracing:{}", sname));
    let ch = match comp::check(&p.src, tracing) {
        Ok(c) => c,
        Err(e) => {
            rep.count(if e.starts_with("panic") { "module-checker-panic" } else { "module-rejected-by-checker" });
            if rep.notes.len() < 2 {
                rep.notes.push(format!("module {} not accepted: {}", idx, short(&e)));
            }
            return (rep, specs);
        }
    };
    rep.count("module-accepted");
    let mut r = crate::prng::Prng::new(seed ^ (idx.wrapping_mul(0x9E37_79B9)) ^ 0x5151);
    for (fi, f) in p.module.fns.iter().enumerate() {
        if !f.entry || fi < mini::N_PRELUDE {
            continue;
        }
        let key = format!("gen:seed={}:module={}:fn={}:{}", seed, idx, f.name, sname);
        let (post, pre) = comp::compile_keep_pre(&ch, &f.name, tracing);
        let replay = json!({"source": p.src, "function": f.name, "tracing": sname});
        let post = match post {
            Ok(x) => x,
            Err(msg) => {
                rep.count("compile-panic");
                optimiser_panic(&mut rep, &format!("{}:compile-panic", key), replay, &msg, pre.as_ref());
                continue;
            }
        };
        let pre = pre.expect("hook");
        rep.count("program-pairs");
        let (nodes, markers) = term_stats(&pre.term);
        rep.count(&format!("pre-size-{}-nodes", size_bucket(nodes)));
        rep.count(&format!("no-inline-annotations-{}", if markers > 0 { "present" } else { "absent" }));
        let argsets = mini::gen_args(&mut r, &p.module, fi, n_args);
        rep.count(&format!("inputs-per-program-{}", argsets.len()));
        for (ai, args) in argsets.iter().enumerate() {
            let data = value_args(&p.module, fi, args);
            let argw: Vec<String> = args.iter().map(|a| a.wire()).collect();
            let mut rp = replay.clone();
            rp["arguments"] = json!(argw);
            let want_spec = specs.len() < spec_quota && ai < 2;
            compare_pair(&mut rep, &mut specs, &format!("{}:args={}", key, argw.join(",")), rp, &pre, &post, &data, want_spec);
        }
    }
    (rep, specs)
}

fn size_bucket(n: usize) -> &'static str {
    match n {
        0..=99 => "<100",
        100..=999 => "100-1k",
        1000..=9999 => "1k-10k",
        _ => ">=10k",
    }
}

/// (number of term nodes, number of `__no_inline__` annotation nodes)
fn term_stats(t: &uplc::ast::Term<Name>) -> (usize, usize) {
    use uplc::ast::Term;
    match t {
        Term::Lambda { parameter_name, body } => {
            let (n, m) = term_stats(body);
            (n + 1, m + usize::from(parameter_name.text == "__no_inline__"))
        }
        Term::Apply { function, argument } => {
            let (a, b) = term_stats(function);
            let (c, d) = term_stats(argument);
            (a + c + 1, b + d)
        }
        Term::Delay(b) | Term::Force(b) => {
            let (n, m) = term_stats(b);
            (n + 1, m)
        }
        Term::Constr { fields, .. } => fields.iter().map(term_stats).fold((1, 0), |(a, b), (c, d)| (a + c, b + d)),
        Term::Case { constr, branches } => {
            let (a, b) = term_stats(constr);
            branches.iter().map(term_stats).fold((a + 1, b), |(a, b), (c, d)| (a + c, b + d))
        }
        _ => (1, 0),
    }
}

/// every zero-argument function / test of a hand-written or repository module
pub fn one_source(rep: &mut Report, specs: &mut Vec<SpecReq>, label: &str, src: &str, tracing: (&'static str, Tracing), want_spec: bool) {
    let ch = match comp::check(src, tracing.1) {
        Ok(c) => c,
        Err(e) => {
            rep.count(if e.starts_with("panic") { "source-checker-panic" } else { "source-skipped-not-standalone" });
            let _ = e;
            return;
        }
    };
    rep.count("source-accepted");
    let mut names: Vec<(String, bool)> = vec![];
    for def in ch.module.ast.definitions() {
        match def {
            Definition::Fn(f) if f.arguments.is_empty() => names.push((f.name.clone(), false)),
            Definition::Test(f) if f.arguments.is_empty() => names.push((f.name.clone(), true)),
            _ => {}
        }
    }
    for (name, is_test) in names {
        let key = format!("{}:{}:{}", label, name, tracing.0);
        let _ = aiken_lang::gen_uplc::verif_hooks::drain_pre_optimisation();
        let r = guarded(AssertUnwindSafe(|| {
            let mut generator = ch.proj.new_generator(tracing.1);
            for def in ch.module.ast.definitions() {
                match def {
                    Definition::Fn(f) if !is_test && f.name == name => return Some(generator.generate_raw(&f.body, &[], crate::aik::MODULE)),
                    Definition::Test(f) if is_test && f.name == name => return Some(generator.generate_raw(&f.body, &[], crate::aik::MODULE)),
                    _ => {}
                }
            }
            None
        }));
        let pre = aiken_lang::gen_uplc::verif_hooks::drain_pre_optimisation().pop();
        let replay = json!({"source": src, "function": name, "tracing": tracing.0, "origin": label});
        match r {
            Err(msg) => {
                rep.count("compile-panic");
                optimiser_panic(rep, &format!("{}:compile-panic", key), replay, &msg, pre.as_ref());
            }
            Ok(None) => {}
            Ok(Some(post)) => {
                if let Some(pre) = pre {
                    rep.count("program-pairs");
                    compare_pair(rep, specs, &key, replay, &pre, &post, &[], want_spec);
                }
            }
        }
    }
}

fn ak_files(dir: &std::path::Path, out: &mut Vec<std::path::PathBuf>) {
    if let Ok(rd) = std::fs::read_dir(dir) {
        let mut entries: Vec<_> = rd.filter_map(|e| e.ok()).map(|e| e.path()).collect();
        entries.sort();
        for p in entries {
            if p.is_dir() {
                if p.file_name().map(|n| n == "build" || n == "target").unwrap_or(false) {
                    continue;
                }
                ak_files(&p, out);
            } else if p.extension().map(|e| e == "ak").unwrap_or(false) {
                out.push(p);
            }
        }
    }
}

pub fn root() -> String {
    std::env::var("VERIF_ROOT").unwrap_or_else(|_| "/verif".into())
}

pub fn run(ctx: &Ctx) -> Report {
    let mut rep = Report::new(
        "c02",
        "distinct (program pair, arguments, common outcome) on which pre- and post-optimisation programs were both evaluated and agree",
    );
    let n_modules: u64 = comp::arg_u64("--modules").unwrap_or(if ctx.thorough { 2500 } else { 260 });
    let n_args: usize = comp::arg_u64("--inputs").unwrap_or(if ctx.thorough { 12 } else { 6 }) as usize;
    let mut specs: Vec<SpecReq> = vec![];

    // 1. corpus of hand-shaped modules first (constant folding at every boundary, throwing
    //    arguments under delay, shadowing, non-commutative builtins with a constant on either side)
    let mut files = vec![];
    ak_files(std::path::Path::new(&format!("{}/corpus/C02", root())), &mut files);
    for f in &files {
        let src = std::fs::read_to_string(f).unwrap_or_default();
        let label = format!("corpus/{}", f.file_stem().unwrap().to_string_lossy());
        for s in [comp::settings()[0].clone(), comp::settings()[2].clone()] {
            one_source(&mut rep, &mut specs, &label, &src, s, true);
        }
    }
    rep.count(&format!("corpus-files-{}", files.len()));

    // 2. repository sources that type-check standalone (examples/, benchmarks/)
    let mut repo_files = vec![];
    for d in ["examples", "benchmarks"] {
        ak_files(std::path::Path::new(&format!("{}/repo/{}", root(), d)), &mut repo_files);
    }
    let results = comp::par_map(repo_files.len() as u64, 12, |i| {
        let f = &repo_files[i as usize];
        let mut rep = Report::new("c02", "");
        let mut specs = vec![];
        let src = std::fs::read_to_string(f).unwrap_or_default();
        let rel = f.to_string_lossy().to_string();
        let label = format!("repo/{}", rel.split("/repo/").last().unwrap_or(&rel));
        one_source(&mut rep, &mut specs, &label, &src, comp::settings()[2].clone(), false);
        (rep, specs)
    });
    for (r, s) in results {
        comp::merge(&mut rep, r);
        specs.extend(s);
    }

    // 3. generated MiniAiken modules
    let seed = ctx.seed;
    let spec_quota = if ctx.thorough { 3 } else { 2 };
    let results = comp::par_map(n_modules, 14, |i| one_generated(seed, i, n_args, if i < 3000 { spec_quota } else { 0 }));
    for (r, s) in results {
        comp::merge(&mut rep, r);
        specs.extend(s);
    }
    rep.count(&format!("generated-modules-{}", n_modules));

    // 4. the Lean specification machine on a share of the programs
    run_specs(&mut rep, &specs);
    rep.notes.push("budget exhaustion on either side is inconclusive (counted, not compared)".into());
    rep
}

/// `c02-show <seed> <module index>`: print a generated module (debugging aid)
pub fn show(ctx: &Ctx) -> Report {
    let idx = comp::arg_u64("--module").unwrap_or(0);
    let p = comp::prepare(ctx.seed, idx, None);
    println!("{}", p.src);
    println!("// wire: {}", p.module.wire());
    match comp::check(&p.src, Tracing::verbose()) {
        Ok(_) => println!("// accepted"),
        Err(e) => println!("// NOT accepted: {}", e),
    }
    let _ = GenCfg::default();
    Report::new("c02-show", "")
}

/// `c02-one --file F --fn NAME`: print the pre/post programs of one function and how they evaluate
pub fn one(_ctx: &Ctx) -> Report {
    let args: Vec<String> = std::env::args().collect();
    let get = |n: &str| args.iter().position(|a| a == n).and_then(|i| args.get(i + 1)).cloned();
    let src = std::fs::read_to_string(get("--file").expect("--file")).expect("read");
    let name = get("--fn").expect("--fn");
    let tracing = comp::settings()[comp::arg_u64("--setting").unwrap_or(2) as usize].clone();
    let ch = comp::check(&src, tracing.1).expect("check");
    let _ = aiken_lang::gen_uplc::verif_hooks::drain_pre_optimisation();
    let mut generator = ch.proj.new_generator(tracing.1);
    let mut post = None;
    for def in ch.module.ast.definitions() {
        match def {
            Definition::Fn(f) if f.name == name => post = Some(generator.generate_raw(&f.body, &f.arguments, crate::aik::MODULE)),
            Definition::Test(f) if f.name == name => post = Some(generator.generate_raw(&f.body, &[], crate::aik::MODULE)),
            _ => {}
        }
    }
    let post = post.expect("no such function");
    let raw = aiken_lang::gen_uplc::verif_hooks::drain_pre_optimisation().pop().expect("hook");
    println!("PRE (raw):\n{}\n", raw.to_pretty());
    let pre = comp::evaluable_pre(&raw);
    println!("POST:\n{}\n", post.to_pretty());
    println!("pre  -> {:?}", comp::eval(&pre, &[]));
    println!("post -> {:?}", comp::eval(&post, &[]));
    for (i, r) in phases(&raw).into_iter().enumerate() {
        match r {
            Ok(p) => println!("after {:32} -> {}", PHASES[i], comp::eval(&comp::evaluable_pre(&p), &[]).canonical()),
            Err((_, m)) => println!("after {:32} PANIC {}", PHASES[i], m),
        }
    }
    if std::env::var("VERIF_TRACE_PASSES").is_ok() {
        let mut cur = raw.clone().run_once_pass();
        println!("after run_once_pass:\n{}\n", cur.to_pretty());
        for i in 0..6 {
            cur = cur.multi_pass().0;
            println!("after multi_pass #{} -> {}:\n{}\n", i + 1, comp::eval(&comp::evaluable_pre(&cur), &[]).canonical(), cur.to_pretty());
        }
    }
    if std::env::var("VERIF_TRACE_LAST").is_ok() {
        let mut cur = raw.clone();
        for r in phases(&raw).into_iter().take(6) {
            if let Ok(p) = r {
                cur = p;
            }
        }
        println!("before clean_up:\n{}\n", cur.to_pretty());
        let c = cur.clean_up_no_inlines();
        println!("after clean_up_no_inlines -> {}:\n{}\n", comp::eval(&comp::evaluable_pre(&c), &[]).canonical(), c.to_pretty());
        let a = c.afterwards();
        println!("after afterwards -> {}:\n{}\n", comp::eval(&comp::evaluable_pre(&a), &[]).canonical(), a.to_pretty());
    }
    Report::new("c02-one", "")
}
