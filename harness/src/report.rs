//! What a harness sub-command reports to the runner (one JSON document).
use serde_json::{json, Value};
use std::collections::{BTreeMap, BTreeSet};

#[derive(Default)]
pub struct Report {
    pub name: String,
    pub evaluations: u64,
    /// canonical keys of the non-trivial cases seen (distinct count is measured)
    pub nontrivial: BTreeSet<String>,
    pub rule: String,
    pub samples: Vec<Value>,
    pub distribution: BTreeMap<String, u64>,
    /// model and implementation answer differently (correspondence broken)
    pub disagreements: Vec<Value>,
    /// the implementation itself violates the property on this input
    pub property_failures: Vec<Value>,
    pub notes: Vec<String>,
}

impl Report {
    pub fn new(name: &str, rule: &str) -> Self {
        Report { name: name.into(), rule: rule.into(), ..Default::default() }
    }
    pub fn count(&mut self, key: &str) {
        *self.distribution.entry(key.to_string()).or_insert(0) += 1;
    }
    pub fn count_n(&mut self, key: &str, n: u64) {
        *self.distribution.entry(key.to_string()).or_insert(0) += n;
    }
    pub fn sample(&mut self, v: Value) {
        if self.samples.len() < 8 {
            self.samples.push(v);
        }
    }
    /// `key` identifies the failing input stably (used by known_findings.jsonl and replays)
    pub fn disagree(&mut self, key: &str, request: &str, real: &str, model: &str) {
        if self.disagreements.len() < 50 {
            self.disagreements.push(json!({"key": key, "request": request, "real": real, "model": model}));
        } else {
            self.count("disagreements-not-listed");
        }
    }
    pub fn fail(&mut self, key: &str, what: &str, input: Value, detail: Value) {
        if self.property_failures.len() < 50 {
            self.property_failures.push(json!({"key": key, "what": what, "input": input, "detail": detail}));
        } else {
            self.count("property-failures-not-listed");
        }
    }
    pub fn to_json(&self) -> Value {
        json!({
            "name": self.name,
            "evaluations": self.evaluations,
            "distinct_nontrivial": self.nontrivial.len(),
            "rule": self.rule,
            "samples": self.samples,
            "distribution": self.distribution,
            "disagreements": self.disagreements,
            "property_failures": self.property_failures,
            "notes": self.notes,
        })
    }
}

/// catch a panic of the code under test and report it as an outcome
pub fn guarded<T>(f: impl FnOnce() -> T + std::panic::UnwindSafe) -> Result<T, String> {
    match std::panic::catch_unwind(f) {
        Ok(v) => Ok(v),
        Err(e) => {
            let msg = if let Some(s) = e.downcast_ref::<&str>() {
                s.to_string()
            } else if let Some(s) = e.downcast_ref::<String>() {
                s.clone()
            } else {
                "<non-string panic>".to_string()
            };
            Err(msg)
        }
    }
}
