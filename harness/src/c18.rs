//! C18 — applying a parameter means applying the function.
//!
//! `c18-apply`: validators produced by the real compiler from generated modules
//! (1-3 parameters of generated types, body comparing the parameters so that the result
//! depends on them) go through random histories of `Blueprint::apply_parameter` and
//! serde save/load.  Compared with the model (`driver applyp`): accept/reject per step,
//! remaining parameter count, language, final program term.  Checked on the real code alone:
//! no panic; after every step hash == blake2b-224(lang ‖ compiledCode) recomputed here,
//! compiledCode decodes to the program in memory, address carries that hash; at the end the
//! code equals `apply_params_to_script(original, accepted)` and evaluates like the original
//! applied to the accepted arguments.
use crate::{aik, c12, driver, prng::Prng, report::guarded, report::Report, tygen, wire, Ctx};
use aiken_lang::plutus_version::PlutusVersion;
use aiken_project::blueprint::{error::Error as BpError, validator::Validator, Blueprint, Preamble};
use aiken_project::module::CheckedModules;
use pallas_addresses::{Network, ShelleyDelegationPart, ShelleyPaymentPart};
use pallas_primitives::alonzo::PlutusData;
use pallas_primitives::conway::Language;
use serde_json::json;
use std::panic::AssertUnwindSafe;
use uplc::ast::{DeBruijn, Program, SerializableProgram, Term};
use uplc::machine::cost_model::ExBudget;

fn source(case: &c12::Case) -> String {
    let mut s = tygen::decls_aiken(&case.decls);
    let ps: Vec<String> = case.params.iter().enumerate().map(|(i, t)| format!("p{}: {}", i, t.aiken())).collect();
    s.push_str(&format!("validator v({}) {{\n  else(_) {{\n", ps.join(", ")));
    for i in 0..case.params.len() {
        s.push_str(&format!("    let d{}: Data = p{}\n", i, i));
    }
    let last = case.params.len() - 1;
    s.push_str(&format!("    d0 == d{}\n  }}\n}}\n", last));
    s
}

fn lang_of(p: &SerializableProgram) -> (u8, Language) {
    match p {
        SerializableProgram::PlutusV1Program(_) => (1, Language::PlutusV1),
        SerializableProgram::PlutusV2Program(_) => (2, Language::PlutusV2),
        SerializableProgram::PlutusV3Program(_) => (3, Language::PlutusV3),
    }
}

fn independent_hash(lang: u8, cbor: &[u8]) -> String {
    let mut h = pallas_crypto::hash::Hasher::<224>::new();
    h.input(&[lang]);
    h.input(cbor);
    hex::encode(h.finalize())
}

fn eval_str(p: &Program<DeBruijn>) -> String {
    let p = p.clone();
    match guarded(move || {
        let e = p.eval(ExBudget::max());
        match e.result() {
            Ok(t) => format!("ok {}", wire::term(&t)),
            Err(_) => "error".to_string(),
        }
    }) {
        Ok(s) => s,
        Err(p) => format!("panic {p}"),
    }
}

/// the per-step consistency of what is published (hash, code, address)
fn check_published(bp: &Blueprint, rep: &mut Report, key: &str, input: &serde_json::Value) {
    let v = &bp.validators[0];
    let j = serde_json::to_value(v).unwrap();
    let code_hex = j["compiledCode"].as_str().unwrap_or("");
    let hash = j["hash"].as_str().unwrap_or("");
    let cbor = hex::decode(code_hex).unwrap_or_default();
    let (l, language) = lang_of(&v.program);
    let expect = independent_hash(l, &cbor);
    if expect != hash {
        rep.fail(&format!("c18:stale-hash:{key}"), "published hash is not the hash of the published code", input.clone(), json!({"published": hash, "recomputed": expect}));
    }
    let mut buf = Vec::new();
    match Program::<DeBruijn>::from_cbor(&cbor, &mut buf) {
        Ok(p) => {
            if wire::term(&p.term) != wire::term(&v.program.inner().term) {
                rep.fail(&format!("c18:code-mismatch:{key}"), "published code does not decode to the program in memory", input.clone(), json!({}));
            }
        }
        Err(e) => rep.fail(&format!("c18:code-undecodable:{key}"), "published code does not decode", input.clone(), json!({"error": format!("{e:?}")})),
    }
    let addr = v.program.inner().address(Network::Testnet, ShelleyDelegationPart::Null, &language);
    if let ShelleyPaymentPart::Script(h) = addr.payment() {
        if hex::encode(h) != hash {
            rep.fail(&format!("c18:stale-address:{key}"), "address does not carry the published hash", input.clone(), json!({}));
        }
    }
}

pub fn apply(ctx: &Ctx) -> Report {
    let mut rep = Report::new(
        "c18-apply",
        "validators compiled from generated modules (1-3 parameters), histories of 1-8 operations \
         (apply conforming / near-miss / random data, save+load); non-trivial = distinct (validator, history)",
    );
    let args: Vec<String> = std::env::args().collect();
    let n: usize = args.iter().position(|a| a == "--n").and_then(|i| args.get(i + 1)).and_then(|v| v.parse().ok()).unwrap_or(if ctx.thorough { 1500 } else { 150 });
    let mut r = Prng::new(ctx.seed ^ 0x18);
    let mut reqs = vec![];
    let mut real = vec![];
    let mut keys = vec![];
    let mut cases: Vec<c12::Case> = c12::corpus();
    for _ in 0..n {
        cases.push(c12::gen_case(&mut r));
    }
    for (case_no, case) in cases.into_iter().enumerate() {
        // the declared ledger language of the validator: all three (the hash prefix and the language of
        // the result must be the validator's own, whatever is applied)
        let pv = [PlutusVersion::V3, PlutusVersion::V2, PlutusVersion::V1][case_no % 3];
        let pv_no = 3 - (case_no % 3);
        let src = source(&case);
        let mut proj = aik::Proj::new();
        let module = match proj.check(&src) {
            Ok(m) => m,
            Err(e) => {
                rep.count("module-rejected-by-type-checker");
                if rep.notes.len() < 3 {
                    rep.notes.push(format!("rejected: {} :: {}", e.chars().take(300).collect::<String>(), src));
                }
                continue;
            }
        };
        let modules = CheckedModules::singleton(module);
        let (m, def) = modules.validators().next().expect("validator");
        let mut generator = proj.new_generator(aiken_lang::ast::Tracing::silent());
        let vs = match guarded(AssertUnwindSafe(|| Validator::from_checked_module(&modules, &mut generator, m, def, &pv))) {
            Ok(Ok(vs)) => vs,
            Ok(Err(_)) => {
                rep.count("blueprint-error");
                continue;
            }
            Err(p) => {
                rep.fail(&format!("c18:blueprint-panic:{}", c12::fnv(&src)), "blueprint generation panicked", json!({"source": src}), json!({"panic": p}));
                continue;
            }
        };
        drop(generator);
        rep.count("validator");
        let mut definitions = aiken_project::blueprint::definitions::Definitions::new();
        let mut validators = vs;
        for v in validators.iter_mut() {
            definitions.merge(&mut v.definitions);
        }
        let original = validators[0].program.inner().clone();
        let mut bp = Blueprint {
            preamble: Preamble {
                title: "test/project".into(),
                description: None,
                version: "0.0.0".into(),
                plutus_version: pv,
                compiler: None,
                license: None,
            },
            validators,
            definitions,
        };
        // history
        let nops = 1 + r.below(8);
        let mut ops_wire = vec![];
        let mut outs = vec![];
        let mut accepted: Vec<PlutusData> = vec![];
        let case_key = c12::fnv(&src);
        for step in 0..nops {
            let remaining = bp.validators[0].parameters.len();
            if r.chance(1, 4) {
                // save + load
                ops_wire.push("r".to_string());
                let text = serde_json::to_string(&bp).unwrap();
                match serde_json::from_str::<Blueprint>(&text) {
                    Ok(b2) => {
                        bp = b2;
                        outs.push("reloaded".to_string());
                    }
                    Err(e) => {
                        outs.push("reload-failed".to_string());
                        rep.fail(&format!("c18:reload:{case_key}:{step}"), "a blueprint written by aiken cannot be read back", json!({"source": src, "ops": ops_wire}), json!({"error": e.to_string()}));
                    }
                }
                rep.count("op:reload");
            } else {
                let ix = case.params.len() - remaining.min(case.params.len());
                let t = case.params.get(ix).cloned().unwrap_or(tygen::Ty::Int);
                let base = tygen::gen_conforming(&mut r, &case.decls, &t, 2);
                let d = match r.below(5) {
                    0 | 1 | 2 => base,
                    3 => tygen::mutate(&mut r, &base),
                    _ => tygen::gen_any(&mut r, 2),
                };
                let pd = d.plutus(&mut r);
                ops_wire.push(format!("(a {})", d.wire()));
                let mut b2 = bp.clone();
                let res = guarded(AssertUnwindSafe(|| b2.apply_parameter(None, None, &pd).map(|_| b2)));
                let out = match res {
                    Ok(Ok(b2)) => {
                        bp = b2;
                        accepted.push(pd.clone());
                        "ok"
                    }
                    Ok(Err(BpError::NoParametersToApply)) => "no-parameters",
                    Ok(Err(BpError::UnresolvedSchemaReference { .. })) => "unresolved",
                    Ok(Err(_)) => "mismatch",
                    Err(p) => {
                        rep.fail(
                            &format!("c18:apply-panic:{}", c12::fnv(&format!("{src}{}", d.wire()))),
                            "blueprint apply panics instead of rejecting the parameter",
                            json!({"source": src, "ops": ops_wire}),
                            json!({"panic": p}),
                        );
                        "panic"
                    }
                };
                rep.count(&format!("op:apply:{out}"));
                outs.push(out.to_string());
            }
            check_published(&bp, &mut rep, &format!("{case_key}:{step}"), &json!({"source": src, "ops": ops_wire}));
        }
        let v = &bp.validators[0];
        let (l, _) = lang_of(&v.program);
        reqs.push(format!(
            "applyp 1 {} {} {} {} {}",
            tygen::decls_wire(&case.decls),
            case.params_wire(),
            pv_no,
            wire::term(&original.term),
            ops_wire.join(" ")
        ));
        // `spec:`: what is compared — accepted/rejected per argument, parameters left, language, resulting
        // code — is what `apply_accepts_iff_conforms`, `apply_consumes_first`, `apply_code_is_application`
        // characterise, so a difference is a concrete history on which the real code breaks the property
        keys.push(format!("spec:c18:history:{}", c12::fnv(&format!("{src}{}", ops_wire.join(" ")))));
        real.push(format!("{} {} {} {}", outs.join(","), v.parameters.len(), l, wire::term(&v.program.inner().term)));
        rep.nontrivial.insert(c12::fnv(&format!("{src}{}", ops_wire.join(" "))));
        rep.count(&format!("accepted:{}", accepted.len()));
        rep.sample(json!({"source": src, "ops": ops_wire, "outcomes": outs}));
        let input = json!({"source": src, "ops": ops_wire});
        // equals the unvalidated fold over the accepted arguments
        let params_bytes = {
            let arr = PlutusData::Array(pallas_primitives::conway::MaybeIndefArray::Def(accepted.clone()));
            let mut b = Vec::new();
            pallas_codec::minicbor::encode(&arr, &mut b).unwrap();
            b
        };
        let folded = uplc::tx::apply_params_to_script(&params_bytes, &original.to_cbor().unwrap());
        match folded {
            Ok(bytes) => {
                if bytes != v.program.inner().to_cbor().unwrap() {
                    rep.fail(&format!("c18:fold:{case_key}"), "step-by-step application differs from apply_params_to_script", input.clone(), json!({}));
                }
            }
            Err(e) => rep.fail(&format!("c18:fold-error:{case_key}"), "apply_params_to_script fails on accepted arguments", input.clone(), json!({"error": format!("{e:?}")})),
        }
        // behaviour: applied validator on the remaining arguments == original applied to everything
        let remaining = v.parameters.len();
        let mut rest: Vec<PlutusData> = vec![];
        for k in 0..remaining {
            let ix = case.params.len() - remaining + k;
            rest.push(tygen::gen_conforming(&mut r, &case.decls, &case.params[ix], 2).plutus(&mut r));
        }
        rest.push(uplc::ast::Data::constr(0, vec![])); // the script context argument
        let mut lhs = v.program.inner().clone();
        let mut rhs = original.clone();
        for a in &accepted {
            rhs = rhs.apply_data(a.clone());
        }
        for a in &rest {
            lhs = lhs.apply_data(a.clone());
            rhs = rhs.apply_data(a.clone());
        }
        let (el, er) = (eval_str(&lhs), eval_str(&rhs));
        rep.count(if el.starts_with("ok") { "behaviour:returns" } else { "behaviour:fails" });
        if el != er {
            rep.fail(&format!("c18:behaviour:{case_key}"), "applied validator behaves differently from the original applied to the parameters", input, json!({"applied": el, "original": er}));
        }
        let _ = Term::<DeBruijn>::Error;
    }
    let model = driver::run(&reqs);
    rep.evaluations = reqs.len() as u64;
    for i in 0..reqs.len() {
        if model[i] != real[i] {
            rep.disagree(&keys[i], &reqs[i][..reqs[i].len().min(3000)], &real[i][..real[i].len().min(1500)], &model[i][..model[i].len().min(1500)]);
        }
    }
    rep
}
