//! C01 — compiled code computes what the Aiken source means.
//! Translation validation against the Lean-defined source semantics (`Mini.evalSrc`):
//! generated MiniAiken modules are rendered to Aiken source, compiled by the REAL pipeline
//! (parser, type checker, `CodeGenerator::generate_raw`, optimiser), run on the real
//! machine with Data arguments, read back through the representation relation and
//! compared with `driver mini` on the same arguments.  The pre-optimisation program (hook)
//! is evaluated too, so a difference is attributed to lowering or to the optimiser.
use crate::comp::{self, Out};
use crate::mini::{self, Module, Ty, V};
use crate::report::Report;
use crate::{driver, Ctx};
use pallas_primitives::alonzo::PlutusData;
use serde_json::json;

pub struct Case {
    pub key: String,
    pub args: Vec<String>,
    /// canonical outcomes of the compiled programs, read back as source values
    pub post: String,
    pub pre: String,
    pub post_raw: String,
    pub error_variants: Vec<String>,
    /// signature of the known finding `optimiser cancels the data-cast check`
    pub cast_check_removed: bool,
    /// when pre- and post-optimisation outcomes differ: the first optimiser phase that changes the outcome
    pub optimiser_attribution: Option<String>,
}

pub struct Unit {
    pub idx: u64,
    pub setting: &'static str,
    pub mode: &'static str,
    pub src: String,
    pub function: String,
    pub request: String,
    pub cases: Vec<Case>,
    pub labels_total: bool,
}

/// outcome of compiled code as a source-level observation
pub fn read_back(o: &Out, ret: &Ty, m: &Module) -> String {
    match o {
        Out::Const(c) => match mini::from_constant(ret, c, &m.adts) {
            Some(v) => format!("ok {}", v.wire()),
            None => format!("unreadable {}", crate::wire::constant(c)),
        },
        Out::Term(t) => format!("non-constant {}", t.chars().take(60).collect::<String>()),
        Out::Fail(..) => "abort".into(),
        Out::Budget => "budget".into(),
        Out::Panic(p) => format!("panic {}", p),
    }
}

pub fn value_args(m: &Module, f: usize, args: &[V]) -> Vec<PlutusData> {
    m.fns[f].params.iter().zip(args.iter()).map(|((_, t), v)| mini::to_data(t, v, &m.adts)).collect()
}

pub const FUEL: u64 = 1500;
/// key of the known finding `split_body_lambda` as seen by C01 (see known_findings.jsonl)
pub const AFTERWARDS_KEY: &str = "c01:optimiser-afterwards-moves-failing-argument-under-lambda";

/// compile every entry function of module `idx` under setting number `setting` and run it
pub fn explore(seed: u64, idx: u64, setting: usize, n_args: usize, labels_total: Option<bool>, rep: &mut Report) -> Vec<Unit> {
    let p = comp::prepare(seed, idx, labels_total);
    for (k, v) in &p.counts {
        *rep.distribution.entry(format!("construct:{}", k)).or_insert(0) += v;
    }
    let (sname, tracing) = comp::settings()[setting].clone();
    rep.count(&format!("tracing:{}", sname));
    let ch = match comp::check(&p.src, tracing) {
        Ok(c) => c,
        Err(e) => {
            rep.count(if e.starts_with("panic") { "module-checker-panic" } else { "module-rejected-by-checker" });
            if rep.notes.len() < 2 {
                rep.notes.push(format!("module {} not accepted: {}", idx, e.chars().take(160).collect::<String>()));
            }
            return vec![];
        }
    };
    rep.count("module-accepted");
    let mode = comp::source_mode(&tracing);
    let mut r = crate::prng::Prng::new(seed ^ (idx.wrapping_mul(0x9E37_79B9)) ^ 0x5151);
    let mut units = vec![];
    for (fi, f) in p.module.fns.iter().enumerate() {
        if !f.entry || fi < mini::N_PRELUDE {
            continue;
        }
        let base = format!("seed={}:module={}:fn={}:{}", seed, idx, f.name, sname);
        let c = match comp::compile(&ch, &f.name, tracing) {
            Ok(c) => c,
            Err(msg) => {
                rep.count("compile-panic");
                rep.fail(
                    &format!("{}:compile-panic", base),
                    "the compiler crashed on a type-checked program",
                    json!({"source": p.src, "function": f.name, "tracing": sname}),
                    json!({"panic": msg}),
                );
                continue;
            }
        };
        rep.count("programs-compiled");
        let argsets = mini::gen_args(&mut r, &p.module, fi, n_args);
        rep.count(&format!("inputs-per-program-{}", argsets.len()));
        let mut cases = vec![];
        let mut calls = vec![];
        for args in &argsets {
            let data = value_args(&p.module, fi, args);
            let post = comp::eval(&c.post, &data);
            let pre = comp::eval(&c.pre, &data);
            rep.evaluations += 2;
            let argw: Vec<String> = args.iter().map(|a| a.wire()).collect();
            let mut errs = vec![];
            for o in [&post, &pre] {
                if let Some(v) = o.error_variant() {
                    errs.push(v.to_string());
                }
            }
            let optimiser_attribution = if post.canonical() != pre.canonical() && post.canonical() != "budget" && pre.canonical() != "budget" {
                Some(crate::c02::attribute(&c.raw_pre, &data, &pre.canonical()))
            } else {
                None
            };
            cases.push(Case {
                optimiser_attribution,
                key: format!("{}:args={}", base, argw.join(",")),
                args: argw,
                post: read_back(&post, &f.ret, &p.module),
                pre: read_back(&pre, &f.ret, &p.module),
                post_raw: format!("{:?}", post).chars().take(200).collect(),
                error_variants: errs,
                cast_check_removed: comp::cast_check_removed(&pre, &post),
            });
            calls.push((fi, args.clone()));
        }
        let request = mini::mini_request(mode, FUEL, &p.module, &calls);
        units.push(Unit { idx, setting: sname, mode, src: p.src.clone(), function: f.name.clone(), request, cases, labels_total: p.labels_total });
    }
    units
}

/// strip the trace counter the driver appends
pub fn model_outcome(s: &str) -> String {
    s.split(" traces=").next().unwrap_or(s).trim().to_string()
}

/// hand-written self-checking modules (`corpus/C01/*.ak`, `fn probe() -> List<Bool>`): every probe must be
/// True before and after optimisation under silent and verbose tracing
fn probe_corpus(rep: &mut Report) {
    let dir = format!("{}/corpus/C01", crate::c02::root());
    let mut files: Vec<std::path::PathBuf> = std::fs::read_dir(&dir)
        .map(|rd| rd.filter_map(|e| e.ok()).map(|e| e.path()).filter(|p| p.extension().map(|e| e == "ak").unwrap_or(false)).collect())
        .unwrap_or_default();
    files.sort();
    rep.count_n("probe-corpus-files", files.len() as u64);
    for f in files {
        let src = std::fs::read_to_string(&f).unwrap_or_default();
        let name = f.file_stem().map(|s| s.to_string_lossy().to_string()).unwrap_or_default();
        for s in [comp::settings()[0].clone(), comp::settings()[2].clone()] {
            let ch = match comp::check(&src, s.1) {
                Ok(c) => c,
                Err(e) => {
                    rep.fail(&format!("c01:probe-corpus:{}:{}:not-accepted", name, s.0), "a corpus module is not accepted by the checker", json!({"file": name}), json!({"error": e.chars().take(300).collect::<String>()}));
                    continue;
                }
            };
            let (post, pre) = comp::compile_keep_pre(&ch, "probe", s.1);
            let mut progs = vec![];
            match post {
                Ok(p) => progs.push(("post-optimisation", p)),
                Err(e) => {
                    rep.fail(&format!("c01:probe-corpus:{}:{}:compile-panic", name, s.0), "the compiler panicked on a corpus module", json!({"file": name, "source": src}), json!({"panic": e}));
                    continue;
                }
            }
            if let Some(raw) = pre {
                progs.push(("pre-optimisation", comp::evaluable_pre(&raw)));
            }
            for (which, prog) in progs {
                rep.evaluations += 1;
                let out = comp::eval(&prog, &[]);
                let canon = out.canonical();
                // `ok (li bo (bo 1) (bo 1) …)`
                // a List<Bool> comes back as a list of Data constructors: `(li da (da (C 1)) (da (C 0)) …)` (1 = True)
                let mut marks: Vec<(usize, bool)> = canon.match_indices("(C ").map(|(i, _)| (i, canon[i + 3..].starts_with('1'))).collect();
                marks.extend(canon.match_indices("(bo ").map(|(i, _)| (i, canon[i + 4..].starts_with('1'))));
                marks.sort();
                let falses: Vec<usize> = marks.iter().enumerate().filter(|(_, (_, t))| !*t).map(|(k, _)| k).collect();
                if marks.is_empty() {
                    rep.fail(&format!("c01:probe-corpus:{}:{}:{}:shape", name, s.0, which), "the probe list of a corpus module did not evaluate to a list of Bool", json!({"file": name}), json!({"outcome": canon.chars().take(300).collect::<String>()}));
                }
                if !canon.starts_with("ok") || !falses.is_empty() {
                    rep.fail(
                        &format!("c01:probe-corpus:{}:{}:{}", name, s.0, which),
                        "a semantic probe of a corpus module is false (compiled code does not compute what the source means)",
                        json!({"file": name, "source": src, "function": "probe", "tracing": s.0, "program": which}),
                        json!({"false_probes": falses, "outcome": canon.chars().take(400).collect::<String>()}),
                    );
                } else {
                    rep.count("probe-corpus:all-true");
                    rep.nontrivial.insert(format!("probe-corpus:{}:{}:{}", name, s.0, which));
                }
            }
        }
    }
}

pub fn run(ctx: &Ctx) -> Report {
    let mut rep = Report::new(
        "c01",
        "distinct (module, function, tracing, arguments, outcome) on which the compiled program (pre- and post-optimisation) and the Lean source semantics agree",
    );
    let n_modules: u64 = comp::arg_u64("--modules").unwrap_or(if ctx.thorough { 5000 } else { 400 });
    let n_args: usize = comp::arg_u64("--inputs").unwrap_or(if ctx.thorough { 24 } else { 10 }) as usize;
    let seed = ctx.seed;
    probe_corpus(&mut rep);
    rep.count(&format!("generated-modules-{}", n_modules));
    // in chunks, so that the requests of a thorough run never sit in memory all at once
    let chunk: u64 = 2000;
    let mut start = 0u64;
    while start < n_modules {
    let len = chunk.min(n_modules - start);
    let results = comp::par_map(len, 14, |k| {
        let i = start + k;
        let mut rep = Report::new("c01", "");
        let units = explore(seed, i, (i % 9) as usize, n_args, None, &mut rep);
        (rep, units)
    });
    start += len;
    let mut units: Vec<Unit> = vec![];
    for (r, u) in results {
        comp::merge(&mut rep, r);
        units.extend(u);
    }
    let requests: Vec<String> = units.iter().map(|u| u.request.clone()).collect();
    let replies = driver::run(&requests);
    for (u, reply) in units.iter().zip(replies.iter()) {
        let outs: Vec<String> = reply.split(" | ").map(model_outcome).collect();
        if outs.len() != u.cases.len() {
            rep.disagree(&format!("seed={}:module={}:fn={}:driver", seed, u.idx, u.function), &u.request.chars().take(300).collect::<String>(), "one outcome per call", reply);
            continue;
        }
        for (c, model) in u.cases.iter().zip(outs.iter()) {
            rep.evaluations += 1;
            let replay = json!({"source": u.src, "function": u.function, "arguments": c.args, "tracing": u.setting, "mini_request": u.request});
            if model == "nofuel" || c.post == "budget" || c.pre == "budget" {
                rep.count("inconclusive-fuel-or-budget");
                continue;
            }
            if model == "stuck" || model.starts_with("bad") {
                // the model calls an accepted program ill-typed: the model (or the generator) is wrong
                rep.disagree(&format!("{}:model-stuck", c.key), &u.request.chars().take(400).collect::<String>(), &c.post, model);
                continue;
            }
            let class = if model == "abort" { "abort" } else { "value" };
            rep.count(&format!("outcome:{}", class));
            if c.post == *model && c.pre == *model {
                rep.nontrivial.insert(format!("{}|{}", c.key, model.chars().take(80).collect::<String>()));
                if rep.samples.len() < 6 && class == "value" && c.args.len() > 1 {
                    rep.sample(json!({"function": u.function, "module": u.idx, "tracing": u.setting, "arguments": c.args, "outcome": model}));
                }
                continue;
            }
            if let Some(why) = &c.optimiser_attribution {
                if why.starts_with("clean_up_no_inlines+afterwards") && model == "abort" && c.pre == "abort" {
                    rep.count("known:afterwards-moves-argument-under-lambda");
                    comp::fail_shared(
                        &mut rep,
                        AFTERWARDS_KEY,
                        "the optimiser's last phase moves the evaluation of a failing argument under a lambda: source semantics and unoptimised program abort, the optimised program returns",
                        replay,
                        json!({"source_semantics": model, "compiled": c.post, "compiled_pre_optimisation": c.pre, "attribution": why, "case": c.key}),
                    );
                    continue;
                }
            }
            if c.cast_check_removed && model == "abort" && c.pre == "abort" {
                rep.count("known:optimiser-cancels-data-cast-check");
                comp::fail_shared(
                    &mut rep,
                    &format!("c01:{}", comp::CAST_KEY_SUFFIX),
                    "the optimiser cancels <x>Data(un<X>Data d), removing the shape check of an `expect`: source semantics and unoptimised program abort, the optimised program returns",
                    replay,
                    json!({"source_semantics": model, "compiled": c.post, "compiled_pre_optimisation": c.pre, "attribution": c.optimiser_attribution, "case": c.key}),
                );
                continue;
            }
            let blame = if c.pre == *model {
                "the optimiser (the pre-optimisation program agrees with the source semantics)"
            } else if c.pre == c.post {
                "lowering (pre- and post-optimisation programs agree with each other)"
            } else {
                "lowering and optimiser (all three differ)"
            };
            rep.fail(
                &format!("{}:compiled-differs-from-source", c.key),
                "compiled code does not compute what the source semantics prescribes",
                replay,
                json!({"source_semantics": model, "compiled": c.post, "compiled_pre_optimisation": c.pre, "attributed_to": blame, "optimiser_phase": c.optimiser_attribution, "machine": c.post_raw, "mode": u.mode}),
            );
        }
    }
    }
    rep.notes.push(format!("source semantics: driver `mini` (Mini.evalSrc), fuel {}; budget/fuel exhaustion is inconclusive", FUEL));
    rep
}
