//! Running the real CEK machine and phrasing the same run for the Lean driver.
use crate::gen::T;
use crate::report::guarded;
use crate::wire;
use pallas_primitives::conway::Language;
use uplc::ast::Term;
use uplc::machine::cost_model::{CostModel, ExBudget};
use uplc::machine::{Error, Machine};

#[derive(Clone)]
pub struct Variant {
    pub name: &'static str,
    pub lang: Language,
    pub proto: u16,
}

/// one (language, protocol) pair per builtin-semantics variant A–E
pub fn variants() -> Vec<Variant> {
    vec![
        Variant { name: "A", lang: Language::PlutusV2, proto: 8 },
        Variant { name: "B", lang: Language::PlutusV2, proto: 9 },
        Variant { name: "C", lang: Language::PlutusV3, proto: 9 },
        Variant { name: "D", lang: Language::PlutusV2, proto: 11 },
        Variant { name: "E", lang: Language::PlutusV3, proto: 11 },
    ]
}

pub fn default_costs(v: &Variant) -> CostModel {
    CostModel::default_for_language_and_protocol(&v.lang, v.proto)
}

/// Rust `Debug` output -> s-expression: `Name { a: X }` -> `(Name (a X))`, `Name(X, Y)` -> `(Name X Y)`
pub fn debug_to_sexp(dbg: &str) -> String {
    #[derive(Debug, Clone, PartialEq)]
    enum Tok {
        Id(String),
        Num(String),
        P(char),
    }
    let cs: Vec<char> = dbg.chars().collect();
    let mut toks = vec![];
    let mut i = 0;
    while i < cs.len() {
        let c = cs[i];
        if c.is_whitespace() {
            i += 1;
        } else if c.is_ascii_alphabetic() || c == '_' {
            let s = i;
            while i < cs.len() && (cs[i].is_ascii_alphanumeric() || cs[i] == '_') {
                i += 1;
            }
            toks.push(Tok::Id(cs[s..i].iter().collect()));
        } else if c.is_ascii_digit() || c == '-' {
            let s = i;
            i += 1;
            while i < cs.len() && cs[i].is_ascii_digit() {
                i += 1;
            }
            toks.push(Tok::Num(cs[s..i].iter().collect()));
        } else {
            toks.push(Tok::P(c));
            i += 1;
        }
    }
    fn value(toks: &[Tok], pos: &mut usize, out: &mut String) {
        match &toks[*pos] {
            Tok::Num(n) => {
                out.push_str(n);
                *pos += 1;
            }
            Tok::Id(name) => {
                *pos += 1;
                if *pos < toks.len() && toks[*pos] == Tok::P('{') {
                    *pos += 1;
                    out.push('(');
                    out.push_str(name);
                    while toks[*pos] != Tok::P('}') {
                        if let Tok::Id(f) = &toks[*pos] {
                            out.push_str(" (");
                            out.push_str(f);
                            out.push(' ');
                            *pos += 1; // field name
                            *pos += 1; // ':'
                            value(toks, pos, out);
                            out.push(')');
                        } else {
                            panic!("debug_to_sexp: field expected");
                        }
                        if toks[*pos] == Tok::P(',') {
                            *pos += 1;
                        }
                    }
                    *pos += 1;
                    out.push(')');
                } else if *pos < toks.len() && toks[*pos] == Tok::P('(') {
                    *pos += 1;
                    out.push('(');
                    out.push_str(name);
                    while toks[*pos] != Tok::P(')') {
                        out.push(' ');
                        value(toks, pos, out);
                        if toks[*pos] == Tok::P(',') {
                            *pos += 1;
                        }
                    }
                    *pos += 1;
                    out.push(')');
                } else {
                    out.push_str(name);
                }
            }
            Tok::P(c) => panic!("debug_to_sexp: unexpected {c}"),
        }
    }
    let mut out = String::new();
    let mut pos = 0;
    value(&toks, &mut pos, &mut out);
    out
}

pub fn costmodel_request(cm: &CostModel) -> String {
    format!("costmodel {}", debug_to_sexp(&format!("{:?}", cm)))
}

pub fn cek_request(v: &Variant, slippage: u32, budget: ExBudget, fuel: u64, term: &T) -> String {
    format!("cek {} {} {} {} {} {}", v.name, slippage, budget.mem, budget.cpu, fuel, wire::term(term))
}

pub enum RealOutcome {
    Ok(T, ExBudget),
    Fail(String),
    Oob,
    Panic(String),
}

impl RealOutcome {
    pub fn canonical(&self) -> String {
        match self {
            RealOutcome::Ok(t, b) => format!("ok {} {} {}", wire::term(t), b.mem, b.cpu),
            RealOutcome::Fail(_) => "fail".into(),
            RealOutcome::Oob => "oob".into(),
            RealOutcome::Panic(_) => "panic".into(),
        }
    }
}

pub fn run_real(v: &Variant, cm: CostModel, budget: ExBudget, slippage: u32, term: &T) -> RealOutcome {
    let lang = v.lang.clone();
    let proto = v.proto;
    let term = term.clone();
    let r = guarded(std::panic::AssertUnwindSafe(move || {
        let mut m = Machine::new_with_protocol(lang, proto, cm, budget, slippage);
        let res = m.run(term);
        (res, m.ex_budget)
    }));
    match r {
        Err(msg) => RealOutcome::Panic(msg),
        Ok((Ok(t), b)) => RealOutcome::Ok(t, b),
        Ok((Err(Error::OutOfExError(_)), _)) => RealOutcome::Oob,
        Ok((Err(e), _)) => {
            let s = format!("{:?}", e);
            RealOutcome::Fail(s.chars().take(60).collect())
        }
    }
}

/// no variable refers outside the binders of the term itself
pub fn is_closed(t: &T) -> bool {
    fn go(t: &T, depth: usize) -> bool {
        match t {
            Term::Var(n) => {
                let i = n.index.inner();
                i >= 1 && i <= depth
            }
            Term::Lambda { body, .. } => go(body, depth + 1),
            Term::Apply { function, argument } => go(function, depth) && go(argument, depth),
            Term::Delay(b) | Term::Force(b) => go(b, depth),
            Term::Constr { fields, .. } => fields.iter().all(|f| go(f, depth)),
            Term::Case { constr, branches } => go(constr, depth) && branches.iter().all(|b| go(b, depth)),
            _ => true,
        }
    }
    go(t, 0)
}
