//! The real compile pipeline, shared by C01 / C02 / C06 / C14:
//! parser -> type checker (under a `Tracing`) -> `CodeGenerator::generate_raw` (which runs
//! the optimiser; the hook yields the pre-optimisation program) -> real CEK machine.
use crate::aik::{self, Proj};
use crate::report::guarded;
use crate::wire;
use aiken_lang::ast::{Definition, TraceLevel, Tracing};
use aiken_lang::gen_uplc::verif_hooks;
use aiken_project::module::CheckedModule;
use pallas_primitives::alonzo::PlutusData;
use pallas_primitives::conway::Language;
use std::panic::AssertUnwindSafe;
use uplc::ast::{Name, NamedDeBruijn, Program, Term};
use uplc::machine::cost_model::ExBudget;
use uplc::machine::Error;
use uplc::optimize::interner::CodeGenInterner;

pub fn settings() -> Vec<(&'static str, Tracing)> {
    vec![
        ("all-silent", Tracing::All(TraceLevel::Silent)),
        ("all-compact", Tracing::All(TraceLevel::Compact)),
        ("all-verbose", Tracing::All(TraceLevel::Verbose)),
        ("user-silent", Tracing::UserDefined(TraceLevel::Silent)),
        ("user-compact", Tracing::UserDefined(TraceLevel::Compact)),
        ("user-verbose", Tracing::UserDefined(TraceLevel::Verbose)),
        ("codegen-silent", Tracing::CompilerGenerated(TraceLevel::Silent)),
        ("codegen-compact", Tracing::CompilerGenerated(TraceLevel::Compact)),
        ("codegen-verbose", Tracing::CompilerGenerated(TraceLevel::Verbose)),
    ]
}

/// the source-level trace mode a setting selects (`Tracing::trace_level(false)`)
pub fn source_mode(t: &Tracing) -> &'static str {
    match t.trace_level(false) {
        TraceLevel::Silent => "silent",
        TraceLevel::Compact => "compact",
        TraceLevel::Verbose => "verbose",
    }
}

pub struct Checked {
    pub proj: Proj,
    pub module: CheckedModule,
}

/// parse + type-check under `tracing`; `Err` = rejected (reason) or the checker panicked ("panic: …")
pub fn check(src: &str, tracing: Tracing) -> Result<Checked, String> {
    let r = guarded(AssertUnwindSafe(|| {
        let mut proj = Proj::new();
        let module = proj.check_tracing(src, tracing)?;
        Ok::<Checked, String>(Checked { proj, module })
    }));
    match r {
        Ok(x) => x,
        Err(p) => Err(format!("panic: {}", p)),
    }
}

pub struct Compiled {
    /// what `CodeGenerator::finalize` handed to the optimiser (hook), as is
    pub raw_pre: Program<Name>,
    /// the same, annotations erased and names interned (evaluable)
    pub pre: Program<Name>,
    /// what the compiler returns
    pub post: Program<Name>,
}

/// compile the top-level function `fname` exactly like `aiken export` (`generate_raw(body, args)`)
pub fn compile(ch: &Checked, fname: &str, tracing: Tracing) -> Result<Compiled, String> {
    let _ = verif_hooks::drain_pre_optimisation();
    let r = guarded(AssertUnwindSafe(|| {
        let mut generator = ch.proj.new_generator(tracing);
        for def in ch.module.ast.definitions() {
            if let Definition::Fn(func) = def {
                if func.name == fname {
                    return Some(generator.generate_raw(&func.body, &func.arguments, aik::MODULE));
                }
            }
        }
        None
    }));
    let mut pres = verif_hooks::drain_pre_optimisation();
    match r {
        Err(p) => {
            // the optimiser (or the generator) panicked; keep the pre-optimisation program if the hook saw one
            let stage = if pres.is_empty() { "codegen" } else { "optimiser" };
            Err(format!("panic[{}]: {}", stage, p))
        }
        Ok(None) => Err(format!("no function {}", fname)),
        Ok(Some(post)) => {
            if pres.len() != 1 {
                return Err(format!("hook: {} pre-optimisation programs", pres.len()));
            }
            let raw = pres.pop().unwrap();
            Ok(Compiled { pre: evaluable_pre(&raw), raw_pre: raw, post })
        }
    }
}

/// like `compile`, but also returns the RAW pre-optimisation program when the optimiser panicked
pub fn compile_keep_pre(ch: &Checked, fname: &str, tracing: Tracing) -> (Result<Program<Name>, String>, Option<Program<Name>>) {
    let _ = verif_hooks::drain_pre_optimisation();
    let r = guarded(AssertUnwindSafe(|| {
        let mut generator = ch.proj.new_generator(tracing);
        for def in ch.module.ast.definitions() {
            if let Definition::Fn(func) = def {
                if func.name == fname {
                    return Some(generator.generate_raw(&func.body, &func.arguments, aik::MODULE));
                }
            }
        }
        None
    }));
    let mut pres = verif_hooks::drain_pre_optimisation();
    let pre = pres.pop();
    match r {
        Err(p) => (Err(format!("panic: {}", p)), pre),
        Ok(None) => (Err(format!("no function {}", fname)), None),
        Ok(Some(post)) => (Ok(post), pre),
    }
}

/// The code generator's output is UPLC plus ONE annotation: a lambda node whose parameter is
/// named `__no_inline__` stands for its body (`shrinker.rs::NO_INLINE`, removed by
/// `clean_up_no_inlines`).  The reference meaning of the pre-optimisation program is the
/// program with these annotation nodes erased; this function is the harness's own erasure.
pub fn strip_markers(t: &Term<Name>) -> Term<Name> {
    use std::rc::Rc;
    match t {
        Term::Lambda { parameter_name, body } => {
            if parameter_name.text == "__no_inline__" {
                strip_markers(body)
            } else {
                Term::Lambda { parameter_name: parameter_name.clone(), body: Rc::new(strip_markers(body)) }
            }
        }
        Term::Apply { function, argument } => {
            Term::Apply { function: Rc::new(strip_markers(function)), argument: Rc::new(strip_markers(argument)) }
        }
        Term::Delay(b) => Term::Delay(Rc::new(strip_markers(b))),
        Term::Force(b) => Term::Force(Rc::new(strip_markers(b))),
        Term::Constr { tag, fields } => Term::Constr { tag: *tag, fields: fields.iter().map(strip_markers).collect() },
        Term::Case { constr, branches } => {
            Term::Case { constr: Rc::new(strip_markers(constr)), branches: branches.iter().map(strip_markers).collect() }
        }
        other => other.clone(),
    }
}

/// the pre-optimisation program as an evaluable program: annotations erased, names interned
pub fn evaluable_pre(raw: &Program<Name>) -> Program<Name> {
    let mut p = Program { version: raw.version, term: strip_markers(&raw.term) };
    CodeGenInterner::new().program(&mut p);
    p
}

pub fn budget() -> ExBudget {
    ExBudget { mem: 400_000_000, cpu: 200_000_000_000 }
}

#[derive(Clone, Debug)]
pub enum Out {
    /// evaluation returned a constant
    Const(uplc::ast::Constant),
    /// evaluation returned a non-constant term (function, delay, constr)
    Term(String),
    /// `machine::Error` other than budget: (variant name, short text)
    Fail(String, String),
    Budget,
    Panic(String),
}

impl Out {
    /// what the properties compare: value or abort
    pub fn canonical(&self) -> String {
        match self {
            Out::Const(c) => format!("ok {}", wire::constant(c)),
            Out::Term(t) => format!("ok-term {}", t),
            Out::Fail(..) => "abort".into(),
            Out::Budget => "budget".into(),
            Out::Panic(_) => "panic".into(),
        }
    }
    pub fn class(&self) -> &'static str {
        match self {
            Out::Const(_) => "value",
            Out::Term(_) => "value-non-constant",
            Out::Fail(..) => "abort",
            Out::Budget => "budget",
            Out::Panic(_) => "panic",
        }
    }
    pub fn error_variant(&self) -> Option<&str> {
        match self {
            Out::Fail(v, _) => Some(v),
            Out::Budget => Some("OutOfExError"),
            _ => None,
        }
    }
}

/// `Debug` of an enum value starts with the variant name
pub fn variant_name(e: &Error) -> String {
    let s = format!("{:?}", e);
    s.chars().take_while(|c| c.is_ascii_alphanumeric() || *c == '_').collect()
}

pub fn to_ndb(p: &Program<Name>) -> Result<Program<NamedDeBruijn>, String> {
    p.clone().to_named_debruijn().map_err(|e| format!("{:?}", e))
}

pub fn eval_ndb(p: Program<NamedDeBruijn>) -> Out {
    let r = guarded(AssertUnwindSafe(move || p.eval_version(budget(), &Language::PlutusV3).result()));
    match r {
        Err(p) => Out::Panic(p),
        Ok(Ok(Term::Constant(c))) => Out::Const(c.as_ref().clone()),
        Ok(Ok(t)) => Out::Term(wire::term(&t).chars().take(200).collect()),
        Ok(Err(Error::OutOfExError(_))) => Out::Budget,
        Ok(Err(e)) => {
            // `Debug`, not `Display`: Display of ByteStringOutOfBounds(_, []) underflows (`.1.len() - 1`)
            let text: String = format!("{:?}", e).chars().take(160).collect();
            Out::Fail(variant_name(&e), text.replace('\n', " "))
        }
    }
}

/// apply Data arguments and run on the real machine (Plutus V3, default cost model)
pub fn eval(p: &Program<Name>, args: &[PlutusData]) -> Out {
    let mut q = p.clone();
    for a in args {
        q = q.apply_data(a.clone());
    }
    match to_ndb(&q) {
        Ok(n) => eval_ndb(n),
        Err(e) => Out::Panic(format!("to_named_debruijn: {}", e)),
    }
}

pub fn applied_term(p: &Program<Name>, args: &[PlutusData]) -> Result<Term<NamedDeBruijn>, String> {
    let mut q = p.clone();
    for a in args {
        q = q.apply_data(a.clone());
    }
    to_ndb(&q).map(|n| n.term)
}

// ------------------------------------------------------------------ shared exploration helpers
use crate::mini::{GenCfg, Module};
use crate::prng::Prng;
use crate::report::Report;
use std::collections::BTreeMap;

pub struct Prepared {
    pub idx: u64,
    pub module: Module,
    pub src: String,
    pub counts: BTreeMap<String, u64>,
    pub labels_total: bool,
}

/// module number `idx` of run `seed` (independent of how the work is spread over threads)
pub fn prepare(seed: u64, idx: u64, labels_total: Option<bool>) -> Prepared {
    let mut r = Prng::new(seed.wrapping_mul(0x1_0000_0001).wrapping_add(idx.wrapping_mul(0x9E37_79B9_7F4A_7C15)));
    let total = labels_total.unwrap_or_else(|| idx % 4 != 3);
    let cfg = GenCfg {
        labels_total: total,
        aborts: idx % 5 != 4,
        max_depth: 3 + (idx % 3) as usize,
        n_fns: 3 + (idx % 4) as usize,
        casts: true,
    };
    let (module, counts) = crate::mini::gen_module(&mut r, cfg);
    let src = module.render();
    Prepared { idx, module, src, counts, labels_total: total }
}

/// `f(0..n)` on `threads` worker threads, results in index order
pub fn par_map<T: Send>(n: u64, threads: usize, f: impl Fn(u64) -> T + Sync) -> Vec<T> {
    let threads = threads.max(1).min(n.max(1) as usize);
    let next = std::sync::atomic::AtomicU64::new(0);
    let mut all: Vec<(u64, T)> = vec![];
    std::thread::scope(|s| {
        let handles: Vec<_> = (0..threads)
            .map(|_| {
                std::thread::Builder::new()
                    .stack_size(256 * 1024 * 1024)
                    .spawn_scoped(s, || {
                        let mut out = vec![];
                        loop {
                            let i = next.fetch_add(1, std::sync::atomic::Ordering::SeqCst);
                            if i >= n {
                                break;
                            }
                            out.push((i, f(i)));
                        }
                        out
                    })
                    .expect("spawn")
            })
            .collect();
        for h in handles {
            all.extend(h.join().expect("worker"));
        }
    });
    all.sort_by_key(|(i, _)| *i);
    all.into_iter().map(|(_, t)| t).collect()
}

pub fn merge(into: &mut Report, from: Report) {
    into.evaluations += from.evaluations;
    into.nontrivial.extend(from.nontrivial);
    for (k, v) in from.distribution {
        *into.distribution.entry(k).or_insert(0) += v;
    }
    for s in from.samples {
        into.sample(s);
    }
    for d in from.disagreements {
        if into.disagreements.len() < 50 {
            into.disagreements.push(d);
        } else {
            into.count("disagreements-not-listed");
        }
    }
    for d in from.property_failures {
        // the per-worker reports each keep up to two cases of a SHARED key (a known finding): after the
        // merge two are enough as well — otherwise the copies crowd every other failure out of the list
        let key = d["key"].as_str().unwrap_or("").to_string();
        if into.property_failures.iter().filter(|f| f["key"] == key.as_str()).count() >= 2 {
            into.count(&format!("more-cases-of:{}", key));
            continue;
        }
        if into.property_failures.len() < 50 {
            into.property_failures.push(d);
        } else {
            into.count("property-failures-not-listed");
        }
    }
    for n in from.notes {
        if into.notes.len() < 12 {
            into.notes.push(n);
        }
    }
}

/// `--name N` among the sub-command specific arguments
pub fn arg_u64(name: &str) -> Option<u64> {
    let args: Vec<String> = std::env::args().collect();
    args.iter().position(|a| a == name).and_then(|i| args.get(i + 1)).and_then(|v| v.parse().ok())
}

/// key suffix of the known finding "cast_data_reducer cancels <x>Data(un<X>Data d)": the inner
/// un<X>Data is the shape check `expect n: T = d` compiles to, the optimiser removes it
pub const CAST_KEY_SUFFIX: &str = "optimiser-cancels-data-cast-check";

/// the signature of that finding: the unoptimised program fails INSIDE an un<X>Data builtin
/// (`DeserialisationError`), the optimised one returns
pub fn cast_check_removed(pre: &Out, post: &Out) -> bool {
    matches!(pre, Out::Fail(v, _) if v == "DeserialisationError") && matches!(post, Out::Const(_) | Out::Term(_))
}

/// record a failure under a SHARED key (a known finding): the first few concrete cases are kept as
/// replays, the rest is only counted, so that they never crowd out other failures
pub fn fail_shared(rep: &mut Report, key: &str, what: &str, input: serde_json::Value, detail: serde_json::Value) {
    let n = rep.property_failures.iter().filter(|f| f["key"] == key).count();
    if n < 2 {
        rep.fail(key, what, input, detail);
    } else {
        rep.count(&format!("more-cases-of:{}", key));
    }
}
