//! C05: execution budgets are exact.
//! For generated programs: the unlimited-budget cost (slippage 1) is the reference; then every
//! slippage × {budget = cost, cost-1 in each dimension, cost+random} × {default, random cost vectors}
//! is run on the real machine (property-level checks) and against the Lean model (`cek`).
use crate::cek::{self, RealOutcome, Variant};
use crate::c03::arg_usize;
use crate::gen::{self, TermGen, K};
use crate::prng::Prng;
use crate::report::Report;
use crate::{driver, wire, Ctx};
use pallas_primitives::conway::Language;
use serde_json::json;
use uplc::machine::cost_model::{initialize_cost_model_with_protocol, CostModel, ExBudget, ParamName};

fn random_cost_model(v: &Variant, r: &mut Prng) -> CostModel {
    let n = match v.lang {
        Language::PlutusV1 => ParamName::V1.len(),
        Language::PlutusV2 => ParamName::V2.len(),
        Language::PlutusV3 => ParamName::V3.len(),
    };
    let costs: Vec<i64> = (0..n).map(|_| match r.below(8) { 0 => 0, 1 => 1, _ => r.range(1, 5000) }).collect();
    initialize_cost_model_with_protocol(&v.lang, v.proto, &costs)
}

pub fn run(ctx: &Ctx) -> Report {
    let mut rep = Report::new(
        "c05-budget",
        "seeded random terminating programs × semantics variants × cost models (default per language/protocol, and \
         random non-negative parameter vectors so that every step kind and builtin has its own cost) × slippage \
         {0,1,2,7,199,200,201,10^9} × budgets {exact cost, cost-1 in mem, cost-1 in cpu, cost+random}; \
         property checks on the real machine: charged cost independent of slippage, success iff cost ≤ budget, \
         remaining budget never negative on success; plus model correspondence on every run. \
         Non-trivial = distinct (term, cost model) with ≥ 3 nodes that terminates successfully",
    );
    let n = arg_usize("--n", if ctx.thorough { 8000 } else { 500 });
    let mut rng = Prng::new(ctx.seed ^ 0xC05);
    let tg = TermGen::new(25);
    let variants = cek::variants();
    let big = ExBudget { mem: 1 << 50, cpu: 1 << 58 };
    let fuel: u64 = 2_000_000;
    let slippages: [u32; 8] = [0, 1, 2, 7, 199, 200, 201, 1_000_000_000];
    let mut reqs: Vec<String> = vec![];
    let mut real: Vec<String> = vec![];
    let mut keys: Vec<String> = vec![];
    for case in 0..n {
        let k = *rng.pick(&[K::Int, K::Bytes, K::Bool, K::Data, K::Any, K::ListData]);
        let depth = 1 + rng.below(5);
        let t = tg.gen(&mut rng, k, &vec![], depth);
        let v = variants[rng.below(variants.len())].clone();
        let custom = case % 2 == 1;
        let mut cm_rng = rng.fork();
        let mk = |r: &mut Prng| if custom { random_cost_model(&v, &mut r.clone()) } else { cek::default_costs(&v) };
        // reference: unlimited budget, every step spent at once
        let reference = cek::run_real(&v, mk(&mut cm_rng), big, 1, &t);
        reqs.push(cek::costmodel_request(&mk(&mut cm_rng)));
        real.push("ok".into());
        keys.push(format!("costmodel:{}", case));
        let (res_term, cost) = match &reference {
            RealOutcome::Ok(res, rem) => (Some(wire::term(res)), ExBudget { mem: big.mem - rem.mem, cpu: big.cpu - rem.cpu }),
            RealOutcome::Fail(_) => {
                rep.count("reference:fail");
                (None, ExBudget { mem: 0, cpu: 0 })
            }
            RealOutcome::Oob => {
                rep.count("reference:oob");
                continue;
            }
            RealOutcome::Panic(m) => {
                rep.fail(&format!("panic:{}", wire::term(&t)), "the evaluator panicked", json!({"term": wire::term(&t), "variant": v.name}), json!({"panic": m}));
                continue;
            }
        };
        reqs.push(cek::cek_request(&v, 1, big, fuel, &t));
        real.push(reference.canonical());
        keys.push(format!("cek:{}:s1:big:{}", v.name, wire::term(&t)));
        if res_term.is_none() {
            continue;
        }
        rep.count("reference:ok");
        if gen::term_size(&t) >= 3 {
            rep.nontrivial.insert(format!("{}|{}", custom, wire::term(&t)));
        }
        if case < 6 {
            rep.sample(json!({"term": wire::term(&t), "variant": v.name, "custom_costs": custom, "cost_mem": cost.mem, "cost_cpu": cost.cpu}));
        }
        let res_term = res_term.unwrap();
        for s in slippages.iter() {
            let budgets = [
                ("exact", cost),
                ("mem-1", ExBudget { mem: cost.mem - 1, cpu: cost.cpu }),
                ("cpu-1", ExBudget { mem: cost.mem, cpu: cost.cpu - 1 }),
                ("plus", ExBudget { mem: cost.mem + rng.range(0, 1000), cpu: cost.cpu + rng.range(0, 100000) }),
            ];
            for (bname, b) in budgets.iter() {
                let out = cek::run_real(&v, mk(&mut cm_rng), *b, *s, &t);
                let key = format!("budget:{}:{}:s{}:{}:{}", v.name, if custom { format!("custom{}", case) } else { "default".into() }, s, bname, wire::term(&t));
                let suffices = b.mem >= cost.mem && b.cpu >= cost.cpu;
                match &out {
                    RealOutcome::Ok(r2, rem) => {
                        rep.count("run:ok");
                        let charged = ExBudget { mem: b.mem - rem.mem, cpu: b.cpu - rem.cpu };
                        if rem.mem < 0 || rem.cpu < 0 {
                            rep.fail(&key, "success reported with a negative remaining budget", json!({"term": wire::term(&t), "slippage": s, "budget": [b.mem, b.cpu]}), json!({"remaining": [rem.mem, rem.cpu]}));
                        }
                        if !suffices {
                            rep.fail(&key, "success although the unlimited-budget cost exceeds the budget", json!({"term": wire::term(&t), "slippage": s, "budget": [b.mem, b.cpu]}), json!({"cost": [cost.mem, cost.cpu]}));
                        }
                        if charged != cost {
                            rep.fail(&key, "charged cost depends on the batching interval / budget", json!({"term": wire::term(&t), "slippage": s, "budget": [b.mem, b.cpu]}), json!({"charged": [charged.mem, charged.cpu], "reference": [cost.mem, cost.cpu]}));
                        }
                        if wire::term(r2) != res_term {
                            rep.fail(&key, "result term depends on the batching interval / budget", json!({"term": wire::term(&t), "slippage": s}), json!({}));
                        }
                    }
                    RealOutcome::Oob => {
                        rep.count("run:oob");
                        if suffices {
                            rep.fail(&key, "out-of-budget although the budget covers the unlimited-budget cost", json!({"term": wire::term(&t), "slippage": s, "budget": [b.mem, b.cpu]}), json!({"cost": [cost.mem, cost.cpu]}));
                        }
                    }
                    RealOutcome::Fail(e) => {
                        rep.fail(&key, "a program that succeeds with unlimited budget fails for a non-budget reason", json!({"term": wire::term(&t), "slippage": s}), json!({"error": e}));
                    }
                    RealOutcome::Panic(m) => {
                        rep.fail(&key, "the evaluator panicked", json!({"term": wire::term(&t), "slippage": s}), json!({"panic": m}));
                    }
                }
                reqs.push(cek::cek_request(&v, *s, *b, fuel, &t));
                real.push(out.canonical());
                keys.push(key);
            }
        }
    }
    let model = driver::run(&reqs);
    rep.evaluations = reqs.len() as u64;
    for i in 0..reqs.len() {
        if model[i] == "unmodelled" || model[i] == "nofuel" {
            rep.count(&format!("model:{}", model[i]));
            continue;
        }
        if model[i] != real[i] {
            rep.disagree(&keys[i], &reqs[i].chars().take(3000).collect::<String>(), &real[i].chars().take(1500).collect::<String>(), &model[i].chars().take(1500).collect::<String>());
        }
    }
    rep
}

/// `c05-cost`: the cost of single builtin calls.  Real `BuiltinCosts::to_ex_budget(fun, args, semantics)`
/// vs the Lean cost function under the SPECIFICATION's measure recipe (`spec:` keys: a difference is a
/// failing input of the property) and under the recipe regenerated from the source (impl model).
pub fn cost(ctx: &Ctx) -> Report {
    use crate::gen::{gen_const, modelled_builtins};
    use std::rc::Rc;
    use uplc::ast::{Constant, Type};
    use uplc::machine::runtime::BuiltinSemantics;
    use uplc::machine::value::Value;
    let mut rep = Report::new(
        "c05-cost",
        "every modelled builtin × argument tuples with sizes at word boundaries (byte strings of 0,1,7,8,9,15,16,17,… bytes, \
         integers around 2^63/2^64/2^127/2^128, lists of 0..5 items, literal counts up to 2^70, strings with 1–4-byte \
         characters) and 1 in 6 arguments of a wrong type, under semantics A–E and default + random cost vectors: \
         BuiltinCosts::to_ex_budget vs the Lean cost function under the specification's measure table and under the \
         regenerated one. Non-trivial = distinct (builtin, arguments, semantics)",
    );
    let per = arg_usize("--n", if ctx.thorough { 2500 } else { 200 });
    let mut rng = Prng::new(ctx.seed ^ 0xC057);
    let variants = cek::variants();
    let table = modelled_builtins();
    let kinds = [K::Int, K::Bytes, K::Str, K::Bool, K::Unit, K::Data, K::ListData, K::ListInt, K::PairDD, K::ListPairDD];
    let sem_of = |v: &Variant| BuiltinSemantics::for_language_and_protocol(&v.lang, v.proto);
    let mut reqs: Vec<String> = vec![];
    let mut real: Vec<String> = vec![];
    let mut keys: Vec<String> = vec![];
    for (vi, v) in variants.iter().enumerate() {
        for custom in [false, true] {
            let mut cm_rng = Prng::new(ctx.seed ^ (vi as u64 * 7919) ^ 0xABCD);
            let mk = || if custom { random_cost_model(v, &mut cm_rng.clone()) } else { cek::default_costs(v) };
            reqs.push(cek::costmodel_request(&mk()));
            real.push("ok".into());
            keys.push(format!("costmodel:{}:{}", v.name, custom));
            let cm = mk();
            for (f, ks, _) in table.iter() {
                for i in 0..per {
                    if (i + vi) % 5 != 0 && !(vi == 4 && !custom) {
                        continue; // every case under E/default, a fifth under the others
                    }
                    let args: Vec<Constant> = ks
                        .iter()
                        .map(|k| {
                            let k = if *k == K::Any { *rng.pick(&kinds) } else if rng.chance(1, 6) { *rng.pick(&kinds) } else { *k };
                            match k {
                                K::Bytes if rng.chance(1, 2) => Constant::ByteString(vec![7u8; *rng.pick(&[0usize, 1, 7, 8, 9, 15, 16, 17, 23, 24, 25, 63, 64, 65])]),
                                K::Int if rng.chance(1, 3) => {
                                    let e = *rng.pick(&[62u32, 63, 64, 65, 70, 126, 127, 128, 129]);
                                    let x = crate::gen::pow2(e) + num_bigint::BigInt::from(rng.range(-2, 2));
                                    Constant::Integer(if rng.chance(1, 2) { x } else { -x })
                                }
                                K::ListInt if rng.chance(1, 2) => Constant::ProtoList(Type::Integer, (0..rng.below(6)).map(|j| Constant::Integer(num_bigint::BigInt::from(j as i64))).collect()),
                                _ => gen_const(&mut rng, k),
                            }
                        })
                        .collect();
                    let vals: Vec<Value> = args.iter().map(|c| Value::Con(Rc::new(c.clone()))).collect();
                    let sem = sem_of(v);
                    let f2 = *f;
                    let out = crate::report::guarded(std::panic::AssertUnwindSafe(|| cm.builtin_costs.to_ex_budget(f2, &vals, sem)));
                    let canon = match out {
                        Ok(Ok(b)) => format!("ok {} {}", b.mem, b.cpu),
                        Ok(Err(_)) => "err".to_string(),
                        Err(msg) => {
                            rep.fail(&format!("cost-panic:{:?}:{}", f, args.iter().map(wire::constant).collect::<Vec<_>>().join(" ")), "costing a builtin call panicked", json!({"builtin": format!("{:?}", f), "args": args.iter().map(wire::constant).collect::<Vec<_>>()}), json!({"panic": msg}));
                            "panic".to_string()
                        }
                    };
                    let argw = args.iter().map(|c| format!("(c {})", wire::constant(c))).collect::<Vec<_>>().join(" ");
                    let key = format!("{}:{}:{:?}:{}", v.name, if custom { "custom" } else { "default" }, f, argw);
                    if key.len() > 6000 {
                        continue;
                    }
                    rep.nontrivial.insert(key.clone());
                    if rep.samples.len() < 6 && i % 37 == 0 {
                        rep.sample(json!({"builtin": format!("{:?}", f), "semantics": v.name, "args": argw, "cost": canon}));
                    }
                    rep.count(&format!("cost:{}", canon.split(' ').next().unwrap_or("?")));
                    for which in ["spec", "impl"] {
                        reqs.push(format!("bcost {} {} {:?} {}", which, v.name, f, argw));
                        real.push(canon.clone());
                        keys.push(format!("{}:cost:{}", which, key));
                    }
                }
            }
        }
    }
    let model = driver::run(&reqs);
    rep.evaluations = reqs.len() as u64;
    for i in 0..reqs.len() {
        if model[i] == "unmodelled" {
            rep.count("model:unmodelled");
            continue;
        }
        if model[i] != real[i] {
            rep.disagree(&keys[i], &reqs[i].chars().take(2500).collect::<String>(), &real[i], &model[i]);
        }
    }
    rep
}
