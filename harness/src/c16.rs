//! C16 — property tests are reproducible and their counterexamples are real.
//!
//! `c16-shrink`: correspondence.  The real `Counterexample::simplify` (with the real `Cache`) is
//!   run on `run` closures from a small interpreted family (same family in
//!   `lean/AikenVerif/Drivers/Shrink.lean` — keep the two in sync) and compared with the Lean
//!   model's `simplify`: final choices, final value, number of `run` calls, cache size.
//!   Independently of the model the property itself is checked on the real result
//!   (`rep.fail`): the final pair satisfies `run(choices) == Keep(value)` and the final choices
//!   are `<=` the initial ones in shortlex order.
//!
//! `c16-e2e`: property level, real code only.  Hand-written stdlib-free Aiken fuzzers and
//!   property tests are compiled by the real compiler (same steps as the repo's own
//!   `with_test_from_source`), then `PropertyTest::run(seed, n)` for many seeds.
use crate::{driver, prng::Prng as Rng, report, report::Report, wire, Ctx};
use aiken_lang::{
    ast::{Definition, ModuleKind, OnTestFailure, TraceLevel, Tracing},
    builtins,
    gen_uplc::CodeGenerator,
    line_numbers::LineNumbers,
    parser,
    plutus_version::PlutusVersion,
    test_framework::{Cache, Counterexample, Prng, PropertyTest, RunnableKind, Status, Test, TestResult},
    utils, IdGenerator,
};
use indexmap::IndexMap;
use num_bigint::BigInt;
use serde_json::json;
use std::{
    cell::Cell,
    collections::{BTreeMap, HashMap},
    path::PathBuf,
    rc::Rc,
};
use uplc::{ast::Data, machine::value::from_pallas_bigint, PlutusData};

extern "C" {
    fn dup2(oldfd: i32, newfd: i32) -> i32;
}

/// `simplify` prints two lines on stderr per call; send them to /dev/null.
fn silence_stderr() {
    use std::os::unix::io::AsRawFd;
    if let Ok(f) = std::fs::OpenOptions::new().write(true).open("/dev/null") {
        unsafe {
            dup2(f.as_raw_fd(), 2);
        }
    }
}

fn arg_usize(name: &str, default: usize) -> usize {
    let args: Vec<String> = std::env::args().collect();
    args.iter()
        .position(|a| a == name)
        .and_then(|i| args.get(i + 1))
        .and_then(|v| v.parse().ok())
        .unwrap_or(default)
}

// ---------------------------------------------------------------------------------------------
// the interpreted family of `run` functions (mirror of Drivers/Shrink.lean)
// ---------------------------------------------------------------------------------------------

#[derive(Clone, Debug, PartialEq)]
pub enum FSpec {
    Const(u64),
    Bytes(usize),
    LenList(u64),
    FlagList(usize),
    Strict(usize, u64),
    Cursor,
    Exact(usize),
    Hash(u64),
}

#[derive(Clone, Debug, PartialEq)]
pub enum PSpec {
    SumGe(u64),
    SumMod(u64, u64),
    AnyGe(u64),
    LenGe(usize),
    Unsorted,
    HashLt(u64, u64, u64),
    Always,
    Never,
}

impl FSpec {
    fn show(&self) -> String {
        match self {
            FSpec::Const(v) => format!("const:{v}"),
            FSpec::Bytes(n) => format!("bytes:{n}"),
            FSpec::LenList(m) => format!("lenlist:{m}"),
            FSpec::FlagList(c) => format!("flaglist:{c}"),
            FSpec::Strict(n, b) => format!("strict:{n}:{b}"),
            FSpec::Cursor => "cursor".into(),
            FSpec::Exact(n) => format!("exact:{n}"),
            FSpec::Hash(s) => format!("hash:{s}"),
        }
    }
    fn kind(&self) -> &'static str {
        match self {
            FSpec::Const(_) => "const",
            FSpec::Bytes(_) => "bytes",
            FSpec::LenList(_) => "lenlist",
            FSpec::FlagList(_) => "flaglist",
            FSpec::Strict(..) => "strict",
            FSpec::Cursor => "cursor",
            FSpec::Exact(_) => "exact",
            FSpec::Hash(_) => "hash",
        }
    }
    fn prefix_stable(&self) -> bool {
        !matches!(self, FSpec::Cursor | FSpec::Exact(_) | FSpec::Hash(_))
    }
    fn parse(s: &str) -> Option<FSpec> {
        let p: Vec<&str> = s.split(':').collect();
        Some(match p.as_slice() {
            ["const", v] => FSpec::Const(v.parse().ok()?),
            ["bytes", n] => FSpec::Bytes(n.parse().ok()?),
            ["lenlist", m] => FSpec::LenList(m.parse().ok()?),
            ["flaglist", c] => FSpec::FlagList(c.parse().ok()?),
            ["strict", n, b] => FSpec::Strict(n.parse().ok()?, b.parse().ok()?),
            ["cursor"] => FSpec::Cursor,
            ["exact", n] => FSpec::Exact(n.parse().ok()?),
            ["hash", s] => FSpec::Hash(s.parse().ok()?),
            _ => return None,
        })
    }
}

impl PSpec {
    fn show(&self) -> String {
        match self {
            PSpec::SumGe(t) => format!("sumge:{t}"),
            PSpec::SumMod(m, r) => format!("summod:{m}:{r}"),
            PSpec::AnyGe(t) => format!("anyge:{t}"),
            PSpec::LenGe(n) => format!("lenge:{n}"),
            PSpec::Unsorted => "unsorted".into(),
            PSpec::HashLt(s, m, r) => format!("hashlt:{s}:{m}:{r}"),
            PSpec::Always => "always".into(),
            PSpec::Never => "never".into(),
        }
    }
    fn kind(&self) -> &'static str {
        match self {
            PSpec::SumGe(_) => "sumge",
            PSpec::SumMod(..) => "summod",
            PSpec::AnyGe(_) => "anyge",
            PSpec::LenGe(_) => "lenge",
            PSpec::Unsorted => "unsorted",
            PSpec::HashLt(..) => "hashlt",
            PSpec::Always => "always",
            PSpec::Never => "never",
        }
    }
    fn parse(s: &str) -> Option<PSpec> {
        let p: Vec<&str> = s.split(':').collect();
        Some(match p.as_slice() {
            ["sumge", t] => PSpec::SumGe(t.parse().ok()?),
            ["summod", m, r] => PSpec::SumMod(m.parse().ok()?, r.parse().ok()?),
            ["anyge", t] => PSpec::AnyGe(t.parse().ok()?),
            ["lenge", n] => PSpec::LenGe(n.parse().ok()?),
            ["unsorted"] => PSpec::Unsorted,
            ["hashlt", s, m, r] => PSpec::HashLt(s.parse().ok()?, m.parse().ok()?, r.parse().ok()?),
            ["always"] => PSpec::Always,
            ["never"] => PSpec::Never,
            _ => return None,
        })
    }
}

fn poly_hash(salt: u64, xs: &[u64]) -> u64 {
    let mut h = salt % 65521;
    for x in xs {
        h = (h * 31 + x + 7) % 65521;
    }
    h
}

fn fuzz(f: &FSpec, cs: &[u64]) -> Option<Vec<u64>> {
    match f {
        FSpec::Const(v) => Some(vec![*v]),
        FSpec::Bytes(n) => {
            if cs.len() >= *n {
                Some(cs[..*n].to_vec())
            } else {
                None
            }
        }
        FSpec::LenList(m) => {
            let (b, rest) = cs.split_first()?;
            let n = (b % m) as usize;
            if rest.len() >= n {
                Some(rest[..n].to_vec())
            } else {
                None
            }
        }
        FSpec::FlagList(cap) => {
            let mut acc = vec![];
            let mut i = 0;
            loop {
                let f = *cs.get(i)?;
                i += 1;
                if f % 2 == 1 && acc.len() < *cap {
                    let e = *cs.get(i)?;
                    i += 1;
                    acc.push(e);
                } else {
                    return Some(acc);
                }
            }
        }
        FSpec::Strict(n, bound) => {
            if cs.len() >= *n && cs[..*n].iter().all(|c| c <= bound) {
                Some(cs[..*n].to_vec())
            } else {
                None
            }
        }
        FSpec::Cursor => {
            let mut v = vec![cs.len() as u64];
            v.extend(cs.iter().take(1));
            Some(v)
        }
        FSpec::Exact(n) => {
            if cs.len() == *n {
                Some(cs.to_vec())
            } else {
                None
            }
        }
        FSpec::Hash(_) => Some(cs.to_vec()),
    }
}

fn fails(p: &PSpec, v: &[u64]) -> bool {
    match p {
        PSpec::SumGe(t) => v.iter().sum::<u64>() >= *t,
        PSpec::SumMod(m, r) => v.iter().sum::<u64>() % m == *r,
        PSpec::AnyGe(t) => v.iter().any(|x| x >= t),
        PSpec::LenGe(n) => v.len() >= *n,
        PSpec::Unsorted => v.windows(2).any(|w| w[0] > w[1]),
        PSpec::HashLt(s, m, r) => poly_hash(*s, v) % m < *r,
        PSpec::Always => true,
        PSpec::Never => false,
    }
}

/// the interpreted `run`; the value is a `PlutusData` list of integers
fn run_spec(f: &FSpec, p: &PSpec, choices: &[u8]) -> Status<PlutusData> {
    let cs: Vec<u64> = choices.iter().map(|c| *c as u64).collect();
    if let FSpec::Hash(salt) = f {
        let h = poly_hash(*salt, &cs);
        return match h % 4 {
            0 => Status::Invalid,
            1 => Status::Ignore,
            _ => Status::Keep(to_value(&[h])),
        };
    }
    match fuzz(f, &cs) {
        None => Status::Invalid,
        Some(v) => {
            if fails(p, &v) {
                Status::Keep(to_value(&v))
            } else {
                Status::Ignore
            }
        }
    }
}

fn to_value(v: &[u64]) -> PlutusData {
    Data::list(v.iter().map(|x| Data::integer(BigInt::from(*x))).collect())
}

fn show_value(d: &PlutusData) -> String {
    match d {
        PlutusData::Array(xs) => {
            if xs.is_empty() {
                "-".into()
            } else {
                xs.iter()
                    .map(|x| match x {
                        PlutusData::BigInt(n) => from_pallas_bigint(n).to_string(),
                        other => format!("?{}", wire::data(other)),
                    })
                    .collect::<Vec<_>>()
                    .join(",")
            }
        }
        other => format!("?{}", wire::data(other)),
    }
}

fn shortlex_le(a: &[u8], b: &[u8]) -> bool {
    a.len() < b.len() || (a.len() == b.len() && a <= b)
}

// ---------------------------------------------------------------------------------------------
// generators
// ---------------------------------------------------------------------------------------------

fn gen_fspec(r: &mut Rng) -> FSpec {
    match r.below(16) {
        0 => FSpec::Const(r.below(10) as u64),
        1 | 2 | 3 => FSpec::Bytes(r.below(7)),
        4 | 5 | 6 => FSpec::LenList(1 + r.below(9) as u64),
        7 | 8 | 9 => FSpec::FlagList(r.below(8)),
        10 | 11 => FSpec::Strict(r.below(5), *r.pick(&[0u64, 1, 7, 100, 200, 254, 255])),
        12 => FSpec::Cursor,
        13 => FSpec::Exact(r.below(6)),
        _ => FSpec::Hash(r.below(1000) as u64),
    }
}

fn gen_pspec(r: &mut Rng) -> PSpec {
    match r.below(14) {
        0 | 1 | 2 => PSpec::SumGe(*r.pick(&[0u64, 1, 2, 10, 100, 255, 256, 300, 511, 700])),
        3 | 4 => {
            let m = 2 + r.below(9) as u64;
            PSpec::SumMod(m, r.below(m as usize) as u64)
        }
        5 | 6 => PSpec::AnyGe(*r.pick(&[0u64, 1, 2, 7, 100, 128, 255])),
        7 | 8 => PSpec::LenGe(r.below(6)),
        9 => PSpec::Unsorted,
        10 | 11 => {
            let m = 2 + r.below(6) as u64;
            PSpec::HashLt(r.below(1000) as u64, m, 1 + r.below(m as usize - 1) as u64)
        }
        12 => PSpec::Always,
        _ => PSpec::Never,
    }
}

fn gen_byte(r: &mut Rng) -> u8 {
    match r.below(10) {
        0 | 1 => 0,
        2 => 1,
        3 => 255,
        4 => 254,
        5 => *r.pick(&[2u8, 3, 7, 8, 127, 128]),
        _ => r.below(256) as u8,
    }
}

fn gen_choices(r: &mut Rng, max_len: usize) -> Vec<u8> {
    let len = match r.below(10) {
        0 => r.below(3),
        1 | 2 | 3 => r.below(10),
        4 => *r.pick(&[7usize, 8, 9, 15, 16, 17]),
        _ => r.below(max_len + 1),
    };
    let mode = r.below(6);
    (0..len.min(max_len))
        .map(|i| match mode {
            0 => (i as u8).wrapping_mul(37),           // ascending-ish / structured
            1 => 255u8.wrapping_sub(i as u8),          // descending
            2 => if r.chance(1, 2) { 1 } else { gen_byte(r) }, // odd flags for flaglist
            _ => gen_byte(r),
        })
        .collect()
}

struct Case {
    f: FSpec,
    p: PSpec,
    c0: Vec<u8>,
    origin: &'static str,
}

impl Case {
    fn request(&self) -> String {
        format!("shrink {} {} {}", self.f.show(), self.p.show(), wire::hex(&self.c0))
    }
    fn key(&self) -> String {
        format!("shrink:{}:{}:{}", self.f.show(), self.p.show(), wire::hex(&self.c0))
    }
}

fn parse_case(line: &str) -> Option<Case> {
    // `<fuzzer-spec> <prop-spec> <#hex>`
    let w: Vec<&str> = line.split_whitespace().collect();
    if w.len() != 3 {
        return None;
    }
    Some(Case {
        f: FSpec::parse(w[0])?,
        p: PSpec::parse(w[1])?,
        c0: hex::decode(w[2].trim_start_matches('#')).ok()?,
        origin: "corpus",
    })
}

fn corpus_cases() -> Vec<Case> {
    let root = std::env::var("VERIF_ROOT").unwrap_or_else(|_| "/verif".into());
    let mut out = vec![];
    if let Ok(text) = std::fs::read_to_string(format!("{root}/corpus/C16/shrink.txt")) {
        for line in text.lines() {
            let line = line.trim();
            if line.is_empty() || line.starts_with("//") {
                continue;
            }
            match parse_case(line) {
                Some(c) => out.push(c),
                None => panic!("corpus/C16/shrink.txt: cannot parse `{line}`"),
            }
        }
    }
    out
}

/// result of the real `simplify`: (choices, value, run calls, cache size)
fn real_simplify(case: &Case) -> Result<(Vec<u8>, PlutusData, usize, usize), String> {
    let (f, p, c0) = (case.f.clone(), case.p.clone(), case.c0.clone());
    report::guarded(move || {
        let calls = Rc::new(Cell::new(0usize));
        let calls2 = calls.clone();
        let (f2, p2) = (f.clone(), p.clone());
        let value = match run_spec(&f, &p, &c0) {
            Status::Keep(v) => v,
            _ => to_value(&[999999]),
        };
        let mut ce = Counterexample {
            value,
            choices: c0.clone(),
            cache: Cache::new(move |cs: &[u8]| {
                calls2.set(calls2.get() + 1);
                run_spec(&f2, &p2, cs)
            }),
        };
        ce.simplify();
        (ce.choices.clone(), ce.value.clone(), calls.get(), ce.cache.size())
    })
}

pub fn shrink(ctx: &Ctx) -> Report {
    silence_stderr();
    let n = arg_usize("--n", if ctx.thorough { 150_000 } else { 12_000 });
    let exhaustive_len = arg_usize("--exh", if ctx.thorough { 3 } else { 2 });
    let mut rep = Report::new(
        "c16-shrink",
        "real Counterexample::simplify (real Cache) vs Lean model on interpreted `run` functions; \
         compared: final choices, final value, number of run calls, cache size. \
         Non-trivial = distinct (fuzzer spec, property spec, initial choices) whose initial run is Keep \
         and whose final choices differ from the initial ones",
    );
    let mut r = Rng::new(ctx.seed);
    let mut cases: Vec<Case> = corpus_cases();
    rep.notes.push(format!("corpus cases: {}", cases.len()));

    // exhaustive: every sequence over a boundary alphabet up to a small length, for a fixed set of specs
    let alphabet = [0u8, 1, 2, 3, 128, 255];
    let fixed: Vec<(FSpec, PSpec)> = vec![
        (FSpec::Bytes(2), PSpec::SumGe(256)),
        (FSpec::LenList(3), PSpec::AnyGe(2)),
        (FSpec::FlagList(3), PSpec::SumMod(3, 1)),
        (FSpec::Strict(2, 128), PSpec::Unsorted),
        (FSpec::Cursor, PSpec::SumGe(3)),
        (FSpec::Exact(2), PSpec::Always),
        (FSpec::Hash(1), PSpec::Never),
        (FSpec::Hash(2), PSpec::Never),
        (FSpec::Const(1), PSpec::Always),
        (FSpec::Bytes(0), PSpec::Always),
    ];
    for len in 0..=exhaustive_len {
        let total = alphabet.len().pow(len as u32);
        for idx in 0..total {
            let mut c0 = vec![];
            let mut x = idx;
            for _ in 0..len {
                c0.push(alphabet[x % alphabet.len()]);
                x /= alphabet.len();
            }
            for (f, p) in &fixed {
                cases.push(Case { f: f.clone(), p: p.clone(), c0: c0.clone(), origin: "exhaustive" });
            }
        }
    }
    // random; biased towards starts that are really failing
    let mut made = 0;
    let mut attempts = 0;
    while made < n {
        attempts += 1;
        let f = gen_fspec(&mut r);
        let p = gen_pspec(&mut r);
        let max_len = if r.chance(1, 20) { 40 } else { 18 };
        let c0 = gen_choices(&mut r, max_len);
        let keep = matches!(run_spec(&f, &p, &c0), Status::Keep(_));
        if !keep && r.chance(9, 10) && attempts < 50 * n {
            continue;
        }
        cases.push(Case { f, p, c0, origin: "random" });
        made += 1;
    }

    let reqs: Vec<String> = cases.iter().map(|c| c.request()).collect();
    let mut real: Vec<String> = Vec::with_capacity(cases.len());
    for case in &cases {
        rep.count(&format!("origin:{}", case.origin));
        rep.count(&format!("fuzzer:{}", case.f.kind()));
        rep.count(&format!("prop:{}", case.p.kind()));
        rep.count(&format!("len:{}", match case.c0.len() { 0 => "0", 1..=3 => "1-3", 4..=8 => "4-8", 9..=16 => "9-16", _ => "17+" }));
        let start = run_spec(&case.f, &case.p, &case.c0);
        let start_keep = matches!(start, Status::Keep(_));
        rep.count(match start {
            Status::Keep(_) => "start:keep",
            Status::Ignore => "start:ignore",
            Status::Invalid => "start:invalid",
        });
        match real_simplify(case) {
            Err(msg) => {
                rep.count("real:panic");
                real.push("panic".into());
                rep.fail(&case.key(), "simplify panicked", json!({"request": case.request()}), json!({"panic": msg}));
            }
            Ok((choices, value, calls, size)) => {
                real.push(format!("ok {} {} {} {}", wire::hex(&choices), show_value(&value), calls, size));
                if start_keep {
                    if choices != case.c0 {
                        rep.nontrivial.insert(case.key());
                        rep.count("shrunk");
                    } else {
                        rep.count("not-shrunk");
                    }
                    if rep.samples.len() < 8 && choices != case.c0 && case.origin == "random" {
                        rep.sample(json!({"request": case.request(), "final": wire::hex(&choices), "value": show_value(&value), "run_calls": calls}));
                    }
                    // property-level checks on the real result
                    let again = run_spec(&case.f, &case.p, &choices);
                    let is_real = matches!(&again, Status::Keep(v) if *v == value);
                    if !is_real {
                        // for prefix-unstable `run`s the property's premise does not hold; still report it
                        rep.fail(
                            &format!("{}:not-real", case.key()),
                            "the simplified counterexample does not falsify the property: run(final choices) != Keep(final value)",
                            json!({"request": case.request(), "prefix_stable_run": case.f.prefix_stable()}),
                            json!({"final_choices": wire::hex(&choices), "final_value": show_value(&value),
                                   "rerun": match again { Status::Keep(v) => format!("keep {}", show_value(&v)), Status::Ignore => "ignore".into(), Status::Invalid => "invalid".into() }}),
                        );
                    }
                    if !shortlex_le(&choices, &case.c0) {
                        rep.fail(
                            &format!("{}:larger", case.key()),
                            "the simplified choice sequence is larger (shortlex) than the first failing one",
                            json!({"request": case.request()}),
                            json!({"final_choices": wire::hex(&choices)}),
                        );
                    }
                }
            }
        }
    }
    let model = driver::run(&reqs);
    rep.evaluations = reqs.len() as u64;
    for i in 0..reqs.len() {
        if model[i] != real[i] {
            rep.disagree(&cases[i].key(), &reqs[i], &real[i], &model[i]);
        }
        if model[i] == "fuel" || model[i] == "panic" {
            rep.count(&format!("model:{}", model[i]));
        }
    }
    rep
}

// ---------------------------------------------------------------------------------------------
// c16-e2e: the real compiler + PropertyTest::run
// ---------------------------------------------------------------------------------------------

/// the primitive fuzzers (as in the repo's own `test_framework.rs` tests; no stdlib) plus a few
/// combinators used by the cases below
const PRELUDE: &str = r#"
use aiken/builtin

pub fn int() -> Fuzzer<Int> {
  fn(prng: PRNG) -> Option<(PRNG, Int)> {
    when prng is {
      Seeded { seed, choices } -> {
         let choice =
           seed
             |> builtin.index_bytearray(0)

         Some((
           Seeded {
             seed: builtin.blake2b_256(seed),
             choices: builtin.cons_bytearray(choice, choices)
           },
           choice
         ))
      }

      Replayed { cursor, choices } -> {
        if cursor >= 1 {
            let cursor = cursor - 1
            Some((
              Replayed { choices, cursor },
              builtin.index_bytearray(choices, cursor)
            ))
        } else {
            None
        }
      }
    }
  }
}

pub fn constant(a: a) -> Fuzzer<a> {
  fn(s0) { Some((s0, a)) }
}

pub fn and_then(fuzz_a: Fuzzer<a>, f: fn(a) -> Fuzzer<b>) -> Fuzzer<b> {
  fn(s0) {
    when fuzz_a(s0) is {
      Some((s1, a)) -> f(a)(s1)
      None -> None
    }
  }
}

pub fn map(fuzz_a: Fuzzer<a>, f: fn(a) -> b) -> Fuzzer<b> {
  fn(s0) {
    when fuzz_a(s0) is {
      Some((s1, a)) -> Some((s1, f(a)))
      None -> None
    }
  }
}

pub fn map2(fuzz_a: Fuzzer<a>, fuzz_b: Fuzzer<b>, f: fn(a, b) -> c) -> Fuzzer<c> {
  fn(s0) {
    when fuzz_a(s0) is {
      Some((s1, a)) ->
        when fuzz_b(s1) is {
          Some((s2, b)) -> Some((s2, f(a, b)))
          None -> None
        }
      None -> None
    }
  }
}

fn bool() -> Fuzzer<Bool> {
  int() |> map(fn(n) { n % 2 == 0 })
}

fn pair(fuzz_a: Fuzzer<a>, fuzz_b: Fuzzer<b>) -> Fuzzer<(a, b)> {
  map2(fuzz_a, fuzz_b, fn(a, b) { (a, b) })
}

fn list_of(n: Int, f: Fuzzer<a>) -> Fuzzer<List<a>> {
  if n <= 0 {
    constant([])
  } else {
    map2(f, list_of(n - 1, f), fn(x, xs) { [x, ..xs] })
  }
}

// data-dependent number of choices: the first choice says how many follow
fn dep_list() -> Fuzzer<List<Int>> {
  int() |> and_then(fn(n) { list_of(n % 6, int()) })
}

// "continue?" flag before every element
fn flag_list() -> Fuzzer<List<Int>> {
  int()
    |> and_then(
         fn(flag) {
           if flag % 4 != 0 {
             map2(int(), flag_list(), fn(x, xs) { [x, ..xs] })
           } else {
             constant([])
           }
         },
       )
}

// retries until the choice is below 200 (in both modes): replay yields None only by exhaustion
fn small() -> Fuzzer<Int> {
  fn(prng: PRNG) -> Option<(PRNG, Int)> {
    when int()(prng) is {
      Some((next, n)) ->
        if n < 200 {
          Some((next, n))
        } else {
          small()(next)
        }
      None -> None
    }
  }
}

// looks at the replay cursor: None when choices are left over (NOT prefix-stable)
fn exact(f: Fuzzer<a>) -> Fuzzer<a> {
  fn(prng: PRNG) -> Option<(PRNG, a)> {
    when f(prng) is {
      Some((next, a)) ->
        when next is {
          Seeded { .. } -> Some((next, a))
          Replayed { cursor, .. } ->
            if cursor == 0 {
              Some((next, a))
            } else {
              None
            }
        }
      None -> None
    }
  }
}

// the fuzzer itself crashes on some draws
fn crashy(limit: Int) -> Fuzzer<Int> {
  int()
    |> map(
         fn(n) {
           if n > limit {
             fail
           } else {
             n
           }
         },
       )
}

fn label(str: String) -> Void {
  str
    |> builtin.append_string(@"\0", _)
    |> builtin.debug(Void)
}

fn sum(xs: List<Int>) -> Int {
  when xs is {
    [] -> 0
    [x, ..rest] -> x + sum(rest)
  }
}

fn len(xs: List<Int>) -> Int {
  when xs is {
    [] -> 0
    [_, ..rest] -> 1 + len(rest)
  }
}

fn is_sorted(xs: List<Int>) -> Bool {
  when xs is {
    [] -> True
    [_] -> True
    [x, y, ..rest] -> x <= y && is_sorted([y, ..rest])
  }
}
"#;

/// (name, `via` expression with type, body); each is instantiated with the three expectations
const E2E_CASES: &[(&str, &str, &str)] = &[
    ("int_even", "n: Int via int()", "n % 2 == 0"),
    ("int_small", "n: Int via int()", "n < 250"),
    ("int_never", "n: Int via int()", "n >= 0"),
    ("int_always", "n: Int via int()", "n < 0"),
    ("bool_id", "b: Bool via bool()", "b"),
    ("pair_sum", "t: (Int, Int) via pair(int(), int())", "t.1st + t.2nd <= 400"),
    ("pair_order", "t: (Int, Int) via pair(int(), int())", "t.1st <= t.2nd || t.1st - t.2nd < 10"),
    ("pair_mod", "t: (Int, Int) via pair(int(), int())", "( t.1st + t.2nd ) % 7 != 3"),
    ("dep_sum", "xs: List<Int> via dep_list()", "sum(xs) < 300"),
    ("dep_len", "xs: List<Int> via dep_list()", "len(xs) < 3"),
    ("dep_sorted", "xs: List<Int> via dep_list()", "is_sorted(xs)"),
    ("dep_crash", "xs: List<Int> via dep_list()", "{\n    expect [_, ..] = xs\n    True\n  }"),
    ("flag_sum", "xs: List<Int> via flag_list()", "sum(xs) < 200"),
    ("flag_sorted", "xs: List<Int> via flag_list()", "is_sorted(xs)"),
    ("flag_len", "xs: List<Int> via flag_list()", "len(xs) != 2"),
    ("small_big", "n: Int via small()", "n < 150"),
    ("small_pair", "t: (Int, Int) via pair(small(), small())", "t.1st + t.2nd < 250"),
    ("const_fail", "n: Int via constant(42)", "n != 42"),
    ("const_pass", "n: Int via constant(42)", "n == 42"),
    ("exact_pair", "t: (Int, Int) via exact(pair(int(), int()))", "t.1st + t.2nd <= 300"),
    ("exact_dep", "xs: List<Int> via exact(dep_list())", "sum(xs) < 200"),
    ("fuzzer_crash", "n: Int via crashy(240)", "n < 100"),
    ("fuzzer_crash_pass", "n: Int via crashy(250)", "n >= 0"),
    // a property that ERRORS on some inputs and merely returns False on smaller ones: under Plutus V1/V2
    // only the error is a failure, so the shrinker must classify candidates with the run's own version
    ("err_or_false", "n: Int via int()", "if n >= 100 {\n    fail\n  } else {\n    n >= 10\n  }"),
    ("err_or_false_pair", "t: (Int, Int) via pair(int(), int())", "if t.1st + t.2nd >= 300 {\n    fail\n  } else {\n    t.1st > 5\n  }"),
    ("labels", "b: Bool via bool()", "{\n    if b { label(@\"head\") } else { label(@\"tail\") }\n    True\n  }"),
    ("labels_fail", "n: Int via int()", "{\n    if n < 128 { label(@\"low\") } else { label(@\"high\") }\n    n < 240\n  }"),
];

fn otf_keyword(otf: &OnTestFailure) -> &'static str {
    match otf {
        OnTestFailure::FailImmediately => "",
        OnTestFailure::SucceedEventually => "fail",
        OnTestFailure::SucceedImmediately => "fail once",
    }
}

/// the steps of the repo's `with_test_from_source` (that helper is `cfg(test)`), public API only
fn compile_property(src: &str) -> Result<PropertyTest, String> {
    let src = src.to_string();
    report::guarded(std::panic::AssertUnwindSafe(move || {
        let id_gen = IdGenerator::new();
        let module_name = "";
        let kind = ModuleKind::Lib;
        let mut module_types = HashMap::new();
        module_types.insert(builtins::PRELUDE.to_string(), builtins::prelude(&id_gen));
        module_types.insert(builtins::BUILTIN.to_string(), builtins::plutus(&id_gen));
        let mut warnings = vec![];
        let (ast, _) = parser::module(&src, kind).expect("Failed to parse module");
        let ast = ast
            .infer(
                &id_gen,
                kind,
                module_name,
                &module_types,
                Tracing::All(TraceLevel::Verbose),
                &mut warnings,
                None,
            )
            .expect("Failed to type-check module.");
        module_types.insert(module_name.to_string(), ast.type_info.clone());
        let test = ast
            .definitions()
            .filter_map(|def| match def {
                Definition::Test(test) => Some(test.clone()),
                _ => None,
            })
            .last()
            .expect("No test found in declared src?");
        let mut functions = builtins::prelude_functions(&id_gen, &module_types);
        let mut data_types = builtins::prelude_data_types(&id_gen);
        let mut constants = IndexMap::new();
        ast.register_definitions(&mut functions, &mut constants, &mut data_types);
        let mut module_sources = HashMap::new();
        module_sources.insert(module_name.to_string(), (src.to_string(), LineNumbers::new(&src)));
        let mut generator = CodeGenerator::new(
            PlutusVersion::default(),
            utils::indexmap::as_ref_values(&functions),
            utils::indexmap::as_ref_values(&constants),
            utils::indexmap::as_ref_values(&data_types),
            utils::indexmap::as_str_ref_values(&module_types),
            utils::indexmap::as_str_ref_values(&module_sources),
            Tracing::All(TraceLevel::Verbose),
        );
        match Test::from_function_definition(
            &mut generator,
            test.to_owned(),
            module_name.to_string(),
            PathBuf::new(),
            RunnableKind::Test,
        ) {
            Test::PropertyTest(t) => t,
            _ => panic!("not a property test"),
        }
    }))
}

fn keep_of(otf: &OnTestFailure, is_failure: bool) -> bool {
    match otf {
        OnTestFailure::FailImmediately | OnTestFailure::SucceedImmediately => is_failure,
        OnTestFailure::SucceedEventually => !is_failure,
    }
}

/// documented meaning of the three expectations over the per-sample outcomes
fn verdict_spec(otf: &OnTestFailure, fails: &[bool]) -> bool {
    match otf {
        OnTestFailure::FailImmediately => fails.iter().all(|f| !f),
        OnTestFailure::SucceedEventually => fails.iter().all(|f| *f),
        OnTestFailure::SucceedImmediately => fails.iter().any(|f| *f),
    }
}

struct Reference {
    fails: Vec<bool>,
    /// 1-based iteration of the first kept sample, its choices and value
    first: Option<(usize, Vec<u8>, PlutusData)>,
    labels: BTreeMap<String, usize>,
    /// 1-based iteration at which the fuzzer itself crashed (before any kept sample)
    crashed_at: Option<usize>,
}

/// independent walk over the same seeded samples with the public pieces
/// (`Prng::from_seed`, `Prng::sample`, `PropertyTest::eval`); no shrinking
fn reference(prop: &PropertyTest, seed: u32, n: usize, pv: &PlutusVersion) -> Reference {
    let lang: pallas_primitives::conway::Language = pv.into();
    let mut prng = Prng::from_seed(seed);
    let mut out = Reference { fails: vec![], first: None, labels: BTreeMap::new(), crashed_at: None };
    for it in 1..=n {
        let (next, value) = match prng.sample(&prop.fuzzer.program) {
            Ok(x) => x.expect("seeded fuzzer returned None"),
            Err(_) => {
                if out.first.is_none() {
                    out.crashed_at = Some(it);
                }
                break;
            }
        };
        let result = prop.eval(&value, pv);
        let is_failure = result.failed(true, &lang);
        if out.first.is_none() {
            for l in result.labels() {
                *out.labels.entry(l).or_insert(0) += 1;
            }
        }
        out.fails.push(is_failure);
        if out.first.is_none() && keep_of(&prop.on_test_failure, is_failure) {
            out.first = Some((it, next.choices(), value));
        }
        prng = next;
    }
    out
}

fn fingerprint(r: &aiken_lang::test_framework::PropertyTestResult<PlutusData>) -> String {
    format!(
        "ce={} it={} labels={:?}",
        match &r.counterexample {
            Ok(Some(v)) => wire::data(v),
            Ok(None) => "none".into(),
            Err(e) => format!("error {e:?}"),
        },
        r.iterations,
        r.labels
    )
}

const HISTORY_CASES: [usize; 3] = [1, 5, 24];

fn history_source(ci: usize) -> String {
    let (_, via, body) = E2E_CASES[ci % E2E_CASES.len()];
    format!("{PRELUDE}\ntest prop({via}) {{\n  {body}\n}}\n")
}

/// child entry: `c16-child <case index> <seed> <n>` — ONE run in a fresh process, fingerprint on stdout
pub fn child(args: &[String]) -> ! {
    silence_stderr();
    let ci: usize = args[2].parse().expect("case");
    let seed: u32 = args[3].parse().expect("seed");
    let n: usize = args[4].parse().expect("n");
    let prop = compile_property(&history_source(ci)).expect("compile");
    let r = prop.run(seed, n, &PlutusVersion::default());
    println!("{}", fingerprint(&r));
    std::process::exit(0)
}

/// "a function of the seed and the code alone": what a run reports for seed s must not depend on which
/// seeds this process used before — compared with a fresh process that only ever sees s
fn history_independence(rep: &mut Report, n: usize) {
    let exe = match std::env::current_exe() {
        Ok(e) => e,
        Err(_) => return,
    };
    for &ci in HISTORY_CASES.iter() {
        let prop = match compile_property(&history_source(ci)) {
            Ok(p) => p,
            Err(_) => continue,
        };
        for seed in [7u32, 42, 123_456_789] {
            rep.evaluations += 1;
            let here = fingerprint(&prop.clone().run(seed, n, &PlutusVersion::default()));
            let out = std::process::Command::new(&exe).args(["c16-child", &ci.to_string(), &seed.to_string(), &n.to_string()]).output();
            let fresh = match out {
                Ok(o) if o.status.success() => String::from_utf8_lossy(&o.stdout).trim().to_string(),
                _ => {
                    rep.count("history:child-failed");
                    continue;
                }
            };
            rep.count("history:compared-with-fresh-process");
            if here != fresh {
                rep.fail(
                    &format!("e2e:history:{}:seed={seed}", E2E_CASES[ci % E2E_CASES.len()].0),
                    "the report for a seed depends on what the process ran before (differs from a fresh process running only that seed)",
                    json!({"case": E2E_CASES[ci % E2E_CASES.len()].0, "seed": seed, "n": n}),
                    json!({"after_other_seeds": here, "fresh_process": fresh}),
                );
            }
        }
    }
}

pub fn e2e(ctx: &Ctx) -> Report {
    silence_stderr();
    let seeds = arg_usize("--seeds", if ctx.thorough { 400 } else { 40 });
    let n = arg_usize("--iterations", 60);
    let mut rep = Report::new(
        "c16-e2e",
        "hand-written stdlib-free Aiken fuzzers/properties compiled by the real compiler, \
         PropertyTest::run(seed, n) for many seeds x 3 expectations: run twice (identical report), \
         verdict/iterations/labels vs an independent walk over the same samples, counterexample \
         re-evaluated, regenerated from its choices, <= first failing case in shortlex. \
         Non-trivial = distinct (case, expectation, seed) that reported a counterexample needing >= 1 choice",
    );
    let mut r = Rng::new(ctx.seed);
    let seed_list: Vec<u32> = (0..seeds)
        .map(|i| match i {
            0 => 0,
            1 => 42,
            2 => u32::MAX,
            _ => r.next() as u32,
        })
        .collect();
    for (name, via, body) in E2E_CASES {
        for otf in [OnTestFailure::FailImmediately, OnTestFailure::SucceedEventually, OnTestFailure::SucceedImmediately] {
            let src = format!("{PRELUDE}\ntest prop({via}) {} {{\n  {body}\n}}\n", otf_keyword(&otf));
            let case = format!("{name}/{}", match otf { OnTestFailure::FailImmediately => "plain", OnTestFailure::SucceedEventually => "fail", OnTestFailure::SucceedImmediately => "fail-once" });
            let prop = match compile_property(&src) {
                Ok(p) => p,
                Err(msg) => {
                    rep.fail(&format!("e2e:{case}:compile"), "the harness's own Aiken source does not compile (harness problem or compiler crash)", json!({"source": src}), json!({"panic": msg}));
                    continue;
                }
            };
            if prop.on_test_failure != otf {
                rep.fail(&format!("e2e:{case}:otf"), "expectation keyword parsed to a different OnTestFailure", json!({"case": case}), json!({"got": format!("{:?}", prop.on_test_failure)}));
            }
            rep.count(&format!("case:{name}"));
            // every seed under the default version; a share of them under V2 as well (different meaning of
            // "failed": only an erroring evaluation)
            let runs: Vec<(u32, PlutusVersion, &str)> = seed_list
                .iter()
                .map(|s| (*s, PlutusVersion::default(), ""))
                .chain(seed_list.iter().take(seed_list.len().min(if ctx.thorough { 60 } else { 10 })).map(|s| (*s, PlutusVersion::V2, ":v2")))
                .collect();
            for (seed, pv, vtag) in runs {
                let lang: pallas_primitives::conway::Language = (&pv).into();
                rep.evaluations += 1;
                let key = format!("e2e:{case}{vtag}:seed={seed}");
                let outcome = report::guarded(std::panic::AssertUnwindSafe(|| {
                    let mut problems: Vec<(String, serde_json::Value)> = vec![];
                    let r1 = prop.clone().run(seed, n, &pv);
                    let r2 = prop.clone().run(seed, n, &pv);
                    let show = |r: &aiken_lang::test_framework::PropertyTestResult<PlutusData>| {
                        format!(
                            "ce={} it={} labels={:?} logs={:?}",
                            match &r.counterexample { Ok(Some(v)) => wire::data(v), Ok(None) => "none".into(), Err(e) => format!("error {e:?}") },
                            r.iterations, r.labels, r.logs
                        )
                    };
                    let (s1, s2) = (show(&r1), show(&r2));
                    if s1 != s2 {
                        problems.push(("same seed, different report".into(), json!({"first": s1, "second": s2})));
                    }
                    let reference = reference(&prop, seed, n, &pv);
                    // verdict
                    let verdict = TestResult::PropertyTestResult::<(), _>(r1.clone()).is_success();
                    if let Some(at) = reference.crashed_at {
                        // the fuzzer crashed before any sample was kept: an error, never a success
                        if verdict || r1.counterexample.is_ok() || r1.iterations != at {
                            problems.push(("fuzzer crash not reported as a failure at the crashing iteration".into(),
                                json!({"is_success": verdict, "iterations": r1.iterations, "crashed_at": at})));
                        }
                        return (problems, (false, usize::MAX, 0usize), verdict);
                    }
                    let spec = verdict_spec(&otf, &reference.fails);
                    if verdict != spec {
                        problems.push(("is_success differs from the documented meaning of the expectation".into(), json!({"is_success": verdict, "spec": spec, "fails": format!("{:?}", reference.fails)})));
                    }
                    // iterations and labels
                    let expected_iterations = reference.first.as_ref().map(|f| f.0).unwrap_or(n);
                    if r1.iterations != expected_iterations {
                        problems.push(("iterations".into(), json!({"reported": r1.iterations, "expected": expected_iterations})));
                    }
                    if r1.labels != reference.labels {
                        problems.push(("labels".into(), json!({"reported": format!("{:?}", r1.labels), "expected": format!("{:?}", reference.labels)})));
                    }
                    let mut info = (false, 0usize, 0usize);
                    match (&r1.counterexample, &reference.first) {
                        (Ok(None), None) => {}
                        (Ok(Some(value)), Some((_, first_choices, first_value))) => {
                            // (a) re-applied, it is a kept case
                            let again = prop.eval(value, &pv).failed(true, &lang);
                            if !keep_of(&otf, again) {
                                problems.push(("the reported counterexample does not falsify the property when re-applied".into(), json!({"value": wire::data(value), "failed": again})));
                            }
                            // (b) its choices (from run_n_times, same seed) regenerate it
                            let mut remaining = n;
                            let mut labels = BTreeMap::new();
                            match prop.run_n_times(&mut remaining, Prng::from_seed(seed), &mut labels, &pv) {
                                Ok(Some(ce)) => {
                                    if ce.value != *value {
                                        problems.push(("run and run_n_times report different counterexamples".into(), json!({"run": wire::data(value), "run_n_times": wire::data(&ce.value)})));
                                    }
                                    match Prng::from_choices(&ce.choices).sample(&prop.fuzzer.program) {
                                        Ok(Some((_, v))) if v == ce.value => {}
                                        other => problems.push(("replaying the recorded choices does not regenerate the counterexample".into(),
                                            json!({"choices": wire::hex(&ce.choices), "value": wire::data(&ce.value),
                                                   "replay": match other { Ok(Some((_, v))) => wire::data(&v), Ok(None) => "None".into(), Err(e) => format!("error {e:?}") }}))),
                                    }
                                    // (c) no larger than the first failing case
                                    if !shortlex_le(&ce.choices, first_choices) {
                                        problems.push(("final choices larger (shortlex) than the first failing case".into(), json!({"final": wire::hex(&ce.choices), "first": wire::hex(first_choices)})));
                                    }
                                    info = (true, first_choices.len(), ce.choices.len());
                                    // premise of the theorems: the first failing case replays to itself
                                    match Prng::from_choices(first_choices).sample(&prop.fuzzer.program) {
                                        Ok(Some((_, v))) if v == *first_value => {}
                                        _ => problems.push(("the first failing case is not regenerated by its own recorded choices".into(), json!({"first": wire::hex(first_choices)}))),
                                    }
                                }
                                _ => problems.push(("run reports a counterexample, run_n_times does not".into(), json!({}))),
                            }
                        }
                        (got, want) => problems.push(("counterexample presence differs from the independent walk".into(),
                            json!({"reported": match got { Ok(Some(v)) => wire::data(v), Ok(None) => "none".into(), Err(e) => format!("error {e:?}") },
                                   "walk_first_kept_iteration": want.as_ref().map(|f| f.0)}))),
                    }
                    (problems, info, verdict)
                }));
                match outcome {
                    Err(msg) => {
                        rep.count("panic");
                        rep.fail(&format!("{key}:panic"), "PropertyTest::run (or the replay of its report) panicked", json!({"case": case, "seed": seed, "source": src}), json!({"panic": msg}));
                    }
                    Ok((problems, (has_ce, first_len, final_len), verdict)) => {
                        rep.count(if has_ce { "counterexample" } else if first_len == usize::MAX { "fuzzer-crash" } else { "no-counterexample" });
                        rep.count(if verdict { "verdict:success" } else { "verdict:failure" });
                        if has_ce {
                            rep.count(if final_len < first_len { "shrunk:shorter" } else { "shrunk:same-length" });
                            if first_len >= 1 {
                                rep.nontrivial.insert(key.clone());
                            }
                            if first_len >= 2 {
                                rep.sample(json!({"case": case, "seed": seed, "first_len": first_len, "final_len": final_len}));
                            }
                        }
                        for (what, detail) in problems {
                            rep.fail(&format!("{key}:{}", what.split(' ').take(3).collect::<Vec<_>>().join("-")), &what, json!({"case": case, "seed": seed, "n": n, "source": format!("test prop({via}) {} {{ {body} }}", otf_keyword(&otf))}), detail);
                        }
                    }
                }
            }
        }
    }
    history_independence(&mut rep, n);
    rep
}
