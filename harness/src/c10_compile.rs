//! C10, compiler half: "compiling any module the type checker accepts either produces a program
//! or a diagnostic; it never panics".
//!
//! Two streams through the REAL pipeline (parser -> type checker -> code generator -> optimiser),
//! every stage under `catch_unwind`:
//!   1. `builtin-boundary`: for every `DefaultFunction` the source-level builtin (`aiken/builtin`)
//!      applied to CONSTANT arguments drawn, by the argument's Aiken type, from boundary pools
//!      (0, ±1, 2^63, 2^64, -2^64-1, 2^128, empty / 32 / 48 / 96-byte strings, empty and non-empty
//!      lists, curve points ...).  Constant arguments are what the optimiser's compile-time
//!      rewrites (constant folding, `typed_list_convert_arg`, data-cast reduction) act on.
//!      The same call with the arguments passed as function parameters is compiled too.
//!   2. `random-modules`: the type-directed module generator shared with C01/C02/C06, compiled
//!      under every tracing setting.
//! The compiled program is also evaluated (a panic there is a C10 failure as well).
use crate::comp;
use crate::report::Report;
use crate::Ctx;
use aiken_lang::ast::{TraceLevel, Tracing};
use aiken_lang::builtins::from_default_function;
use aiken_lang::tipo::Type;
use aiken_lang::IdGenerator;
use serde_json::json;
use std::rc::Rc;
use strum::IntoEnumIterator;
use uplc::builtins::DefaultFunction;

const G1: &str = "#<Bls12_381, G1>\"97f1d3a73197d7942695638c4fa9ac0fc3688c4f9774b905a14e3a3f171bac586c55e83ff97a1aeffb3af00adb22c6bb\"";
const G2: &str = "#<Bls12_381, G2>\"93e02b6052719f607dacd3a088274f65596bd0d09920b61ab5da61bbdc7f5049334cf11213945d57e5ac7d055d042b7e024aa2b2f08f0a91260805272dc51051c6e47ad4fa403b02b4510b647ae3d1770bac0326a805bbefd48056c8c121bdb8\"";

fn ints() -> Vec<String> {
    [
        "0",
        "1",
        "-1",
        "255",
        "256",
        "8192",
        "8193",
        "9223372036854775807",
        "9223372036854775808",
        "-9223372036854775809",
        "18446744073709551615",
        "18446744073709551616",
        "-18446744073709551616",
        "-18446744073709551617",
        "340282366920938463463374607431768211456",
        "52435875175126190479447740508185965837690552500527637822603658699938581184513",
    ]
    .iter()
    .map(|s| s.to_string())
    .collect()
}

fn bytes() -> Vec<String> {
    let mut v: Vec<String> = vec!["#\"\"".into(), "#\"ff\"".into(), "#\"00\"".into(), "\"hello\"".into(), "#\"c328\"".into()];
    for n in [28usize, 32, 48, 64, 96] {
        v.push(format!("#\"{}\"", "ab".repeat(n)));
    }
    // the compressed generators, as plain byte strings (valid input of the uncompress builtins)
    v.push(format!("#\"{}\"", &G1[17..G1.len() - 1]));
    v.push(format!("#\"{}\"", &G2[17..G2.len() - 1]));
    v
}

/// boundary constants of an Aiken type, as source text; generic variables are read as `Int`
fn pool(t: &Rc<Type>, depth: usize) -> Vec<String> {
    if t.is_int() {
        return ints();
    }
    if t.is_bytearray() {
        return bytes();
    }
    if t.is_bool() {
        return vec!["True".into(), "False".into()];
    }
    if t.is_string() {
        return vec!["@\"\"".into(), "@\"a\"".into(), "@\"é✓\\n\"".into()];
    }
    if t.is_void() {
        return vec!["Void".into()];
    }
    if t.is_bls381_12_g1() {
        return vec![G1.into()];
    }
    if t.is_bls381_12_g2() {
        return vec![G2.into()];
    }
    if t.is_ml_result() {
        return vec![format!("builtin.bls12_381_miller_loop({}, {})", G1, G2)];
    }
    if t.is_data() && depth > 0 {
        // no implicit upcast inside a list / pair literal: explicit constructors (constant-folded by the optimiser)
        return [
            "builtin.i_data(0)",
            "builtin.i_data(18446744073709551616)",
            "builtin.i_data(-18446744073709551617)",
            "builtin.b_data(#\"\")",
            "builtin.b_data(#\"ab\")",
            "builtin.list_data([])",
            "builtin.constr_data(0, [])",
            "builtin.constr_data(18446744073709551616, [builtin.i_data(1)])",
            "builtin.map_data([])",
        ]
        .iter()
        .map(|s| s.to_string())
        .collect();
    }
    if t.is_data() {
        return vec![
            "0".into(),
            "18446744073709551616".into(),
            "-18446744073709551617".into(),
            "#\"\"".into(),
            "#\"ab\"".into(),
            "[]".into(),
            "[1, 18446744073709551616]".into(),
            "Some(1)".into(),
            "None".into(),
            "Pair(1, #\"\")".into(),
            "(1, 2)".into(),
            "True".into(),
        ];
    }
    if t.is_pair() {
        let inner = t.get_inner_types();
        if inner.len() == 2 && depth < 3 {
            let a = pool(&inner[0], depth + 1);
            let b = pool(&inner[1], depth + 1);
            let mut v = vec![];
            for i in 0..a.len().max(b.len()).min(6) {
                v.push(format!("Pair({}, {})", a[i % a.len()], b[(i + 1) % b.len()]));
            }
            return v;
        }
    }
    if t.is_list() {
        let inner = t.get_inner_types();
        if inner.len() == 1 && depth < 3 {
            let a = pool(&inner[0], depth + 1);
            let mut v = vec!["[]".to_string()];
            for x in a.iter().take(16) {
                v.push(format!("[{}]", x));
            }
            if a.len() >= 2 {
                v.push(format!("[{}, {}]", a[0], a[1]));
                v.push(format!("[{}, {}, {}]", a[a.len() - 1], a[0], a[a.len() / 2]));
            }
            return v;
        }
    }
    if t.is_generic() || t.is_unbound() {
        return ints();
    }
    vec![]
}

fn type_text(t: &Rc<Type>) -> Option<String> {
    if t.is_int() {
        return Some("Int".into());
    }
    if t.is_bytearray() {
        return Some("ByteArray".into());
    }
    if t.is_bool() {
        return Some("Bool".into());
    }
    if t.is_string() {
        return Some("String".into());
    }
    if t.is_void() {
        return Some("Void".into());
    }
    if t.is_bls381_12_g1() {
        return Some("G1Element".into());
    }
    if t.is_bls381_12_g2() {
        return Some("G2Element".into());
    }
    if t.is_ml_result() {
        return Some("MillerLoopResult".into());
    }
    if t.is_data() {
        return Some("Data".into());
    }
    let inner = t.get_inner_types();
    if t.is_pair() && inner.len() == 2 {
        return Some(format!("Pair<{}, {}>", type_text(&inner[0])?, type_text(&inner[1])?));
    }
    if t.is_list() && inner.len() == 1 {
        return Some(format!("List<{}>", type_text(&inner[0])?));
    }
    if t.is_generic() || t.is_unbound() {
        return Some("Int".into());
    }
    None
}

struct Case {
    fname: String,
    decl: String,
    what: String,
}

fn cases_for(b: DefaultFunction, id_gen: &IdGenerator, thorough: bool) -> (Vec<Case>, Option<String>) {
    let vc = from_default_function(b, id_gen);
    let name = b.aiken_name();
    let (args, _ret) = match vc.tipo.function_types() {
        Some(x) => x,
        None => {
            // a constant-like builtin (no arguments): just mention it
            return (
                vec![Case { fname: "f0".into(), decl: format!("pub fn f0() {{\n  builtin.{}\n}}\n", name), what: "nullary".into() }],
                None,
            );
        }
    };
    let pools: Vec<Vec<String>> = args.iter().map(|t| pool(t, 0)).collect();
    if let Some(i) = pools.iter().position(|p| p.is_empty()) {
        return (vec![], Some(format!("argument {} of type {:?} has no constant pool", i, args[i])));
    }
    let mut tuples: Vec<Vec<usize>> = vec![];
    let total: usize = pools.iter().map(|p| p.len()).product();
    let cap = if thorough { 4000 } else { 260 };
    if total <= cap {
        // full cross product
        let mut idx = vec![0usize; pools.len()];
        loop {
            tuples.push(idx.clone());
            let mut k = 0;
            while k < idx.len() {
                idx[k] += 1;
                if idx[k] < pools[k].len() {
                    break;
                }
                idx[k] = 0;
                k += 1;
            }
            if k == idx.len() {
                break;
            }
        }
    } else {
        // every value at every position against two backgrounds, plus the diagonal
        for bg in 0..2usize {
            for p in 0..pools.len() {
                for v in 0..pools[p].len() {
                    let mut t: Vec<usize> = pools.iter().map(|q| bg % q.len()).collect();
                    t[p] = v;
                    tuples.push(t);
                }
            }
        }
        let longest = pools.iter().map(|p| p.len()).max().unwrap_or(0);
        for d in 0..longest {
            tuples.push(pools.iter().map(|q| d % q.len()).collect());
        }
        tuples.sort();
        tuples.dedup();
    }
    let mut out = vec![];
    for (i, t) in tuples.iter().enumerate() {
        let actual: Vec<String> = t.iter().enumerate().map(|(p, v)| pools[p][*v].clone()).collect();
        out.push(Case {
            fname: format!("f{}", i),
            decl: format!("pub fn f{}() {{\n  builtin.{}({})\n}}\n", i, name, actual.join(", ")),
            what: actual.join(", "),
        });
    }
    // the same builtin with its arguments as parameters (no compile-time knowledge)
    // (`aiken export` derives a blueprint schema for every parameter BEFORE generating code and
    // answers with a diagnostic for a MillerLoopResult; the harness calls the generator directly, so
    // such a signature is not offered to it)
    let exportable = !args.iter().any(|t| t.is_ml_result());
    let tys: Option<Vec<String>> = args.iter().map(type_text).collect();
    if let (Some(tys), true) = (tys, exportable) {
        let params: Vec<String> = tys.iter().enumerate().map(|(i, t)| format!("x{}: {}", i, t)).collect();
        let names: Vec<String> = (0..tys.len()).map(|i| format!("x{}", i)).collect();
        out.push(Case {
            fname: "fparams".into(),
            decl: format!("pub fn fparams({}) {{\n  builtin.{}({})\n}}\n", params.join(", "), name, names.join(", ")),
            what: "parameters".into(),
        });
        // partially applied / passed as a value
    }
    // passed around as a value, and applied through the binding
    out.push(Case { fname: "fvalue".into(), decl: format!("pub fn fvalue() {{\n  let g = builtin.{}\n  g\n}}\n", name), what: "as-value".into() });
    for (i, t) in tuples.iter().enumerate().take(3) {
        let actual: Vec<String> = t.iter().enumerate().map(|(p, v)| pools[p][*v].clone()).collect();
        out.push(Case {
            fname: format!("fva{}", i),
            decl: format!("pub fn fva{}() {{\n  let g = builtin.{}\n  g({})\n}}\n", i, name, actual.join(", ")),
            what: format!("as-value-applied {}", actual.join(", ")),
        });
    }
    (out, None)
}

const HEADER: &str = "use aiken/builtin\n\n";

fn compile_case(rep: &mut Report, b: DefaultFunction, src: &str, ch: &comp::Checked, case: &Case, sname: &str, tracing: Tracing) {
    rep.evaluations += 1;
    let key = format!("c10-compile:{:?}:{}:{}", b, case.what, sname);
    match comp::compile(ch, &case.fname, tracing) {
        Err(e) if e.starts_with("panic") => {
            rep.count("compile:panic");
            // two witnesses per builtin are enough (the rest is counted)
            let prefix = format!("c10-compile:panic:{:?}:", b);
            if rep.property_failures.iter().filter(|f| f["key"].as_str().map(|k| k.starts_with(&prefix)).unwrap_or(false)).count() >= 2 {
                rep.count("compile:panic-not-listed");
                return;
            }
            rep.fail(
                &format!("c10-compile:panic:{:?}:{}", b, case.what),
                "the compiler panicked on a module the type checker accepted",
                json!({"source": format!("{}{}", HEADER, case.decl), "function": case.fname, "tracing": sname}),
                json!({"panic": e}),
            );
        }
        Err(e) => {
            rep.count("compile:harness-error");
            rep.notes.push(format!("{}: {}", key, e));
        }
        Ok(c) => {
            rep.count("compile:ok");
            rep.nontrivial.insert(key);
            if case.fname != "fparams" {
                let out = match comp::to_ndb(&c.post) {
                    Ok(n) => comp::eval_ndb(n),
                    Err(e) => comp::Out::Panic(format!("to_named_debruijn: {}", e)),
                };
                rep.count(&format!("eval:{}", out.class()));
                if let comp::Out::Panic(p) = out {
                    rep.fail(
                        &format!("c10-compile:eval-panic:{:?}:{}", b, case.what),
                        "evaluating the compiled program panicked",
                        json!({"source": format!("{}{}", HEADER, case.decl), "function": case.fname, "tracing": sname}),
                        json!({"panic": p}),
                    );
                }
            }
        }
    }
    let _ = src;
}

fn builtin_stream(ctx: &Ctx, rep: &mut Report) {
    let settings: Vec<(&'static str, Tracing)> = vec![
        ("all-silent", Tracing::All(TraceLevel::Silent)),
        ("all-verbose", Tracing::All(TraceLevel::Verbose)),
    ];
    let all: Vec<DefaultFunction> = DefaultFunction::iter().collect();
    let thorough = ctx.thorough;
    let results = comp::par_map(all.len() as u64, 14, |i| {
        let b = all[i as usize];
        let mut rep = Report::new("c10-compile", "");
        let id_gen = IdGenerator::new();
        let (cases, skipped) = cases_for(b, &id_gen, thorough);
        if let Some(why) = skipped {
            rep.count("builtin:no-pool");
            rep.notes.push(format!("{:?}: {}", b, why));
            return rep;
        }
        rep.count("builtin:covered");
        for (sname, tracing) in settings.iter() {
            // one module holding every case; fall back to one module per case if it is rejected
            let whole: String = format!("{}{}", HEADER, cases.iter().map(|c| c.decl.clone()).collect::<Vec<_>>().join("\n"));
            match comp::check(&whole, tracing.clone()) {
                Ok(ch) => {
                    rep.count("module:accepted");
                    for c in &cases {
                        compile_case(&mut rep, b, &whole, &ch, c, sname, tracing.clone());
                    }
                }
                Err(e) => {
                    if e.starts_with("panic") {
                        rep.fail(&format!("c10-compile:checker-panic:{:?}", b), "the type checker panicked", json!({"source": whole}), json!({"panic": e}));
                        continue;
                    }
                    for c in &cases {
                        let src = format!("{}{}", HEADER, c.decl);
                        match comp::check(&src, tracing.clone()) {
                            Ok(ch) => {
                                rep.count("case:accepted");
                                compile_case(&mut rep, b, &src, &ch, c, sname, tracing.clone());
                            }
                            Err(e) if e.starts_with("panic") => {
                                rep.fail(
                                    &format!("c10-compile:checker-panic:{:?}:{}", b, c.what),
                                    "the parser or type checker panicked",
                                    json!({"source": src}),
                                    json!({"panic": e}),
                                );
                            }
                            Err(e) => {
                                rep.count("case:rejected-by-checker");
                                if rep.notes.len() < 6 {
                                    rep.notes.push(format!("{:?} {}: rejected: {}", b, c.what, e.chars().take(160).collect::<String>()));
                                }
                            }
                        }
                    }
                }
            }
        }
        rep
    });
    for r in results {
        comp::merge(rep, r);
    }
}

fn random_stream(ctx: &Ctx, rep: &mut Report) {
    let n: u64 = comp::arg_u64("--modules").unwrap_or(if ctx.thorough { 3000 } else { 150 });
    let seed = ctx.seed.wrapping_add(1010);
    let results = comp::par_map(n, 14, |i| {
        let mut rep = Report::new("c10-compile", "");
        let p = comp::prepare(seed, i, None);
        let (sname, tracing) = comp::settings()[(i % 9) as usize].clone();
        let ch = match comp::check(&p.src, tracing.clone()) {
            Ok(c) => c,
            Err(e) => {
                if e.starts_with("panic") {
                    rep.fail(&format!("c10-compile:random:checker-panic:{}", i), "the parser or type checker panicked", json!({"source": p.src, "tracing": sname}), json!({"panic": e}));
                } else {
                    rep.count("random:module-rejected");
                }
                return rep;
            }
        };
        rep.count("random:module-accepted");
        for (fi, f) in p.module.fns.iter().enumerate() {
            // entry points only: the generic helpers of the generated prelude are never compiled on
            // their own by the toolchain (`aiken export` wants a schema, i.e. a monomorphic signature)
            if !f.entry || fi < crate::mini::N_PRELUDE {
                continue;
            }
            rep.evaluations += 1;
            match comp::compile(&ch, &f.name, tracing.clone()) {
                Err(e) if e.starts_with("panic") => {
                    rep.count("random:compile-panic");
                    rep.fail(
                        &format!("c10-compile:random:panic:{}:{}", i, f.name),
                        "the compiler panicked on a module the type checker accepted",
                        json!({"source": p.src, "function": f.name, "tracing": sname, "seed": seed, "index": i}),
                        json!({"panic": e}),
                    );
                }
                Err(_) => rep.count("random:harness-error"),
                Ok(_) => {
                    rep.count("random:compile-ok");
                    rep.nontrivial.insert(format!("random:{}:{}:{}", i, f.name, sname));
                }
            }
        }
        rep
    });
    for r in results {
        comp::merge(rep, r);
    }
}

pub fn run(ctx: &Ctx) -> Report {
    let mut rep = Report::new(
        "c10-compile",
        "distinct (builtin, constant argument tuple, tracing) and (random module, function, tracing) compilations through the real parser, checker, code generator and optimiser that returned a program (a panic at any stage is a property failure)",
    );
    if let Some(path) = &ctx.replay {
        // replay: {"input": {"source": .., "function": .., "tracing": ..}}
        let text = std::fs::read_to_string(path).expect("replay file");
        let v: serde_json::Value = serde_json::from_str(&text).expect("replay json");
        let input = v.get("input").cloned().unwrap_or(v.clone());
        let src = input["source"].as_str().unwrap_or("").to_string();
        let fname = input["function"].as_str().unwrap_or("f0").to_string();
        let sname = input["tracing"].as_str().unwrap_or("all-silent").to_string();
        let tracing = comp::settings().into_iter().find(|(n, _)| *n == sname).map(|(_, t)| t).unwrap_or(Tracing::All(TraceLevel::Silent));
        rep.evaluations += 1;
        match comp::check(&src, tracing.clone()) {
            Err(e) if e.starts_with("panic") => rep.fail("c10-compile:replay", "the parser or type checker panicked", input.clone(), json!({"panic": e})),
            Err(e) => rep.notes.push(format!("replay: module rejected: {}", e)),
            Ok(ch) => match comp::compile(&ch, &fname, tracing) {
                Err(e) if e.starts_with("panic") => rep.fail("c10-compile:replay", "the compiler panicked on a module the type checker accepted", input.clone(), json!({"panic": e})),
                Err(e) => rep.notes.push(format!("replay: {}", e)),
                Ok(_) => rep.count("replay:compile-ok"),
            },
        }
        return rep;
    }
    builtin_stream(ctx, &mut rep);
    random_stream(ctx, &mut rep);
    // the pass-directed templates of C02 (constant Data cast back with the right and the WRONG type,
    // curried builtins, single-use values) and the constants-through-a-function variants: compile only
    let mut sources: Vec<(String, String)> = crate::c02::templates().into_iter().map(|(l, s, _)| (l, s)).collect();
    for (k, t) in [("42", "ByteArray"), ("#\"ab\"", "Int"), ("[1, 2]", "Int"), ("42", "List<Int>"), ("42", "Bool"), ("Some(1)", "ByteArray"), ("42", "Int"), ("#\"ab\"", "ByteArray")] {
        sources.push((
            format!("template/const-cast/{}-as-{}", k, t),
            format!("fn as_data(d: Data) -> Data {{\n  d\n}}\n\nconst some_data: Data = as_data({k})\n\npub fn f(x: Int) {{\n  if x == 0 {{\n    expect _v: {t} = some_data\n    True\n  }} else {{\n    False\n  }}\n}}\n"),
        ));
    }
    rep.count_n("template-sources", sources.len() as u64);
    for (label, src) in sources {
        for (sname, tracing) in [("all-silent", Tracing::All(TraceLevel::Silent)), ("all-verbose", Tracing::All(TraceLevel::Verbose))] {
            rep.evaluations += 1;
            match comp::check(&src, tracing) {
                Err(e) if e.starts_with("panic") => rep.fail(&format!("c10-compile:{}:{}:checker-panic", label, sname), "the parser or type checker panicked", json!({"source": src, "tracing": sname}), json!({"panic": e})),
                Err(_) => rep.count("template:rejected"),
                Ok(ch) => match comp::compile(&ch, "f", tracing) {
                    Err(e) if e.starts_with("panic") => {
                        let prefix = "c10-compile:template-panic:";
                        if rep.property_failures.iter().filter(|f| f["key"].as_str().map(|k| k.starts_with(prefix)).unwrap_or(false)).count() >= 4 {
                            rep.count("template:panic-not-listed");
                        } else {
                            rep.fail(&format!("{}{}:{}", prefix, label, sname), "the compiler panicked on a module the type checker accepted", json!({"source": src, "function": "f", "tracing": sname}), json!({"panic": e}));
                        }
                    }
                    Err(_) => rep.count("template:harness-error"),
                    Ok(_) => {
                        rep.count("template:compile-ok");
                        rep.nontrivial.insert(format!("template:{}:{}", label, sname));
                    }
                },
            }
        }
    }
    rep
}
