//! C10: evaluation (and the optimiser's folding gate) never crash.
//!  c10-eval : adversarial terms (open, ill-typed, huge integers, over/under-applied builtins,
//!             programs decoded from mutated flat bytes) on the real machine under finite budgets:
//!             a panic or an evaluation that does not stop is a failure; outcome class compared with
//!             the Lean model (which is proved never to reach `panic`); every constant produced by the
//!             real flat decoder / text parser is checked to be well-typed (the theorem's hypothesis).
//!  c10-gate : `DefaultFunction::is_error_safe(args)` ⇒ evaluating the saturated application succeeds.
use crate::cek::{self, RealOutcome};
use crate::c03::arg_usize;
use crate::gen::{self, gen_const, TermGen, K};
use crate::prng::Prng;
use crate::report::{guarded, Report};
use crate::{driver, wire, Ctx};
use serde_json::json;
use std::panic::AssertUnwindSafe;
use std::rc::Rc;
use uplc::ast::{Constant, DeBruijn, Name, NamedDeBruijn, Program, Term, Type};
use uplc::machine::cost_model::ExBudget;

fn const_wt(c: &Constant) -> bool {
    match c {
        Constant::ProtoList(t, xs) => xs.iter().all(|x| &Type::from(x) == t && const_wt(x)),
        Constant::ProtoPair(a, b, x, y) => &Type::from(x.as_ref()) == a && &Type::from(y.as_ref()) == b && const_wt(x) && const_wt(y),
        _ => true,
    }
}

fn term_consts_wt<T>(t: &Term<T>) -> bool {
    match t {
        Term::Constant(c) => const_wt(c),
        Term::Lambda { body, .. } => term_consts_wt(body),
        Term::Apply { function, argument } => term_consts_wt(function) && term_consts_wt(argument),
        Term::Delay(b) | Term::Force(b) => term_consts_wt(b),
        Term::Constr { fields, .. } => fields.iter().all(term_consts_wt),
        Term::Case { constr, branches } => term_consts_wt(constr) && branches.iter().all(term_consts_wt),
        _ => true,
    }
}

pub fn eval(ctx: &Ctx) -> Report {
    let mut rep = Report::new(
        "c10-eval",
        "adversarial UPLC terms: kind-directed generator with 30% junk nodes (free variables incl. index 0 and far \
         beyond the environment, wrong force counts, partial/over-application, ill-typed arguments, integers up to \
         2^320, case on every constant kind) plus programs decoded by the REAL flat decoder from mutated encodings; \
         each evaluated under semantics E and one other variant with a finite budget; failure = panic or > 10 s; \
         outcome class compared with the Lean model. Non-trivial = distinct term of ≥ 3 nodes",
    );
    let n = arg_usize("--n", if ctx.thorough { 60000 } else { 5000 });
    let mut rng = Prng::new(ctx.seed ^ 0xC10);
    let tg = TermGen::new(300);
    let variants = cek::variants();
    let budget = ExBudget { mem: 2_000_000, cpu: 1_500_000_000 };
    let fuel: u64 = 2_000_000;
    let mut terms: Vec<gen::T> = crate::c03::corpus();
    // programs through the real flat codec, then mutated
    let mut decoded = 0u64;
    while terms.len() < n {
        let k = *rng.pick(&[K::Int, K::Bytes, K::Bool, K::Data, K::Any, K::ListData, K::Str]);
        let depth = 1 + rng.below(5);
        let t = if rng.chance(1, 8) { gen::closure_result(&mut rng) } else { tg.gen(&mut rng, k, &vec![], depth) };
        if rng.chance(1, 3) {
            let p: Program<NamedDeBruijn> = Program { version: (1, 1, 0), term: t.clone() };
            let bytes = guarded(AssertUnwindSafe(|| Program::<DeBruijn>::try_from(p.clone()).ok().and_then(|d| d.to_flat().ok())));
            if let Ok(Some(mut bytes)) = bytes {
                for _ in 0..rng.below(3) {
                    if !bytes.is_empty() {
                        let i = rng.below(bytes.len());
                        bytes[i] ^= 1 << rng.below(8);
                    }
                }
                let back = guarded(AssertUnwindSafe(|| Program::<NamedDeBruijn>::from_flat(&bytes).ok()));
                match back {
                    Ok(Some(q)) => {
                        decoded += 1;
                        if !term_consts_wt(&q.term) {
                            rep.fail(
                                &format!("decoder-ill-typed-constant:{}", hex::encode(&bytes)),
                                "the flat decoder produced a list/pair constant whose items do not have the declared type",
                                json!({"bytes": hex::encode(&bytes)}),
                                json!({"term": wire::term(&q.term)}),
                            );
                        }
                        terms.push(q.term);
                        continue;
                    }
                    Ok(None) => {}
                    Err(msg) => rep.fail(&format!("flat-panic:{}", hex::encode(&bytes)), "the flat decoder panicked", json!({"bytes": hex::encode(&bytes)}), json!({"panic": msg})),
                }
            }
        }
        terms.push(t);
    }
    rep.count_n("decoded-from-mutated-flat", decoded);
    // constants through the text printer/parser stay well-typed
    for _ in 0..(n / 10) {
        let c = gen_const(&mut rng, K::Any);
        let p: Program<Name> = Program { version: (1, 1, 0), term: Term::Constant(Rc::new(c)) };
        let text = p.to_pretty();
        if let Ok(Ok(q)) = guarded(AssertUnwindSafe(|| uplc::parser::program(&text))) {
            if !term_consts_wt(&q.term) {
                rep.fail(&format!("parser-ill-typed-constant:{}", text), "the text parser produced an ill-typed constant", json!({"text": text}), json!({}));
            }
        }
    }
    let mut reqs: Vec<String> = vec![];
    let mut real: Vec<String> = vec![];
    let mut keys: Vec<String> = vec![];
    for (vi, v) in variants.iter().enumerate() {
        reqs.push(cek::costmodel_request(&cek::default_costs(v)));
        real.push("ok".into());
        keys.push(format!("costmodel:{}", v.name));
        // hypothesis `stepsPositive` of `cek_terminates`, decided by the model on the REAL default cost model
        reqs.push("costpos".into());
        real.push("pos".into());
        keys.push(format!("costpos:{}", v.name));
        for (ti, t) in terms.iter().enumerate() {
            if !(vi == 4 || ti % 4 == vi) {
                continue;
            }
            let t0 = std::time::Instant::now();
            let out = cek::run_real(v, cek::default_costs(v), budget, 200, t);
            let dt = t0.elapsed().as_secs_f64();
            if dt > 10.0 {
                rep.fail(&format!("slow:{}:{}", v.name, wire::term(t)), "evaluation under a finite budget took more than 10 s", json!({"term": wire::term(t), "variant": v.name}), json!({"seconds": dt}));
            }
            match &out {
                RealOutcome::Panic(msg) => {
                    rep.count("outcome:panic");
                    rep.fail(&format!("panic:{}", wire::term(t)), "the evaluator panicked", json!({"term": wire::term(t), "variant": v.name}), json!({"panic": msg}));
                }
                RealOutcome::Ok(_, _) => rep.count("outcome:ok"),
                RealOutcome::Fail(e) => {
                    rep.count("outcome:fail");
                    rep.count(&format!("error:{}", e.split(|c: char| !c.is_alphanumeric()).next().unwrap_or("?")));
                }
                RealOutcome::Oob => rep.count("outcome:oob"),
            }
            reqs.push(cek::cek_request(v, 200, budget, fuel, t));
            real.push(out.canonical());
            keys.push(format!("cek:{}:{}", v.name, wire::term(t)));
        }
    }
    for t in terms.iter() {
        if gen::term_size(t) >= 3 {
            rep.nontrivial.insert(wire::term(t));
        }
        gen::count_formers(t, &mut rep.distribution);
    }
    for t in terms.iter().skip(12).take(5) {
        rep.sample(json!({"term": wire::term(t)}));
    }
    let model = driver::run(&reqs);
    rep.evaluations = reqs.len() as u64;
    for i in 0..reqs.len() {
        if model[i] == "unmodelled" || model[i] == "nofuel" {
            rep.count(&format!("model:{}", model[i]));
            continue;
        }
        if model[i] != real[i] {
            rep.disagree(&keys[i], &reqs[i].chars().take(3000).collect::<String>(), &real[i].chars().take(1500).collect::<String>(), &model[i].chars().take(1500).collect::<String>());
        }
    }
    rep
}

pub fn gate(ctx: &Ctx) -> Report {
    let mut rep = Report::new(
        "c10-gate",
        "every builtin × boundary-biased constant argument tuples (right and wrong types): whenever the optimiser's \
         gate DefaultFunction::is_error_safe accepts the arguments, the public optimiser pass that hosts the constant \
         folder (Program::multi_pass) is run on the saturated application: it must not panic and the folded program \
         must evaluate like the application (same value, or both fail). Non-trivial = distinct accepted (builtin, arguments)",
    );
    let per = arg_usize("--n", if ctx.thorough { 3000 } else { 300 });
    let mut rng = Prng::new(ctx.seed ^ 0x6A7E);
    use strum::IntoEnumIterator;
    use uplc::builtins::DefaultFunction as F;
    let v = cek::variants()[4].clone();
    let kinds = [K::Int, K::Bytes, K::Str, K::Bool, K::Unit, K::Data, K::ListData, K::ListInt, K::PairDD, K::ListPairDD];
    let table = gen::modelled_builtins();
    for f in F::iter() {
        let arity = f.arity();
        let sig: Option<Vec<K>> = table.iter().find(|(g, _, _)| *g == f).map(|(_, ks, _)| ks.clone());
        for i in 0..per {
            let args: Vec<Constant> = (0..arity)
                .map(|j| {
                    let k = match &sig {
                        Some(ks) if i % 4 != 3 && ks[j] != K::Any => ks[j],
                        _ => *rng.pick(&kinds),
                    };
                    gen_const(&mut rng, k)
                })
                .collect();
            let arg_terms: Vec<Term<Name>> = args.iter().map(|c| Term::Constant(Rc::new(c.clone()))).collect();
            let refs: Vec<&Term<Name>> = arg_terms.iter().collect();
            let safe = guarded(AssertUnwindSafe(|| f.is_error_safe(&refs)));
            rep.evaluations += 1;
            let safe = match safe {
                Ok(s) => s,
                Err(msg) => {
                    rep.fail(&format!("gate-panic:{:?}", f), "is_error_safe panicked", json!({"builtin": format!("{:?}", f), "args": args.iter().map(wire::constant).collect::<Vec<_>>()}), json!({"panic": msg}));
                    continue;
                }
            };
            if !safe {
                rep.count("gate:reject");
                continue;
            }
            rep.count("gate:accept");
            rep.count(&format!("accepted:{:?}", f));
            let mut t: gen::T = gen::forced_builtin(f);
            for c in args.iter() {
                t = gen::app(t, gen::con(c.clone()));
            }
            let key = format!("gate:{:?}:{}", f, args.iter().map(wire::constant).collect::<Vec<_>>().join(" "));
            rep.nontrivial.insert(key.clone());
            if rep.samples.len() < 6 {
                rep.sample(json!({"builtin": format!("{:?}", f), "args": args.iter().map(wire::constant).collect::<Vec<_>>()}));
            }
            // what the optimiser does with it: fold through the public pass that hosts the constant folder
            let named: Term<Name> = {
                let mut t: Term<Name> = Term::Builtin(f);
                for _ in 0..f.force_count() {
                    t = Term::Force(Rc::new(t));
                }
                for c in args.iter() {
                    t = Term::Apply { function: Rc::new(t), argument: Rc::new(Term::Constant(Rc::new(c.clone()))) };
                }
                t
            };
            let prog: Program<Name> = Program { version: (1, 1, 0), term: named };
            let folded = guarded(AssertUnwindSafe(|| prog.clone().multi_pass().0));
            let before = cek::run_real(&v, cek::default_costs(&v), ExBudget { mem: 1 << 40, cpu: 1 << 50 }, 200, &t);
            match folded {
                Err(msg) => {
                    rep.count("fold:panic");
                    rep.fail(&key, "the optimiser panicked while folding a constant builtin application", json!({"term": wire::term(&t)}), json!({"panic": msg, "evaluation_of_the_application": before.canonical()}));
                }
                Ok(p2) => {
                    let after_term = guarded(AssertUnwindSafe(|| Program::<NamedDeBruijn>::try_from(p2.clone()).map(|p| p.term)));
                    match after_term {
                        Ok(Ok(t2)) => {
                            let after = cek::run_real(&v, cek::default_costs(&v), ExBudget { mem: 1 << 40, cpu: 1 << 50 }, 200, &t2);
                            let cls = |o: &RealOutcome| match o {
                                RealOutcome::Ok(r, _) => format!("ok {}", wire::term(r)),
                                RealOutcome::Fail(_) => "fail".to_string(),
                                RealOutcome::Oob => "oob".to_string(),
                                RealOutcome::Panic(_) => "panic".to_string(),
                            };
                            if cls(&before) != cls(&after) {
                                rep.fail(&key, "folding a constant builtin application changed its result", json!({"term": wire::term(&t)}), json!({"before": cls(&before), "after": cls(&after)}));
                            }
                            match before {
                                RealOutcome::Ok(_, _) => rep.count("fold:value"),
                                _ => rep.count("fold:kept-failing-application"),
                            }
                        }
                        _ => {
                            rep.fail(&key, "the folded program is not closed / cannot be converted back", json!({"term": wire::term(&t)}), json!({}));
                        }
                    }
                }
            }
        }
    }
    rep
}
