//! C08: script bytes, hashes and addresses survive every tool round trip.
//!
//! Correspondence (byte-exact): `Program::<T>::to_flat` vs `driver flat enc`,
//! `Program::<T>::from_flat` vs `driver flat dec`, `to_cbor` vs `driver flat cbor-wrap`,
//! for generated programs in the three binder forms.
//! Property checks on the real code alone: decode∘encode = id, encode∘decode = id on
//! toolchain-produced bytes, cbor/hex wrappers, `SerializableProgram` hash = blake2b-224
//! of version tag ++ code recomputed here, serde round trip of `SerializableProgram`
//! and of a blueprint `Validator`.
use crate::flatgen::*;
use crate::report::{guarded, Report};
use crate::wire::hex;
use crate::{driver, prng::Prng, Ctx};
use serde_json::json;
use std::panic::AssertUnwindSafe;
use std::rc::Rc;
use uplc::ast::{Constant, DeBruijn, Name, NamedDeBruijn, Program, SerializableProgram, Term};
use uplc::flat::Binder;

fn arg_n(default: usize, name: &str) -> usize {
    let args: Vec<String> = std::env::args().collect();
    args.iter().position(|a| a == name).and_then(|i| args.get(i + 1)).and_then(|v| v.parse().ok()).unwrap_or(default)
}

/// blake2b-224 over `tag ++ code`, computed here with cryptoxide directly
fn ledger_hash(tag: u8, code: &[u8]) -> String {
    use cryptoxide::digest::Digest;
    let mut h = cryptoxide::blake2b::Blake2b::new(28);
    h.input(&[tag]);
    h.input(code);
    let mut out = [0u8; 28];
    h.result(&mut out);
    hex::encode(out)
}

struct Case {
    form: &'static str,
    key: String,
    wire: String,          // "<a> <b> <c> <term>"
    wf: bool,              // the format can carry every binder of the program
    real_flat: Result<Vec<u8>, String>, // Ok(bytes) | Err("err") | Err("panic:…")
    real_dec: Option<String>,
}

fn run_form<T>(r: &mut Prng, n: usize, rep: &mut Report, cases: &mut Vec<Case>, fixed_corpus: &[Program<T>])
where
    T: GenBinder + for<'b> Binder<'b>,
{
    let total = n + fixed_corpus.len();
    for i in 0..total {
        let mut kinds = vec![];
        let wf = !(T::FORM == "db" && r.chance(1, 8));
        let cfg = TermCfg { wf_binders: wf, bls: r.chance(1, 10) };
        let p: Program<T> = if i < fixed_corpus.len() { fixed_corpus[i].clone() } else { gen_program(r, &cfg, &mut kinds) };
        let w = fprogram(&p);
        let key = format!("{}:{}", T::FORM, if w.len() > 160 { format!("{}…#{}", &w[..120], w.len()) } else { w.clone() });
        for k in &kinds {
            rep.count(k);
        }
        rep.count(&format!("form:{}", T::FORM));
        rep.evaluations += 1;
        rep.nontrivial.insert(w.clone());
        let real_flat = match guarded(AssertUnwindSafe(|| p.to_flat())) {
            Ok(Ok(b)) => Ok(b),
            Ok(Err(_)) => Err("err".to_string()),
            Err(m) => Err(format!("panic:{m}")),
        };
        if let Err(e) = &real_flat {
            if e.starts_with("panic") {
                rep.fail(&format!("to_flat-panic:{key}"), "Program::to_flat panicked", json!({"form": T::FORM, "program": w}), json!(e));
            }
        }
        let mut real_dec = None;
        if let Ok(bytes) = &real_flat {
            rep.count(&format!("flat-bytes:{}", match bytes.len() { 0..=15 => "≤15", 16..=255 => "16-255", 256..=1023 => "256-1023", _ => "≥1024" }));
            // ---- property: decode ∘ encode = id ; encode ∘ decode = id
            let back = guarded(AssertUnwindSafe(|| Program::<T>::from_flat(bytes).map_err(|e| e.to_string())));
            match &back {
                Ok(Ok(q)) => {
                    let qw = fprogram(q);
                    real_dec = Some(format!("ok {qw}"));
                    if wf && qw != w {
                        rep.fail(&format!("flat-roundtrip:{key}"), "from_flat(to_flat(p)) ≠ p", json!({"form": T::FORM, "program": w, "bytes": hex(bytes)}), json!({"decoded": qw}));
                    }
                    match guarded(AssertUnwindSafe(|| q.to_flat())) {
                        Ok(Ok(b2)) if &b2 == bytes => {}
                        other => rep.fail(&format!("flat-reencode:{key}"), "to_flat(from_flat(bytes)) ≠ bytes for toolchain-produced bytes", json!({"form": T::FORM, "program": w, "bytes": hex(bytes)}), json!(format!("{:?}", other.map(|x| x.map(|b| hex(&b)).map_err(|e| e.to_string()))))),
                    }
                }
                Ok(Err(e)) => {
                    real_dec = Some("err".into());
                    rep.fail(&format!("flat-roundtrip:{key}"), "from_flat rejects bytes produced by to_flat", json!({"form": T::FORM, "program": w, "bytes": hex(bytes)}), json!(e));
                }
                Err(m) => {
                    real_dec = Some("panic".into());
                    rep.fail(&format!("flat-roundtrip:{key}"), "from_flat panics on bytes produced by to_flat", json!({"form": T::FORM, "program": w, "bytes": hex(bytes)}), json!(m));
                }
            }
            // ---- cbor / hex wrappers
            let cbor = p.to_cbor().unwrap();
            let hx = p.to_hex().unwrap();
            if hx != hex::encode(&cbor) {
                rep.fail(&format!("hex:{key}"), "to_hex ≠ hex(to_cbor)", json!({"program": w}), json!({"hex": hx}));
            }
            let mut buf = vec![];
            let via_cbor = guarded(AssertUnwindSafe(|| Program::<T>::from_cbor(&cbor, &mut buf).map(|q| fprogram(&q)).map_err(|e| e.to_string())));
            let (mut b1, mut b2) = (vec![], vec![]);
            let via_hex = guarded(AssertUnwindSafe(|| Program::<T>::from_hex(&hx, &mut b1, &mut b2).map(|q| fprogram(&q)).map_err(|e| e.to_string())));
            let expect = real_dec.as_ref().map(|s| s.trim_start_matches("ok ").to_string());
            for (nm, got) in [("from_cbor", via_cbor), ("from_hex", via_hex)] {
                if got.as_ref().ok().and_then(|x| x.as_ref().ok()) != expect.as_ref() {
                    rep.fail(&format!("{nm}:{key}"), "wrapper round trip differs from from_flat", json!({"program": w, "cbor": hex(&cbor)}), json!(format!("{got:?}")));
                }
            }
            cases.push(Case { form: T::FORM, key: format!("cbor-wrap:{key}"), wire: format!("#cbor {}", hex(bytes)), wf, real_flat: Ok(cbor), real_dec: None });
        }
        if i < 3 {
            rep.sample(json!({"form": T::FORM, "program": w, "flat": real_flat.as_ref().map(|b| hex(b)).unwrap_or_else(|e| e.clone())}));
        }
        cases.push(Case { form: T::FORM, key, wire: w, wf, real_flat, real_dec });
    }
}

/// hand-written programs that must always be in the run (boundaries named in the property)
fn fixed_db() -> Vec<Program<DeBruijn>> {
    let mut v = vec![];
    let con = |c: Constant| Term::<DeBruijn>::Constant(Rc::new(c));
    for n in BYTE_LENS {
        v.push(Program { version: (1, 0, 0), term: con(Constant::ByteString((0..n).map(|i| (i * 7) as u8).collect())) });
        // the same byte string at every bit alignment (k forces in front)
        for k in 1..4 {
            let mut t = con(Constant::ByteString(vec![0xAB; n]));
            for _ in 0..k {
                t = Term::Force(Rc::new(t));
            }
            v.push(Program { version: (1, 1, 0), term: Term::Constr { tag: k, fields: vec![t] } });
        }
    }
    for w in WORDS {
        v.push(Program { version: (w as usize, 0, w as usize), term: Term::Var(Rc::new(DeBruijn::new(w as usize))) });
        v.push(Program { version: (1, 1, 0), term: Term::Constr { tag: w as usize, fields: vec![] } });
        for s in [1i128, -1] {
            for d in [-1i128, 0, 1] {
                v.push(Program { version: (1, 0, 0), term: con(Constant::Integer(num_bigint::BigInt::from(s * (w as i128) + d))) });
            }
        }
    }
    v.push(Program { version: (1, 0, 0), term: con(Constant::String("héllo 中文 😀 \u{10ffff}\0".into())) });
    v.push(Program { version: (1, 0, 0), term: con(Constant::String("é".repeat(200))) });
    v
}

pub fn run(ctx: &Ctx) -> Report {
    let mut rep = Report::new(
        "c08-flat",
        "generated programs (every term constructor, every constant type incl. nested lists/pairs, Data decoded from \
         definite/indefinite/bignum/chunked CBOR, unicode strings, byte strings at the 255-chunk boundaries and at every \
         bit alignment, words/integers across 7-bit and 64-bit boundaries) × {DeBruijn, NamedDeBruijn, Name}. \
         Non-trivial = distinct program (wire text)",
    );
    let n = arg_n(if ctx.thorough { 60000 } else { 4000 }, "--n");
    let mut r = Prng::new(ctx.seed);
    let mut cases: Vec<Case> = vec![];
    run_form::<DeBruijn>(&mut r, n, &mut rep, &mut cases, &fixed_db());
    run_form::<NamedDeBruijn>(&mut r, n / 2, &mut rep, &mut cases, &[]);
    run_form::<Name>(&mut r, n / 2, &mut rep, &mut cases, &[]);

    // ---- correspondence with the Lean model
    let mode = if crate::c20::tree_is_fixed() { "fixed" } else { "impl" };
    rep.notes.push(format!("decoder model used for the comparison: {mode}"));
    let mut reqs = vec![];
    let mut expect = vec![];
    let mut keys = vec![];
    for c in &cases {
        if let Some(h) = c.wire.strip_prefix("#cbor ") {
            reqs.push(format!("flat cbor-wrap {h}"));
            expect.push(format!("ok {}", hex(c.real_flat.as_ref().unwrap())));
            keys.push(c.key.clone());
            continue;
        }
        reqs.push(format!("flat enc {} {}", c.form, c.wire));
        expect.push(match &c.real_flat {
            Ok(b) => format!("ok {}", hex(b)),
            Err(e) if e == "err" => "err".into(),
            Err(_) => "panic".into(),
        });
        keys.push(format!("enc:{}", c.key));
        if let (Ok(b), Some(d)) = (&c.real_flat, &c.real_dec) {
            reqs.push(format!("flat dec {} {} {}", c.form, mode, hex(b)));
            expect.push(d.clone());
            keys.push(format!("dec:{}", c.key));
        }
    }
    let model = driver::run(&reqs);
    for i in 0..reqs.len() {
        let m = if reqs[i].starts_with("flat dec") && model[i].starts_with("ok ") {
            normalise_model_ok(&model[i]).unwrap_or_else(|| "err".into())
        } else {
            model[i].clone()
        };
        if m != expect[i] {
            let rq = if reqs[i].len() > 4000 { format!("{}…", &reqs[i][..4000]) } else { reqs[i].clone() };
            rep.disagree(&keys[i], &rq, &expect[i], &m);
        }
    }
    rep.evaluations += reqs.len() as u64;

    serializable(&mut r, if ctx.thorough { 4000 } else { 400 }, &mut rep);
    blueprint_validator(&mut r, if ctx.thorough { 300 } else { 40 }, &mut rep);
    rep
}

/// `SerializableProgram`: published hash = ledger hash of exactly the published code for
/// the declared version; JSON round trip gives back the same variant and program.
fn serializable(r: &mut Prng, n: usize, rep: &mut Report) {
    for i in 0..n {
        let mut kinds = vec![];
        let cfg = TermCfg { wf_binders: true, bls: false };
        let p: Program<DeBruijn> = gen_program(r, &cfg, &mut kinds);
        let w = fprogram(&p);
        for (tag, sp) in [
            (1u8, SerializableProgram::PlutusV1Program(p.clone())),
            (2u8, SerializableProgram::PlutusV2Program(p.clone())),
            (3u8, SerializableProgram::PlutusV3Program(p.clone())),
        ] {
            rep.evaluations += 1;
            rep.count(&format!("serializable:v{tag}"));
            let key = format!("serializable:v{tag}:{}", if w.len() > 120 { format!("{}…#{}", &w[..100], w.len()) } else { w.clone() });
            let res = guarded(AssertUnwindSafe(|| {
                let (hash, script) = sp.compiled_code_and_hash();
                let code: Vec<u8> = (&*script).to_vec();
                (hash.to_string(), code)
            }));
            let (hash, code) = match res {
                Ok(x) => x,
                Err(m) => {
                    rep.fail(&key, "compiled_code_and_hash panicked", json!({"program": w}), json!(m));
                    continue;
                }
            };
            let cbor = p.to_cbor().unwrap();
            if code != cbor {
                rep.fail(&key, "compiled code ≠ to_cbor(program)", json!({"program": w}), json!({"code": hex(&code), "cbor": hex(&cbor)}));
            }
            let mine = ledger_hash(tag, &code);
            if mine != hash {
                rep.fail(&key, "published hash ≠ blake2b-224(version tag ++ code)", json!({"program": w, "version": tag}), json!({"published": hash, "recomputed": mine}));
            }
            // JSON round trip
            let js = serde_json::to_value(&sp).unwrap();
            if js["hash"] != json!(hash) || js["compiledCode"] != json!(hex::encode(&code)) {
                rep.fail(&key, "serialised JSON does not carry the code and its hash", json!({"program": w}), js.clone());
            }
            match guarded(AssertUnwindSafe(|| serde_json::from_value::<SerializableProgram>(js.clone()).map_err(|e| e.to_string()))) {
                Ok(Ok(back)) => {
                    let same_variant = std::mem::discriminant(&back) == std::mem::discriminant(&sp);
                    let (h2, s2) = back.compiled_code_and_hash();
                    if !same_variant || fprogram(back.inner()) != w || h2.to_string() != hash || &*s2 != &code[..] {
                        rep.fail(&key, "JSON round trip of SerializableProgram changed the version, program, code or hash", json!({"program": w, "json": js}), json!({"variant_kept": same_variant, "hash": h2.to_string()}));
                    }
                }
                other => rep.fail(&key, "SerializableProgram does not load what it saved", json!({"program": w, "json": js}), json!(format!("{other:?}"))),
            }
            // FOREIGN encodings of the same program (what a blueprint written by another tool may carry):
            // a non-minimal CBOR length header, trailing bytes.  Published next to their TRUE ledger hash.
            // Loading must either reject them or keep code and hash bit for bit.
            if let Some(flat) = foreign_flat(&code) {
                let mut variants: Vec<(&str, Vec<u8>)> = vec![];
                let n = flat.len();
                if n < 24 {
                    let mut v = vec![0x58, n as u8];
                    v.extend_from_slice(&flat);
                    variants.push(("cbor-header-1-byte-length", v));
                }
                if n < 256 {
                    let mut v = vec![0x59, 0, n as u8];
                    v.extend_from_slice(&flat);
                    variants.push(("cbor-header-2-byte-length", v));
                }
                if n < 65536 {
                    let mut v = vec![0x5a, 0, 0, (n >> 8) as u8, n as u8];
                    v.extend_from_slice(&flat);
                    variants.push(("cbor-header-4-byte-length", v));
                }
                let mut t = code.clone();
                t.push(0);
                variants.push(("trailing-byte", t));
                for (vname, bytes) in variants {
                    rep.evaluations += 1;
                    let published = ledger_hash(tag, &bytes);
                    let js = json!({"compiledCode": hex::encode(&bytes), "hash": published});
                    let fkey = format!("foreign-encoding:{vname}:v{tag}");
                    match guarded(AssertUnwindSafe(|| serde_json::from_value::<SerializableProgram>(js.clone()).map_err(|e| e.to_string()))) {
                        Ok(Ok(back)) => {
                            rep.count(&format!("foreign:{vname}:accepted"));
                            let (h2, s2) = back.compiled_code_and_hash();
                            if h2.to_string() != published || &*s2 != &bytes[..] {
                                rep.fail(
                                    &fkey,
                                    "a blueprint whose code is a foreign (non-canonical) encoding was accepted and its code / hash changed on the way through load",
                                    json!({"program": w, "json": js}),
                                    json!({"published_hash": published, "hash_after_load": h2.to_string(), "code_after_load": hex(&s2)}),
                                );
                            }
                        }
                        Ok(Err(_)) => rep.count(&format!("foreign:{vname}:rejected")),
                        Err(m) => rep.fail(&fkey, "loading a blueprint with a foreign encoding panicked", json!({"json": js}), json!(m)),
                    }
                }
            }
            if i < 1 && tag == 3 {
                rep.sample(json!({"serializable": w, "hash": hash, "code": hex(&code)}));
            }
        }
    }
}

/// the flat payload of a canonical CBOR byte-string wrapper (definite length, minimal header)
fn foreign_flat(cbor: &[u8]) -> Option<Vec<u8>> {
    let b0 = *cbor.first()?;
    let (hdr, len) = match b0 {
        0x40..=0x57 => (1usize, (b0 - 0x40) as usize),
        0x58 => (2, *cbor.get(1)? as usize),
        0x59 => (3, ((*cbor.get(1)? as usize) << 8) | *cbor.get(2)? as usize),
        _ => return None,
    };
    if cbor.len() != hdr + len {
        return None;
    }
    Some(cbor[hdr..].to_vec())
}

/// blueprint `Validator` (title/parameters/compiledCode/hash): save → load → save is the
/// identity on the JSON text, and the program/hash survive.
fn blueprint_validator(r: &mut Prng, n: usize, rep: &mut Report) {
    use aiken_project::blueprint::validator::Validator;
    for _ in 0..n {
        let mut kinds = vec![];
        let cfg = TermCfg { wf_binders: true, bls: false };
        let p: Program<DeBruijn> = gen_program(r, &cfg, &mut kinds);
        let w = fprogram(&p);
        let sp = match r.below(3) {
            0 => SerializableProgram::PlutusV1Program(p.clone()),
            1 => SerializableProgram::PlutusV2Program(p.clone()),
            _ => SerializableProgram::PlutusV3Program(p.clone()),
        };
        let sp_json = serde_json::to_value(&sp).unwrap();
        let js = json!({
            "title": format!("m.v{}.spend", r.below(100)),
            "compiledCode": sp_json["compiledCode"],
            "hash": sp_json["hash"],
        });
        rep.evaluations += 1;
        rep.count("blueprint-validator");
        let key = format!("validator:{}", if w.len() > 120 { format!("{}…#{}", &w[..100], w.len()) } else { w.clone() });
        match guarded(AssertUnwindSafe(|| serde_json::from_value::<Validator<SerializableProgram>>(js.clone()).map_err(|e| e.to_string()))) {
            Ok(Ok(v)) => {
                let out = serde_json::to_value(&v).unwrap();
                if out["compiledCode"] != js["compiledCode"] || out["hash"] != js["hash"] || out["title"] != js["title"] || fprogram(v.program.inner()) != w {
                    rep.fail(&key, "blueprint validator load/save changed code, hash or program", json!({"json": js}), out);
                }
            }
            other => rep.fail(&key, "blueprint validator does not load", json!({"json": js}), json!(format!("{other:?}"))),
        }
    }
}
