//! C04: every builtin computes its specified function on its whole domain.
//! Correspondence `c04-builtin`: saturated applications of every MODELLED builtin to boundary-biased
//! constants (zero, negative, beyond 64/128 bits, empty, at and one past each boundary, wrong types,
//! Data decoded from definite AND indefinite / big- and small-integer CBOR encodings) evaluated by the
//! real machine under each semantics variant A–E vs the Lean model; plus determinism (evaluated twice).
use crate::cek::{self, RealOutcome};
use crate::c03::arg_usize;
use crate::gen::{self, gen_const, pow2, K};
use crate::prng::Prng;
use crate::report::Report;
use crate::{driver, wire, Ctx};
use num_bigint::BigInt;
use serde_json::json;
use uplc::ast::{Constant, Type};
use uplc::machine::cost_model::ExBudget;

fn boundary_ints() -> Vec<BigInt> {
    let mut v: Vec<BigInt> = vec![];
    for i in [-257i64, -256, -255, -129, -128, -9, -8, -7, -2, -1, 0, 1, 2, 7, 8, 9, 15, 16, 17, 63, 64, 65, 127, 128, 129, 255, 256, 257, 8191, 8192, 8193, 65535, 65536] {
        v.push(BigInt::from(i));
    }
    for e in [31u32, 32, 63, 64, 127, 128, 255, 256, 8190, 8191, 8192, 65535, 65536] {
        for d in [-1i64, 0, 1] {
            v.push(pow2(e) + d);
            v.push(-(pow2(e)) + d);
        }
    }
    v
}

fn boundary_bytes(r: &mut Prng) -> Vec<Vec<u8>> {
    let mut v = vec![vec![], vec![0], vec![0xff], vec![0x80], vec![1], vec![0, 0], vec![0, 1], vec![1, 0], vec![0xff; 8], vec![0xff; 9]];
    for n in [7usize, 8, 9, 15, 16, 17, 31, 32, 33, 64, 65] {
        v.push((0..n).map(|_| r.next() as u8).collect());
    }
    v.push(vec![0xc3, 0xa9]); // é
    v.push(vec![0xc3]); // truncated utf-8
    v.push(vec![0xed, 0xa0, 0x80]); // surrogate
    v.push(vec![0xf4, 0x90, 0x80, 0x80]); // > U+10FFFF
    v.push(vec![0xc0, 0x80]); // overlong
    v
}

fn pick_arg(r: &mut Prng, k: K, ints: &[BigInt], bytes: &[Vec<u8>]) -> Constant {
    match k {
        K::Int if r.chance(3, 4) => Constant::Integer(r.pick(ints).clone()),
        K::Bytes if r.chance(3, 4) => Constant::ByteString(r.pick(bytes).clone()),
        K::Data if r.chance(1, 4) => {
            // Data that went through CBOR (indefinite arrays, bignum encodings)
            let d = gen::gen_data(r, 2);
            let bytes = uplc::plutus_data_to_bytes(&d);
            match uplc::plutus_data(&bytes) {
                Ok(d2) => Constant::Data(d2),
                Err(_) => Constant::Data(d),
            }
        }
        K::ListInt if r.chance(1, 2) => Constant::ProtoList(Type::Integer, (0..r.below(4)).map(|_| Constant::Integer(r.pick(ints).clone())).collect()),
        _ => gen_const(r, k),
    }
}

pub fn run(ctx: &Ctx) -> Report {
    let mut rep = Report::new(
        "c04-builtin",
        "every modelled builtin × argument tuples drawn from boundary tables (integers 0, ±1, ±2^k±1 for k up to 65536, \
         byte strings of length 0,1,7,8,9,…,65 incl. invalid UTF-8, Data through CBOR) with 1 in 5 arguments of a wrong \
         type, under semantics variants A–E: result value / failure of the real machine vs the Lean model, and twice for \
         determinism. Non-trivial = distinct (builtin, arguments)",
    );
    let per = arg_usize("--n", if ctx.thorough { 4000 } else { 250 });
    let mut rng = Prng::new(ctx.seed ^ 0xC04);
    let ints = boundary_ints();
    let bytes = boundary_bytes(&mut rng);
    let variants = cek::variants();
    let table = gen::modelled_builtins();
    let kinds = [K::Int, K::Bytes, K::Str, K::Bool, K::Unit, K::Data, K::ListData, K::ListInt, K::PairDD, K::ListPairDD];
    let budget = ExBudget { mem: 1 << 40, cpu: 1 << 50 };
    let mut cases: Vec<(usize, gen::T, String)> = vec![];
    for (bi, (f, ks, _)) in table.iter().enumerate() {
        for _ in 0..per {
            let args: Vec<Constant> = ks
                .iter()
                .map(|k| {
                    let k = if *k == K::Any { *rng.pick(&kinds) } else if rng.chance(1, 5) { *rng.pick(&kinds) } else { *k };
                    pick_arg(&mut rng, k, &ints, &bytes)
                })
                .collect();
            // keep expModInteger cheap: huge exponents with huge moduli take long on both sides
            if *f == uplc::builtins::DefaultFunction::ExpModInteger {
                let big = args.iter().filter(|c| matches!(c, Constant::Integer(i) if i.bits() > 300)).count();
                if big >= 2 {
                    continue;
                }
            }
            let mut t = gen::forced_builtin(*f);
            for c in args.iter() {
                t = gen::app(t, gen::con(c.clone()));
            }
            let key = format!("{:?}:{}", f, args.iter().map(wire::constant).collect::<Vec<_>>().join(" "));
            if key.len() < 20000 {
                cases.push((bi, t, key));
            }
        }
    }
    let mut reqs = vec![];
    let mut real = vec![];
    let mut keys = vec![];
    for (vi, v) in variants.iter().enumerate() {
        reqs.push(cek::costmodel_request(&cek::default_costs(v)));
        real.push("ok".to_string());
        keys.push(format!("costmodel:{}", v.name));
        for (ci, (bi, t, key)) in cases.iter().enumerate() {
            // every case under two variants (E and one rotating), variant-sensitive builtins under all five
            let f = table[*bi].0;
            use uplc::builtins::DefaultFunction as F;
            let sensitive = matches!(f, F::ConsByteString | F::ShiftByteString | F::RotateByteString | F::AppendString | F::EqualsString | F::EncodeUtf8);
            if !(sensitive || vi == 4 || ci % 4 == vi) {
                continue;
            }
            let out = cek::run_real(v, cek::default_costs(v), budget, 200, t);
            let again = cek::run_real(v, cek::default_costs(v), budget, 200, t);
            if out.canonical() != again.canonical() {
                rep.fail(&format!("nondeterministic:{}:{}", v.name, key), "a builtin answered differently for equal arguments", json!({"term": wire::term(t), "variant": v.name}), json!({"first": out.canonical(), "second": again.canonical()}));
            }
            match &out {
                RealOutcome::Panic(msg) => rep.fail(&format!("panic:{}:{}", v.name, key), "a builtin crashed the evaluator", json!({"term": wire::term(t), "variant": v.name}), json!({"panic": msg})),
                RealOutcome::Ok(_, _) => rep.count(&format!("ok:{:?}", f)),
                RealOutcome::Fail(_) => rep.count(&format!("fail:{:?}", f)),
                RealOutcome::Oob => rep.count("oob"),
            }
            reqs.push(cek::cek_request(v, 200, budget, 1000, t));
            real.push(out.canonical());
            keys.push(format!("builtin:{}:{}", v.name, key));
        }
    }
    for (_, _, key) in cases.iter() {
        rep.nontrivial.insert(key.clone());
    }
    for (_, t, _) in cases.iter().step_by((cases.len() / 6).max(1)).take(6) {
        rep.sample(json!({"term": wire::term(t)}));
    }
    rep.evaluations = reqs.len() as u64;
    if std::env::args().any(|a| a == "--panics-only") {
        // (as a sub-command of C10: only the real evaluator is observed — a panic is the failure)
        return rep;
    }
    let model = driver::run(&reqs);
    for i in 0..reqs.len() {
        if model[i] == "unmodelled" || model[i] == "nofuel" {
            rep.count(&format!("model:{}", model[i]));
            continue;
        }
        if model[i] != real[i] {
            // the Lean builtin model is the function the C04 laws are proved about (`divide_mod_law`,
            // `slice_spec`, `index_spec`, …): where it answers a value or a failure, a different answer of
            // the real builtin on this argument tuple is a failing input of the property (`spec:`); only
            // a `panic` answer is about the Rust representation (impl-model side)
            let key = if model[i].starts_with("panic") || keys[i].starts_with("costmodel") { keys[i].clone() } else { format!("spec:{}", keys[i]) };
            rep.disagree(&key, &reqs[i].chars().take(3000).collect::<String>(), &real[i].chars().take(1500).collect::<String>(), &model[i].chars().take(1500).collect::<String>());
        }
    }
    rep
}
