//! Generators and wire helpers shared by c08 (round trips) and c20 (malformed input):
//! programs over every term constructor and constant type in the three binder forms.
use crate::prng::Prng;
use crate::wire::{self, hex};
use num_bigint::{BigInt, Sign};
use pallas_primitives::{conway::PlutusData, Fragment};
use std::rc::Rc;
use strum::IntoEnumIterator;
use uplc::ast::{Constant, DeBruijn, Name, NamedDeBruijn, Program, Term, Type, Unique};
use uplc::builtins::DefaultFunction;

// ---------------------------------------------------------------- wire (Data as opaque CBOR)
/// like `wire::constant`, but a `Data` constant travels as its CBOR bytes:
/// `(da (B #<encode_fragment>))` — the Lean flat model treats that codec as a parameter.
pub fn fconstant(c: &Constant) -> String {
    match c {
        Constant::ProtoList(t, xs) => {
            let mut s = format!("(li {}", wire::ty(t));
            for x in xs {
                s.push(' ');
                s.push_str(&fconstant(x));
            }
            s.push(')');
            s
        }
        Constant::ProtoPair(a, b, x, y) => {
            format!("(pa {} {} {} {})", wire::ty(a), wire::ty(b), fconstant(x), fconstant(y))
        }
        Constant::Data(d) => match d.encode_fragment() {
            Ok(b) => format!("(da (B {}))", hex(&b)),
            Err(_) => "(da ?unencodable)".into(),
        },
        other => wire::constant(other),
    }
}

pub fn fterm<T: wire::Binder>(t: &Term<T>) -> String {
    let mut s = String::new();
    fterm_into(t, &mut s);
    s
}

fn fterm_into<T: wire::Binder>(t: &Term<T>, s: &mut String) {
    match t {
        Term::Var(n) => {
            s.push_str("(v ");
            s.push_str(&n.atoms());
            s.push(')');
        }
        Term::Lambda { parameter_name, body } => {
            s.push_str("(l ");
            s.push_str(&parameter_name.atoms());
            s.push(' ');
            fterm_into(body, s);
            s.push(')');
        }
        Term::Apply { function, argument } => {
            s.push_str("(a ");
            fterm_into(function, s);
            s.push(' ');
            fterm_into(argument, s);
            s.push(')');
        }
        Term::Delay(t) => {
            s.push_str("(d ");
            fterm_into(t, s);
            s.push(')');
        }
        Term::Force(t) => {
            s.push_str("(f ");
            fterm_into(t, s);
            s.push(')');
        }
        Term::Error => s.push('e'),
        Term::Builtin(b) => s.push_str(&format!("(b {:?})", b)),
        Term::Constant(c) => {
            s.push_str("(c ");
            s.push_str(&fconstant(c));
            s.push(')');
        }
        Term::Constr { tag, fields } => {
            s.push_str(&format!("(k {}", tag));
            for f in fields {
                s.push(' ');
                fterm_into(f, s);
            }
            s.push(')');
        }
        Term::Case { constr, branches } => {
            s.push_str("(s ");
            fterm_into(constr, s);
            for b in branches {
                s.push(' ');
                fterm_into(b, s);
            }
            s.push(')');
        }
    }
}

pub fn fprogram<T: wire::Binder>(p: &Program<T>) -> String {
    format!("{} {} {} {}", p.version.0, p.version.1, p.version.2, fterm(&p.term))
}

/// The model's `ok …` reply carries Data constants as the raw CBOR bytes found in the
/// stream; the real decoder parses them (`PlutusData::decode_fragment`).  Rewrite the
/// model's reply to what the real side prints: `None` if some payload is not valid
/// PlutusData CBOR (then the real decoder must answer `err`).
pub fn normalise_model_ok(reply: &str) -> Option<String> {
    let pat = "(da (B #";
    let mut out = String::new();
    let mut rest = reply;
    while let Some(i) = rest.find(pat) {
        out.push_str(&rest[..i]);
        let after = &rest[i + pat.len()..];
        let j = after.find(')')?;
        let raw = hex::decode(&after[..j]).ok()?;
        let d = PlutusData::decode_fragment(&raw).ok()?;
        let re = d.encode_fragment().ok()?;
        out.push_str(&format!("(da (B {}", hex(&re)));
        rest = &after[j..];
    }
    out.push_str(rest);
    Some(out)
}

// ---------------------------------------------------------------- scalars
pub const WORDS: [u64; 22] = [
    0, 1, 2, 63, 64, 126, 127, 128, 129, 255, 256, 16383, 16384, 2097151, 2097152,
    u32::MAX as u64, 1 << 32, (1 << 49) - 1, 1 << 56, (1 << 63) - 1, 1 << 63, u64::MAX,
];

pub fn gen_word(r: &mut Prng) -> usize {
    match r.below(4) {
        0 => *r.pick(&WORDS) as usize,
        1 => r.below(130),
        2 => (r.next() >> r.below(64)) as usize,
        _ => r.below(6),
    }
}

pub fn gen_isize(r: &mut Prng) -> isize {
    match r.below(5) {
        0 => *r.pick(&[0isize, -1, 1, 63, -64, 64, -65, 8191, -8192, 8192, isize::MAX, isize::MIN, isize::MAX - 1, isize::MIN + 1]),
        1 => (r.next() >> r.below(64)) as isize,
        2 => -((r.next() >> (1 + r.below(63))) as isize),
        _ => r.below(40) as isize,
    }
}

pub fn gen_bigint(r: &mut Prng) -> BigInt {
    let one = BigInt::from(1);
    let base = match r.below(5) {
        0 => {
            let k = *r.pick(&[0u32, 6, 7, 13, 14, 20, 21, 31, 32, 62, 63, 64, 65, 127, 128, 129, 255, 256]);
            let d = r.range(-2, 2);
            (one << k) + BigInt::from(d)
        }
        1 => BigInt::from(r.range(-200, 200)),
        2 => {
            let n = 1 + r.below(40);
            let bytes: Vec<u8> = (0..n).map(|_| r.next() as u8).collect();
            BigInt::from_bytes_be(Sign::Plus, &bytes)
        }
        3 => BigInt::from(r.next()),
        _ => BigInt::from(r.next() as i64),
    };
    if r.chance(1, 2) {
        -base
    } else {
        base
    }
}

pub const BYTE_LENS: [usize; 12] = [0, 1, 2, 31, 64, 254, 255, 256, 257, 510, 511, 765];

pub fn gen_bytes(r: &mut Prng) -> Vec<u8> {
    let n = match r.below(4) {
        0 => *r.pick(&BYTE_LENS),
        1 => r.below(8),
        2 => r.below(40),
        _ => r.below(600),
    };
    let mode = r.below(3);
    (0..n)
        .map(|i| match mode {
            0 => r.next() as u8,
            1 => *r.pick(&[0u8, 1, 0x7f, 0x80, 0xff]),
            _ => i as u8,
        })
        .collect()
}

pub fn gen_string(r: &mut Prng) -> String {
    let pools: [&[char]; 5] = [
        &['a', 'b', 'z', 'A', '0', '_', ' '],
        &['é', 'ß', 'Ω', 'ж', '\u{7ff}', '\u{80}'],
        &['中', '文', '\u{800}', '\u{ffff}', '\u{d7ff}', '\u{e000}'],
        &['😀', '\u{10000}', '\u{10ffff}', '𝔘'],
        &['\0', '\n', '\t', '"', '\\', '\u{7f}', '\r'],
    ];
    let n = match r.below(5) {
        0 => 0,
        1 => 1,
        2 => r.below(12),
        3 => 250 + r.below(12),
        _ => r.below(40),
    };
    let mix = r.chance(1, 2);
    let p0 = r.below(5);
    (0..n)
        .map(|_| {
            let p = if mix { r.below(5) } else { p0 };
            *r.pick(pools[p])
        })
        .collect()
}

// ---------------------------------------------------------------- Data (from CBOR, every encoding)
fn cbor_head(major: u8, v: u64, r: &mut Prng, out: &mut Vec<u8>) {
    // mostly shortest form; sometimes a wider (non-canonical) head
    let widen = r.chance(1, 12);
    if v < 24 && !widen {
        out.push(major << 5 | v as u8);
    } else if v < 0x100 && !widen {
        out.push(major << 5 | 24);
        out.push(v as u8);
    } else if v < 0x10000 && !widen {
        out.push(major << 5 | 25);
        out.extend((v as u16).to_be_bytes());
    } else if v < 0x1_0000_0000 && !widen {
        out.push(major << 5 | 26);
        out.extend((v as u32).to_be_bytes());
    } else {
        out.push(major << 5 | 27);
        out.extend(v.to_be_bytes());
    }
}

fn cbor_bytes(b: &[u8], r: &mut Prng, out: &mut Vec<u8>) {
    if b.len() > 64 || r.chance(1, 6) {
        // indefinite: chunks of at most 64 bytes
        out.push(0x5f);
        for ch in b.chunks(1 + r.below(64)) {
            cbor_head(2, ch.len() as u64, r, out);
            out.extend(ch);
        }
        out.push(0xff);
    } else {
        cbor_head(2, b.len() as u64, r, out);
        out.extend(b);
    }
}

fn cbor_array_open(n: usize, r: &mut Prng, out: &mut Vec<u8>) -> bool {
    let indef = r.chance(1, 2);
    if indef {
        out.push(0x9f);
    } else {
        cbor_head(4, n as u64, r, out);
    }
    indef
}

/// writes one PlutusData item as CBOR, choosing among the encodings the ledger accepts
pub fn gen_data_cbor(r: &mut Prng, depth: usize, out: &mut Vec<u8>) {
    let k = if depth == 0 { 3 + r.below(2) } else { r.below(5) };
    match k {
        0 => {
            // constr: compact tags 121..127, 1280..1400, or 102 [ix, fields]
            let n = r.below(4);
            match r.below(3) {
                0 => {
                    cbor_head(6, 121 + r.below(7) as u64, r, out);
                }
                1 => {
                    cbor_head(6, 1280 + r.below(121) as u64, r, out);
                }
                _ => {
                    cbor_head(6, 102, r, out);
                    out.push(0x82);
                    let ix = if r.chance(1, 2) { r.below(200) as u64 } else { r.next() >> r.below(64) };
                    cbor_head(0, ix, r, out);
                }
            }
            let indef = cbor_array_open(n, r, out);
            for _ in 0..n {
                gen_data_cbor(r, depth - 1, out);
            }
            if indef {
                out.push(0xff);
            }
        }
        1 => {
            let n = r.below(4);
            let indef = r.chance(1, 2);
            if indef {
                out.push(0xbf);
            } else {
                cbor_head(5, n as u64, r, out);
            }
            for _ in 0..n {
                gen_data_cbor(r, depth - 1, out);
                gen_data_cbor(r, depth - 1, out);
            }
            if indef {
                out.push(0xff);
            }
        }
        2 => {
            let n = r.below(5);
            let indef = cbor_array_open(n, r, out);
            for _ in 0..n {
                gen_data_cbor(r, depth - 1, out);
            }
            if indef {
                out.push(0xff);
            }
        }
        3 => {
            // integers: small (major 0/1) or bignum (tag 2/3)
            match r.below(4) {
                0 => cbor_head(0, gen_word(r) as u64, r, out),
                1 => cbor_head(1, gen_word(r) as u64, r, out),
                2 => {
                    out.push(0xc2);
                    let n = 1 + r.below(20);
                    let b: Vec<u8> = (0..n).map(|i| if i == 0 { 1 + (r.next() % 255) as u8 } else { r.next() as u8 }).collect();
                    cbor_bytes(&b, r, out);
                }
                _ => {
                    out.push(0xc3);
                    let n = 9 + r.below(12);
                    let b: Vec<u8> = (0..n).map(|i| if i == 0 { 1 + (r.next() % 255) as u8 } else { r.next() as u8 }).collect();
                    cbor_bytes(&b, r, out);
                }
            }
        }
        _ => {
            let n = *r.pick(&[0usize, 1, 5, 32, 63, 64, 65, 128, 130]);
            let b: Vec<u8> = (0..n).map(|_| r.next() as u8).collect();
            cbor_bytes(&b, r, out);
        }
    }
}

/// a PlutusData value obtained by decoding generated CBOR (so it carries whatever
/// encoding annotations pallas keeps); `None` if pallas rejects the bytes
pub fn gen_data(r: &mut Prng) -> Option<(PlutusData, Vec<u8>)> {
    let mut cbor = vec![];
    let d = r.below(4);
    gen_data_cbor(r, d, &mut cbor);
    PlutusData::decode_fragment(&cbor).ok().map(|d| (d, cbor))
}

// ---------------------------------------------------------------- constants
pub fn gen_type(r: &mut Prng, depth: usize, bls: bool) -> Type {
    let k = if depth == 0 { r.below(6) } else { r.below(9) };
    match k {
        0 => Type::Integer,
        1 => Type::ByteString,
        2 => Type::String,
        3 => Type::Unit,
        4 => Type::Bool,
        5 => {
            if bls && r.chance(1, 4) {
                r.pick(&[Type::Bls12_381G1Element, Type::Bls12_381G2Element, Type::Bls12_381MlResult]).clone()
            } else {
                Type::Data
            }
        }
        6 | 7 => Type::List(Rc::new(gen_type(r, depth - 1, bls))),
        _ => Type::Pair(Rc::new(gen_type(r, depth - 1, bls)), Rc::new(gen_type(r, depth - 1, bls))),
    }
}

pub fn gen_const_of(r: &mut Prng, t: &Type) -> Constant {
    match t {
        Type::Integer => Constant::Integer(gen_bigint(r)),
        Type::ByteString => Constant::ByteString(gen_bytes(r)),
        Type::String => Constant::String(gen_string(r)),
        Type::Unit => Constant::Unit,
        Type::Bool => Constant::Bool(r.chance(1, 2)),
        Type::Data => loop {
            if let Some((d, _)) = gen_data(r) {
                break Constant::Data(d);
            }
        },
        Type::List(t) => {
            let n = if matches!(**t, Type::Bls12_381G1Element | Type::Bls12_381G2Element | Type::Bls12_381MlResult) {
                // BLS elements cannot be written; an empty list of them can
                if r.chance(1, 4) { 1 } else { 0 }
            } else {
                r.below(4)
            };
            Constant::ProtoList((**t).clone(), (0..n).map(|_| gen_const_of(r, t)).collect())
        }
        Type::Pair(a, b) => Constant::ProtoPair((**a).clone(), (**b).clone(), Rc::new(gen_const_of(r, a)), Rc::new(gen_const_of(r, b))),
        Type::Bls12_381G1Element => Constant::Bls12_381G1Element(Box::new(blst::blst_p1::default())),
        Type::Bls12_381G2Element => Constant::Bls12_381G2Element(Box::new(blst::blst_p2::default())),
        Type::Bls12_381MlResult => Constant::Bls12_381MlResult(Box::new(blst::blst_fp12::default())),
    }
}

pub fn gen_const(r: &mut Prng, bls: bool) -> Constant {
    let d = r.below(4);
    let t = gen_type(r, d, bls);
    gen_const_of(r, &t)
}

pub fn const_kind(c: &Constant) -> &'static str {
    match c {
        Constant::Integer(_) => "const:integer",
        Constant::ByteString(_) => "const:bytestring",
        Constant::String(_) => "const:string",
        Constant::Unit => "const:unit",
        Constant::Bool(_) => "const:bool",
        Constant::ProtoList(..) => "const:list",
        Constant::ProtoPair(..) => "const:pair",
        Constant::Data(_) => "const:data",
        _ => "const:bls",
    }
}

// ---------------------------------------------------------------- binders
pub trait GenBinder: Sized + wire::Binder + Clone + std::fmt::Debug {
    const FORM: &'static str;
    fn var(r: &mut Prng) -> Self;
    /// lambda parameter; `wf = false` allows values the format cannot carry
    fn binder(r: &mut Prng, wf: bool) -> Self;
}
impl GenBinder for DeBruijn {
    const FORM: &'static str = "db";
    fn var(r: &mut Prng) -> Self {
        DeBruijn::new(gen_word(r))
    }
    fn binder(r: &mut Prng, wf: bool) -> Self {
        if wf { DeBruijn::new(0) } else { DeBruijn::new(gen_word(r)) }
    }
}
impl GenBinder for NamedDeBruijn {
    const FORM: &'static str = "ndb";
    fn var(r: &mut Prng) -> Self {
        NamedDeBruijn { text: gen_string(r), index: DeBruijn::new(gen_word(r)) }
    }
    fn binder(r: &mut Prng, _wf: bool) -> Self {
        Self::var(r)
    }
}
impl GenBinder for Name {
    const FORM: &'static str = "name";
    fn var(r: &mut Prng) -> Self {
        Name { text: gen_string(r), unique: Unique::new(gen_isize(r)) }
    }
    fn binder(r: &mut Prng, _wf: bool) -> Self {
        Self::var(r)
    }
}

// ---------------------------------------------------------------- terms
pub struct TermCfg {
    pub wf_binders: bool,
    pub bls: bool,
}

pub fn gen_term<T: GenBinder>(r: &mut Prng, depth: usize, cfg: &TermCfg, kinds: &mut Vec<&'static str>) -> Term<T> {
    let k = if depth == 0 { *r.pick(&[0usize, 4, 6, 7]) } else { r.below(10) };
    match k {
        0 => {
            kinds.push("term:var");
            Term::Var(Rc::new(T::var(r)))
        }
        1 => {
            kinds.push("term:delay");
            Term::Delay(Rc::new(gen_term(r, depth - 1, cfg, kinds)))
        }
        2 => {
            kinds.push("term:lambda");
            Term::Lambda { parameter_name: Rc::new(T::binder(r, cfg.wf_binders)), body: Rc::new(gen_term(r, depth - 1, cfg, kinds)) }
        }
        3 => {
            kinds.push("term:apply");
            Term::Apply { function: Rc::new(gen_term(r, depth - 1, cfg, kinds)), argument: Rc::new(gen_term(r, depth - 1, cfg, kinds)) }
        }
        4 => {
            let c = gen_const(r, cfg.bls);
            kinds.push("term:constant");
            kinds.push(const_kind(&c));
            Term::Constant(Rc::new(c))
        }
        5 => {
            kinds.push("term:force");
            Term::Force(Rc::new(gen_term(r, depth - 1, cfg, kinds)))
        }
        6 => {
            kinds.push("term:error");
            Term::Error
        }
        7 => {
            kinds.push("term:builtin");
            let all: Vec<DefaultFunction> = DefaultFunction::iter().collect();
            Term::Builtin(*r.pick(&all))
        }
        8 => {
            kinds.push("term:constr");
            let n = r.below(4);
            Term::Constr { tag: gen_word(r), fields: (0..n).map(|_| gen_term(r, depth - 1, cfg, kinds)).collect() }
        }
        _ => {
            kinds.push("term:case");
            let n = r.below(4);
            Term::Case { constr: Rc::new(gen_term(r, depth - 1, cfg, kinds)), branches: (0..n).map(|_| gen_term(r, depth - 1, cfg, kinds)).collect() }
        }
    }
}

pub fn gen_version(r: &mut Prng) -> (usize, usize, usize) {
    match r.below(4) {
        0 => (1, 0, 0),
        1 => (1, 1, 0),
        2 => (gen_word(r), gen_word(r), gen_word(r)),
        _ => (r.below(3), r.below(200), r.below(3)),
    }
}

pub fn gen_program<T: GenBinder>(r: &mut Prng, cfg: &TermCfg, kinds: &mut Vec<&'static str>) -> Program<T> {
    let depth = match r.below(6) {
        0 => 0,
        1 => 1,
        2 => 2,
        3 => 3,
        4 => 4,
        _ => 6,
    };
    Program { version: gen_version(r), term: gen_term(r, depth, cfg, kinds) }
}
