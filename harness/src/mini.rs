//! MiniAiken (M-MINI, `lean/AikenVerif/Model/Mini.lean`): typed AST, seeded type-directed
//! generator of whole modules, renderer to Aiken source text, wire format for the Lean
//! driver (`mini`), values and the representation relation between source values and
//! what compiled code takes (Data arguments) and returns (UPLC constants).
use crate::prng::Prng;
use crate::wire;
use num_bigint::BigInt;
use pallas_primitives::alonzo::PlutusData;
use std::collections::BTreeMap;
use uplc::ast::{Constant, Data};

// ------------------------------------------------------------------ types
#[derive(Clone, PartialEq, Eq, Debug, Hash)]
pub enum Ty {
    Int,
    Bool,
    Bytes,
    Void,
    Str,
    List(Box<Ty>),
    Tuple(Vec<Ty>),
    Opt(Box<Ty>),
    Adt(usize),
    Fn(Vec<Ty>, Box<Ty>),
    /// type variable of a generic prelude function (rendering only)
    Var(u8),
    Data,
}

#[derive(Clone, Debug)]
pub struct Ctor {
    pub name: String,
    pub fields: Vec<(String, Ty)>,
}

#[derive(Clone, Debug)]
pub struct AdtDecl {
    pub name: String,
    pub ctors: Vec<Ctor>,
}

impl Ty {
    pub fn first_order(&self) -> bool {
        match self {
            Ty::Fn(..) | Ty::Var(_) => false,
            Ty::List(t) | Ty::Opt(t) => t.first_order(),
            Ty::Tuple(ts) => ts.iter().all(|t| t.first_order()),
            _ => true,
        }
    }
    pub fn render(&self, adts: &[AdtDecl]) -> String {
        match self {
            Ty::Int => "Int".into(),
            Ty::Bool => "Bool".into(),
            Ty::Bytes => "ByteArray".into(),
            Ty::Void => "Void".into(),
            Ty::Str => "String".into(),
            Ty::Data => "Data".into(),
            Ty::List(t) => format!("List<{}>", t.render(adts)),
            Ty::Opt(t) => format!("Option<{}>", t.render(adts)),
            Ty::Tuple(ts) => format!("({})", ts.iter().map(|t| t.render(adts)).collect::<Vec<_>>().join(", ")),
            Ty::Adt(i) => adts[*i].name.clone(),
            Ty::Fn(a, r) => format!(
                "fn({}) -> {}",
                a.iter().map(|t| t.render(adts)).collect::<Vec<_>>().join(", "),
                r.render(adts)
            ),
            Ty::Var(i) => ((b'a' + *i) as char).to_string(),
        }
    }
    /// wire form for the Lean driver (needed by Data casts only)
    pub fn wire(&self) -> String {
        match self {
            Ty::Int => "int".into(),
            Ty::Bool => "bool".into(),
            Ty::Bytes => "bytes".into(),
            Ty::Void => "void".into(),
            Ty::Str => "str".into(),
            Ty::Data => "data".into(),
            Ty::List(t) => format!("(list {})", t.wire()),
            Ty::Opt(t) => format!("(opt {})", t.wire()),
            Ty::Tuple(ts) => format!("(tup {})", ts.iter().map(|t| t.wire()).collect::<Vec<_>>().join(" ")),
            Ty::Adt(i) => format!("(adt {})", i),
            Ty::Fn(..) | Ty::Var(_) => "fn".into(),
        }
    }
    fn subst(&self, m: &[Ty]) -> Ty {
        match self {
            Ty::Var(i) => m[*i as usize].clone(),
            Ty::List(t) => Ty::List(Box::new(t.subst(m))),
            Ty::Opt(t) => Ty::Opt(Box::new(t.subst(m))),
            Ty::Tuple(ts) => Ty::Tuple(ts.iter().map(|t| t.subst(m)).collect()),
            Ty::Fn(a, r) => Ty::Fn(a.iter().map(|t| t.subst(m)).collect(), Box::new(r.subst(m))),
            t => t.clone(),
        }
    }
}

// ------------------------------------------------------------------ values
#[derive(Clone, PartialEq, Debug)]
pub enum V {
    Int(BigInt),
    Bool(bool),
    Bytes(Vec<u8>),
    Unit,
    Str(String),
    List(Vec<V>),
    Tuple(Vec<V>),
    Con(usize, Vec<V>),
}

impl V {
    /// canonical text, identical to `Mini.Val.render` of the Lean driver
    pub fn wire(&self) -> String {
        match self {
            V::Int(n) => format!("(i {})", n),
            V::Bool(b) => format!("(b {})", if *b { 1 } else { 0 }),
            V::Bytes(b) => format!("(bs {})", wire::hex(b)),
            V::Unit => "u".into(),
            V::Str(s) => format!("(st {})", wire::hex(s.as_bytes())),
            V::List(xs) => seq("l", xs),
            V::Tuple(xs) => seq("t", xs),
            V::Con(tag, xs) => seq(&format!("k {}", tag), xs),
        }
    }
}

fn seq(head: &str, xs: &[V]) -> String {
    let mut s = format!("({}", head);
    for x in xs {
        s.push(' ');
        s.push_str(&x.wire());
    }
    s.push(')');
    s
}

/// constructors of an Option / user ADT as (name, field types)
pub fn ctors_of(ty: &Ty, adts: &[AdtDecl]) -> Vec<(String, Vec<(String, Ty)>)> {
    match ty {
        Ty::Opt(t) => vec![("Some".into(), vec![("".into(), (**t).clone())]), ("None".into(), vec![])],
        Ty::Adt(i) => adts[*i].ctors.iter().map(|c| (c.name.clone(), c.fields.clone())).collect(),
        _ => vec![],
    }
}

// ---- representation relation: source value <-> Data (arguments) / UPLC constant (results)
pub fn to_data(ty: &Ty, v: &V, adts: &[AdtDecl]) -> PlutusData {
    match (ty, v) {
        (Ty::Int, V::Int(n)) => Data::integer(n.clone()),
        (Ty::Bool, V::Bool(b)) => Data::constr(if *b { 1 } else { 0 }, vec![]),
        (Ty::Bytes, V::Bytes(b)) => Data::bytestring(b.clone()),
        (Ty::Str, V::Str(s)) => Data::bytestring(s.as_bytes().to_vec()),
        (Ty::Void, V::Unit) => Data::constr(0, vec![]),
        (Ty::List(t), V::List(xs)) => Data::list(xs.iter().map(|x| to_data(t, x, adts)).collect()),
        (Ty::Tuple(ts), V::Tuple(xs)) => {
            Data::list(ts.iter().zip(xs.iter()).map(|(t, x)| to_data(t, x, adts)).collect())
        }
        (Ty::Opt(_), V::Con(tag, xs)) | (Ty::Adt(_), V::Con(tag, xs)) => {
            let cs = ctors_of(ty, adts);
            let fields = &cs[*tag].1;
            Data::constr(
                *tag as u64,
                fields.iter().zip(xs.iter()).map(|((_, t), x)| to_data(t, x, adts)).collect(),
            )
        }
        _ => panic!("to_data: value {:?} is not of type {:?}", v, ty),
    }
}

/// `None`: the Data value is not the encoding of a value of the type
pub fn from_data(ty: &Ty, d: &PlutusData, adts: &[AdtDecl]) -> Option<V> {
    match (ty, d) {
        (Ty::Int, PlutusData::BigInt(i)) => Some(V::Int(uplc::machine::value::from_pallas_bigint(i))),
        (Ty::Bytes, PlutusData::BoundedBytes(b)) => Some(V::Bytes(b.clone().into())),
        (Ty::Str, PlutusData::BoundedBytes(b)) => String::from_utf8(b.clone().into()).ok().map(V::Str),
        (Ty::Bool, PlutusData::Constr(c)) => {
            let ix = wire::constr_index(c.tag, c.any_constructor)?;
            if !c.fields.is_empty() || ix > 1 {
                return None;
            }
            Some(V::Bool(ix == 1))
        }
        (Ty::Void, PlutusData::Constr(c)) => {
            let ix = wire::constr_index(c.tag, c.any_constructor)?;
            if !c.fields.is_empty() || ix != 0 {
                return None;
            }
            Some(V::Unit)
        }
        (Ty::List(t), PlutusData::Array(xs)) => {
            xs.iter().map(|x| from_data(t, x, adts)).collect::<Option<Vec<_>>>().map(V::List)
        }
        (Ty::Tuple(ts), PlutusData::Array(xs)) => {
            if ts.len() != xs.len() {
                return None;
            }
            ts.iter().zip(xs.iter()).map(|(t, x)| from_data(t, x, adts)).collect::<Option<Vec<_>>>().map(V::Tuple)
        }
        (Ty::Opt(_), PlutusData::Constr(c)) | (Ty::Adt(_), PlutusData::Constr(c)) => {
            let ix = wire::constr_index(c.tag, c.any_constructor)? as usize;
            let cs = ctors_of(ty, adts);
            let fields = &cs.get(ix)?.1;
            if fields.len() != c.fields.len() {
                return None;
            }
            fields
                .iter()
                .zip(c.fields.iter())
                .map(|((_, t), x)| from_data(t, x, adts))
                .collect::<Option<Vec<_>>>()
                .map(|xs| V::Con(ix, xs))
        }
        _ => None,
    }
}

/// what a compiled function of result type `ty` returns for the source value
/// (Int/Bool/ByteArray/String/Void unwrapped, lists and tuples as `list data`, the rest as `data`)
pub fn from_constant(ty: &Ty, c: &Constant, adts: &[AdtDecl]) -> Option<V> {
    match (ty, c) {
        (Ty::Int, Constant::Integer(n)) => Some(V::Int(n.clone())),
        (Ty::Bool, Constant::Bool(b)) => Some(V::Bool(*b)),
        (Ty::Bytes, Constant::ByteString(b)) => Some(V::Bytes(b.clone())),
        (Ty::Str, Constant::String(s)) => Some(V::Str(s.clone())),
        (Ty::Void, Constant::Unit) => Some(V::Unit),
        (Ty::List(t), Constant::ProtoList(_, xs)) => xs
            .iter()
            .map(|x| match x {
                Constant::Data(d) => from_data(t, d, adts),
                _ => None,
            })
            .collect::<Option<Vec<_>>>()
            .map(V::List),
        (Ty::Tuple(ts), Constant::ProtoList(_, xs)) => {
            if ts.len() != xs.len() {
                return None;
            }
            ts.iter()
                .zip(xs.iter())
                .map(|(t, x)| match x {
                    Constant::Data(d) => from_data(t, d, adts),
                    _ => None,
                })
                .collect::<Option<Vec<_>>>()
                .map(V::Tuple)
        }
        (Ty::Opt(_), Constant::Data(d)) | (Ty::Adt(_), Constant::Data(d)) | (Ty::Data, Constant::Data(d)) => {
            if *ty == Ty::Data {
                None
            } else {
                from_data(ty, d, adts)
            }
        }
        _ => None,
    }
}

// ------------------------------------------------------------------ AST
#[derive(Clone, Copy, PartialEq, Debug)]
pub enum Bin {
    Add,
    Sub,
    Mul,
    Div,
    Mod,
    Lt,
    Le,
    Gt,
    Ge,
    Eq,
    Ne,
    Cons,
    Append,
    Index,
}

impl Bin {
    fn wire(self) -> &'static str {
        match self {
            Bin::Add => "add",
            Bin::Sub => "sub",
            Bin::Mul => "mul",
            Bin::Div => "div",
            Bin::Mod => "mod",
            Bin::Lt => "lt",
            Bin::Le => "le",
            Bin::Gt => "gt",
            Bin::Ge => "ge",
            Bin::Eq => "eq",
            Bin::Ne => "ne",
            Bin::Cons => "cons",
            Bin::Append => "append",
            Bin::Index => "index",
        }
    }
}

#[derive(Clone, PartialEq, Debug)]
pub enum Un {
    Neg,
    Not,
    Len,
    /// record field access `.name` on a single-constructor type: (adt, field index)
    Field(usize, usize),
    /// `.1st` … on a tuple
    TupIdx(usize),
    /// upcast `let d: Data = e`
    ToData(Ty),
    /// `expect x: T = d`
    FromData(Ty),
}

#[derive(Clone, PartialEq, Debug)]
pub enum P {
    Wild,
    Var(u32),
    /// generator-internal: a splittable catch-all (rendered as a variable)
    Hole(u32),
    Int(i64),
    Bytes(Vec<u8>),
    Bool(bool),
    /// (type the constructor belongs to, tag, sub-patterns)
    Con(Ty, usize, Vec<P>),
    Tuple(Vec<P>),
    /// `[p, …]` (tail None) or `[p, …, ..tail]`
    List(Vec<P>, Option<Box<P>>),
}

#[derive(Clone, PartialEq, Debug)]
pub enum E {
    Int(BigInt),
    Bool(bool),
    Bytes(Vec<u8>),
    Unit,
    Str(String),
    Var(u32),
    Let(u32, Box<E>, Box<E>),
    If(Box<E>, Box<E>, Box<E>),
    And(Box<E>, Box<E>),
    Or(Box<E>, Box<E>),
    Un(Un, Box<E>),
    Bin(Bin, Box<E>, Box<E>),
    Tuple(Vec<E>),
    /// list literal with its element type (needed to render `[]` in some positions)
    List(Vec<E>),
    Con(Ty, usize, Vec<E>),
    Call(usize, Vec<E>),
    Lam(Vec<(u32, Ty)>, Ty, Box<E>),
    App(Box<E>, Vec<E>),
    FnRef(usize),
    When(Box<E>, Vec<(P, E)>),
    Fail,
    Todo,
    Expect(P, Box<E>, Box<E>),
    Trace(Box<E>, Vec<E>, Box<E>),
    TraceIfFalse(Box<E>),
}

#[derive(Clone, Debug)]
pub struct FnDecl {
    pub name: String,
    pub params: Vec<(u32, Ty)>,
    pub ret: Ty,
    pub body: E,
    /// entry point: first-order parameter and result types, not generic
    pub entry: bool,
}

#[derive(Clone, Debug)]
pub struct Module {
    pub adts: Vec<AdtDecl>,
    pub fns: Vec<FnDecl>,
}

// ------------------------------------------------------------------ wire (Lean driver)
fn pat_wire(p: &P, s: &mut String) {
    match p {
        P::Wild => s.push('_'),
        P::Var(x) | P::Hole(x) => s.push_str(&format!("(pv {})", x)),
        P::Int(n) => s.push_str(&format!("(pi {})", n)),
        P::Bytes(b) => s.push_str(&format!("(pbs {})", wire::hex(b))),
        P::Bool(b) => s.push_str(&format!("(pb {})", if *b { 1 } else { 0 })),
        P::Con(_, tag, ps) => {
            s.push_str(&format!("(pc {}", tag));
            for q in ps {
                s.push(' ');
                pat_wire(q, s);
            }
            s.push(')');
        }
        P::Tuple(ps) => {
            s.push_str("(pt");
            for q in ps {
                s.push(' ');
                pat_wire(q, s);
            }
            s.push(')');
        }
        P::List(ps, tail) => {
            s.push_str("(pl (");
            for (i, q) in ps.iter().enumerate() {
                if i > 0 {
                    s.push(' ');
                }
                pat_wire(q, s);
            }
            s.push_str(") ");
            match tail {
                None => s.push('-'),
                Some(t) => pat_wire(t, s),
            }
            s.push(')');
        }
    }
}

fn exprs_wire(es: &[E], s: &mut String) {
    for e in es {
        s.push(' ');
        expr_wire(e, s);
    }
}

pub fn expr_wire(e: &E, s: &mut String) {
    match e {
        E::Int(n) => s.push_str(&format!("(i {})", n)),
        E::Bool(b) => s.push_str(&format!("(b {})", if *b { 1 } else { 0 })),
        E::Bytes(b) => s.push_str(&format!("(bs {})", wire::hex(b))),
        E::Unit => s.push('u'),
        E::Str(t) => s.push_str(&format!("(st {})", wire::hex(t.as_bytes()))),
        E::Var(x) => s.push_str(&format!("(v {})", x)),
        E::Let(x, a, b) => {
            // an unused let-binding is removed by the compiler (documented: CHANGELOG "unused
            // let-bindings are now fully removed from generated code"); the usage analysis is
            // the front end's, the semantics takes its verdict as a flag
            s.push_str(&format!("(let {} {} ", x, if occurs(*x, b) { 1 } else { 0 }));
            expr_wire(a, s);
            s.push(' ');
            expr_wire(b, s);
            s.push(')');
        }
        E::If(c, t, f) => {
            s.push_str("(if");
            exprs_wire(&[(**c).clone(), (**t).clone(), (**f).clone()], s);
            s.push(')');
        }
        E::And(a, b) => {
            s.push_str("(and ");
            expr_wire(a, s);
            s.push(' ');
            expr_wire(b, s);
            s.push(')');
        }
        E::Or(a, b) => {
            s.push_str("(or ");
            expr_wire(a, s);
            s.push(' ');
            expr_wire(b, s);
            s.push(')');
        }
        E::Un(op, a) => {
            match op {
                Un::Neg => s.push_str("(un neg "),
                Un::Not => s.push_str("(un not "),
                Un::Len => s.push_str("(un len "),
                Un::Field(_, i) => s.push_str(&format!("(fld {} ", i)),
                Un::TupIdx(i) => s.push_str(&format!("(tix {} ", i)),
                Un::ToData(t) => s.push_str(&format!("(todata {} ", t.wire())),
                Un::FromData(t) => s.push_str(&format!("(fromdata {} ", t.wire())),
            }
            expr_wire(a, s);
            s.push(')');
        }
        E::Bin(op, a, b) => {
            s.push_str(&format!("(bin {} ", op.wire()));
            expr_wire(a, s);
            s.push(' ');
            expr_wire(b, s);
            s.push(')');
        }
        E::Tuple(es) => {
            s.push_str("(tup");
            exprs_wire(es, s);
            s.push(')');
        }
        E::List(es) => {
            s.push_str("(lst");
            exprs_wire(es, s);
            s.push(')');
        }
        E::Con(_, tag, es) => {
            s.push_str(&format!("(con {}", tag));
            exprs_wire(es, s);
            s.push(')');
        }
        E::Call(f, es) => {
            s.push_str(&format!("(call {}", f));
            exprs_wire(es, s);
            s.push(')');
        }
        E::Lam(ps, _, b) => {
            s.push_str("(lam (");
            s.push_str(&ps.iter().map(|(x, _)| x.to_string()).collect::<Vec<_>>().join(" "));
            s.push_str(") ");
            expr_wire(b, s);
            s.push(')');
        }
        E::App(f, es) => {
            s.push_str("(app ");
            expr_wire(f, s);
            exprs_wire(es, s);
            s.push(')');
        }
        E::FnRef(f) => s.push_str(&format!("(fn {})", f)),
        E::When(scrut, cs) => {
            s.push_str("(when ");
            expr_wire(scrut, s);
            for (p, b) in cs {
                s.push_str(" (");
                pat_wire(p, s);
                s.push(' ');
                expr_wire(b, s);
                s.push(')');
            }
            s.push(')');
        }
        E::Fail => s.push_str("fail"),
        E::Todo => s.push_str("todo"),
        E::Expect(p, a, b) => {
            s.push_str("(expect ");
            pat_wire(p, s);
            s.push(' ');
            expr_wire(a, s);
            s.push(' ');
            expr_wire(b, s);
            s.push(')');
        }
        E::Trace(l, args, then) => {
            s.push_str("(trace ");
            expr_wire(l, s);
            s.push_str(" (");
            for (i, a) in args.iter().enumerate() {
                if i > 0 {
                    s.push(' ');
                }
                expr_wire(a, s);
            }
            s.push_str(") ");
            expr_wire(then, s);
            s.push(')');
        }
        E::TraceIfFalse(a) => {
            s.push_str("(tif ");
            expr_wire(a, s);
            s.push(')');
        }
    }
}

/// does variable `x` occur in `e` (generated programs never shadow: every binder is fresh)
pub fn occurs(x: u32, e: &E) -> bool {
    let any = |es: &[E]| es.iter().any(|a| occurs(x, a));
    match e {
        E::Var(y) => *y == x,
        E::Int(_) | E::Bool(_) | E::Bytes(_) | E::Unit | E::Str(_) | E::FnRef(_) | E::Fail | E::Todo => false,
        E::Let(_, a, b) | E::And(a, b) | E::Or(a, b) | E::Bin(_, a, b) | E::Expect(_, a, b) => occurs(x, a) || occurs(x, b),
        E::If(a, b, c) => occurs(x, a) || occurs(x, b) || occurs(x, c),
        E::Un(_, a) | E::TraceIfFalse(a) | E::Lam(_, _, a) => occurs(x, a),
        E::Tuple(es) | E::List(es) | E::Con(_, _, es) | E::Call(_, es) => any(es),
        E::App(f, es) => occurs(x, f) || any(es),
        E::When(s, cs) => occurs(x, s) || cs.iter().any(|(_, b)| occurs(x, b)),
        E::Trace(l, args, b) => occurs(x, l) || any(args) || occurs(x, b),
    }
}

impl Module {
    /// `(prog (adts …) (fn (x…) body)…)`
    pub fn wire(&self) -> String {
        let mut s = String::from("(prog (adts");
        for a in &self.adts {
            s.push_str(" (");
            for (i, c) in a.ctors.iter().enumerate() {
                if i > 0 {
                    s.push(' ');
                }
                s.push('(');
                s.push_str(&c.fields.iter().map(|(_, t)| t.wire()).collect::<Vec<_>>().join(" "));
                s.push(')');
            }
            s.push(')');
        }
        s.push(')');
        for f in &self.fns {
            s.push_str(" (fn (");
            s.push_str(&f.params.iter().map(|(x, _)| x.to_string()).collect::<Vec<_>>().join(" "));
            s.push_str(") ");
            expr_wire(&f.body, &mut s);
            s.push(')');
        }
        s.push(')');
        s
    }
}

/// `mini <mode> <fuel> <prog> (calls (f v…)…)`
pub fn mini_request(mode: &str, fuel: u64, m: &Module, calls: &[(usize, Vec<V>)]) -> String {
    let mut s = format!("mini {} {} {} (calls", mode, fuel, m.wire());
    for (f, args) in calls {
        s.push_str(&format!(" ({}", f));
        for a in args {
            s.push(' ');
            s.push_str(&a.wire());
        }
        s.push(')');
    }
    s.push(')');
    s
}

// ------------------------------------------------------------------ renderer (Aiken source)
fn ordinal(i: usize) -> &'static str {
    ["1st", "2nd", "3rd", "4th"][i]
}

fn bytes_lit(b: &[u8]) -> String {
    format!("#\"{}\"", hex::encode(b))
}

fn str_lit(s: &str) -> String {
    format!("@\"{}\"", s)
}

pub struct Renderer<'a> {
    pub adts: &'a [AdtDecl],
    pub fns: &'a [FnDecl],
}

impl<'a> Renderer<'a> {
    fn pat(&self, p: &P) -> String {
        match p {
            P::Wild => "_".into(),
            P::Var(x) | P::Hole(x) => format!("v{}", x),
            P::Int(n) => n.to_string(),
            P::Bytes(b) => bytes_lit(b),
            P::Bool(b) => if *b { "True" } else { "False" }.into(),
            P::Con(ty, tag, ps) => {
                let cs = ctors_of(ty, self.adts);
                let (name, fields) = &cs[*tag];
                if ps.is_empty() {
                    name.clone()
                } else if !fields[0].0.is_empty() && ps.len() % 2 == 0 {
                    // labelled form for some constructors
                    format!(
                        "{} {{ {} }}",
                        name,
                        fields.iter().zip(ps.iter()).map(|((f, _), q)| format!("{}: {}", f, self.pat(q))).collect::<Vec<_>>().join(", ")
                    )
                } else {
                    format!("{}({})", name, ps.iter().map(|q| self.pat(q)).collect::<Vec<_>>().join(", "))
                }
            }
            P::Tuple(ps) => format!("({})", ps.iter().map(|q| self.pat(q)).collect::<Vec<_>>().join(", ")),
            P::List(ps, tail) => {
                let mut items: Vec<String> = ps.iter().map(|q| self.pat(q)).collect();
                match tail {
                    None => {}
                    Some(t) => match **t {
                        P::Wild => items.push("..".into()),
                        _ => items.push(format!("..{}", self.pat(t))),
                    },
                }
                format!("[{}]", items.join(", "))
            }
        }
    }

    /// an expression in operand position (parenthesised / braced as needed)
    fn atom(&self, e: &E, ind: usize) -> String {
        match e {
            E::Int(n) if *n >= BigInt::from(0) => n.to_string(),
            E::Bool(_) | E::Bytes(_) | E::Unit | E::Str(_) | E::Var(_) | E::Tuple(_) | E::List(_) | E::Call(..)
            | E::FnRef(_) | E::App(..) => self.expr(e, ind),
            E::Con(..) => self.expr(e, ind),
            E::Un(Un::Field(..), _) | E::Un(Un::TupIdx(_), _) | E::Un(Un::Len, _) => self.expr(e, ind),
            E::Bin(Bin::Append, ..) | E::Bin(Bin::Index, ..) | E::Bin(Bin::Cons, ..) => self.expr(e, ind),
            E::Let(..) | E::Expect(..) | E::Trace(..) | E::Un(Un::ToData(_), _) | E::Un(Un::FromData(_), _) => self.expr(e, ind),
            _ => format!("({})", self.expr(e, ind)),
        }
    }

    fn pad(ind: usize) -> String {
        "  ".repeat(ind)
    }

    /// statements of a block body (no surrounding braces)
    fn block_body(&self, e: &E, ind: usize) -> String {
        let pad = Self::pad(ind);
        match e {
            E::Let(x, a, b) => format!("{}let v{} = {}\n{}", pad, x, self.expr(a, ind), self.block_body(b, ind)),
            E::Expect(p, a, b) => format!("{}expect {} = {}\n{}", pad, self.pat(p), self.expr(a, ind), self.block_body(b, ind)),
            E::Trace(l, args, then) => {
                let mut s = format!("{}trace {}", pad, self.atom(l, ind));
                if !args.is_empty() {
                    s.push_str(": ");
                    s.push_str(&args.iter().map(|a| self.atom(a, ind)).collect::<Vec<_>>().join(", "));
                }
                format!("{}\n{}", s, self.block_body(then, ind))
            }
            E::Un(Un::ToData(_), a) => {
                format!("{}let data_up: Data = {}\n{}data_up", pad, self.expr(a, ind), pad)
            }
            E::Un(Un::FromData(t), a) => {
                format!("{}expect data_down: {} = {}\n{}data_down", pad, t.render(self.adts), self.expr(a, ind), pad)
            }
            _ => format!("{}{}", pad, self.expr(e, ind)),
        }
    }

    fn block(&self, e: &E, ind: usize) -> String {
        format!("{{\n{}\n{}}}", self.block_body(e, ind + 1), Self::pad(ind))
    }

    pub fn expr(&self, e: &E, ind: usize) -> String {
        match e {
            E::Int(n) => n.to_string(),
            E::Bool(b) => if *b { "True" } else { "False" }.into(),
            E::Bytes(b) => bytes_lit(b),
            E::Unit => "Void".into(),
            E::Str(s) => str_lit(s),
            E::Var(x) => format!("v{}", x),
            E::Let(..) | E::Expect(..) | E::Trace(..) | E::Un(Un::ToData(_), _) | E::Un(Un::FromData(_), _) => self.block(e, ind),
            E::If(c, t, f) => format!("if {} {} else {}", self.expr(c, ind), self.block(t, ind), self.block(f, ind)),
            E::And(a, b) => format!("{} && {}", self.atom(a, ind), self.atom(b, ind)),
            E::Or(a, b) => format!("{} || {}", self.atom(a, ind), self.atom(b, ind)),
            E::Un(op, a) => match op {
                Un::Neg => format!("-{}", self.atom(a, ind)),
                Un::Not => format!("!{}", self.atom(a, ind)),
                Un::Len => format!("builtin.length_of_bytearray({})", self.expr(a, ind)),
                Un::Field(adt, i) => format!("{}.{}", self.atom(a, ind), self.adts[*adt].ctors[0].fields[*i].0),
                Un::TupIdx(i) => format!("{}.{}", self.atom(a, ind), ordinal(*i)),
                Un::ToData(_) | Un::FromData(_) => unreachable!(),
            },
            E::Bin(op, a, b) => {
                let sym = match op {
                    Bin::Add => "+",
                    Bin::Sub => "-",
                    Bin::Mul => "*",
                    Bin::Div => "/",
                    Bin::Mod => "%",
                    Bin::Lt => "<",
                    Bin::Le => "<=",
                    Bin::Gt => ">",
                    Bin::Ge => ">=",
                    Bin::Eq => "==",
                    Bin::Ne => "!=",
                    Bin::Cons => return format!("[{}, ..{}]", self.expr(a, ind), self.expr(b, ind)),
                    Bin::Append => {
                        return format!("builtin.append_bytearray({}, {})", self.expr(a, ind), self.expr(b, ind))
                    }
                    Bin::Index => {
                        return format!("builtin.index_bytearray({}, {})", self.expr(a, ind), self.expr(b, ind))
                    }
                };
                format!("{} {} {}", self.atom(a, ind), sym, self.atom(b, ind))
            }
            E::Tuple(es) => format!("({})", es.iter().map(|x| self.expr(x, ind)).collect::<Vec<_>>().join(", ")),
            E::List(es) => format!("[{}]", es.iter().map(|x| self.expr(x, ind)).collect::<Vec<_>>().join(", ")),
            E::Con(ty, tag, es) => {
                let cs = ctors_of(ty, self.adts);
                let (name, fields) = &cs[*tag];
                if es.is_empty() {
                    name.clone()
                } else if !fields[0].0.is_empty() && es.len() % 2 == 0 {
                    format!(
                        "{} {{ {} }}",
                        name,
                        fields.iter().zip(es.iter()).map(|((f, _), x)| format!("{}: {}", f, self.expr(x, ind))).collect::<Vec<_>>().join(", ")
                    )
                } else {
                    format!("{}({})", name, es.iter().map(|x| self.expr(x, ind)).collect::<Vec<_>>().join(", "))
                }
            }
            E::Call(f, es) => {
                format!("{}({})", self.fns[*f].name, es.iter().map(|x| self.expr(x, ind)).collect::<Vec<_>>().join(", "))
            }
            E::Lam(ps, ret, b) => format!(
                "fn({}) -> {} {}",
                ps.iter().map(|(x, t)| format!("v{}: {}", x, t.render(self.adts))).collect::<Vec<_>>().join(", "),
                ret.render(self.adts),
                self.block(b, ind)
            ),
            E::App(f, es) => {
                let head = match **f {
                    E::Var(_) => self.expr(f, ind),
                    _ => format!("({})", self.expr(f, ind)),
                };
                format!("{}({})", head, es.iter().map(|x| self.expr(x, ind)).collect::<Vec<_>>().join(", "))
            }
            E::FnRef(f) => self.fns[*f].name.clone(),
            E::When(scrut, cs) => {
                let mut s = format!("when {} is {{\n", self.expr(scrut, ind));
                for (p, b) in cs {
                    s.push_str(&format!("{}{} -> {}\n", Self::pad(ind + 1), self.pat(p), self.clause_body(b, ind + 1)));
                }
                s.push_str(&format!("{}}}", Self::pad(ind)));
                s
            }
            E::Fail => "fail @\"f\"".into(),
            E::Todo => "todo @\"t\"".into(),
            E::TraceIfFalse(a) => {
                // `(x && y)?` has a second spelling, the `and { x, y }?` block (same meaning, own elaboration)
                if let E::And(x, y) = a.as_ref() {
                    if (format!("{:?}", x).len() + format!("{:?}", y).len()) % 2 == 0 {
                        let pad = "  ".repeat(ind + 1);
                        // `a && (b && c)` is `and { a, b, c }`
                        let mut items: Vec<&E> = vec![x.as_ref()];
                        let mut cur: &E = y.as_ref();
                        while let E::And(p, q) = cur {
                            items.push(p.as_ref());
                            cur = q.as_ref();
                        }
                        items.push(cur);
                        let body: String = items.iter().map(|e| format!("{pad}{},\n", self.expr(e, ind + 1))).collect();
                        return format!("and {{\n{}{}}}?", body, "  ".repeat(ind));
                    }
                }
                format!("{}?", self.atom(a, ind))
            }
        }
    }

    fn clause_body(&self, b: &E, ind: usize) -> String {
        match b {
            E::Let(..) | E::Expect(..) | E::Trace(..) | E::Un(Un::ToData(_), _) | E::Un(Un::FromData(_), _) => self.block(b, ind),
            _ => self.expr(b, ind),
        }
    }

    pub fn function(&self, f: &FnDecl) -> String {
        format!(
            "fn {}({}) -> {} {{\n{}\n}}\n",
            f.name,
            f.params.iter().map(|(x, t)| format!("v{}: {}", x, t.render(self.adts))).collect::<Vec<_>>().join(", "),
            f.ret.render(self.adts),
            self.block_body(&f.body, 1)
        )
    }
}

impl Module {
    pub fn render(&self) -> String {
        let mut s = String::from("use aiken/builtin\n\n");
        for a in &self.adts {
            s.push_str(&format!("pub type {} {{\n", a.name));
            for c in &a.ctors {
                if c.fields.is_empty() {
                    s.push_str(&format!("  {}\n", c.name));
                } else {
                    s.push_str(&format!(
                        "  {} {{ {} }}\n",
                        c.name,
                        c.fields.iter().map(|(f, t)| format!("{}: {}", f, t.render(&self.adts))).collect::<Vec<_>>().join(", ")
                    ));
                }
            }
            s.push_str("}\n\n");
        }
        let r = Renderer { adts: &self.adts, fns: &self.fns };
        for f in &self.fns {
            s.push_str(&r.function(f));
            s.push('\n');
        }
        s
    }
}

// ------------------------------------------------------------------ generator
#[derive(Clone)]
pub struct GenCfg {
    /// trace labels / arguments are literals only (C14's hypothesis `LabelsTotal`)
    pub labels_total: bool,
    /// allow `fail` / `todo` / partial operations
    pub aborts: bool,
    pub max_depth: usize,
    pub n_fns: usize,
    /// Data up/down casts
    pub casts: bool,
}

impl Default for GenCfg {
    fn default() -> Self {
        GenCfg { labels_total: true, aborts: true, max_depth: 4, n_fns: 5, casts: true }
    }
}

type Scope = Vec<(u32, Ty)>;

pub struct Gen<'a> {
    pub r: &'a mut Prng,
    pub cfg: GenCfg,
    pub adts: Vec<AdtDecl>,
    pub fns: Vec<FnDecl>,
    next_var: u32,
    /// constructs of the grammar generated (evidence)
    pub counts: BTreeMap<String, u64>,
    /// index of the function being generated (no calls to itself outside the templates)
    cur: usize,
}

fn bx(e: E) -> Box<E> {
    Box::new(e)
}

pub fn fixed_adts(r: &mut Prng) -> Vec<AdtDecl> {
    let small = |r: &mut Prng| -> Ty {
        match r.below(6) {
            0 => Ty::Bool,
            1 => Ty::Bytes,
            2 => Ty::List(Box::new(Ty::Int)),
            3 => Ty::Opt(Box::new(Ty::Int)),
            _ => Ty::Int,
        }
    };
    let f = |n: &str, t: Ty| (n.to_string(), t);
    let color = AdtDecl {
        name: "Color".into(),
        ctors: ["Red", "Green", "Blue"].iter().map(|n| Ctor { name: n.to_string(), fields: vec![] }).collect(),
    };
    let point = AdtDecl {
        name: "Point".into(),
        ctors: vec![Ctor { name: "Point".into(), fields: vec![f("px", Ty::Int), f("py", small(r)), f("pz", small(r))] }],
    };
    let shape = AdtDecl {
        name: "Shape".into(),
        ctors: vec![
            Ctor { name: "Circle".into(), fields: vec![f("radius", Ty::Int)] },
            Ctor { name: "Rect".into(), fields: vec![f("w", Ty::Int), f("h", small(r))] },
            Ctor { name: "Dot".into(), fields: vec![] },
            Ctor { name: "Tagged".into(), fields: vec![f("colour", Ty::Adt(0)), f("at", Ty::Adt(1))] },
        ],
    };
    let tree = AdtDecl {
        name: "Tree".into(),
        ctors: vec![
            Ctor { name: "Leaf".into(), fields: vec![] },
            Ctor { name: "Node".into(), fields: vec![f("left", Ty::Adt(3)), f("value", Ty::Int), f("right", Ty::Adt(3))] },
        ],
    };
    vec![color, point, shape, tree]
}

pub const TREE: usize = 3;
pub const POINT: usize = 1;

impl<'a> Gen<'a> {
    pub fn new(r: &'a mut Prng, cfg: GenCfg) -> Self {
        let adts = fixed_adts(r);
        Gen { r, cfg, adts, fns: vec![], next_var: 0, counts: BTreeMap::new(), cur: 0 }
    }

    fn hit(&mut self, k: &str) {
        *self.counts.entry(k.to_string()).or_insert(0) += 1;
    }

    fn fresh(&mut self) -> u32 {
        self.next_var += 1;
        self.next_var
    }

    // ---------------- types
    pub fn gen_ty(&mut self, depth: usize) -> Ty {
        let k = if depth == 0 { self.r.below(7) } else { self.r.below(14) };
        match k {
            0 | 1 | 2 => Ty::Int,
            3 => Ty::Bool,
            4 => Ty::Bytes,
            5 => Ty::Adt(self.r.below(self.adts.len())),
            6 => {
                if self.r.chance(1, 4) {
                    Ty::Void
                } else {
                    Ty::Int
                }
            }
            7 | 8 => Ty::List(Box::new(self.gen_ty(depth - 1))),
            9 => Ty::Opt(Box::new(self.gen_ty(depth - 1))),
            10 => {
                let n = 2 + self.r.below(2);
                Ty::Tuple((0..n).map(|_| self.gen_ty(depth - 1)).collect())
            }
            11 => Ty::Adt(self.r.below(self.adts.len())),
            _ => Ty::Int,
        }
    }

    // ---------------- values
    pub fn gen_int(&mut self) -> BigInt {
        match self.r.below(12) {
            0 => BigInt::from(0),
            1 => BigInt::from(1),
            2 => BigInt::from(-1),
            3 => BigInt::from(self.r.range(-300, 300)),
            4 => {
                let e = *self.r.pick(&[31u32, 63, 64, 127]);
                let d = BigInt::from(self.r.range(-2, 2));
                let x = (BigInt::from(1) << e) + d;
                if self.r.chance(1, 2) {
                    x
                } else {
                    -x
                }
            }
            _ => BigInt::from(self.r.range(-6, 6)),
        }
    }

    pub fn gen_bytes(&mut self) -> Vec<u8> {
        let n = match self.r.below(4) {
            0 => 0,
            1 => 1,
            _ => self.r.below(5),
        };
        (0..n).map(|_| if self.r.chance(1, 3) { self.r.below(3) as u8 } else { self.r.next() as u8 }).collect()
    }

    pub fn gen_value(&mut self, ty: &Ty, depth: usize) -> V {
        match ty {
            Ty::Int => V::Int(self.gen_int()),
            Ty::Bool => V::Bool(self.r.chance(1, 2)),
            Ty::Bytes => V::Bytes(self.gen_bytes()),
            Ty::Void => V::Unit,
            Ty::Str => V::Str(format!("s{}", self.r.below(10))),
            Ty::List(t) => {
                let n = if depth == 0 { 0 } else { self.r.below(4) };
                V::List((0..n).map(|_| self.gen_value(t, depth - 1)).collect())
            }
            Ty::Tuple(ts) => V::Tuple(ts.iter().map(|t| self.gen_value(t, depth.saturating_sub(1))).collect()),
            Ty::Opt(_) | Ty::Adt(_) => {
                let cs = ctors_of(ty, &self.adts);
                // at depth 0 take a constructor without recursive fields
                let tag = if depth == 0 {
                    cs.iter().position(|c| c.1.iter().all(|(_, t)| t != ty)).unwrap_or(0)
                } else {
                    self.r.below(cs.len())
                };
                let fields = cs[tag].1.clone();
                V::Con(tag, fields.iter().map(|(_, t)| self.gen_value(t, depth.saturating_sub(1))).collect())
            }
            Ty::Fn(..) | Ty::Var(_) | Ty::Data => panic!("gen_value: not first-order"),
        }
    }

    pub fn value_expr(&self, ty: &Ty, v: &V) -> E {
        match (ty, v) {
            (_, V::Int(n)) => E::Int(n.clone()),
            (_, V::Bool(b)) => E::Bool(*b),
            (_, V::Bytes(b)) => E::Bytes(b.clone()),
            (_, V::Unit) => E::Unit,
            (_, V::Str(s)) => E::Str(s.clone()),
            (Ty::List(t), V::List(xs)) => E::List(xs.iter().map(|x| self.value_expr(t, x)).collect()),
            (Ty::Tuple(ts), V::Tuple(xs)) => E::Tuple(ts.iter().zip(xs.iter()).map(|(t, x)| self.value_expr(t, x)).collect()),
            (_, V::Con(tag, xs)) => {
                let cs = ctors_of(ty, &self.adts);
                E::Con(ty.clone(), *tag, cs[*tag].1.iter().zip(xs.iter()).map(|((_, t), x)| self.value_expr(t, x)).collect())
            }
            _ => panic!("value_expr"),
        }
    }

    // ---------------- expressions
    fn vars_of(&self, ty: &Ty, scope: &Scope) -> Vec<u32> {
        scope.iter().filter(|(_, t)| t == ty).map(|(x, _)| *x).collect()
    }

    fn leaf(&mut self, ty: &Ty, scope: &Scope) -> E {
        let vs = self.vars_of(ty, scope);
        if !vs.is_empty() && self.r.chance(3, 4) {
            self.hit("var");
            return E::Var(*self.r.pick(&vs));
        }
        match ty {
            Ty::Fn(args, ret) => {
                // a top-level function of that exact type, else a constant lambda
                let cands: Vec<usize> = (0..self.fns.len())
                    .filter(|i| {
                        let f = &self.fns[*i];
                        f.params.iter().map(|p| p.1.clone()).collect::<Vec<_>>() == *args && f.ret == **ret
                    })
                    .collect();
                if !cands.is_empty() && self.r.chance(1, 2) {
                    self.hit("fnref");
                    return E::FnRef(*self.r.pick(&cands));
                }
                self.hit("lambda");
                let ps: Vec<(u32, Ty)> = args.iter().map(|t| (self.fresh(), t.clone())).collect();
                let mut sc = scope.clone();
                sc.extend(ps.iter().cloned());
                let body = self.leaf(ret, &sc);
                E::Lam(ps, (**ret).clone(), bx(body))
            }
            _ => {
                self.hit("literal");
                let v = self.gen_value(ty, 2);
                self.value_expr(ty, &v)
            }
        }
    }

    /// a literal-only expression (total: cannot fail or diverge)
    fn total_label(&mut self) -> E {
        match self.r.below(6) {
            0 => E::Int(self.gen_int()),
            1 => E::Bytes(self.gen_bytes()),
            2 => E::Bool(self.r.chance(1, 2)),
            _ => E::Str(format!("label {}", self.r.below(100))),
        }
    }

    fn gen_label(&mut self, scope: &Scope, depth: usize) -> E {
        if self.cfg.labels_total {
            self.hit("trace-label-total");
            return self.total_label();
        }
        match self.r.below(6) {
            0 => {
                self.hit("trace-label-fail");
                E::Fail
            }
            1 => {
                self.hit("trace-label-div");
                // 1 / x-ish: aborts for some arguments only
                let d = self.gen_expr(&Ty::Int, scope, depth.min(1));
                E::If(
                    bx(E::Bin(Bin::Eq, bx(E::Bin(Bin::Div, bx(E::Int(BigInt::from(7))), bx(d))), bx(E::Int(BigInt::from(0))))),
                    bx(E::Str("zero".into())),
                    bx(E::Str("nonzero".into())),
                )
            }
            2 => {
                self.hit("trace-label-expr");
                let t = if self.r.chance(1, 2) { Ty::Int } else { Ty::List(Box::new(Ty::Int)) };
                self.gen_expr(&t, scope, depth.min(2))
            }
            _ => {
                self.hit("trace-label-total");
                self.total_label()
            }
        }
    }

    pub fn gen_expr(&mut self, ty: &Ty, scope: &Scope, depth: usize) -> E {
        if depth == 0 {
            return self.leaf(ty, scope);
        }
        let d = depth - 1;
        // generic constructs, any type
        let k = self.r.below(100);
        match k {
            0..=7 => return self.leaf(ty, scope),
            8..=15 => {
                self.hit("let");
                let t = self.gen_ty(1);
                let a = self.gen_expr(&t, scope, d);
                let x = self.fresh();
                let mut sc = scope.clone();
                sc.push((x, t));
                return E::Let(x, bx(a), bx(self.gen_expr(ty, &sc, d)));
            }
            16..=22 => {
                self.hit("if");
                let c = self.gen_expr(&Ty::Bool, scope, d);
                return E::If(bx(c), bx(self.gen_expr(ty, scope, d)), bx(self.gen_expr(ty, scope, d)));
            }
            23..=33 => return self.gen_when(ty, scope, d),
            34..=40 => {
                if let Some(e) = self.gen_call(ty, scope, d) {
                    return e;
                }
            }
            41..=44 => {
                // immediately applied lambda / applied function-typed variable
                let fv: Vec<(u32, Ty)> =
                    scope.iter().filter(|(_, t)| matches!(t, Ty::Fn(_, r) if **r == *ty)).cloned().collect();
                if !fv.is_empty() && self.r.chance(2, 3) {
                    self.hit("apply-fn-variable");
                    let (x, t) = self.r.pick(&fv).clone();
                    if let Ty::Fn(args, _) = t {
                        let es = args.iter().map(|a| self.gen_expr(a, scope, d)).collect();
                        return E::App(bx(E::Var(x)), es);
                    }
                }
                self.hit("apply-lambda");
                let n = 1 + self.r.below(2);
                let ps: Vec<(u32, Ty)> = (0..n).map(|_| (self.fresh(), self.gen_ty(1))).collect();
                let mut sc = scope.clone();
                sc.extend(ps.iter().cloned());
                let body = self.gen_expr(ty, &sc, d);
                let args = ps.iter().map(|(_, t)| self.gen_expr(t, scope, d)).collect();
                return E::App(bx(E::Lam(ps, ty.clone(), bx(body))), args);
            }
            45..=48 => {
                if let Some(e) = self.gen_access(ty, scope, d) {
                    return e;
                }
            }
            49..=52 => {
                if self.cfg.aborts {
                    if let Some(e) = self.gen_expect(ty, scope, d) {
                        return e;
                    }
                }
            }
            53..=57 => {
                self.hit("trace");
                if self.cfg.labels_total && self.cfg.aborts && self.r.chance(1, 3) {
                    // the label is a VARIABLE whose only use is the trace; its (possibly failing)
                    // definition is an ordinary `let` outside the trace and is evaluated under every
                    // setting — dropping the trace must not drop the binding
                    self.hit("trace-label-let-bound");
                    let lt = match self.r.below(3) {
                        0 => Ty::Int,
                        1 => Ty::Bytes,
                        _ => Ty::Bool,
                    };
                    let rhs = self.gen_expr(&lt, scope, d);
                    let v = self.fresh();
                    let body = self.gen_expr(ty, scope, d);
                    return E::Let(v, bx(rhs), bx(E::Trace(bx(E::Var(v)), vec![], bx(body))));
                }
                let label = self.gen_label(scope, d);
                let nargs = if self.r.chance(1, 3) { 1 + self.r.below(2) } else { 0 };
                let args = (0..nargs).map(|_| self.gen_label(scope, d)).collect();
                return E::Trace(bx(label), args, bx(self.gen_expr(ty, scope, d)));
            }
            58 => {
                if self.cfg.aborts {
                    if self.r.chance(1, 2) {
                        self.hit("fail");
                        return E::Fail;
                    } else {
                        self.hit("todo");
                        return E::Todo;
                    }
                }
            }
            59..=61 => {
                if self.cfg.casts && ty.first_order() && *ty != Ty::Str {
                    // round trip through Data, or a down-cast of the encoding of a value of another type
                    let src = if self.cfg.aborts && self.r.chance(1, 3) { self.gen_ty(1) } else { ty.clone() };
                    if src == *ty {
                        self.hit("data-cast-roundtrip");
                    } else {
                        self.hit("data-cast-other-type");
                    }
                    let a = self.gen_expr(&src, scope, d);
                    return E::Un(Un::FromData(ty.clone()), bx(E::Un(Un::ToData(src), bx(a))));
                }
            }
            _ => {}
        }
        // type-specific constructs
        match ty {
            Ty::Int => match self.r.below(12) {
                0..=5 => {
                    let op = *self.r.pick(&[Bin::Add, Bin::Sub, Bin::Mul, Bin::Div, Bin::Mod, Bin::Add, Bin::Sub]);
                    let op = if !self.cfg.aborts && matches!(op, Bin::Div | Bin::Mod) { Bin::Add } else { op };
                    self.hit(match op {
                        Bin::Div => "div",
                        Bin::Mod => "mod",
                        _ => "arith",
                    });
                    let a = self.gen_expr(&Ty::Int, scope, d);
                    let b = if self.r.chance(1, 4) {
                        self.hit("arith-literal-right");
                        E::Int(self.gen_int())
                    } else {
                        self.gen_expr(&Ty::Int, scope, d)
                    };
                    E::Bin(op, bx(a), bx(b))
                }
                6 => {
                    self.hit("neg");
                    E::Un(Un::Neg, bx(self.gen_expr(&Ty::Int, scope, d)))
                }
                7 => {
                    self.hit("bytes-length");
                    E::Un(Un::Len, bx(self.gen_expr(&Ty::Bytes, scope, d)))
                }
                8 => {
                    if self.cfg.aborts {
                        self.hit("bytes-index");
                        let a = self.gen_expr(&Ty::Bytes, scope, d);
                        let i = self.gen_expr(&Ty::Int, scope, d);
                        E::Bin(Bin::Index, bx(a), bx(i))
                    } else {
                        self.leaf(ty, scope)
                    }
                }
                _ => self.leaf(ty, scope),
            },
            Ty::Bool => match self.r.below(12) {
                0 | 1 => {
                    self.hit("and");
                    let a = self.gen_expr(&Ty::Bool, scope, d);
                    // a literal on the right: the code generator reorders operands of "symmetric" operators
                    let b = if self.r.chance(1, 4) {
                        self.hit("and-literal-right");
                        E::Bool(self.r.chance(1, 2))
                    } else {
                        self.gen_expr(&Ty::Bool, scope, d)
                    };
                    E::And(bx(a), bx(b))
                }
                2 | 3 => {
                    self.hit("or");
                    let a = self.gen_expr(&Ty::Bool, scope, d);
                    let b = if self.r.chance(1, 4) {
                        self.hit("or-literal-right");
                        E::Bool(self.r.chance(1, 2))
                    } else {
                        self.gen_expr(&Ty::Bool, scope, d)
                    };
                    E::Or(bx(a), bx(b))
                }
                4 => {
                    self.hit("not");
                    E::Un(Un::Not, bx(self.gen_expr(&Ty::Bool, scope, d)))
                }
                5 | 6 | 7 => {
                    self.hit("int-compare");
                    let op = *self.r.pick(&[Bin::Lt, Bin::Le, Bin::Gt, Bin::Ge, Bin::Eq, Bin::Ne]);
                    E::Bin(op, bx(self.gen_expr(&Ty::Int, scope, d)), bx(self.gen_expr(&Ty::Int, scope, d)))
                }
                8 | 9 => {
                    self.hit("structural-eq");
                    let t = self.gen_ty(1);
                    let op = if self.r.chance(2, 3) { Bin::Eq } else { Bin::Ne };
                    E::Bin(op, bx(self.gen_expr(&t, scope, d)), bx(self.gen_expr(&t, scope, d)))
                }
                10 => {
                    self.hit("trace-if-false");
                    if self.r.chance(1, 2) {
                        // `?` on a conjunction of two or three operands (rendered as `&&` or as an `and { }` block);
                        // later operands may fail, earlier ones guard them
                        self.hit("trace-if-false-on-and");
                        let a = self.gen_expr(&Ty::Bool, scope, d);
                        let b = self.gen_expr(&Ty::Bool, scope, d);
                        let rest = if self.r.chance(1, 2) { E::And(bx(b), bx(self.gen_expr(&Ty::Bool, scope, d))) } else { b };
                        return E::TraceIfFalse(bx(E::And(bx(a), bx(rest))));
                    }
                    E::TraceIfFalse(bx(self.gen_expr(&Ty::Bool, scope, d)))
                }
                _ => self.leaf(ty, scope),
            },
            Ty::Bytes => match self.r.below(4) {
                0 => {
                    self.hit("bytes-append");
                    E::Bin(Bin::Append, bx(self.gen_expr(&Ty::Bytes, scope, d)), bx(self.gen_expr(&Ty::Bytes, scope, d)))
                }
                _ => self.leaf(ty, scope),
            },
            Ty::List(t) => match self.r.below(5) {
                0 | 1 => {
                    self.hit("list-literal");
                    let n = self.r.below(4);
                    E::List((0..n).map(|_| self.gen_expr(t, scope, d)).collect())
                }
                2 | 3 => {
                    self.hit("list-cons");
                    E::Bin(Bin::Cons, bx(self.gen_expr(t, scope, d)), bx(self.gen_expr(ty, scope, d)))
                }
                _ => self.leaf(ty, scope),
            },
            Ty::Tuple(ts) => {
                if self.r.chance(3, 4) {
                    self.hit("tuple");
                    E::Tuple(ts.iter().map(|t| self.gen_expr(t, scope, d)).collect())
                } else {
                    self.leaf(ty, scope)
                }
            }
            Ty::Opt(_) | Ty::Adt(_) => {
                if self.r.chance(3, 4) {
                    self.hit("constructor");
                    let cs = ctors_of(ty, &self.adts);
                    let tag = self.r.below(cs.len());
                    let rec = cs[tag].1.iter().any(|(_, t)| t == ty);
                    let dd = if rec { d.min(1) } else { d };
                    E::Con(ty.clone(), tag, cs[tag].1.iter().map(|(_, t)| self.gen_expr(t, scope, dd)).collect())
                } else {
                    self.leaf(ty, scope)
                }
            }
            Ty::Fn(args, ret) => {
                if self.r.chance(1, 2) {
                    self.hit("lambda");
                    let ps: Vec<(u32, Ty)> = args.iter().map(|t| (self.fresh(), t.clone())).collect();
                    let mut sc = scope.clone();
                    sc.extend(ps.iter().cloned());
                    let body = self.gen_expr(ret, &sc, d);
                    E::Lam(ps, (**ret).clone(), bx(body))
                } else {
                    self.leaf(ty, scope)
                }
            }
            _ => self.leaf(ty, scope),
        }
    }

    fn gen_call(&mut self, ty: &Ty, scope: &Scope, d: usize) -> Option<E> {
        // generic prelude functions are instantiated by unifying their result type with `ty`
        let mut cands: Vec<(usize, Vec<Ty>)> = vec![];
        for i in 0..self.fns.len() {
            if i == self.cur && i >= N_PRELUDE {
                continue;
            }
            let f = &self.fns[i];
            if i < N_PRELUDE {
                if let Some(inst) = instantiate(i, ty, self) {
                    cands.push((i, inst));
                }
            } else if f.ret == *ty {
                cands.push((i, f.params.iter().map(|p| p.1.clone()).collect()));
            }
        }
        if cands.is_empty() {
            return None;
        }
        let (i, ptys) = self.r.pick(&cands).clone();
        self.hit(if i < N_PRELUDE { "call-generic" } else { "call" });
        if ptys.iter().any(|t| matches!(t, Ty::Fn(..))) {
            self.hit("call-higher-order");
        }
        let args = ptys.iter().map(|t| self.gen_expr(t, scope, d)).collect();
        Some(E::Call(i, args))
    }

    fn gen_access(&mut self, ty: &Ty, scope: &Scope, d: usize) -> Option<E> {
        // record field / tuple element of a variable in scope whose component has type `ty`
        let mut cands: Vec<E> = vec![];
        for (x, t) in scope {
            match t {
                Ty::Adt(a) if self.adts[*a].ctors.len() == 1 => {
                    for (i, (_, ft)) in self.adts[*a].ctors[0].fields.iter().enumerate() {
                        if ft == ty {
                            cands.push(E::Un(Un::Field(*a, i), bx(E::Var(*x))));
                        }
                    }
                }
                Ty::Tuple(ts) => {
                    for (i, et) in ts.iter().enumerate() {
                        if et == ty {
                            cands.push(E::Un(Un::TupIdx(i), bx(E::Var(*x))));
                        }
                    }
                }
                _ => {}
            }
        }
        if !cands.is_empty() && self.r.chance(2, 3) {
            let e = self.r.pick(&cands).clone();
            self.hit(if matches!(e, E::Un(Un::Field(..), _)) { "field-access" } else { "tuple-index" });
            return Some(e);
        }
        // access on a freshly built record / tuple
        if self.r.chance(1, 2) {
            let a = POINT;
            let fields = self.adts[a].ctors[0].fields.clone();
            let hits: Vec<usize> = (0..fields.len()).filter(|i| fields[*i].1 == *ty).collect();
            if hits.is_empty() {
                return None;
            }
            self.hit("field-access");
            let i = *self.r.pick(&hits);
            let rec = self.gen_expr(&Ty::Adt(a), scope, d);
            Some(E::Un(Un::Field(a, i), bx(rec)))
        } else {
            let n = 2 + self.r.below(2);
            let i = self.r.below(n);
            let ts: Vec<Ty> = (0..n).map(|j| if j == i { ty.clone() } else { self.gen_ty(1) }).collect();
            if !ty.first_order() {
                return None;
            }
            self.hit("tuple-index");
            let t = self.gen_expr(&Ty::Tuple(ts), scope, d);
            Some(E::Un(Un::TupIdx(i), bx(t)))
        }
    }

    // ---------------- patterns
    /// alternatives replacing a splittable catch-all of type `ty` (in first-match order);
    /// every alternative is useful after the ones before it and together they are exhaustive
    fn split_hole(&mut self, ty: &Ty, hole: u32) -> Option<Vec<P>> {
        match ty {
            Ty::Int => {
                self.hit("pattern-int");
                let n = 1 + self.r.below(2);
                let mut lits: Vec<i64> = vec![];
                while lits.len() < n {
                    let k = self.r.range(-2, 3);
                    if !lits.contains(&k) {
                        lits.push(k);
                    }
                }
                let mut out: Vec<P> = lits.into_iter().map(P::Int).collect();
                out.push(P::Var(hole));
                Some(out)
            }
            Ty::Bytes => {
                self.hit("pattern-bytes");
                let b = self.gen_bytes();
                Some(vec![P::Bytes(b), P::Var(hole)])
            }
            Ty::Bool => {
                self.hit("pattern-bool");
                let b = self.r.chance(1, 2);
                if self.r.chance(1, 2) {
                    Some(vec![P::Bool(b), P::Bool(!b)])
                } else {
                    Some(vec![P::Bool(b), P::Var(hole)])
                }
            }
            Ty::Tuple(ts) => {
                self.hit("pattern-tuple");
                Some(vec![P::Tuple(ts.iter().map(|_| P::Hole(self.fresh())).collect())])
            }
            Ty::List(_) => {
                let h = || P::Hole(0);
                let _ = h;
                match self.r.below(5) {
                    0 | 1 => {
                        self.hit("pattern-list-nil-cons");
                        let cons = P::List(vec![P::Hole(self.fresh())], Some(Box::new(P::Hole(self.fresh()))));
                        let nil = P::List(vec![], None);
                        if self.r.chance(1, 2) {
                            Some(vec![nil, cons])
                        } else {
                            Some(vec![cons, nil])
                        }
                    }
                    2 => {
                        self.hit("pattern-list-cons-rest");
                        let n = 1 + self.r.below(2);
                        let cons = P::List((0..n).map(|_| P::Hole(self.fresh())).collect(), Some(Box::new(P::Hole(self.fresh()))));
                        Some(vec![cons, P::Var(hole)])
                    }
                    3 => {
                        self.hit("pattern-list-exact");
                        let n = 1 + self.r.below(2);
                        Some(vec![P::List((0..n).map(|_| P::Hole(self.fresh())).collect(), None), P::Var(hole)])
                    }
                    _ => {
                        self.hit("pattern-list-nil-rest");
                        Some(vec![P::List(vec![], None), P::Var(hole)])
                    }
                }
            }
            Ty::Opt(_) | Ty::Adt(_) => {
                self.hit("pattern-constructor");
                let cs = ctors_of(ty, &self.adts);
                let mut order: Vec<usize> = (0..cs.len()).collect();
                for i in (1..order.len()).rev() {
                    let j = self.r.below(i + 1);
                    order.swap(i, j);
                }
                let keep = if cs.len() > 1 && self.r.chance(1, 3) { 1 + self.r.below(cs.len() - 1) } else { cs.len() };
                let mut out: Vec<P> = order[..keep]
                    .iter()
                    .map(|tag| P::Con(ty.clone(), *tag, cs[*tag].1.iter().map(|_| P::Hole(self.fresh())).collect()))
                    .collect();
                if keep < cs.len() {
                    self.hit("pattern-constructor-then-catch-all");
                    out.push(P::Var(hole));
                }
                Some(out)
            }
            _ => None,
        }
    }

    /// refine one splittable hole somewhere inside `p`
    fn refine(&mut self, p: &P, ty: &Ty) -> Option<Vec<P>> {
        match p {
            P::Hole(x) => self.split_hole(ty, *x),
            P::Con(t, tag, ps) if !ps.is_empty() => {
                let cs = ctors_of(t, &self.adts);
                let j = self.r.below(ps.len());
                let alts = self.refine(&ps[j], &cs[*tag].1[j].1)?;
                Some(
                    alts.into_iter()
                        .map(|a| {
                            let mut qs = ps.clone();
                            qs[j] = a;
                            P::Con(t.clone(), *tag, qs)
                        })
                        .collect(),
                )
            }
            P::Tuple(ps) => {
                if let Ty::Tuple(ts) = ty {
                    let j = self.r.below(ps.len());
                    let alts = self.refine(&ps[j], &ts[j])?;
                    Some(
                        alts.into_iter()
                            .map(|a| {
                                let mut qs = ps.clone();
                                qs[j] = a;
                                P::Tuple(qs)
                            })
                            .collect(),
                    )
                } else {
                    None
                }
            }
            P::List(ps, tail) if !ps.is_empty() => {
                if let Ty::List(t) = ty {
                    let j = self.r.below(ps.len());
                    let alts = self.refine(&ps[j], t)?;
                    Some(
                        alts.into_iter()
                            .map(|a| {
                                let mut qs = ps.clone();
                                qs[j] = a;
                                P::List(qs, tail.clone())
                            })
                            .collect(),
                    )
                } else {
                    None
                }
            }
            _ => None,
        }
    }

    /// holes become variables or discards; returns the bindings in scope of the clause body
    fn close_pattern(&mut self, p: &P, ty: &Ty, out: &mut Scope) -> P {
        match p {
            P::Hole(x) | P::Var(x) => {
                if self.r.chance(1, 4) {
                    P::Wild
                } else {
                    out.push((*x, ty.clone()));
                    P::Var(*x)
                }
            }
            P::Con(t, tag, ps) => {
                let cs = ctors_of(t, &self.adts);
                P::Con(
                    t.clone(),
                    *tag,
                    ps.iter().enumerate().map(|(j, q)| self.close_pattern(q, &cs[*tag].1[j].1, out)).collect(),
                )
            }
            P::Tuple(ps) => {
                if let Ty::Tuple(ts) = ty {
                    P::Tuple(ps.iter().zip(ts.iter()).map(|(q, t)| self.close_pattern(q, t, out)).collect())
                } else {
                    p.clone()
                }
            }
            P::List(ps, tail) => {
                if let Ty::List(t) = ty {
                    P::List(
                        ps.iter().map(|q| self.close_pattern(q, t, out)).collect(),
                        tail.as_ref().map(|q| Box::new(self.close_pattern(q, ty, out))),
                    )
                } else {
                    p.clone()
                }
            }
            other => other.clone(),
        }
    }

    fn gen_when(&mut self, ty: &Ty, scope: &Scope, d: usize) -> E {
        self.hit("when");
        // scrutinee: prefer a variable in scope of a matchable type
        let matchable: Vec<(u32, Ty)> = scope
            .iter()
            .filter(|(_, t)| t.first_order() && !matches!(t, Ty::Void | Ty::Str | Ty::Data))
            .cloned()
            .collect();
        let (scrut, sty) = if !matchable.is_empty() && self.r.chance(2, 3) {
            let (x, t) = self.r.pick(&matchable).clone();
            (E::Var(x), t)
        } else {
            let mut t = self.gen_ty(2);
            if t == Ty::Void {
                t = Ty::Int;
            }
            (self.gen_expr(&t, scope, d), t)
        };
        let mut clauses: Vec<P> = vec![P::Hole(self.fresh())];
        let splits = 1 + self.r.below(3);
        for _ in 0..splits {
            let i = self.r.below(clauses.len());
            if let Some(alts) = self.refine(&clauses[i].clone(), &sty) {
                clauses.splice(i..=i, alts);
            }
            if clauses.len() >= 6 {
                break;
            }
        }
        let n = clauses.len();
        self.hit(&format!("when-clauses-{}", n.min(6)));
        let cs = clauses
            .iter()
            .map(|p| {
                let mut sc = scope.clone();
                let q = self.close_pattern(p, &sty, &mut sc);
                (q, self.gen_expr(ty, &sc, d))
            })
            .collect();
        E::When(bx(scrut), cs)
    }

    fn gen_expect(&mut self, ty: &Ty, scope: &Scope, d: usize) -> Option<E> {
        let cands: Vec<(u32, Ty)> =
            scope.iter().filter(|(_, t)| matches!(t, Ty::Opt(_) | Ty::List(_)) || matches!(t, Ty::Adt(a) if self.adts[*a].ctors.len() > 1)).cloned().collect();
        let (scrut, sty) = if !cands.is_empty() && self.r.chance(2, 3) {
            let (x, t) = self.r.pick(&cands).clone();
            (E::Var(x), t)
        } else {
            let t = match self.r.below(3) {
                0 => Ty::Opt(Box::new(self.gen_ty(1))),
                1 => Ty::List(Box::new(self.gen_ty(1))),
                _ => Ty::Adt(2),
            };
            (self.gen_expr(&t, scope, d), t)
        };
        let h = self.fresh();
        let alts = self.split_hole(&sty, h)?;
        // a refutable alternative
        let refutable: Vec<&P> = alts.iter().filter(|p| !matches!(p, P::Var(_) | P::Hole(_))).collect();
        if refutable.is_empty() {
            return None;
        }
        let p = (*self.r.pick(&refutable)).clone();
        self.hit("expect");
        let mut sc = scope.clone();
        let q = self.close_pattern(&p, &sty, &mut sc);
        Some(E::Expect(q, bx(scrut), bx(self.gen_expr(ty, &sc, d))))
    }

    // ---------------- functions
    fn push_fn(&mut self, params: Vec<(u32, Ty)>, ret: Ty, body: E) -> usize {
        let entry = params.iter().all(|(_, t)| t.first_order() && *t != Ty::Str) && ret.first_order() && ret != Ty::Str;
        let i = self.fns.len();
        self.fns.push(FnDecl { name: format!("f{}", i), params, ret, body, entry });
        i
    }

    fn gen_plain_fn(&mut self) {
        self.hit("fn-plain");
        let n = self.r.below(4);
        let params: Vec<(u32, Ty)> = (0..n).map(|_| (self.fresh(), self.gen_ty(2))).collect();
        let ret = self.gen_ty(2);
        self.cur = self.fns.len();
        let depth = 2 + self.r.below(self.cfg.max_depth - 1);
        let body = self.gen_expr(&ret, &params.clone(), depth);
        self.push_fn(params, ret, body);
    }

    /// `fn f(xs, acc) { when xs is { [] -> acc  [h, ..t] -> f(t, step(h, acc)) } }`
    fn gen_fold_fn(&mut self) {
        self.hit("fn-recursive-list-fold");
        let et = self.gen_ty(1);
        let at = self.gen_ty(1);
        let (xs, acc, h, t) = (self.fresh(), self.fresh(), self.fresh(), self.fresh());
        let lt = Ty::List(Box::new(et.clone()));
        let me = self.fns.len();
        self.cur = me;
        let step = self.gen_expr(&at, &vec![(h, et.clone()), (acc, at.clone())], 2);
        let body = E::When(
            bx(E::Var(xs)),
            vec![
                (P::List(vec![], None), E::Var(acc)),
                (P::List(vec![P::Var(h)], Some(Box::new(P::Var(t)))), E::Call(me, vec![E::Var(t), step])),
            ],
        );
        self.push_fn(vec![(xs, lt), (acc, at.clone())], at, body);
    }

    /// `fn f(xs) { when xs is { [] -> []  [h, ..t] -> [g(h), ..f(t)] } }` (not tail recursive)
    fn gen_map_fn(&mut self) {
        self.hit("fn-recursive-list-map");
        let et = self.gen_ty(1);
        let rt = self.gen_ty(1);
        let (xs, h, t) = (self.fresh(), self.fresh(), self.fresh());
        let me = self.fns.len();
        self.cur = me;
        let step = self.gen_expr(&rt, &vec![(h, et.clone())], 2);
        let body = E::When(
            bx(E::Var(xs)),
            vec![
                (P::List(vec![P::Var(h)], Some(Box::new(P::Var(t)))), E::Bin(Bin::Cons, bx(step), bx(E::Call(me, vec![E::Var(t)])))),
                (P::List(vec![], None), E::List(vec![])),
            ],
        );
        self.push_fn(vec![(xs, Ty::List(Box::new(et)))], Ty::List(Box::new(rt)), body);
    }

    /// structural recursion over the recursive ADT
    fn gen_tree_fn(&mut self) {
        self.hit("fn-recursive-tree");
        let rt = self.gen_ty(1);
        let (t, l, v, r, rl, rr) = (self.fresh(), self.fresh(), self.fresh(), self.fresh(), self.fresh(), self.fresh());
        let me = self.fns.len();
        self.cur = me;
        let leaf = self.gen_expr(&rt, &vec![], 1);
        let node = self.gen_expr(&rt, &vec![(rl, rt.clone()), (v, Ty::Int), (rr, rt.clone())], 2);
        let body = E::When(
            bx(E::Var(t)),
            vec![
                (P::Con(Ty::Adt(TREE), 0, vec![]), leaf),
                (
                    P::Con(Ty::Adt(TREE), 1, vec![P::Var(l), P::Var(v), P::Var(r)]),
                    E::Let(rl, bx(E::Call(me, vec![E::Var(l)])), bx(E::Let(rr, bx(E::Call(me, vec![E::Var(r)])), bx(node)))),
                ),
            ],
        );
        self.push_fn(vec![(t, Ty::Adt(TREE))], rt, body);
    }

    /// bounded countdown `if n <= 0 || n > 12 { acc } else { f(n - 1, step) }`
    fn gen_count_fn(&mut self) {
        self.hit("fn-recursive-countdown");
        let at = self.gen_ty(1);
        let (n, acc) = (self.fresh(), self.fresh());
        let me = self.fns.len();
        self.cur = me;
        let step = self.gen_expr(&at, &vec![(n, Ty::Int), (acc, at.clone())], 2);
        let int = |k: i64| E::Int(BigInt::from(k));
        let body = E::If(
            bx(E::Or(bx(E::Bin(Bin::Le, bx(E::Var(n)), bx(int(0)))), bx(E::Bin(Bin::Gt, bx(E::Var(n)), bx(int(12)))))),
            bx(E::Var(acc)),
            bx(E::Call(me, vec![E::Bin(Bin::Sub, bx(E::Var(n)), bx(int(1))), step])),
        );
        self.push_fn(vec![(n, Ty::Int), (acc, at.clone())], at, body);
    }

    /// higher-order: takes a function parameter and applies it
    fn gen_ho_fn(&mut self) {
        self.hit("fn-higher-order");
        let a = self.gen_ty(1);
        let b = self.gen_ty(1);
        let (g, x) = (self.fresh(), self.fresh());
        let fty = Ty::Fn(vec![a.clone()], Box::new(b.clone()));
        self.cur = self.fns.len();
        let body = self.gen_expr(&b, &vec![(g, fty.clone()), (x, a.clone())], 2);
        // make sure the parameter is applied at least once
        let body = E::Let(self.fresh(), bx(E::App(bx(E::Var(g)), vec![E::Var(x)])), bx(body));
        self.push_fn(vec![(g, fty), (x, a)], b, body);
    }

    /// entry point wrapping a call to a higher-order function / closure-returning code
    fn gen_entry_fn(&mut self) {
        self.hit("fn-entry");
        let n = 1 + self.r.below(3);
        let params: Vec<(u32, Ty)> = (0..n).map(|_| (self.fresh(), self.gen_ty(2))).collect();
        let ret = self.gen_ty(2);
        self.cur = self.fns.len();
        let depth = self.cfg.max_depth;
        let body = self.gen_expr(&ret, &params.clone(), depth);
        self.push_fn(params, ret, body);
    }

    pub fn module(mut self) -> (Module, BTreeMap<String, u64>) {
        self.fns = prelude_fns();
        self.next_var = 100;
        for _ in 0..self.cfg.n_fns {
            match self.r.below(10) {
                0 => self.gen_fold_fn(),
                1 => self.gen_map_fn(),
                2 => self.gen_tree_fn(),
                3 => self.gen_count_fn(),
                4 => self.gen_ho_fn(),
                _ => self.gen_plain_fn(),
            }
        }
        self.gen_entry_fn();
        self.gen_entry_fn();
        (Module { adts: self.adts, fns: self.fns }, self.counts)
    }
}

// ---------------- generic prelude functions (fixed bodies, instantiated at call sites)
pub const N_PRELUDE: usize = 5;

fn prelude_fns() -> Vec<FnDecl> {
    let a = Ty::Var(0);
    let b = Ty::Var(1);
    let la = Ty::List(Box::new(a.clone()));
    let lb = Ty::List(Box::new(b.clone()));
    let v = |x: u32| E::Var(x);
    vec![
        // fn g_id(x: a) -> a
        FnDecl { name: "g_id".into(), params: vec![(1, a.clone())], ret: a.clone(), body: v(1), entry: false },
        // fn g_pick(c: Bool, x: a, y: a) -> a
        FnDecl {
            name: "g_pick".into(),
            params: vec![(1, Ty::Bool), (2, a.clone()), (3, a.clone())],
            ret: a.clone(),
            body: E::If(bx(v(1)), bx(v(2)), bx(v(3))),
            entry: false,
        },
        // fn g_map(xs: List<a>, f: fn(a) -> b) -> List<b>
        FnDecl {
            name: "g_map".into(),
            params: vec![(1, la.clone()), (2, Ty::Fn(vec![a.clone()], Box::new(b.clone())))],
            ret: lb.clone(),
            body: E::When(
                bx(v(1)),
                vec![
                    (P::List(vec![], None), E::List(vec![])),
                    (
                        P::List(vec![P::Var(3)], Some(Box::new(P::Var(4)))),
                        E::Bin(Bin::Cons, bx(E::App(bx(v(2)), vec![v(3)])), bx(E::Call(2, vec![v(4), v(2)]))),
                    ),
                ],
            ),
            entry: false,
        },
        // fn g_fold(xs: List<a>, acc: b, f: fn(a, b) -> b) -> b
        FnDecl {
            name: "g_fold".into(),
            params: vec![(1, la.clone()), (2, b.clone()), (3, Ty::Fn(vec![a.clone(), b.clone()], Box::new(b.clone())))],
            ret: b.clone(),
            body: E::When(
                bx(v(1)),
                vec![
                    (P::List(vec![], None), v(2)),
                    (
                        P::List(vec![P::Var(4)], Some(Box::new(P::Var(5)))),
                        E::App(bx(v(3)), vec![v(4), E::Call(3, vec![v(5), v(2), v(3)])]),
                    ),
                ],
            ),
            entry: false,
        },
        // fn g_or_else(o: Option<a>, d: a) -> a
        FnDecl {
            name: "g_or_else".into(),
            params: vec![(1, Ty::Opt(Box::new(a.clone()))), (2, a.clone())],
            ret: a.clone(),
            body: E::When(
                bx(v(1)),
                vec![
                    (P::Con(Ty::Opt(Box::new(a.clone())), 1, vec![]), v(2)),
                    (P::Con(Ty::Opt(Box::new(a.clone())), 0, vec![P::Var(3)]), v(3)),
                ],
            ),
            entry: false,
        },
    ]
}

/// parameter types of prelude function `i` when its result type is `want` (None: impossible)
fn instantiate(i: usize, want: &Ty, g: &mut Gen) -> Option<Vec<Ty>> {
    if !want.first_order() {
        return None;
    }
    let f = g.fns[i].clone();
    let inst: Vec<Ty> = match i {
        0 | 1 | 4 => vec![want.clone(), Ty::Int],
        2 => match want {
            Ty::List(b) => vec![g.gen_ty(1), (**b).clone()],
            _ => return None,
        },
        3 => vec![g.gen_ty(1), want.clone()],
        _ => return None,
    };
    Some(f.params.iter().map(|(_, t)| t.subst(&inst)).collect())
}

pub fn gen_module(r: &mut Prng, cfg: GenCfg) -> (Module, BTreeMap<String, u64>) {
    Gen::new(r, cfg).module()
}

/// argument tuples for an entry function (boundary-biased, first all-small)
pub fn gen_args(r: &mut Prng, m: &Module, f: usize, n: usize) -> Vec<Vec<V>> {
    let mut g = Gen { r, cfg: GenCfg::default(), adts: m.adts.clone(), fns: vec![], next_var: 0, counts: BTreeMap::new(), cur: 0 };
    let params = &m.fns[f].params;
    let mut out: Vec<Vec<V>> = vec![];
    let n = if params.is_empty() { 1 } else { n };
    for _ in 0..n {
        let args: Vec<V> = params.iter().map(|(_, t)| g.gen_value(t, 3)).collect();
        if !out.contains(&args) {
            out.push(args);
        }
    }
    out
}
