#![allow(dead_code)]
//! verif-harness: runs the real aiken/uplc code next to the Lean models.
//!   verif-harness <sub-command> [--seed N] [--tier quick|thorough] [--out file] [--replay file]
mod c15;
mod c20_text;
mod driver;
mod prng;
mod report;
mod wire;

pub struct Ctx {
    pub seed: u64,
    pub thorough: bool,
    pub replay: Option<String>,
}

/// extra CLI argument `--name <usize>` of a sub-command
pub fn arg_usize(name: &str, default: usize) -> usize {
    let args: Vec<String> = std::env::args().collect();
    args.iter().position(|a| a == name).and_then(|i| args.get(i + 1)).and_then(|v| v.parse().ok()).unwrap_or(default)
}

fn main() {
    let args: Vec<String> = std::env::args().collect();
    if args.len() < 2 {
        eprintln!("usage: verif-harness <sub-command> [--seed N] [--tier T] [--out F] [--replay F]");
        std::process::exit(2);
    }
    let sub = args[1].clone();
    if sub == "c20-uplc-text-probe" {
        c20_text::probe();
    }
    let mut ctx = Ctx { seed: 1, thorough: false, replay: None };
    let mut out: Option<String> = None;
    let mut i = 2;
    while i < args.len() {
        match args[i].as_str() {
            "--seed" => {
                ctx.seed = args[i + 1].parse().expect("seed");
                i += 1;
            }
            "--tier" => {
                ctx.thorough = args[i + 1] == "thorough";
                i += 1;
            }
            "--out" => {
                out = Some(args[i + 1].clone());
                i += 1;
            }
            "--replay" => {
                ctx.replay = Some(args[i + 1].clone());
                i += 1;
            }
            other if other.starts_with("--") => {
                // extra per-sub-command argument `--name value` (read with `arg_usize`)
                i += 1;
            }
            other => panic!("unknown argument {other}"),
        }
        i += 1;
    }
    // panics of the code under test are outcomes; keep stderr quiet
    std::panic::set_hook(Box::new(|_| {}));
    let rep = match sub.as_str() {
        "c15-names" => c15::names(&ctx),
        "c15-text" => c15::text(&ctx),
        "c20-uplc-text" => c20_text::run(&ctx),
        other => {
            eprintln!("unknown sub-command {other}");
            std::process::exit(2);
        }
    };
    let text = serde_json::to_string_pretty(&rep.to_json()).unwrap();
    match out {
        Some(p) => std::fs::write(p, text).unwrap(),
        None => println!("{text}"),
    }
}
