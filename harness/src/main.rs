#![allow(dead_code)]
//! verif-harness: runs the real aiken/uplc code next to the Lean models.
//!   verif-harness <sub-command> [--seed N] [--tier quick|thorough] [--out file] [--replay file]
mod aik;
mod c01;
mod c02;
mod c03;
mod c04;
mod c05;
mod c06;
mod c06_matrix;
mod c07;
mod c08;
mod c09;
mod c10;
mod c10_compile;
mod c11;
mod c12;
mod c13;
mod c13gen;
mod c14;
mod c15;
mod c16;
mod c17;
mod c18;
mod c19;
mod c20;
mod c20_json;
mod c20_text;
mod cek;
mod comp;
mod driver;
mod flatgen;
mod gen;
mod mini;
mod prng;
mod projgen;
mod report;
mod sx;
mod tygen;
mod wire;

/// extra per-sub-command argument `--name value`
pub fn arg_usize(name: &str, default: usize) -> usize {
    crate::c03::arg_usize(name, default)
}

pub struct Ctx {
    pub seed: u64,
    pub thorough: bool,
    pub replay: Option<String>,
}

fn main() {
    let args: Vec<String> = std::env::args().collect();
    if args.len() < 2 {
        eprintln!("usage: verif-harness <sub-command> [--seed N] [--tier T] [--out F] [--replay F]");
        std::process::exit(2);
    }
    let sub = args[1].clone();
    // child-process entries (run in a fresh process so that a stack overflow is an observation)
    if sub == "c20-uplc-text-probe" {
        c20_text::probe();
    }
    if sub == "c09-child" {
        c09::child(&args);
    }
    if sub == "c16-child" {
        c16::child(&args);
    }
    if sub == "c17-child" {
        c17::child(&args);
    }
    if sub == "c20-flat-deep" {
        c20::deep_child(args[2].parse().expect("depth"), &args[3]);
    }
    let mut ctx = Ctx { seed: 1, thorough: false, replay: None };
    let mut out: Option<String> = None;
    let mut extra: Vec<String> = vec![];
    let mut i = 2;
    while i < args.len() {
        match args[i].as_str() {
            "--seed" => {
                ctx.seed = args[i + 1].parse().expect("seed");
                i += 1;
            }
            "--tier" => {
                ctx.thorough = args[i + 1] == "thorough";
                i += 1;
            }
            "--out" => {
                out = Some(args[i + 1].clone());
                i += 1;
            }
            "--replay" => {
                ctx.replay = Some(args[i + 1].clone());
                i += 1;
            }
            other => extra.push(other.to_string()), // sub-command specific arguments
        }
        i += 1;
    }
    // panics of the code under test are outcomes; keep stderr quiet
    std::panic::set_hook(Box::new(|_| {}));
    let rep = match sub.as_str() {
        "c15-names" => c15::names(&ctx),
        "c03-cek" => c03::run(&ctx),
        "c05-budget" => c05::run(&ctx),
        "c05-cost" => c05::cost(&ctx),
        "c16-shrink" => c16::shrink(&ctx),
        "c16-e2e" => c16::e2e(&ctx),
        "c08-flat" => c08::run(&ctx),
        "c20-flat" => c20::run(&ctx),
        "c11-debruijn" => c11::run(&ctx),
        "c12-probe" => c12::probe(&ctx),
        "c12-corr" => c12::corr(&ctx),
        "c18-apply" => c18::apply(&ctx),
        "c19-tx" => c19::run(&ctx),
        "c13-show" => c13::show(&ctx, &extra),
        "c13-prec" => c13::prec(&ctx, &extra),
        "c13-roundtrip" => c13::roundtrip(&ctx, &extra),
        "c20-aiken-text" => c13::c20_aiken_text(&ctx, &extra),
        "c20-one" => c13::c20_one(&extra),
        "c15-text" => c15::text(&ctx),
        "c20-uplc-text" => c20_text::run(&ctx),
        "c20-json" => c20_json::run(&ctx),
        "c10-eval" => c10::eval(&ctx),
        "c10-gate" => c10::gate(&ctx),
        "c10-compile" => c10_compile::run(&ctx),
        "c04-builtin" => c04::run(&ctx),
        "c07-check" => c07::check(&ctx),
        "c07-run" => c07::rt::run(&ctx),
        "c09-det" => c09::run(&ctx),
        "c09-sites" => c09::sites(&ctx),
        "c17-iso" => c17::run(&ctx),
        "c01-source" => c01::run(&ctx),
        "c02-optimiser" => c02::run(&ctx),
        "c06-classify" => c06::run(&ctx),
        "c14-tracing" => c14::run(&ctx),
        "c02-show" => c02::show(&ctx),
        "c02-one" => c02::one(&ctx),
        other => {
            eprintln!("unknown sub-command {other}");
            std::process::exit(2);
        }
    };
    let text = serde_json::to_string_pretty(&rep.to_json()).unwrap();
    match out {
        Some(p) => std::fs::write(p, text).unwrap(),
        None => println!("{text}"),
    }
}
