#![allow(dead_code)]
//! verif-harness: runs the real aiken/uplc code next to the Lean models.
//!   verif-harness <sub-command> [--seed N] [--tier quick|thorough] [--out file] [--replay file]
mod aik;
mod c01;
mod c02;
mod c03;
mod c05;
mod c06;
mod c08;
mod c11;
mod c12;
mod c14;
mod c15;
mod c16;
mod c18;
mod c20;
mod cek;
mod comp;
mod driver;
mod flatgen;
mod gen;
mod mini;
mod prng;
mod report;
mod sx;
mod tygen;
mod wire;

pub struct Ctx {
    pub seed: u64,
    pub thorough: bool,
    pub replay: Option<String>,
}

fn main() {
    let args: Vec<String> = std::env::args().collect();
    if args.len() < 2 {
        eprintln!("usage: verif-harness <sub-command> [--seed N] [--tier T] [--out F] [--replay F]");
        std::process::exit(2);
    }
    let sub = args[1].clone();
    // child-process entries (run in a fresh process so that a stack overflow is an observation)
    if sub == "c20-flat-deep" {
        c20::deep_child(args[2].parse().expect("depth"), &args[3]);
    }
    let mut ctx = Ctx { seed: 1, thorough: false, replay: None };
    let mut out: Option<String> = None;
    let mut i = 2;
    while i < args.len() {
        match args[i].as_str() {
            "--seed" => {
                ctx.seed = args[i + 1].parse().expect("seed");
                i += 1;
            }
            "--tier" => {
                ctx.thorough = args[i + 1] == "thorough";
                i += 1;
            }
            "--out" => {
                out = Some(args[i + 1].clone());
                i += 1;
            }
            "--replay" => {
                ctx.replay = Some(args[i + 1].clone());
                i += 1;
            }
            _ => {} // sub-command specific arguments are read by the sub-command
        }
        i += 1;
    }
    // panics of the code under test are outcomes; keep stderr quiet
    if std::env::var("VERIF_SHOW_PANICS").is_err() {
        std::panic::set_hook(Box::new(|_| {}));
    }
    let rep = match sub.as_str() {
        "c15-names" => c15::names(&ctx),
        "c03-cek" => c03::run(&ctx),
        "c05-budget" => c05::run(&ctx),
        "c16-shrink" => c16::shrink(&ctx),
        "c16-e2e" => c16::e2e(&ctx),
        "c08-flat" => c08::run(&ctx),
        "c20-flat" => c20::run(&ctx),
        "c11-debruijn" => c11::run(&ctx),
        "c12-probe" => c12::probe(&ctx),
        "c12-corr" => c12::corr(&ctx),
        "c18-apply" => c18::apply(&ctx),
        "c01-source" => c01::run(&ctx),
        "c02-optimiser" => c02::run(&ctx),
        "c06-classify" => c06::run(&ctx),
        "c14-tracing" => c14::run(&ctx),
        "c02-show" => c02::show(&ctx),
        "c02-one" => c02::one(&ctx),
        other => {
            eprintln!("unknown sub-command {other}");
            std::process::exit(2);
        }
    };
    let text = serde_json::to_string_pretty(&rep.to_json()).unwrap();
    match out {
        Some(p) => std::fs::write(p, text).unwrap(),
        None => println!("{text}"),
    }
}
