#![allow(dead_code)]
//! verif-harness: runs the real aiken/uplc code next to the Lean models.
//!   verif-harness <sub-command> [--seed N] [--tier quick|thorough] [--out file] [--replay file]
mod c07;
mod c15;
mod driver;
mod prng;
mod report;
mod wire;

pub struct Ctx {
    pub seed: u64,
    pub thorough: bool,
    pub replay: Option<String>,
}

fn main() {
    let args: Vec<String> = std::env::args().collect();
    if args.len() < 2 {
        eprintln!("usage: verif-harness <sub-command> [--seed N] [--tier T] [--out F] [--replay F]");
        std::process::exit(2);
    }
    let sub = args[1].clone();
    let mut ctx = Ctx { seed: 1, thorough: false, replay: None };
    let mut out: Option<String> = None;
    let mut i = 2;
    while i < args.len() {
        match args[i].as_str() {
            "--seed" => {
                ctx.seed = args[i + 1].parse().expect("seed");
                i += 1;
            }
            "--tier" => {
                ctx.thorough = args[i + 1] == "thorough";
                i += 1;
            }
            "--out" => {
                out = Some(args[i + 1].clone());
                i += 1;
            }
            "--replay" => {
                ctx.replay = Some(args[i + 1].clone());
                i += 1;
            }
            // anything else belongs to the sub-command (it parses std::env::args itself)
            _ => {}
        }
        i += 1;
    }
    // panics of the code under test are outcomes; keep stderr quiet
    std::panic::set_hook(Box::new(|_| {}));
    let rep = match sub.as_str() {
        "c07-check" => c07::check(&ctx),
        "c07-run" => c07::rt::run(&ctx),
        "c15-names" => c15::names(&ctx),
        other => {
            eprintln!("unknown sub-command {other}");
            std::process::exit(2);
        }
    };
    let text = serde_json::to_string_pretty(&rep.to_json()).unwrap();
    match out {
        Some(p) => std::fs::write(p, text).unwrap(),
        None => println!("{text}"),
    }
}
